//go:build verif

package block_test

// C08 — block encoding round-trips, the decoder never crashes, and the body is
// bound to the header.
//
// A real chain (4 validators, BTP network opened, blocks with 0/1/3
// transactions, with and without BTP digest / NSFilter, with and without commit
// votes and NTS proofs) is built with the real block manager. Every block's own
// encoding E is pushed through BlockDataFactory.NewBlockDataFromReader
// unmutated and under every member of the byte-level mutation families
// (truncation, single-byte substitution, deletion, duplication, insertion,
// adjacent swap, trailing bytes, same-offset splice with every other block) and
// the structured header/body cross-over family (header of block i with any
// non-empty subset of {patch txs, normal txs, votes, BTP digest} taken from
// block j), plus all byte strings of length <= 2 and the upstream fuzz seeds.
//
// Oracle (the statement): never panics; an unmutated encoding decodes to the
// same id / contents and re-marshals to the same bytes; whatever decodes
// successfully (a) re-marshals and decodes again to the same id, (b) has
// transaction lists / votes / BTP digest / NSFilter whose hashes equal the
// fields of the header that was actually in the input, and (c) if its id is
// the id of a block of the chain, carries exactly that block's body.

import (
	"bufio"
	"bytes"
	"encoding/json"
	"fmt"
	"io"
	"os"
	"os/exec"
	"regexp"
	"runtime"
	"sort"
	"strings"
	"sync"
	"sync/atomic"
	"testing"
	"time"

	"github.com/icon-project/goloop/block"
	"github.com/icon-project/goloop/common"
	"github.com/icon-project/goloop/common/codec"
	"github.com/icon-project/goloop/module"
	"github.com/icon-project/goloop/service"
	"github.com/icon-project/goloop/service/platform/basic"
	"github.com/icon-project/goloop/test"
	"github.com/icon-project/goloop/verifshim/blkfx"
	"github.com/icon-project/goloop/verifshim/ev"
)

type c08Case struct {
	Fam    string `json:"fam"`             // id, trunc, subst, del, dup, ins, swap, append, splice, cross, inner, short, seed
	Blk    int    `json:"blk"`             // index of the block whose encoding is mutated
	Pos    int    `json:"pos,omitempty"`   // byte position
	Val    int    `json:"val,omitempty"`   // byte value (subst, ins, append) / short string value
	Donor  int    `json:"donor,omitempty"` // splice/cross: other block
	Parts  int    `json:"parts,omitempty"` // cross: bit 0 patch txs, 1 normal txs, 2 votes, 3 BTP digest; inner: 4 votes, 8 digest, 16+i tx i
	Len    int    `json:"len,omitempty"`   // short: length
	Reader string `json:"reader"`          // seek (bytes.Reader) | stream (non-seekable, one byte at a time); env: see c08EnvKinds
	Seq    []int  `json:"seq,omitempty"`   // env: blocks encoded back to back and decoded consecutively from ONE reader
	Pre    []int  `json:"pre,omitempty"`   // env: blocks whose encodings precede the stream (the reader is positioned after them)
	Garb   int    `json:"garb,omitempty"`  // env: 1 = the prefix is garbage of the same length; with empty Pre: one garbage byte
	How    string `json:"how,omitempty"`   // env: how the reader got to the start of the stream: read | seek
	Tgt    string `json:"tgt,omitempty"`   // env: bdf (BlockDataFactory) | bm (Manager.NewBlockDataFromReader) | peek (block.PeekVersion)
}

func (c c08Case) key() string {
	b, _ := json.Marshal(c)
	return string(b)
}

type c08Block struct {
	blk     module.Block
	enc     []byte
	hdr     block.V2HeaderFormat
	body    block.V2BodyFormat
	id      []byte
	ntxIDs  [][]byte
	ptxIDs  [][]byte
	votes   []byte
	digest  []byte
	nsf     []byte
	hdrLen  int
	comment string
}

type c08World struct {
	fx     *blkfx.Fx
	nd     *test.Node
	bdf    module.BlockDataFactory
	blocks []*c08Block
	byID   map[string]*c08Block
}

func c08TxIDs(l module.TransactionList) [][]byte {
	var out [][]byte
	for it := l.Iterator(); it.Has(); {
		tx, _, err := it.Get()
		if err != nil {
			panic(err)
		}
		out = append(out, tx.ID())
		if err := it.Next(); err != nil {
			panic(err)
		}
	}
	return out
}

func (w *c08World) addBlock(blk module.Block, comment string) error {
	b := &c08Block{blk: blk, enc: blkfx.Marshal(blk), id: blk.ID(), comment: comment}
	r := bytes.NewReader(b.enc)
	if err := codec.BC.Unmarshal(r, &b.hdr); err != nil {
		return err
	}
	b.hdrLen = len(b.enc) - r.Len()
	if err := codec.BC.Unmarshal(r, &b.body); err != nil {
		return err
	}
	if r.Len() != 0 {
		return fmt.Errorf("trailing bytes in a block's own encoding")
	}
	b.ntxIDs = c08TxIDs(blk.NormalTransactions())
	b.ptxIDs = c08TxIDs(blk.PatchTransactions())
	b.votes = blk.Votes().Bytes()
	bd, err := blk.BTPDigest()
	if err != nil {
		return err
	}
	b.digest = bd.Bytes()
	b.nsf = blk.NetworkSectionFilter().Bytes()
	w.blocks = append(w.blocks, b)
	w.byID[string(b.id)] = b
	return nil
}

// c08NewWorld builds the chain. nBlocks is the number of blocks above genesis.
func c08NewWorld(nBlocks int) (w_ *c08World, err_ error) {
	const dsa = "ecdsa/secp256k1"
	w := &c08World{byID: map[string]*c08Block{}}
	w.fx = blkfx.New(4, 1)
	w.nd = w.fx.Nodes[0]
	c08Bases.Store(w.nd.Base, true)
	defer func() {
		if err_ != nil {
			w.close() // do not leave the node's temporary directory behind
		}
	}()
	bdf, err := block.NewBlockDataFactory(w.nd.Chain, nil)
	if err != nil {
		return nil, err
	}
	w.bdf = bdf
	last, err := w.nd.BM.GetLastBlock()
	if err != nil {
		return nil, err
	}
	if err := w.addBlock(last, "genesis"); err != nil {
		return nil, err
	}
	varTx := func(i int) string {
		v := fmt.Sprintf("verif-c08-%d", i)
		return test.NewTx().SetVarTest(&v).String()
	}
	for h := 1; h <= nBlocks; h++ {
		var txs []string
		comment := ""
		switch h {
		case 1:
			tx := test.NewTx().Call("setRevision", map[string]string{"code": fmt.Sprintf("0x%x", basic.MaxRevision)})
			for i := 0; i < 4; i++ {
				wl := w.fx.Wallets[i]
				tx.CallFrom(common.ToAddress(wl.Address()), "setBTPPublicKey", map[string]string{
					"name": dsa, "pubKey": fmt.Sprintf("0x%x", wl.PublicKey()),
				})
			}
			tx.Call("openBTPNetwork", map[string]string{"networkTypeName": "eth", "name": "eth-test", "owner": w.fx.Wallets[0].Address().String()})
			txs = []string{tx.String()}
			comment = "1 tx (open BTP network), no votes, no digest"
		case 2:
			comment = "0 tx, 4 votes, BTP digest + NSFilter"
		case 3:
			txs = []string{
				test.NewTx().CallFrom(common.ToAddress(w.fx.Wallets[0].Address()), "sendBTPMessage", map[string]string{"networkId": "0x1", "message": fmt.Sprintf("0x%x", "verif c08 message")}).String(),
				varTx(31), varTx(32),
			}
			comment = "3 tx (one sends a BTP message), votes with NTS proof"
		case 4:
			comment = "0 tx, digest with a message"
		case 5:
			txs = []string{varTx(51)}
			comment = "1 tx"
		default:
			if h%2 == 1 {
				txs = []string{varTx(h * 10), varTx(h*10 + 1)}
				comment = "2 tx"
			} else {
				comment = "0 tx"
			}
		}
		for _, tx := range txs {
			if _, err := w.nd.SM.SendTransaction(nil, 0, tx); err != nil {
				return nil, fmt.Errorf("send tx h=%d: %v", h, err)
			}
		}
		var specs []blkfx.VoteSpec
		ntsVotes := 0
		var pcm module.BTPProofContextMap
		if last.Height() > 0 {
			pcm, err = blkfx.PCMFor(w.nd.BM, last)
			if err != nil {
				return nil, err
			}
			bd, err := last.BTPDigest()
			if err != nil {
				return nil, err
			}
			ntsVotes, err = bd.NTSVoteCount(pcm)
			if err != nil {
				return nil, err
			}
			for i := 0; i < 4; i++ {
				if h%2 == 0 && i == 3 {
					continue // three votes at even heights, four at odd ones
				}
				specs = append(specs, blkfx.VoteSpec{Signer: i, TS: last.Timestamp() + 1 + int64(i)})
			}
		}
		votes, err := w.fx.Votes(last, 0, ntsVotes, pcm, specs)
		if err != nil {
			return nil, fmt.Errorf("votes h=%d: %v", h, err)
		}
		bc, err := blkfx.Propose(w.nd.BM, last.ID(), votes)
		if err != nil {
			return nil, fmt.Errorf("propose h=%d: %v", h, err)
		}
		if err := w.nd.BM.Finalize(bc); err != nil {
			return nil, fmt.Errorf("finalize h=%d: %v", h, err)
		}
		bc.Dispose()
		last, err = w.nd.BM.GetLastBlock()
		if err != nil {
			return nil, err
		}
		if err := blkfx.WaitTxLocators(w.nd.Chain.Database(), c08TxIDs(last.NormalTransactions())); err != nil {
			return nil, err
		}
		if len(c08TxIDs(last.NormalTransactions())) != len(txs) {
			return nil, fmt.Errorf("h=%d: block has %d txs, want %d", h, len(c08TxIDs(last.NormalTransactions())), len(txs))
		}
		if err := w.addBlock(last, comment); err != nil {
			return nil, err
		}
	}
	return w, nil
}

func (w *c08World) close() {
	base := w.nd.Base
	w.fx.Close()
	c08Bases.Delete(base)
}

// upstream fuzz seeds (block/blockdatafactory_test.go)
var c08Seeds = [][]byte{
	[]byte("\xf5\x02000000\x80\x8000000000000000000000000000000000000000000000\xde\xc0\xc00000000000000000000000000000"),
	[]byte("\xd0\x02000000\x80\x800000000\xe9\xc0\xc0000000000000000000000000000000000000000"),
}

// input builds the byte string of a case.
func (w *c08World) input(c c08Case) []byte {
	var e []byte
	if c.Fam == "env" {
		data, _, _ := w.envData(c)
		return data
	}
	if c.Fam != "short" && c.Fam != "seed" && c.Fam != "inner" {
		e = w.blocks[c.Blk].enc
	}
	switch c.Fam {
	case "id":
		return append([]byte(nil), e...)
	case "trunc":
		return append([]byte(nil), e[:c.Pos]...)
	case "subst":
		o := append([]byte(nil), e...)
		o[c.Pos] = byte(c.Val)
		return o
	case "del":
		return append(append([]byte(nil), e[:c.Pos]...), e[c.Pos+1:]...)
	case "dup":
		return append(append(append([]byte(nil), e[:c.Pos+1]...), e[c.Pos]), e[c.Pos+1:]...)
	case "ins":
		return append(append(append([]byte(nil), e[:c.Pos]...), byte(c.Val)), e[c.Pos:]...)
	case "swap":
		o := append([]byte(nil), e...)
		o[c.Pos], o[c.Pos+1] = o[c.Pos+1], o[c.Pos]
		return o
	case "append":
		return append(append([]byte(nil), e...), byte(c.Val))
	case "splice":
		d := w.blocks[c.Donor].enc
		o := append([]byte(nil), e[:c.Pos]...)
		if c.Pos < len(d) {
			o = append(o, d[c.Pos:]...)
		}
		return o
	case "cross":
		b, d := w.blocks[c.Blk], w.blocks[c.Donor]
		hf, bf := b.hdr, b.body
		if c.Parts&1 != 0 {
			bf.PatchTransactions = d.body.NormalTransactions // the donor's transactions in the patch slot
		}
		if c.Parts&2 != 0 {
			bf.NormalTransactions = d.body.NormalTransactions
		}
		if c.Parts&4 != 0 {
			bf.Votes = d.body.Votes
		}
		if c.Parts&8 != 0 {
			bf.BTPDigest = d.body.BTPDigest
		}
		return blkfx.Encode(&hf, &bf)
	case "inner":
		// a body part re-framed after cutting it to c.Pos bytes (outer lengths stay consistent)
		b := w.blocks[c.Blk]
		hf, bf := b.hdr, b.body
		switch {
		case c.Parts == 4:
			bf.Votes = append([]byte(nil), bf.Votes[:c.Pos]...)
		case c.Parts == 8:
			bf.BTPDigest = append([]byte{}, bf.BTPDigest[:c.Pos]...)
		default: // 16+i: normal transaction i
			i := c.Parts - 16
			txs := append([][]byte(nil), bf.NormalTransactions...)
			txs[i] = append([]byte{}, txs[i][:c.Pos]...)
			bf.NormalTransactions = txs
		}
		return blkfx.Encode(&hf, &bf)
	case "short":
		switch c.Len {
		case 0:
			return []byte{}
		case 1:
			return []byte{byte(c.Val)}
		default:
			return []byte{byte(c.Val >> 8), byte(c.Val)}
		}
	case "seed":
		return append([]byte(nil), c08Seeds[c.Val]...)
	}
	panic("unknown family " + c.Fam)
}

// oneByteReader is a non-seekable reader that returns one byte per Read.
type oneByteReader struct {
	b []byte
}

func (r *oneByteReader) Read(p []byte) (int, error) {
	if len(r.b) == 0 {
		return 0, io.EOF
	}
	if len(p) == 0 {
		return 0, nil
	}
	p[0] = r.b[0]
	r.b = r.b[1:]
	return 1, nil
}

func c08Reader(kind string, in []byte) io.Reader {
	if kind == "stream" {
		return &oneByteReader{b: in}
	}
	return bytes.NewReader(in)
}

type c08Verdict struct {
	decoded bool
	sameAs  int // index of the chain block with the same id, -1 if none
	errText string
}

type c08Fail struct {
	sig, detail string
}

var c08MustRe = regexp.MustCompile(`(MustMarshalToBytes|MustUnmarshalFromBytes)\(\) fails for object=(\S+) err=(.*?)( <nil>|$)`)

// c08PanicClass gives a narrow class for a panic text (call site / cause, no addresses).
func c08PanicClass(p string) string {
	if m := c08MustRe.FindStringSubmatch(p); m != nil {
		return m[1] + ":" + m[2] + ":" + c08ErrClass(m[3])
	}
	return c08ErrClass(p)
}

func c08Hex(b []byte) string {
	if len(b) > 24 {
		return fmt.Sprintf("%x..(%d bytes)", b[:24], len(b))
	}
	return fmt.Sprintf("%x", b)
}

// evaluate decodes the input and applies the oracle.
func (w *c08World) evaluate(c c08Case, in []byte) (v c08Verdict, fails []c08Fail) {
	v.sameAs = -1
	fail := func(sig, f string, a ...interface{}) {
		fails = append(fails, c08Fail{sig, fmt.Sprintf(f, a...)})
	}
	var bd module.BlockData
	var err error
	if p := ev.Catch(func() { bd, err = w.bdf.NewBlockDataFromReader(c08Reader(c.Reader, in)) }); p != "" {
		fail("panic-in-decode:"+c08PanicClass(p), "NewBlockDataFromReader panicked: %s", p)
		return
	}
	if c.Fam == "id" && err != nil {
		fail("own-encoding-rejected", "a block's own encoding does not decode: %v", err)
		return
	}
	if err != nil {
		v.errText = err.Error()
		return
	}
	if bd == nil {
		fail("nil-block-without-error", "decoder returned (nil, nil)")
		return
	}
	v.decoded = true

	// the header and body that were actually in the input (parsed independently of the handler)
	var hin block.V2HeaderFormat
	var bin block.V2BodyFormat
	rd := bytes.NewReader(in)
	if e := codec.BC.Unmarshal(rd, &hin); e != nil {
		fail("decoded-but-header-unparsable", "decoder accepted input whose header does not parse: %v", e)
		return
	}
	if e := codec.BC.Unmarshal(rd, &bin); e != nil {
		fail("decoded-but-body-unparsable", "decoder accepted input whose body does not parse: %v", e)
		return
	}

	var id, re []byte
	var ntx, ptx [][]byte
	var nHash, pHash, vHash, vBytes, dHash, dBytes, nsf, dnsf []byte
	if p := ev.Catch(func() {
		id = bd.ID()
		ntx = c08TxIDs(bd.NormalTransactions())
		ptx = c08TxIDs(bd.PatchTransactions())
		nHash = bd.NormalTransactions().Hash()
		pHash = bd.PatchTransactions().Hash()
		vHash = bd.Votes().Hash()
		vBytes = bd.Votes().Bytes()
		_ = bd.Votes().Timestamp()
		dg, e := bd.BTPDigest()
		if e != nil {
			panic(fmt.Sprintf("BTPDigest() error on a decoded block: %v", e))
		}
		dHash, dBytes = dg.Hash(), dg.Bytes()
		nsf = bd.NetworkSectionFilter().Bytes()
		dnsf = dg.NetworkSectionFilter().Bytes()
		_, _ = bd.NTSHashEntryList()
		_ = bd.LogsBloom().CompressedBytes()
		var buf bytes.Buffer
		if e := bd.Marshal(&buf); e != nil {
			panic(fmt.Sprintf("Marshal error on a decoded block: %v", e))
		}
		re = buf.Bytes()
	}); p != "" {
		fail("panic-after-decode:"+c08PanicClass(p), "accessing / re-marshalling a successfully decoded block panicked: %s", p)
		return
	}
	if p := ev.Catch(func() { _, _ = bd.ToJSON(module.JSONVersion3) }); p != "" {
		fail("panic-in-ToJSON:"+c08PanicClass(p), "ToJSON of a successfully decoded block panicked: %s", p)
	}

	// (a) re-marshal -> decode -> same id
	var bd2 module.BlockData
	var err2 error
	if p := ev.Catch(func() { bd2, err2 = w.bdf.NewBlockDataFromReader(bytes.NewReader(re)) }); p != "" {
		fail("panic-in-redecode:"+c08PanicClass(p), "decoding the re-marshalled block panicked: %s", p)
	} else if err2 != nil {
		fail("remarshal-not-decodable", "re-marshalled block does not decode: %v", err2)
	} else if !bytes.Equal(bd2.ID(), id) {
		fail("remarshal-changes-id", "id %x, after re-marshal %x", id, bd2.ID())
	}

	// (b) body bound to the header that was in the input
	if !bytes.Equal(nHash, hin.NormalTransactionsHash) {
		fail("normal-tx-hash-not-bound:"+c.Fam, "decoded normal txs hash %s, input header says %s", c08Hex(nHash), c08Hex(hin.NormalTransactionsHash))
	}
	if !bytes.Equal(pHash, hin.PatchTransactionsHash) {
		fail("patch-tx-hash-not-bound:"+c.Fam, "decoded patch txs hash %s, input header says %s", c08Hex(pHash), c08Hex(hin.PatchTransactionsHash))
	}
	if !bytes.Equal(vHash, hin.VotesHash) {
		fail("votes-hash-not-bound:"+c.Fam, "decoded votes hash %s, input header says %s", c08Hex(vHash), c08Hex(hin.VotesHash))
	}
	if want, e := service.BTPDigestHashFromResult(hin.Result); e != nil {
		fail("decoded-with-unparsable-result", "decoder accepted a block whose result does not parse: %v", e)
	} else if !bytes.Equal(dHash, want) {
		fail("btp-digest-not-bound:"+c.Fam, "decoded BTP digest hash %s, result in input header commits to %s", c08Hex(dHash), c08Hex(want))
	}
	if !bytes.Equal(nsf, hin.NSFilter) {
		fail("nsfilter-differs-from-input:"+c.Fam, "decoded NSFilter %x, input header says %x", nsf, hin.NSFilter)
	}
	if !bytes.Equal(dnsf, hin.NSFilter) {
		fail("nsfilter-not-bound:"+c.Fam, "network section filter of the decoded BTP digest is %x, input header says %x", dnsf, hin.NSFilter)
	}
	// the body that was in the input is the body of the decoded block
	if len(ntx) != len(bin.NormalTransactions) || len(ptx) != len(bin.PatchTransactions) {
		fail("tx-count-differs-from-input", "decoded %d/%d txs, input body has %d/%d", len(ptx), len(ntx), len(bin.PatchTransactions), len(bin.NormalTransactions))
	}
	if hin.Height != bd.Height() || hin.Timestamp != bd.Timestamp() || !bytes.Equal(hin.PrevID, bd.PrevID()) || !bytes.Equal(hin.Result, bd.Result()) {
		fail("header-field-differs-from-input", "decoded height/timestamp/prev/result differ from the input header")
	}

	// (c) same id as a chain block => same body
	if ob, ok := w.byID[string(id)]; ok {
		for i, b := range w.blocks {
			if b == ob {
				v.sameAs = i
			}
		}
		same := len(ntx) == len(ob.ntxIDs) && len(ptx) == len(ob.ptxIDs)
		if same {
			for i := range ntx {
				same = same && bytes.Equal(ntx[i], ob.ntxIDs[i])
			}
			for i := range ptx {
				same = same && bytes.Equal(ptx[i], ob.ptxIDs[i])
			}
		}
		if !same {
			fail("body-swapped-under-header:txs:"+c.Fam, "decoded block has the id of chain block %d but other transactions", v.sameAs)
		}
		if !bytes.Equal(vBytes, ob.votes) {
			fail("body-swapped-under-header:votes:"+c.Fam, "decoded block has the id of chain block %d but other votes", v.sameAs)
		}
		if !bytes.Equal(dBytes, ob.digest) {
			fail("body-swapped-under-header:digest:"+c.Fam, "decoded block has the id of chain block %d but another BTP digest", v.sameAs)
		}
	}

	if c.Fam == "id" {
		ob := w.blocks[c.Blk]
		if !bytes.Equal(id, ob.id) || bd.Height() != ob.blk.Height() || bd.Timestamp() != ob.blk.Timestamp() {
			fail("roundtrip-changes-block", "own encoding decodes to id %x height %d, original %x height %d", id, bd.Height(), ob.id, ob.blk.Height())
		}
		if !bytes.Equal(re, ob.enc) {
			fail("roundtrip-changes-bytes", "own encoding re-marshals to different bytes")
		}
	}
	return
}

// ---------------------------------------------------------------------------
// Runaway predictor. It mirrors btp's digest formats on the real codec; the
// network-digest list is decoded with the same loop as
// btp.(*networkDigestSlice).RLPDecodeSelf (leave on io.EOF only) but capped, so
// that it can tell, without running the real decoder, whether the real one
// would spin. It is used only to pick canary inputs; the verdict itself always
// comes from the real code (canaries executed twice in child processes before
// anything is run in-process).

type c08ND struct {
	NetworkID          int64
	NetworkSectionHash []byte
	MessagesRoot       []byte
}

type c08NDs struct {
	n       int
	runaway bool
}

func (s *c08NDs) RLPDecodeSelf(d codec.Decoder) error {
	d2, err := d.DecodeList()
	if err != nil {
		return err
	}
	for {
		var nd c08ND
		err := d2.Decode(&nd)
		if err == io.EOF {
			return nil
		}
		s.n++
		if s.n > 4096 {
			s.runaway = true
			return fmt.Errorf("runaway")
		}
	}
}

type c08NTD struct {
	NetworkTypeID          int64
	UID                    string
	NetworkTypeSectionHash []byte
	NetworkDigests         c08NDs
}

type c08NTDs struct {
	runaway bool
}

func (s *c08NTDs) RLPDecodeSelf(d codec.Decoder) error {
	d2, err := d.DecodeList()
	if err != nil {
		return err
	}
	for {
		var ntd c08NTD
		err := d2.Decode(&ntd)
		if ntd.NetworkDigests.runaway {
			s.runaway = true
		}
		if err == io.EOF {
			return nil
		} else if err != nil {
			return err
		}
	}
}

type c08Digest struct {
	NetworkTypeDigests c08NTDs
}

// c08PredictRunaway reports whether the body of the input carries a BTP digest
// on which a decoder that ignores element errors in the network-digest list
// does not terminate.
func c08PredictRunaway(in []byte) bool {
	var hf block.V2HeaderFormat
	var bf block.V2BodyFormat
	rd := bytes.NewReader(in)
	if codec.BC.Unmarshal(rd, &hf) != nil || codec.BC.Unmarshal(rd, &bf) != nil || bf.BTPDigest == nil {
		return false
	}
	var f c08Digest
	_, _ = codec.UnmarshalFromBytes(bf.BTPDigest, &f)
	return f.NetworkTypeDigests.runaway
}

// ---------------------------------------------------------------------------
// Child process: one case on the real decoder with a runaway guard.

const c08RunawaySig = "decode-does-not-terminate:btp-network-digest-list-element-error"

var c08Bases sync.Map // temp dirs of live fixtures (removed before a forced exit)

func c08RemoveBases() {
	c08Bases.Range(func(k, _ interface{}) bool {
		os.RemoveAll(k.(string))
		return true
	})
}

func c08ChildMain(t *testing.T) {
	var c c08Case
	if err := json.Unmarshal([]byte(os.Getenv("C08_CHILD_CASE")), &c); err != nil {
		fmt.Printf("C08CHILD ERROR %v\n", err)
		os.Exit(5)
	}
	nBlocks := 5
	fmt.Sscanf(os.Getenv("C08_CHILD_NBLOCKS"), "%d", &nBlocks)
	w, err := c08NewWorld(nBlocks)
	if err != nil {
		fmt.Printf("C08CHILD ERROR fixture: %v\n", err)
		os.Exit(5)
	}
	in := w.input(c)
	var m0 runtime.MemStats
	runtime.ReadMemStats(&m0)
	go func() {
		start := time.Now()
		for {
			time.Sleep(50 * time.Millisecond)
			var m runtime.MemStats
			runtime.ReadMemStats(&m)
			if m.TotalAlloc-m0.TotalAlloc > 768<<20 || time.Since(start) > 90*time.Second {
				fmt.Printf("C08CHILD RUNAWAY allocated=%dMB elapsed=%v\n", (m.TotalAlloc-m0.TotalAlloc)>>20, time.Since(start))
				c08RemoveBases()
				os.Exit(7)
			}
		}
	}()
	v, fails := w.evaluate(c, in)
	fmt.Printf("C08CHILD DONE decoded=%v err=%q fails=%d\n", v.decoded, c08ErrClass(v.errText), len(fails))
	w.close()
	os.Exit(0)
}

// c08RunInChild executes the case on the real decoder in a child process and
// reports whether the decoder ran away there.
func c08RunInChild(c c08Case, nBlocks int) (runaway bool, out string, err error) {
	cmd := exec.Command(os.Args[0], "-test.run", "^TestVerifC08$")
	cmd.Env = append(os.Environ(), "C08_CHILD_CASE="+c.key(), fmt.Sprintf("C08_CHILD_NBLOCKS=%d", nBlocks))
	var buf bytes.Buffer
	cmd.Stdout, cmd.Stderr = &buf, io.Discard
	done := make(chan error, 1)
	if err := cmd.Start(); err != nil {
		return false, "", err
	}
	go func() { done <- cmd.Wait() }()
	select {
	case <-done:
	case <-time.After(5 * time.Minute):
		cmd.Process.Kill()
		<-done
		return false, "", fmt.Errorf("child did not finish")
	}
	for _, l := range strings.Split(buf.String(), "\n") {
		if strings.HasPrefix(l, "C08CHILD ") {
			out = l
		}
	}
	switch {
	case strings.HasPrefix(out, "C08CHILD RUNAWAY"):
		return true, out, nil
	case strings.HasPrefix(out, "C08CHILD DONE"):
		return false, out, nil
	}
	return false, out, fmt.Errorf("child gave no verdict: %q", out)
}

// c08ConfirmRunaway runs the case twice in fresh child processes; the decoder is
// said not to terminate only if both children report a runaway (allocation of
// more than 768 MB during the one decode, or still decoding after 90 s).
func c08ConfirmRunaway(c c08Case, nBlocks int) (runaway bool, out string, err error) {
	ra1, out1, err1 := c08RunInChild(c, nBlocks)
	if err1 != nil || !ra1 {
		return false, out1, err1
	}
	ra2, out2, err2 := c08RunInChild(c, nBlocks)
	if err2 != nil {
		return false, out2, err2
	}
	return ra2, out1 + " | " + out2, nil
}

// ---------------------------------------------------------------------------
// Reader environment. A block is not only decoded from a fresh reader at offset
// 0: the reader may be seekable or not, may return short reads, may already
// have been read / seeked past a prefix (garbage or other blocks), and several
// blocks may be decoded consecutively from ONE reader.

// c08EnvKinds: reader kinds. The first five support consecutive decodes (a
// seeker, or a caller-owned bufio.Reader); for the last two PeekVersion wraps
// the reader into its own bufio.Reader, which may read ahead, so only the
// first decode is defined.
var c08EnvKinds = []string{"seek", "fseek", "seek1", "bufio", "bufio1", "stream", "buffer"}

func c08EnvSequential(kind string) bool { return kind != "stream" && kind != "buffer" }
func c08EnvSeeker(kind string) bool     { return kind == "seek" || kind == "fseek" || kind == "seek1" }

// c08Seeker is a file-like io.ReadSeeker over a byte slice; chunk > 0 limits
// every Read to that many bytes.
type c08Seeker struct {
	data  []byte
	pos   int64
	chunk int
}

func (r *c08Seeker) Read(p []byte) (int, error) {
	if r.pos >= int64(len(r.data)) {
		return 0, io.EOF
	}
	if len(p) == 0 {
		return 0, nil
	}
	n := len(p)
	if r.chunk > 0 && n > r.chunk {
		n = r.chunk
	}
	n = copy(p[:n], r.data[r.pos:])
	r.pos += int64(n)
	return n, nil
}

func (r *c08Seeker) Seek(off int64, whence int) (int64, error) {
	var np int64
	switch whence {
	case io.SeekStart:
		np = off
	case io.SeekCurrent:
		np = r.pos + off
	case io.SeekEnd:
		np = int64(len(r.data)) + off
	default:
		return 0, fmt.Errorf("bad whence")
	}
	if np < 0 {
		return 0, fmt.Errorf("negative position")
	}
	r.pos = np
	return np, nil
}

func c08EnvReader(kind string, data []byte) io.Reader {
	switch kind {
	case "seek":
		return bytes.NewReader(data)
	case "fseek":
		return &c08Seeker{data: data}
	case "seek1":
		return &c08Seeker{data: data, chunk: 1}
	case "bufio":
		return bufio.NewReader(bytes.NewReader(data))
	case "bufio1":
		return bufio.NewReaderSize(&oneByteReader{b: data}, 16)
	case "stream":
		return &oneByteReader{b: data}
	case "buffer":
		return bytes.NewBuffer(append([]byte(nil), data...))
	}
	panic("unknown reader kind " + kind)
}

var c08EnvTail = []byte{0xde, 0xad, 0x00}

// envData returns prefix ‖ enc(seq[0]) ‖ enc(seq[1]) … ‖ tail, the offset of the
// stream, and the offsets at which every block of the stream ends.
func (w *c08World) envData(c c08Case) (data []byte, start int, ends []int) {
	for _, b := range c.Pre {
		data = append(data, w.blocks[b].enc...)
	}
	if len(c.Pre) == 0 && c.Garb != 0 {
		data = append(data, 0xa7)
	} else if c.Garb != 0 {
		for i := range data {
			data[i] = byte(0xa7 + 31*i)
		}
	}
	start = len(data)
	for _, b := range c.Seq {
		data = append(data, w.blocks[b].enc...)
		ends = append(ends, len(data))
	}
	data = append(data, c08EnvTail...)
	return
}

// evalEnv runs one reader-environment case on the real code.
func (w *c08World) evalEnv(c c08Case) (good bool, fails []c08Fail) {
	fail := func(sig, f string, a ...interface{}) {
		fails = append(fails, c08Fail{sig, fmt.Sprintf(f, a...)})
	}
	data, start, ends := w.envData(c)
	rd := c08EnvReader(c.Reader, data)
	// bring the reader to the start of the stream
	if start > 0 {
		if c.How == "seek" {
			if _, err := rd.(io.Seeker).Seek(int64(start), io.SeekStart); err != nil {
				fail("env-harness", "seek failed: %v", err)
				return
			}
		} else if n, err := io.CopyN(io.Discard, rd, int64(start)); err != nil || n != int64(start) {
			fail("env-harness", "skipping the prefix failed: %v", err)
			return
		}
	}
	env := fmt.Sprintf("%s/%s/start=%d(%s)", c.Tgt, c.Reader, start, c.How)
	if c.Tgt == "peek" {
		var v int
		var r2 io.Reader
		var err error
		if p := ev.Catch(func() { v, r2, err = block.PeekVersion(rd) }); p != "" {
			fail("panic-in-PeekVersion:"+c.Reader, "PeekVersion panicked: %s", p)
			return
		}
		if err != nil || v != module.BlockVersion2 {
			fail("PeekVersion-wrong-version:"+c.Reader, "%s: PeekVersion = %d, %v on a version-2 block", env, v, err)
			return
		}
		rest, err := io.ReadAll(r2)
		if err != nil || !bytes.Equal(rest, data[start:]) {
			fail("PeekVersion-moves-reader:"+c.Reader+":"+c.How, "%s: after PeekVersion the returned reader yields %d bytes (%s…), want the %d bytes from the reader's position on", env, len(rest), c08Hex(rest), len(data)-start)
			return
		}
		return true, nil
	}
	for i, b := range c.Seq {
		if i > 0 && !c08EnvSequential(c.Reader) {
			break
		}
		ob := w.blocks[b]
		var bd module.BlockData
		var err error
		if p := ev.Catch(func() {
			if c.Tgt == "bm" {
				bd, err = w.nd.BM.NewBlockDataFromReader(rd)
			} else {
				bd, err = w.bdf.NewBlockDataFromReader(rd)
			}
		}); p != "" {
			fail("panic-in-decode:"+c08PanicClass(p), "%s: decode %d of the stream panicked: %s", env, i, p)
			return
		}
		if err != nil {
			fail("env-valid-block-rejected:"+c.Reader+":"+c.How, "%s: block %d of the stream (chain block %d) does not decode: %v", env, i, b, err)
			return
		}
		var re []byte
		if p := ev.Catch(func() { re = blkfx.Marshal(bd) }); p != "" {
			fail("panic-after-decode:"+c08PanicClass(p), "%s: re-marshal panicked: %s", env, p)
			return
		}
		if !bytes.Equal(bd.ID(), ob.id) || bd.Height() != ob.blk.Height() || !bytes.Equal(re, ob.enc) {
			which := "an unknown block"
			if x, ok := w.byID[string(bd.ID())]; ok {
				which = fmt.Sprintf("chain block of height %d", x.blk.Height())
			}
			fail("env-wrong-block-decoded:"+c.Reader+":"+c.How, "%s: decode %d of the stream must give chain block %d (height %d, id %x) but gave %s (height %d, id %x)",
				env, i, b, ob.blk.Height(), ob.id, which, bd.Height(), bd.ID())
			return
		}
		if sk, ok := rd.(io.Seeker); ok {
			pos, err := sk.Seek(0, io.SeekCurrent)
			if err != nil || pos != int64(ends[i]) {
				fail("env-reader-not-at-block-end:"+c.Reader+":"+c.How, "%s: after decode %d the reader is at %d (%v), the block ends at %d", env, i, pos, err, ends[i])
				return
			}
		}
	}
	if c08EnvSequential(c.Reader) {
		rest, err := io.ReadAll(rd)
		if err != nil || !bytes.Equal(rest, c08EnvTail) {
			fail("env-reader-not-at-block-end:"+c.Reader+":"+c.How, "%s: after the last decode %d bytes are left (%s), want exactly the %d tail bytes", env, len(rest), c08Hex(rest), len(c08EnvTail))
			return
		}
	}
	return true, nil
}

// enumEnv: every block x every reader kind x every prefix situation (none, one
// garbage byte, another block, two other blocks; each as valid blocks and as
// garbage of the same length; reached by reading and, for seekers, by Seek) x
// {BlockDataFactory, Manager.NewBlockDataFromReader, PeekVersion}; and every
// ordered pair and triple of distinct blocks decoded consecutively from one
// reader of every kind (with and without a garbage byte in front).
func (w *c08World) enumEnv(fn func(c c08Case)) {
	nb := len(w.blocks)
	hows := func(kind string, start bool) []string {
		if !start {
			return []string{""}
		}
		if c08EnvSeeker(kind) {
			return []string{"read", "seek"}
		}
		return []string{"read"}
	}
	for _, tgt := range []string{"bdf", "bm", "peek"} {
		for _, kind := range c08EnvKinds {
			for b := 0; b < nb; b++ {
				emit := func(pre []int, garb int) {
					for _, how := range hows(kind, len(pre) > 0 || garb != 0) {
						fn(c08Case{Fam: "env", Blk: b, Seq: []int{b}, Pre: pre, Garb: garb, How: how, Reader: kind, Tgt: tgt})
					}
				}
				emit(nil, 0)
				emit(nil, 1)
				for d := 0; d < nb; d++ {
					if d == b {
						continue
					}
					emit([]int{d}, 0)
					emit([]int{d}, 1)
					for e := 0; e < nb; e++ {
						if e == b || e == d {
							continue
						}
						emit([]int{d, e}, 0)
						emit([]int{d, e}, 1)
					}
				}
			}
			if tgt == "peek" {
				continue
			}
			for a := 0; a < nb; a++ {
				for b := 0; b < nb; b++ {
					if b == a {
						continue
					}
					for _, garb := range []int{0, 1} {
						for _, how := range hows(kind, garb != 0) {
							fn(c08Case{Fam: "env", Blk: a, Seq: []int{a, b}, Garb: garb, How: how, Reader: kind, Tgt: tgt})
						}
					}
					for d := 0; d < nb; d++ {
						if d == a || d == b {
							continue
						}
						for _, garb := range []int{0, 1} {
							for _, how := range hows(kind, garb != 0) {
								fn(c08Case{Fam: "env", Blk: a, Seq: []int{a, b, d}, Garb: garb, How: how, Reader: kind, Tgt: tgt})
							}
						}
					}
				}
			}
		}
	}
}

// enumerate calls fn for every case of the tier in a fixed order.
func (w *c08World) enumerate(thorough bool, fn func(c c08Case)) {
	readers := []string{"seek", "stream"}
	nb := len(w.blocks)
	w.enumEnv(fn)
	for _, rk := range readers {
		for b := 0; b < nb; b++ {
			fn(c08Case{Fam: "id", Blk: b, Reader: rk})
		}
		for b := 0; b < nb; b++ {
			e := w.blocks[b].enc
			for p := 0; p < len(e); p++ {
				fn(c08Case{Fam: "trunc", Blk: b, Pos: p, Reader: rk})
				fn(c08Case{Fam: "del", Blk: b, Pos: p, Reader: rk})
				fn(c08Case{Fam: "dup", Blk: b, Pos: p, Reader: rk})
				if p+1 < len(e) && e[p] != e[p+1] {
					fn(c08Case{Fam: "swap", Blk: b, Pos: p, Reader: rk})
				}
			}
			for v := 0; v < 256; v++ {
				fn(c08Case{Fam: "append", Blk: b, Val: v, Reader: rk})
			}
			w.enumInner(b, rk, fn)
			for d := 0; d < nb; d++ {
				if d == b {
					continue
				}
				for p := 1; p < len(e); p++ {
					fn(c08Case{Fam: "splice", Blk: b, Donor: d, Pos: p, Reader: rk})
				}
				for parts := 1; parts < 16; parts++ {
					fn(c08Case{Fam: "cross", Blk: b, Donor: d, Parts: parts, Reader: rk})
				}
			}
		}
		fn(c08Case{Fam: "short", Len: 0, Reader: rk})
		for v := 0; v < 256; v++ {
			fn(c08Case{Fam: "short", Len: 1, Val: v, Reader: rk})
		}
		for v := 0; v < 65536; v++ {
			fn(c08Case{Fam: "short", Len: 2, Val: v, Reader: rk})
		}
		for i := range c08Seeds {
			fn(c08Case{Fam: "seed", Val: i, Reader: rk})
		}
	}
	// the big families: substitution (quick: blocks 2 and 3, seekable reader; thorough: all blocks,
	// both readers), insertion in thorough
	for _, rk := range readers {
		if rk == "stream" && !thorough {
			continue
		}
		for b := 0; b < nb; b++ {
			if !thorough && !(b == 2 || b == 3) {
				continue
			}
			e := w.blocks[b].enc
			for p := 0; p < len(e); p++ {
				for v := 0; v < 256; v++ {
					if byte(v) != e[p] {
						fn(c08Case{Fam: "subst", Blk: b, Pos: p, Val: v, Reader: rk})
					}
				}
			}
		}
	}
	if thorough {
		for b := 0; b < nb; b++ {
			e := w.blocks[b].enc
			for p := 0; p <= len(e); p++ {
				for v := 0; v < 256; v++ {
					fn(c08Case{Fam: "ins", Blk: b, Pos: p, Val: v, Reader: "seek"})
				}
			}
		}
	}
}

// enumInner: every proper prefix of the votes bytes, of the BTP digest bytes and
// of every transaction of block b, re-framed into an otherwise unchanged block.
func (w *c08World) enumInner(b int, rk string, fn func(c c08Case)) {
	bf := w.blocks[b].body
	for p := 0; p < len(bf.Votes); p++ {
		fn(c08Case{Fam: "inner", Blk: b, Parts: 4, Pos: p, Reader: rk})
	}
	for p := 0; p < len(bf.BTPDigest); p++ {
		fn(c08Case{Fam: "inner", Blk: b, Parts: 8, Pos: p, Reader: rk})
	}
	for i, tx := range bf.NormalTransactions {
		for p := 0; p < len(tx); p++ {
			fn(c08Case{Fam: "inner", Blk: b, Parts: 16 + i, Pos: p, Reader: rk})
		}
	}
}

type c08Stats struct {
	mu       sync.Mutex
	decoded  map[string]int64 // by family
	rejected map[string]int64
	sameID   map[string]int64 // decoded mutants (not "id") with the id of a chain block
	otherID  map[string]int64 // decoded mutants with a new id
	errs     map[string]int64
}

func c08NewStats() *c08Stats {
	return &c08Stats{decoded: map[string]int64{}, rejected: map[string]int64{}, sameID: map[string]int64{}, otherID: map[string]int64{}, errs: map[string]int64{}}
}

func (s *c08Stats) merge(o *c08Stats) {
	s.mu.Lock()
	defer s.mu.Unlock()
	for _, p := range []struct{ d, s map[string]int64 }{{s.decoded, o.decoded}, {s.rejected, o.rejected}, {s.sameID, o.sameID}, {s.otherID, o.otherID}, {s.errs, o.errs}} {
		for k, v := range p.s {
			p.d[k] += v
		}
	}
}

func c08ErrClass(s string) string {
	var out []byte
	isHex := func(c byte) bool {
		return c >= '0' && c <= '9' || c >= 'a' && c <= 'f' || c >= 'A' && c <= 'F' || c == 'x'
	}
	for i := 0; i < len(s) && len(out) < 48; {
		c := s[i]
		if c == '\n' {
			break
		}
		if isHex(c) {
			j, digits := i, 0
			for j < len(s) && isHex(s[j]) {
				if s[j] >= '0' && s[j] <= '9' {
					digits++
				}
				j++
			}
			if j-i >= 8 || digits == j-i || (j-i > 2 && s[i] == '0' && s[i+1] == 'x') {
				out = append(out, '#')
			} else {
				out = append(out, s[i:j]...)
			}
			i = j
			continue
		}
		if c < 0x20 || c > 0x7e {
			c = '?'
		}
		out = append(out, c)
		i++
	}
	return string(out)
}

// c08Current is what a worker is executing right now (for the in-process guard).
type c08Current struct {
	c     c08Case
	start time.Time
}

func (w *c08World) check(r *ev.Run, c c08Case, st *c08Stats, cur *atomic.Pointer[c08Current]) {
	if cur != nil {
		cur.Store(&c08Current{c, time.Now()})
		defer cur.Store(nil)
	}
	if c.Fam == "env" {
		ok, fails := w.evalEnv(c)
		if ok {
			st.decoded["env:"+c.Tgt+":"+c.Reader]++
		}
		for _, f := range fails {
			r.Violation(f.sig, fmt.Sprintf("%s; case=%s", f.detail, c.key()), c)
		}
		return
	}
	in := w.input(c)
	v, fails := w.evaluate(c, in)
	if v.decoded {
		st.decoded[c.Fam]++
		if c.Fam != "id" {
			if v.sameAs >= 0 {
				st.sameID[c.Fam]++
			} else {
				st.otherID[c.Fam]++
			}
		}
	} else if len(fails) == 0 {
		st.rejected[c.Fam]++
		st.errs[c08ErrClass(v.errText)]++
	}
	for _, f := range fails {
		r.Violation(f.sig, fmt.Sprintf("%s; case=%s input(%d bytes)=%x", f.detail, c.key(), len(in), in), c)
	}
}

func TestVerifC08(t *testing.T) {
	if os.Getenv("C08_CHILD_CASE") != "" {
		c08ChildMain(t)
		return
	}
	r := ev.Start(t, "C08", "exploration")
	r.SetBudget(75*time.Second, 13*time.Minute)
	r.Rule("for every block of a real fixture chain (0/1/3 txs, with/without votes, NTS proofs, BTP digest, NSFilter): its own encoding; every truncation, single-byte deletion, duplication, adjacent swap, one trailing byte (256 values), same-offset splice with every other block, header/body cross-over (non-empty subset of {patch,normal,votes,digest} from every other block), every proper prefix of the votes / BTP digest / each transaction re-framed into the block; every single-byte substitution (position x 255 values; quick: blocks 2 and 3, thorough: all blocks); thorough adds every single-byte insertion (position x 256); plus all byte strings of length <= 2 and the two upstream fuzz seeds; each through a seekable and a one-byte-at-a-time reader (substitution/insertion: seekable only in quick); reader environments: every block x 7 reader kinds (bytes.Reader, file-like seeker, seeker with 1-byte reads, bufio.Reader, 16-byte bufio over a 1-byte stream, 1-byte stream, bytes.Buffer) x prefix {none, 1 garbage byte, every other block, every ordered pair of other blocks; as valid blocks and as garbage of the same length; skipped by reading and, for seekers, by Seek} x {BlockDataFactory, Manager.NewBlockDataFromReader, PeekVersion}, and every ordered pair and triple of distinct blocks decoded consecutively from one reader of every kind; non-trivial = distinct input actually submitted to BlockDataFactory.NewBlockDataFromReader")
	r.Assume("fixture: real block.Manager / service transitions of test.Node (basic platform, MapDB), fixed secp256k1 keys, one BTP network (eth); only block version 2 exists in this tree")
	r.Assume("arbitrary bytes are covered by the structured finite families listed in the rule, not by all 2^(8n) strings")

	thorough := r.Thorough()
	nBlocks := 5
	if thorough {
		nBlocks = 7
	}

	if ev.Replaying() {
		var c c08Case
		ev.ReplayCase(&c)
		w, err := c08NewWorld(7)
		if err != nil {
			t.Fatalf("replay fixture: %v", err)
		}
		defer w.close()
		if c08PredictRunaway(w.input(c)) {
			ra, out, err := c08ConfirmRunaway(c, 7)
			fmt.Printf("REPLAY C08 child: runaway=%v %s err=%v\n", ra, out, err)
			if ra {
				r.Violation(c08RunawaySig, "NewBlockDataFromReader does not terminate (memory grows without bound) on case="+c.key()+"; "+out, c)
				r.Finish(false)
				return
			}
		}
		st := c08NewStats()
		w.check(r, c, st, nil)
		fmt.Printf("REPLAY C08 decoded=%v rejected=%v errs=%v\n", st.decoded, st.rejected, st.errs)
		r.Finish(false)
		return
	}

	workers := runtime.NumCPU()
	if workers > 16 {
		workers = 16
	}

	// Canaries: the first inputs of the "inner" family that the predictor flags, one per
	// block, are executed on the real decoder in child processes.
	defect := false
	canaryRuns := []string{}
	{
		w0, err := c08NewWorld(nBlocks)
		if err != nil {
			r.Sanity(false, "C08 fixture: %v", err)
			r.Finish(false)
			return
		}
		var canaries []c08Case
		for b := range w0.blocks {
			found := false
			w0.enumInner(b, "seek", func(c c08Case) {
				if !found && c.Parts == 8 && c08PredictRunaway(w0.input(c)) {
					found = true
					canaries = append(canaries, c)
				}
			})
		}
		w0.close()
		if len(canaries) > 3 {
			canaries = canaries[:3]
		}
		type res struct {
			ra  bool
			out string
			err error
		}
		results := make([]res, len(canaries))
		ev.Par(len(canaries), len(canaries), func(i int) {
			ra, out, err := c08ConfirmRunaway(canaries[i], nBlocks)
			results[i] = res{ra, out, err}
		})
		for i, c := range canaries {
			r.Eval(1)
			canaryRuns = append(canaryRuns, fmt.Sprintf("%s -> %s", c.key(), results[i].out))
			if results[i].err != nil {
				r.Sanity(false, "C08 canary child failed: %v", results[i].err)
				continue
			}
			if results[i].ra {
				defect = true
				r.Violation(c08RunawaySig, "NewBlockDataFromReader does not terminate (memory grows without bound) on a block whose body carries a truncated BTP digest: case="+c.key()+"; child process: "+results[i].out, c)
			}
		}
	}

	if defect {
		// the real decoder does not terminate on inputs of the space: nothing more can be
		// executed in-process (a spinning goroutine cannot be stopped)
		r.Cap("decoder does not terminate on a canary input (confirmed twice in child processes); exploration not started")
		r.Set("runaway_canaries_in_child_process", canaryRuns)
		r.Set("runaway_confirmed", true)
		r.Sample(map[string]interface{}{"canary": canaryRuns[0]})
		r.Finish(false)
		return
	}

	total := c08NewStats()
	var incomplete atomic.Bool
	var encMu sync.Mutex
	var encs []string
	var sizes []map[string]interface{}
	var totalCases int64
	currents := make([]atomic.Pointer[c08Current], workers)

	// in-process guard: a case that is still running after 3 minutes is a decoder that does not
	// terminate (and was not predicted): report it and leave, the goroutine cannot be stopped.
	guardDone := make(chan struct{})
	go func() {
		for {
			select {
			case <-guardDone:
				return
			case <-time.After(time.Second):
			}
			for i := range currents {
				if cc := currents[i].Load(); cc != nil && time.Since(cc.start) > 3*time.Minute {
					// never a wall-clock-only verdict: confirm in two child processes
					ra, out, err := c08ConfirmRunaway(cc.c, nBlocks)
					if ra {
						r.Violation("decode-does-not-terminate:unpredicted", "NewBlockDataFromReader does not terminate on case="+cc.c.key()+"; child processes: "+out, cc.c)
					} else {
						r.Sanity(false, "C08: case %s ran for more than 3 minutes in-process but terminated in child processes (%s, %v)", cc.c.key(), out, err)
					}
					r.Cap("aborted: a decode was still running after 3 minutes")
					r.Finish(false)
					c08RemoveBases()
					os.Exit(1)
				}
			}
		}
	}()

	ev.Par(workers, workers, func(wk int) {
		w, err := c08NewWorld(nBlocks)
		if err != nil {
			r.Sanity(false, "C08 fixture: %v", err)
			incomplete.Store(true)
			return
		}
		defer w.close()
		var mine []string
		for _, b := range w.blocks {
			mine = append(mine, fmt.Sprintf("%x", b.enc))
		}
		encMu.Lock()
		if encs == nil {
			encs = mine
			for i, b := range w.blocks {
				sizes = append(sizes, map[string]interface{}{"block": i, "height": b.blk.Height(), "bytes": len(b.enc), "header_bytes": b.hdrLen,
					"txs": len(b.ntxIDs), "votes_bytes": len(b.votes), "digest_bytes": len(b.digest), "nsfilter": fmt.Sprintf("%x", b.nsf), "what": b.comment})
			}
		} else if strings.Join(encs, ",") != strings.Join(mine, ",") {
			r.Sanity(false, "C08 fixture chains differ between workers (nondeterministic fixture)")
		}
		encMu.Unlock()
		st := c08NewStats()
		defer total.merge(st)
		i, n := 0, 0
		abort := false
		w.enumerate(thorough, func(c c08Case) {
			i++
			if abort || (i-1)%workers != wk {
				return
			}
			n++
			if n%256 == 0 {
				r.Eval(256)
				if incomplete.Load() || r.Expired() {
					abort = true
					return
				}
			}
			r.Nontrivial(c.key())
			w.check(r, c, st, &currents[wk])
		})
		r.Eval(n % 256)
		if abort {
			incomplete.Store(true)
		}
		if wk == 0 {
			atomic.StoreInt64(&totalCases, int64(i))
		}
		if errs := w.fx.T.Errs(); len(errs) > 0 {
			r.Sanity(false, "C08 fixture helper assertion: %s", errs[0])
		}
	})
	close(guardDone)

	complete := !incomplete.Load()
	// vacuity guards
	r.Sanity(total.decoded["id"] == int64(2*(nBlocks+1)) || !complete, "C08 vacuity: %d own encodings decoded, want %d", total.decoded["id"], 2*(nBlocks+1))
	for _, fam := range []string{"trunc", "subst", "del", "dup", "splice", "cross", "inner"} {
		r.Sanity(total.rejected[fam] > 0 || !complete, "C08 vacuity: no rejected input in family %s", fam)
	}
	r.Sanity(total.decoded["subst"] > 0 && total.decoded["append"] > 0 || !complete, "C08 vacuity: no mutant decoded successfully (binding checks never ran on a mutant)")
	r.Sanity(len(total.errs) > 3, "C08 vacuity: only %d distinct rejection messages", len(total.errs))
	for _, kind := range c08EnvKinds {
		for _, tgt := range []string{"bdf", "bm", "peek"} {
			r.Sanity(total.decoded["env:"+tgt+":"+kind] > 0 || !complete, "C08 vacuity: no reader-environment case passed for %s/%s", tgt, kind)
		}
	}
	withDigest, withVotes, withTx := 0, 0, 0
	for _, s := range sizes {
		if s["digest_bytes"].(int) > 0 {
			withDigest++
		}
		if s["votes_bytes"].(int) > 8 {
			withVotes++
		}
		if s["txs"].(int) > 0 {
			withTx++
		}
	}
	r.Sanity(withDigest > 0 && withDigest < len(sizes) && withVotes > 1 && withTx > 1, "C08 vacuity: fixture lacks variety (digest %d, votes %d, txs %d of %d)", withDigest, withVotes, withTx, len(sizes))
	r.Sanity(len(canaryRuns) > 0, "C08 vacuity: the runaway predictor flagged no canary input")

	r.Set("blocks", sizes)
	r.Set("cases_in_space", atomic.LoadInt64(&totalCases))
	r.Set("decoded_by_family", total.decoded)
	r.Set("rejected_by_family", total.rejected)
	r.Set("decoded_mutants_with_chain_block_id", total.sameID)
	r.Set("decoded_mutants_with_new_id", total.otherID)
	r.Set("runaway_canaries_in_child_process", canaryRuns)
	r.Set("runaway_confirmed", defect)
	r.Set("distinct_rejection_messages", len(total.errs))
	{
		// the 40 most frequent rejection messages (normalised), the rest summed up
		type kv struct {
			k string
			v int64
		}
		var l []kv
		for k, v := range total.errs {
			l = append(l, kv{k, v})
		}
		sort.Slice(l, func(i, j int) bool { return l[i].v > l[j].v || l[i].v == l[j].v && l[i].k < l[j].k })
		top := map[string]int64{}
		for i, e := range l {
			if i < 40 {
				top[e.k] = e.v
			} else {
				top["(other messages)"] += e.v
			}
		}
		r.Set("rejection_messages_top40", top)
	}
	r.Set("workers", workers)
	if len(encs) > 3 {
		r.Sample(map[string]interface{}{"case": c08Case{Fam: "id", Blk: 2, Reader: "seek"}, "input": encs[2], "oracle": "decodes to block 2, re-marshals to the same bytes"})
		e := encs[2]
		r.Sample(map[string]interface{}{"case": c08Case{Fam: "trunc", Blk: 2, Pos: len(e)/2 - 1, Reader: "stream"}, "input": e[:len(e)-2], "oracle": "no panic; error or a block bound to the input header"})
		r.Sample(map[string]interface{}{"case": c08Case{Fam: "cross", Blk: 3, Donor: 2, Parts: 4, Reader: "seek"}, "oracle": "header of block 3 with the votes of block 2: must not decode to a block with the id of block 3"})
	}
	r.Finish(complete)
}
