//go:build verif

package consensus

import (
	"encoding/binary"
	"encoding/json"
	"fmt"
	"os"
	"os/exec"
	"path/filepath"
	"sort"
	"strings"
	"testing"
	"time"

	"github.com/icon-project/goloop/common/codec"
	"github.com/icon-project/goloop/verifshim/ev"
)

// ---------------------------------------------------------------- Byzantine menu

func (x *explorer) honestBlock(p int) *fBlock {
	return newFBlock(fBlockHeader{
		Height:    1,
		PrevID:    x.env.genesis.ID(),
		Proposer:  x.env.wallets[p].Address().Bytes(),
		Timestamp: x.env.blockTS(p, 1),
		Tag:       fmt.Sprintf("n%d.p1", p),
	}, x.env.vl)
}

func proposerOf(n int, round int32) int { return int((1 + int64(round)) % int64(n)) }

// byzMenu interns every message the Byzantine validator b may send within
// rounds 0..R and returns their ids. It is the whole power of the adversary in
// this model: any vote for any known value (or nil) in any round, equivocating
// proposals (two different own blocks, re-proposals of earlier blocks with a
// proof-of-lock round) for the rounds it is proposer of, and their block parts.
func (x *explorer) byzMenu(b int, R int32) []int32 {
	env := x.env
	w := env.wallets[b]
	var ids []int32
	add := func(proto uint16, bs []byte) { ids = append(ids, int32(x.mt.intern(proto, bs))) }
	type val struct {
		blk  *fBlock
		name string
	}
	var vals []val
	for r := int32(0); r <= R; r++ {
		p := proposerOf(env.n, r)
		if p == b {
			continue
		}
		blk := x.honestBlock(p)
		name := fmt.Sprintf("B%d", p)
		x.mt.nameBlock(blk.ID(), name)
		x.mt.namePS(blk.partSet().ID().Hash, name)
		x.mt.registerBlock(name, blk)
		dup := false
		for _, v := range vals {
			if v.name == name {
				dup = true
			}
		}
		if !dup {
			vals = append(vals, val{blk, name})
		}
	}
	byzProposer := false
	for r := int32(0); r <= R; r++ {
		if proposerOf(env.n, r) == b {
			byzProposer = true
		}
	}
	if byzProposer {
		for _, tag := range []string{"X", "Y"} {
			blk := newFBlock(fBlockHeader{Height: 1, PrevID: env.genesis.ID(), Proposer: w.Address().Bytes(),
				Timestamp: env.blockTS(b, 1), Tag: "byz" + tag}, env.vl)
			x.mt.nameBlock(blk.ID(), tag)
			x.mt.namePS(blk.partSet().ID().Hash, tag)
			x.mt.registerBlock(tag, blk)
			vals = append(vals, val{blk, tag})
		}
	}
	// proposals + parts
	for r := int32(0); r <= R; r++ {
		if proposerOf(env.n, r) != b {
			continue
		}
		for _, v := range vals {
			ps := v.blk.partSet()
			pols := []int32{-1}
			if v.name != "X" && v.name != "Y" {
				pols = nil // re-proposal of somebody else's block needs a POL round
			}
			for pr := int32(0); pr < r; pr++ {
				pols = append(pols, pr)
			}
			for _, pol := range pols {
				pm := NewProposalMessage()
				pm.Height, pm.Round, pm.BlockPartSetID, pm.POLRound = 1, r, ps.ID(), pol
				if err := pm.Sign(w); err != nil {
					panic(err)
				}
				add(uint16(ProtoProposal), msgCodec.MustMarshalToBytes(pm))
			}
			bp := newBlockPartMessage()
			bp.Height, bp.Index, bp.BlockPart, bp.Nonce = 1, 0, ps.GetPart(0).Bytes(), r
			add(uint16(ProtoBlockPart), msgCodec.MustMarshalToBytes(bp))
		}
	}
	// votes
	nilID := codec.MustMarshalToBytes(1) // chain NID, as the engine uses for nil votes
	ts := env.blockTS(b, 1) + 500
	for r := int32(0); r <= R; r++ {
		for _, vt := range []VoteType{VoteTypePrevote, VoteTypePrecommit} {
			vm := NewVoteMessage(w, vt, 1, r, nilID, nil, ts, nil, nil, 0)
			add(uint16(ProtoVote), msgCodec.MustMarshalToBytes(vm))
			for _, v := range vals {
				vm := NewVoteMessage(w, vt, 1, r, v.blk.ID(), v.blk.partSet().ID(), ts, nil, nil, 0)
				add(uint16(ProtoVote), msgCodec.MustMarshalToBytes(vm))
			}
		}
	}
	return ids
}

// ---------------------------------------------------------------- configurations

type c01Config struct {
	Name         string `json:"name"`
	Byz          int    `json:"byz"` // index of the Byzantine validator, -1 = none
	R            int32  `json:"max_round"`
	Crashes      int    `json:"max_crashes"`
	MaxStates    int    `json:"max_states"`
	Mode         string `json:"mode"` // "bfs": all interleavings, breadth first | "dev": deviation-bounded DFS
	Dev          int    `json:"max_deviations"`
	Reorder      bool   `json:"reorder"`
	MaxDepth     int    `json:"bfs_depth_bound"`
	DiffEvery    int    `json:"projection_check_every"`
	CrashInside  bool   `json:"crash_inside_steps"`
	Strategy     string `json:"byz_strategy"`           // "" silent (menu only through deviations) | "own" | "nil" | "echo"
	Lag          *int   `json:"lagging_node,omitempty"` // default scheduler serves this node last
	PCFirst      bool   `json:"precommits_first,omitempty"`
	LagParts     bool   `json:"lagging_node_gets_parts_late,omitempty"`
	BlockResults bool   `json:"block_results,omitempty"` // deviation: Byzantine peer delivers a fast-sync block result (block, chosen commit votes)
	Base         string `json:"base_schedule"`           // "" | "B3": the search starts from the state the base schedule reaches
	Heights      int    `json:"heights,omitempty"`       // heights each validator runs through before it is terminal (0 = 1)
	BudgetS      int    `json:"budget_s"`
}

type c01Result struct {
	Config               c01Config      `json:"config"`
	States               int            `json:"states"`
	Transitions          int            `json:"transitions"`
	Depth                int            `json:"depth"`
	Executions           int            `json:"executions"`
	Complete             bool           `json:"complete"`
	CapHit               string         `json:"cap_hit,omitempty"`
	LocalStates          int            `json:"local_states"`
	EngineSteps          int            `json:"real_engine_steps"`
	MemoMiss             int            `json:"memo_misses"`
	Rebuilds             int            `json:"histories_replayed_on_real_engines"`
	DiffChecks           int            `json:"projection_checks"`
	DiffMismatch         int            `json:"projection_mismatches"`
	Mismatch             []string       `json:"mismatch_detail,omitempty"`
	Messages             int            `json:"messages"`
	Finals               map[string]int `json:"finalization_outcomes"`
	Violations           []gViolation   `json:"violations,omitempty"`
	Confirmed            []bool         `json:"violations_confirmed_on_fresh_engines,omitempty"`
	WallS                float64        `json:"wall_s"`
	SampleTrace          []string       `json:"sample_trace,omitempty"`
	RestartStates        int            `json:"local_states_after_restart"`
	ResignedAfterRestart int            `json:"local_states_signed_after_restart"`
	RestartKeys          []string       `json:"restart_keys,omitempty"`
}

func runC01Config(cfg c01Config) *c01Result {
	t0 := time.Now()
	env := newCSEnv(4)
	var correct []int
	for i := 0; i < env.n; i++ {
		if i != cfg.Byz {
			correct = append(correct, i)
		}
	}
	x := newExplorer(env, correct, cfg.R)
	x.diffEvery = cfg.DiffEvery
	x.maxHeight = cfg.Heights
	for _, p := range correct {
		x.mt.nameBlock(x.honestBlock(p).ID(), fmt.Sprintf("B%d", p))
		x.mt.namePS(x.honestBlock(p).partSet().ID().Hash, fmt.Sprintf("B%d", p))
	}
	var bag []int32
	if cfg.Byz >= 0 {
		bag = x.byzMenu(cfg.Byz, cfg.R)
	}
	deadline := t0.Add(time.Duration(cfg.BudgetS) * time.Second)
	stop := func() bool { return time.Now().After(deadline) }
	var res *gResult
	execs := 0
	if cfg.BlockResults && cfg.Byz >= 0 {
		var names []string
		for name := range x.mt.blocks {
			names = append(names, name)
		}
		sort.Strings(names)
		for _, name := range names {
			for r := int32(0); r <= cfg.R; r++ {
				for m := uint8(0); m < 1<<uint(env.n); m++ {
					if m&(1<<uint(cfg.Byz)) != 0 {
						x.brs = append(x.brs, brDesc{block: name, round: r, mask: m})
					}
				}
			}
		}
	}
	if cfg.Mode == "dev" {
		var pre allowSet
		for mi, m := range bag {
			mm := x.mt.msgs[m]
			switch cfg.Strategy {
			case "own": // pushes its own block X: proposes it whenever it is proposer and votes for it in every round
				if mm.Block == "X" {
					pre.add(mi)
				}
			case "nil": // votes nil in every round
				if (mm.Kind == "prevote" || mm.Kind == "precommit") && mm.Block == "nil" {
					pre.add(mi)
				}
			case "echo": // in every round votes for the block of that round's (correct) proposer
				if (mm.Kind == "prevote" || mm.Kind == "precommit") && mm.Block == fmt.Sprintf("B%d", proposerOf(env.n, mm.Round)) {
					pre.add(mi)
				}
			}
		}
		var preNode map[int]allowSet
		if cfg.Strategy == "equivocate" {
			// proposes X to the lowest correct validator and Y to the others, and votes for Y everywhere
			preNode = map[int]allowSet{}
			for k, i := range correct {
				var a allowSet
				for mi, m := range bag {
					mm := x.mt.msgs[m]
					isProp := mm.Kind == "proposal" || mm.Kind == "part"
					switch {
					case isProp && k == 0 && mm.Block == "X" && (mm.Kind == "part" || strings.Contains(mm.Desc, "pol=-1")):
						a.add(mi)
					case isProp && k != 0 && mm.Block == "Y" && (mm.Kind == "part" || strings.Contains(mm.Desc, "pol=-1")):
						a.add(mi)
					case (mm.Kind == "prevote" || mm.Kind == "precommit") && mm.Block == "Y":
						a.add(mi)
					}
				}
				preNode[i] = a
			}
		}
		var prefix []dAction
		if cfg.Base == "B3" {
			prefix = scenarioLateCommit(x).actions()
		}
		lag := -1
		if cfg.Lag != nil {
			lag = *cfg.Lag
		}
		dr := x.searchDev(devCfg{lagNode: lag, pcFirst: cfg.PCFirst, lagParts: cfg.LagParts, maxDev: cfg.Dev, maxCrashes: cfg.Crashes, menu: bag, byz: cfg.Byz, stop: stop,
			maxStates: cfg.MaxStates, reorder: cfg.Reorder, crashInside: cfg.CrashInside, preAllow: pre, preAllowNode: preNode, prefix: prefix})
		res = &gResult{states: dr.states, transitions: dr.transitions, complete: dr.complete, depth: dr.maxDepth,
			violations: dr.violations, finals: dr.finals, capHit: dr.capHit}
		execs = dr.executions
		if execs == 0 && res.complete {
			// vacuity guard: the default schedule never ran to quiescence (it cycled back into a visited state)
			res.complete, res.capHit = false, "vacuous: default schedule produced no complete execution"
		}
	} else if cfg.Mode == "vis" {
		dr := x.searchVis(visCfg{maxRound: cfg.R, maxCrashes: cfg.Crashes, byz: cfg.Byz, menu: bag, stop: stop, maxStates: cfg.MaxStates})
		res = &gResult{states: dr.states, transitions: dr.transitions, complete: dr.complete, depth: dr.maxDepth,
			violations: dr.violations, finals: dr.finals, capHit: dr.capHit}
		execs = dr.executions
	} else {
		res = x.search(searchCfg{maxCrashes: cfg.Crashes, maxStates: cfg.MaxStates, stop: stop, initialBag: bag, maxDepth: cfg.MaxDepth, crashInside: cfg.CrashInside})
	}
	out := &c01Result{Config: cfg, States: res.states, Transitions: res.transitions, Depth: res.depth, Executions: execs,
		Complete: res.complete, CapHit: res.capHit, LocalStates: x.stats.localStates, EngineSteps: x.stats.engineSteps,
		MemoMiss: x.stats.memoMiss, Rebuilds: x.stats.rebuilds, DiffChecks: x.stats.diffChecks,
		DiffMismatch: x.stats.diffMismatch, Mismatch: x.mismatch, Messages: len(x.mt.msgs), Finals: res.finals,
		Violations: res.violations}
	if len(out.Mismatch) > 5 {
		out.Mismatch = out.Mismatch[:5]
	}
	for i := range x.states {
		for _, st := range x.states[i] {
			if st.restarts > 0 {
				out.RestartStates++
				if st.resigned > 0 {
					out.ResignedAfterRestart++
					if len(out.RestartKeys) < 400 {
						out.RestartKeys = append(out.RestartKeys, fmt.Sprintf("V%d/%d", i, st.id))
					}
				}
			}
		}
	}
	// every violation must reproduce on fresh real engines, driven only by the
	// wire-level trace (no explorer tables), five times out of five
	for _, v := range res.violations {
		ok := true
		for k := 0; k < 5; k++ {
			fins, panics, cert, c02 := replayTraceFull(env, correct, v.Trace, nil)
			if !violationHoldsFull(v.Sig, fins, panics, cert, c02) {
				ok = false
			}
		}
		out.Confirmed = append(out.Confirmed, ok)
	}
	out.WallS = time.Since(t0).Seconds()
	return out
}

func violationHoldsFull(sig string, fins map[int]string, panics map[int]string, cert map[int]bool, c02 map[int][2]string) bool {
	switch sig {
	case "equivocation":
		for _, v := range c02 {
			if v[0] != "" {
				return true
			}
		}
		return false
	case "sent-before-durable":
		for _, v := range c02 {
			if v[1] != "" {
				return true
			}
		}
		return false
	}
	return violationHolds(sig, fins, panics, cert)
}

func violationHolds(sig string, fins map[int]string, panics map[int]string, cert map[int]bool) bool {
	switch {
	case sig == "disagreement":
		// fins[i] lists what validator i finalized, height 1 first, joined by "+"
		for i, f := range fins {
			for j, g := range fins {
				if i < j && finStrConflict(f, g) {
					return true
				}
			}
		}
		return false
	case sig == "finalize-without-quorum":
		for i := range fins {
			if !cert[i] {
				return true
			}
		}
		return false
	case strings.HasPrefix(sig, "engine-panic:"):
		return len(panics) > 0
	}
	return false
}

// finStrConflict: both validators finalized some height with different blocks.
func finStrConflict(a, b string) bool {
	as, bs := strings.Split(a, "+"), strings.Split(b, "+")
	for h := 0; h < len(as) && h < len(bs); h++ {
		if as[h] != bs[h] {
			return true
		}
	}
	return false
}

// ---------------------------------------------------------------- the check

func c01Configs(thorough bool) []c01Config {
	var cs []c01Config
	add := func(name string, byz int, R int32, crashes int, mode string, dev int, reorder bool, depth int) {
		c := c01Config{Name: name, Byz: byz, R: R, Crashes: crashes, Mode: mode, Dev: dev, Reorder: reorder, MaxDepth: depth,
			MaxStates: 4_000_000, BudgetS: 70, DiffEvery: 4}
		if thorough {
			c.MaxStates, c.BudgetS, c.DiffEvery = 12_000_000, 200, 2
		}
		cs = append(cs, c)
	}
	// addS: Byzantine validator follows a strategy by default (its matching menu messages are released to
	// everybody from the start), optionally starting from the state reached by a base schedule
	addS := func(name string, byz int, R int32, crashes int, dev int, strategy, base string) {
		add(name, byz, R, crashes, "dev", dev, false, 0)
		cs[len(cs)-1].Strategy, cs[len(cs)-1].Base = strategy, base
	}
	// directed base schedules B4/B5 with crash insertion before every step (own worker)
	add("BASE-B4-B5-crash-insertion", 3, 3, 1, "base", 0, false, 0)
	cs[len(cs)-1].BudgetS = 200 // B4..B8 with crash insertion: about 1100 scenario runs
	if !thorough {
		// deviation-bounded DFS: every execution with <= D deviations from the synchronous scheduler
		for _, byz := range []int{0, 1, 2, 3} {
			add(fmt.Sprintf("A-byz%d-R1-dev1", byz), byz, 1, 0, "dev", 1, false, 0)
		}
		add("B-nobyz-R1-crash1-dev1", -1, 1, 1, "dev", 1, true, 0)
		add("C-byz3-R1-crash1-dev1", 3, 1, 1, "dev", 1, false, 0)
		addS("S-byz3-own-R2-dev1", 3, 2, 0, 1, "own", "")
		addS("S-byz3-echo-R2-dev1", 3, 2, 0, 1, "echo", "")
		addS("F-byz3-echo-R1-blockresults-partsLateV0-dev1", 3, 1, 0, 1, "echo", "")
		{
			z := 0
			c := &cs[len(cs)-1]
			c.BlockResults, c.Lag, c.LagParts = true, &z, true
		}
		addS("S-byz1-equivocate-R1-dev1", 1, 1, 0, 1, "equivocate", "")
		addS("S-byz1-equivocate-R1-lagV0-pcfirst-dev1", 1, 1, 0, 1, "equivocate", "")
		{
			z := 0
			cs[len(cs)-1].Lag, cs[len(cs)-1].PCFirst = &z, true
		}
		addS("B3-byz3-own-R3-dev1", 3, 3, 0, 1, "own", "B3")
		addS("B3-byz3-silent-R3-crash1-dev1", 3, 3, 1, 1, "", "B3")
		// two heights: every validator runs on through height 2 (commit, new height, last
		// votes, proposal on top of the block it finalized); the Byzantine menu is height 1 only
		add("H2-nobyz-R1-dev1", -1, 1, 0, "dev", 1, false, 0)
		cs[len(cs)-1].Heights = 2
		addS("H2-byz3-own-R1-dev1", 3, 1, 0, 1, "own", "")
		cs[len(cs)-1].Heights = 2
		// exact breadth-first search over ALL interleavings (no default scheduler) to a stated depth
		add("A-byz3-R0-bfs5", 3, 0, 0, "bfs", 0, false, 5)
		add("B-nobyz-R0-crash1-bfs5", -1, 0, 1, "bfs", 0, false, 5)
		return cs
	}
	for _, byz := range []int{0, 1, 2, 3} {
		add(fmt.Sprintf("A-byz%d-R1-dev2", byz), byz, 1, 0, "dev", 2, false, 0)
		add(fmt.Sprintf("C-byz%d-R1-crash1-dev2", byz), byz, 1, 1, "dev", 2, false, 0)
	}
	add("A-byz3-R2-dev2", 3, 2, 0, "dev", 2, false, 0)
	add("A-byz2-R2-dev2", 2, 2, 0, "dev", 2, false, 0)
	for _, st := range []string{"own", "echo", "nil"} {
		addS("S-byz3-"+st+"-R2-dev2", 3, 2, 0, 2, st, "")
		addS("S-byz2-"+st+"-R2-dev2", 2, 2, 0, 2, st, "")
		addS("S-byz1-"+st+"-R1-dev2", 1, 1, 0, 2, st, "")
		addS("B3-byz3-"+st+"-R3-crash1-dev2", 3, 3, 1, 2, st, "B3")
	}
	addS("B3-byz3-silent-R3-crash1-dev2", 3, 3, 1, 2, "", "B3")
	for _, st := range []string{"own", "echo", "equivocate"} {
		addS("F-byz3-"+st+"-R1-blockresults-dev2", 3, 1, 0, 2, st, "")
		cs[len(cs)-1].BlockResults = true
		addS("F-byz1-"+st+"-R1-blockresults-dev2", 1, 1, 0, 2, st, "")
		cs[len(cs)-1].BlockResults = true
		for _, lagv := range []int{0, 2} {
			z := lagv
			addS(fmt.Sprintf("F-byz3-%s-R1-blockresults-partsLateV%d-dev2", st, lagv), 3, 1, 0, 2, st, "")
			c := &cs[len(cs)-1]
			c.BlockResults, c.Lag, c.LagParts = true, &z, true
		}
	}
	addS("S-byz1-equivocate-R1-dev2", 1, 1, 0, 2, "equivocate", "")
	for _, lagv := range []int{0, 2, 3} {
		z := lagv
		addS(fmt.Sprintf("S-byz1-equivocate-R1-lagV%d-pcfirst-dev2", lagv), 1, 1, 0, 2, "equivocate", "")
		cs[len(cs)-1].Lag, cs[len(cs)-1].PCFirst = &z, true
		addS(fmt.Sprintf("A-byz3-R1-lagV%d-pcfirst-dev2", lagv%3), 3, 1, 0, 2, "", "")
		z2 := lagv % 3
		cs[len(cs)-1].Lag, cs[len(cs)-1].PCFirst = &z2, true
	}
	addS("S-byz1-equivocate-R2-crash1-dev2", 1, 2, 1, 2, "equivocate", "")
	addS("S-byz3-equivocate-R2-dev2", 3, 2, 0, 2, "equivocate", "")
	add("A-byz3-R1-dev1-reorder", 3, 1, 0, "dev", 1, true, 0)
	// two heights (see the quick tier)
	add("H2-nobyz-R1-dev2", -1, 1, 0, "dev", 2, false, 0)
	cs[len(cs)-1].Heights = 2
	add("H2-nobyz-R1-crash1-dev2", -1, 1, 1, "dev", 2, false, 0)
	cs[len(cs)-1].Heights = 2
	for _, byz := range []int{0, 1, 2, 3} {
		for _, st := range []string{"own", "echo", "nil"} {
			addS(fmt.Sprintf("H2-byz%d-%s-R1-dev2", byz, st), byz, 1, 0, 2, st, "")
			cs[len(cs)-1].Heights = 2
		}
	}
	add("H3-nobyz-R1-dev1", -1, 1, 0, "dev", 1, false, 0)
	cs[len(cs)-1].Heights = 3
	add("B-nobyz-R2-crash2-dev2", -1, 2, 2, "dev", 2, false, 0)
	add("B-nobyz-R1-crash1-dev3", -1, 1, 1, "dev", 3, false, 0)
	add("A-byz3-R1-dev3", 3, 1, 0, "dev", 3, false, 0)
	add("V-byz3-R0-vis", 3, 0, 0, "vis", 0, false, 0)
	add("V-byz1-R0-vis", 1, 0, 0, "vis", 0, false, 0)
	add("V-byz3-R2-vis-capped", 3, 2, 1, "vis", 0, false, 0)
	add("A-byz3-R0-bfs7", 3, 0, 0, "bfs", 0, false, 7)
	add("B-nobyz-R0-crash1-bfs7", -1, 0, 1, "bfs", 0, false, 7)
	return cs
}

// TestVerifC01Worker runs one configuration in a subprocess (one process drives
// one virtual clock) and writes its result as JSON.
func TestVerifC01Worker(t *testing.T) {
	spec := os.Getenv("VERIF_C01_CONFIG")
	if spec == "" {
		t.Skip("worker only")
	}
	var cfg c01Config
	if err := json.Unmarshal([]byte(spec), &cfg); err != nil {
		t.Fatal(err)
	}
	var res *c01Result
	if cfg.Mode == "base" {
		res = runBaseWorker(cfg)
	} else {
		res = runC01Config(cfg)
	}
	b, _ := json.Marshal(res)
	if err := os.WriteFile(os.Getenv("VERIF_C01_OUT"), b, 0o644); err != nil {
		t.Fatal(err)
	}
}

func TestVerifC01(t *testing.T) {
	r := ev.Start(t, "C01", "model_checking")
	r.SetBudget(100*time.Second, 15*time.Minute)
	r.Rule("explicit-state BFS over global states (local state of each correct engine, message bag, crash count) of 4 validators at height 1; local steps executed on real consensus engines and memoised; events: deliver any message ever sent or in the Byzantine menu to any correct node (never consumed: loss, delay, duplication, reordering), fire a pending timeout, complete a pending block-manager request, crash+restart keeping the synced WAL; rounds bounded by max_round")
	r.Assume(
		"4 validators, height 1 only, proposer = (height+round) mod 4; Byzantine validator = a fixed menu of signed messages (any vote for any known value or nil in any round <= R, equivocating proposals X/Y and re-proposals with POL round for the rounds it proposes)",
		"crash model: volatile state, timers and pending block-manager requests are lost, WAL records that were synced survive, unsynced records are lost (byte-level tears are covered by C02/C03)",
		"block manager, network and service manager are deterministic fakes; gossip syncer/fastsync inert (their effect is subsumed by arbitrary delivery of existing messages)",
		"virtual clock: Now() is constant between restarts and advances 3 s at each restart",
	)
	if ev.Replaying() {
		var c struct {
			Config c01Config `json:"config"`
			Trace  []gEvent  `json:"trace"`
			Sig    string    `json:"sig"`
		}
		ev.ReplayCase(&c)
		env := newCSEnv(4)
		var correct []int
		for i := 0; i < 4; i++ {
			if i != c.Config.Byz {
				correct = append(correct, i)
			}
		}
		fins, panics, cert := replayTrace(env, correct, c.Trace, nil)
		fmt.Printf("replay: finalized=%v panics=%v certOK=%v\n", fins, panics, cert)
		if violationHolds(c.Sig, fins, panics, cert) {
			r.Violation(c.Sig, fmt.Sprintf("replayed trace reproduces: finalized=%v panics=%v", fins, panics), c)
		}
		r.Eval(1)
		r.Finish(false)
		return
	}
	cfgs := c01Configs(r.Thorough())
	exe, err := os.Executable()
	if err != nil {
		t.Fatal(err)
	}
	work := filepath.Join(ev.Root(), ".work", "c01-runs")
	os.MkdirAll(work, 0o755)
	results := make([]*c01Result, len(cfgs))
	ev.Par(len(cfgs), 16, func(i int) {
		cfg := cfgs[i]
		if r.Expired() {
			r.Cap("configuration " + cfg.Name + " not started: wall-clock budget of the check used up")
			return
		}
		if os.Getenv("VERIF_BUDGET_S") != "" {
			fmt.Sscan(os.Getenv("VERIF_BUDGET_S"), &cfg.BudgetS)
		}
		spec, _ := json.Marshal(cfg)
		out := filepath.Join(work, fmt.Sprintf("%s-%d.json", cfg.Name, os.Getpid()))
		cmd := exec.Command(exe, "-test.run", "^TestVerifC01Worker$", "-test.timeout", "60m")
		cmd.Env = append(os.Environ(), "VERIF_C01_CONFIG="+string(spec), "VERIF_C01_OUT="+out, "GOMAXPROCS=2", "GOGC=400")
		if ob, err := cmd.CombinedOutput(); err != nil {
			fmt.Printf("HARNESS-ERROR property=C01 worker %s failed: %v\n%s\n", cfg.Name, err, tail(string(ob), 2000))
			r.Cap("worker " + cfg.Name + " failed")
			return
		}
		b, err := os.ReadFile(out)
		os.Remove(out)
		if err != nil {
			r.Cap("worker " + cfg.Name + " wrote no result")
			return
		}
		var res c01Result
		if err := json.Unmarshal(b, &res); err != nil {
			r.Cap("worker " + cfg.Name + " wrote a bad result")
			return
		}
		results[i] = &res
	})
	exhaustive := true
	var summary []map[string]interface{}
	outcomes := map[string]int{}
	for _, res := range results {
		if res == nil {
			exhaustive = false
			continue
		}
		r.States(res.States)
		r.Transitions(res.Transitions)
		r.Traces(res.Rebuilds)
		r.Eval(res.EngineSteps)
		r.Add("real_engine_steps", int64(res.EngineSteps))
		r.Add("local_states", int64(res.LocalStates))
		r.Add("projection_checks", int64(res.DiffChecks))
		for k, v := range res.Finals {
			outcomes[k] += v
			r.Nontrivial(res.Config.Name + "/" + k)
		}
		if !res.Complete {
			exhaustive = false
			r.Cap(fmt.Sprintf("config %s: %s after %d states (depth %d)", res.Config.Name, res.CapHit, res.States, res.Depth))
		}
		if res.DiffMismatch > 0 {
			// projection too coarse: harness error, never a verdict
			fmt.Printf("HARNESS-ERROR property=C01 config %s: %d projection mismatches\n%s\n", res.Config.Name, res.DiffMismatch, strings.Join(res.Mismatch, "\n"))
			r.Cap("projection mismatch in " + res.Config.Name)
		}
		for vi, v := range res.Violations {
			if v.Sig == "equivocation" || v.Sig == "sent-before-durable" {
				continue // C02's property, decided by bin/check C02
			}
			if vi < len(res.Confirmed) && !res.Confirmed[vi] {
				fmt.Printf("HARNESS-ERROR property=C01 config %s: violation %s did not reproduce on fresh engines\n", res.Config.Name, v.Sig)
				r.Cap("non-reproducing violation in " + res.Config.Name)
				continue
			}
			var lines []string
			for _, e := range v.Trace {
				lines = append(lines, fmt.Sprintf("V%d: %s", e.Node, e.Ev))
			}
			r.Violation(v.Sig, v.Detail+"\nconfig "+res.Config.Name+"\n"+strings.Join(lines, "\n"),
				map[string]interface{}{"config": res.Config, "trace": v.Trace, "sig": v.Sig})
		}
		summary = append(summary, map[string]interface{}{
			"config": res.Config.Name, "states": res.States, "transitions": res.Transitions, "depth": res.Depth,
			"complete": res.Complete, "local_states": res.LocalStates, "real_engine_steps": res.EngineSteps,
			"projection_checks": res.DiffChecks, "messages": res.Messages, "outcomes": len(res.Finals), "wall_s": res.WallS,
		})
	}
	r.Set("configs", summary)
	var oc []string
	for k := range outcomes {
		oc = append(oc, k)
	}
	sort.Strings(oc)
	if len(oc) > 12 {
		oc = oc[:12]
	}
	r.Set("finalization_outcomes_sample", oc)
	r.Set("distinct_finalization_outcomes", len(outcomes))
	r.Sanity(len(outcomes) > 1, "fewer than 2 distinct finalization outcomes: nothing interesting was reached")
	r.Sample(map[string]interface{}{"events": []string{"deliver <msg> to Vi", "timeout at Vi", "complete bm request at Vi", "crash+restart Vi"}, "outcomes": oc})
	r.Finish(exhaustive)
}

func tail(s string, n int) string {
	if len(s) > n {
		return s[len(s)-n:]
	}
	return s
}

// ---------------------------------------------------------------- base schedule B4: re-lock, crash, amnesia
//
// DESIGN.md Appendix A. n = 4, V3 Byzantine, proposers of rounds 0..3 are
// V1, V2, V3, V0. The schedule is an ordinary sequence of explorer events on
// real engines; it is a candidate counterexample to C01 and counts only if two
// real engines call Finalize with different block ids.
func scenarioRelockAmnesia(withCrash bool, crashAt, crashNode int) (*scenario, *explorer) {
	env := newCSEnv(4)
	correct := []int{0, 1, 2}
	x := newExplorer(env, correct, 3)
	for _, p := range correct {
		x.mt.nameBlock(x.honestBlock(p).ID(), fmt.Sprintf("B%d", p))
		x.mt.namePS(x.honestBlock(p).partSet().ID().Hash, fmt.Sprintf("B%d", p))
	}
	x.byzMenu(3, 3)
	sc := newScenario(x, 3, crashAt, crashNode)
	any := -2
	pv := func(to, signer int, r int32, blk string) { sc.send(to, msgPred{"prevote", signer, r, blk}) }
	pc := func(to, signer int, r int32, blk string) { sc.send(to, msgPred{"precommit", signer, r, blk}) }
	_ = any
	// --- round 0: V1 proposes B1
	sc.pump(1)
	for _, to := range []int{0, 2} {
		sc.send(to, msgPred{"proposal", 1, 0, "B1"})
		sc.send(to, msgPred{"part", -2, 0, "B1"})
	}
	sc.send(1, msgPred{"part", -2, 0, "B1"})
	// prevotes: V0 sees V0,V1,V3(B1) -> polka -> locks B1@0 and precommits B1
	pv(0, 1, 0, "B1")
	pv(0, 3, 0, "B1")
	// V1 and V2 see B1,B1,nil(V3): +2/3 without polka -> wait -> timeout -> precommit nil
	pv(1, 2, 0, "B1")
	pv(1, 3, 0, "nil")
	pv(2, 1, 0, "B1")
	pv(2, 3, 0, "nil")
	sc.timeout(1)
	sc.timeout(2)
	// precommits of round 0: V0:B1, V1:nil, V2:nil, V3:nil -> everybody moves to round 1
	for _, to := range []int{0, 1, 2} {
		for _, s := range []int{1, 2} {
			pc(to, s, 0, "nil")
		}
		pc(to, 3, 0, "nil")
	}
	// --- round 1: V2 proposes B2; V1,V2,V3 prevote B2 (a polka B2@1 exists), nobody is shown it
	sc.pump(2)
	for _, to := range []int{0, 1} {
		sc.send(to, msgPred{"proposal", 2, 1, "B2"})
		sc.send(to, msgPred{"part", -2, 0, "B2"})
	}
	sc.send(2, msgPred{"part", -2, 0, "B2"})
	sc.timeout(0) // V0 is locked on B1: propose timeout -> prevote B1
	pv(1, 2, 1, "B2")
	pv(1, 0, 1, "B1")
	pv(2, 1, 1, "B2")
	pv(2, 0, 1, "B1")
	pv(0, 1, 1, "B2")
	pv(0, 2, 1, "B2")
	for _, i := range []int{0, 1, 2} {
		sc.timeout(i) // prevote-wait timeout -> precommit nil
	}
	for _, to := range []int{0, 1, 2} {
		for _, s := range []int{0, 1, 2} {
			pc(to, s, 1, "nil")
		}
	}
	// --- round 2: V3 (Byzantine) re-proposes B1 with POL round 0 and shows the round-0 polka
	for _, to := range []int{1, 2} {
		pv(to, 0, 0, "B1")
		pv(to, 1, 0, "B1")
		pv(to, 2, 0, "B1")
		pv(to, 3, 0, "B1")
		sc.send(to, msgPred{"part", -2, 0, "B1"})
		sc.send(to, msgPred{"proposal", 3, 2, "B1"})
	}
	sc.timeout(0) // V0 (locked B1@0) prevotes B1 after the propose timeout
	// polka B1@2 is shown to V0 and V1
	pv(0, 1, 2, "B1")
	pv(0, 2, 2, "B1")
	pv(1, 0, 2, "B1")
	pv(1, 2, 2, "B1")
	// V2 is shown B1, B1, nil: no polka -> precommit nil
	pv(2, 0, 2, "B1")
	pv(2, 3, 2, "nil")
	sc.timeout(2)
	// V1 gets precommits B1 from V0, V1(own), V3 -> finalizes B1
	pc(1, 0, 2, "B1")
	pc(1, 3, 2, "B1")
	// --- V0 crashes and restarts: its lock WAL only knows the lock of round 0
	if withCrash {
		sc.crash(0)
	}
	// the round-1 polka for B2 is delivered to V0 now
	pv(0, 1, 1, "B2")
	pv(0, 2, 1, "B2")
	pv(0, 3, 1, "B2")
	// V0 is shown precommits of round 2: own B1, nil, nil -> wait -> timeout -> round 3
	pc(0, 2, 2, "nil")
	pc(0, 3, 2, "nil")
	sc.timeout(0)
	// V2 also moves to round 3
	pc(2, 0, 2, "B1")
	pc(2, 3, 2, "nil")
	sc.timeout(2)
	// --- round 3: V0 is proposer; if it is unlocked it proposes a fresh block
	sc.pump(0)
	sc.send(2, msgPred{"proposal", 0, 3, ""})
	sc.send(2, msgPred{"part", -2, 0, "B0"})
	sc.send(0, msgPred{"part", -2, 0, "B0"})
	pv(0, 2, 3, "B0")
	pv(2, 0, 3, "B0")
	pv(0, 3, 3, "B0")
	pv(2, 3, 3, "B0")
	pc(0, 2, 3, "B0")
	pc(2, 0, 3, "B0")
	pc(0, 3, 3, "B0")
	pc(2, 3, 3, "B0")
	return sc, x
}

// scenarioStalePolka (base schedule B5): V3 Byzantine. Round 0: every correct validator
// prevotes B1 but nobody is shown the polka (it stays hidden in the network); all
// precommit nil. Round 1: V0 and V1 see a polka for B2, lock B2@1 and precommit; V1
// finalizes B2 with V3's precommit; V0 and V2 time out into round 2. Round 2: the
// Byzantine proposer re-proposes B1 with POL round 0 and releases the genuine, delayed
// round-0 prevotes. A validator locked in round 1 must not be unlocked by that older
// polka; anything other than B2 finalized by V0 or V2 is a safety violation.
func scenarioStalePolka(crashAt, crashNode int) (*scenario, *explorer) {
	env := newCSEnv(4)
	correct := []int{0, 1, 2}
	x := newExplorer(env, correct, 3)
	for _, p := range correct {
		x.mt.nameBlock(x.honestBlock(p).ID(), fmt.Sprintf("B%d", p))
		x.mt.namePS(x.honestBlock(p).partSet().ID().Hash, fmt.Sprintf("B%d", p))
	}
	x.byzMenu(3, 3)
	sc := newScenario(x, 3, crashAt, crashNode)
	pv := func(to, signer int, r int32, blk string) { sc.send(to, msgPred{"prevote", signer, r, blk}) }
	pc := func(to, signer int, r int32, blk string) { sc.send(to, msgPred{"precommit", signer, r, blk}) }
	// round 0: hidden polka for B1
	sc.pump(1)
	for _, to := range []int{0, 2} {
		sc.send(to, msgPred{"proposal", 1, 0, "B1"})
		sc.send(to, msgPred{"part", -2, 0, "B1"})
	}
	sc.send(1, msgPred{"part", -2, 0, "B1"})
	pv(0, 1, 0, "B1")
	pv(0, 3, 0, "nil")
	pv(1, 2, 0, "B1")
	pv(1, 3, 0, "nil")
	pv(2, 0, 0, "B1")
	pv(2, 3, 0, "nil")
	for _, i := range []int{0, 1, 2} {
		sc.timeout(i)
	}
	for _, to := range []int{0, 1, 2} {
		for _, s := range []int{0, 1, 2} {
			pc(to, s, 0, "nil")
		}
	}
	// round 1: V2 proposes B2; V0 and V1 see the polka and lock B2@1, V2 does not
	sc.pump(2)
	for _, to := range []int{0, 1} {
		sc.send(to, msgPred{"proposal", 2, 1, "B2"})
		sc.send(to, msgPred{"part", -2, 0, "B2"})
	}
	sc.send(2, msgPred{"part", -2, 0, "B2"})
	pv(0, 1, 1, "B2")
	pv(0, 2, 1, "B2")
	pv(1, 0, 1, "B2")
	pv(1, 2, 1, "B2")
	pv(2, 0, 1, "B2")
	pv(2, 3, 1, "nil")
	sc.timeout(2)
	pc(1, 0, 1, "B2")
	pc(1, 3, 1, "B2") // V1 finalizes B2
	pc(0, 2, 1, "nil")
	pc(0, 3, 1, "nil")
	sc.timeout(0)
	pc(2, 0, 1, "B2")
	pc(2, 3, 1, "nil")
	sc.timeout(2)
	// round 2: Byzantine proposer re-proposes B1 with POL round 0 and releases the hidden polka
	for _, to := range []int{0, 2} {
		for _, s := range []int{0, 1, 2, 3} {
			pv(to, s, 0, "B1")
		}
		sc.send(to, msgPred{"part", -2, 0, "B1"})
		sc.send(to, msgPred{"proposal", 3, 2, "B1"})
		sc.timeout(to)
	}
	for _, blk := range []string{"B1", "B2"} {
		pv(0, 2, 2, blk)
		pv(2, 0, 2, blk)
	}
	pv(0, 3, 2, "B1")
	pv(2, 3, 2, "B1")
	for _, i := range []int{0, 2} {
		sc.timeout(i)
	}
	for _, blk := range []string{"B1", "B2", "nil"} {
		pc(0, 2, 2, blk)
		pc(2, 0, 2, blk)
	}
	pc(0, 3, 2, "B1")
	pc(2, 3, 2, "B1")
	return sc, x
}

// scenarioLateImport (base schedule B6): V3 Byzantine. Round 0: V1 proposes B1; V0 starts
// importing it and the import does not complete. V1 and V2 see a polka (with V3), lock B1
// and precommit it, nobody commits, they time out into round 1, where V2 (locked)
// re-proposes B1. The round-1 prevotes (B1, B1, nil) move V0 into round 1 - this cancels
// its import - and V0 prevotes nil. Then the re-proposal reaches V0, and finally the
// callback of the cancelled import fires (the block manager had already dispatched it).
// A validator must not cast a second prevote for round 1 because of that stale callback.
func scenarioLateImport(crashAt, crashNode int) (*scenario, *explorer) {
	env := newCSEnv(4)
	correct := []int{0, 1, 2}
	x := newExplorer(env, correct, 3)
	for _, p := range correct {
		x.mt.nameBlock(x.honestBlock(p).ID(), fmt.Sprintf("B%d", p))
		x.mt.namePS(x.honestBlock(p).partSet().ID().Hash, fmt.Sprintf("B%d", p))
	}
	x.byzMenu(3, 3)
	sc := newScenario(x, 3, crashAt, crashNode)
	sc.hold = map[int]bool{0: true}
	pv := func(to, signer int, r int32, blk string) { sc.send(to, msgPred{"prevote", signer, r, blk}) }
	pc := func(to, signer int, r int32, blk string) { sc.send(to, msgPred{"precommit", signer, r, blk}) }
	sc.pump(1)
	for _, to := range []int{0, 2} {
		sc.send(to, msgPred{"proposal", 1, 0, "B1"})
		sc.send(to, msgPred{"part", -2, 0, "B1"})
	}
	sc.send(1, msgPred{"part", -2, 0, "B1"})
	// V1, V2 see the polka B1@0 (with V3) and lock
	pv(1, 2, 0, "B1")
	pv(1, 3, 0, "B1")
	pv(2, 1, 0, "B1")
	pv(2, 3, 0, "B1")
	// precommits: B1, B1, nil(V3): no decision -> timeout -> round 1
	pc(1, 2, 0, "B1")
	pc(1, 3, 0, "nil")
	pc(2, 1, 0, "B1")
	pc(2, 3, 0, "nil")
	sc.timeout(1)
	sc.timeout(2)
	// round 1: V2 (locked on B1) re-proposes B1 with POL round 0
	sc.send(1, msgPred{"proposal", 2, 1, "B1"})
	sc.timeout(2) // the proposer itself prevotes (its locked block) at the propose timeout
	pv(1, 2, 1, "B1")
	pv(2, 1, 1, "B1")
	// V0 is moved into round 1 by +2/3 prevotes of round 1 (B1, B1, nil): its import is cancelled, it prevotes nil
	pv(0, 1, 1, "B1")
	pv(0, 2, 1, "B1")
	pv(0, 3, 1, "nil")
	// the re-proposal (with its proof-of-lock prevotes) reaches V0
	for _, s := range []int{1, 2, 3} {
		pv(0, s, 0, "B1")
	}
	sc.send(0, msgPred{"part", -2, 0, "B1"})
	sc.send(0, msgPred{"proposal", 2, 1, "B1"})
	// the stale callback of the cancelled round-0 import fires now
	sc.late(0, 0)
	sc.late(0, 1)
	return sc, x
}

func TestVerifC01Scenario(t *testing.T) {
	{
		sc, _ := scenarioLateImport(0, 0)
		fins, distinct := sc.result()
		fmt.Printf("=== late import scenario: finalized=%v distinct=%d steps=%d equiv=%q\n", fins, distinct, sc.stepNo, sc.nodes[0].equivocated)
		if os.Getenv("VERIF_DEBUG") != "" {
			for _, l := range sc.log {
				fmt.Println("  ", l)
			}
		}
	}
	{
		sc, _ := scenarioStalePolka(0, 0)
		fins, distinct := sc.result()
		fmt.Printf("=== stale polka scenario: finalized=%v distinct=%d steps=%d\n", fins, distinct, sc.stepNo)
		if os.Getenv("VERIF_DEBUG") != "" {
			for _, l := range sc.log {
				fmt.Println("  ", l)
			}
		}
	}
	{
		sc, _ := scenarioSyncAfterValidatedProposal(0, 0)
		fins, distinct := sc.result()
		fmt.Printf("=== sync-after-validated-proposal scenario: finalized=%v distinct=%d steps=%d\n", fins, distinct, sc.stepNo)
		if os.Getenv("VERIF_DEBUG") != "" {
			for _, l := range sc.log {
				fmt.Println("  ", l)
			}
		}
	}
	for _, crash := range []bool{false, true} {
		sc, _ := scenarioStaleHeightRecords(crash, 0, 0)
		fins, distinct := sc.result()
		fmt.Printf("=== stale-height-records scenario withCrash=%v: finalized=%v distinct=%d steps=%d\n", crash, fins, distinct, sc.stepNo)
		if os.Getenv("VERIF_DEBUG") != "" {
			for _, l := range sc.log {
				fmt.Println("  ", l)
			}
		}
	}
	for _, crash := range []bool{false, true} {
		sc, _ := scenarioHeight2Amnesia(crash, 0, 0)
		fins, distinct := sc.result()
		fmt.Printf("=== height-2 amnesia scenario withCrash=%v: finalized=%v distinct=%d steps=%d\n", crash, fins, distinct, sc.stepNo)
		if os.Getenv("VERIF_DEBUG") != "" {
			if w := sc.nodes[0].mwal; w != nil {
				for _, rec := range w.synced["lock"] {
					if m, err := UnmarshalMessage(binary.BigEndian.Uint16(rec[:2]), rec[2:]); err == nil {
						fmt.Printf("   V0 lock WAL: %T %v\n", m, m)
					}
				}
			}
			for _, l := range sc.log {
				fmt.Println("  ", l)
			}
		}
	}
	for _, crash := range []bool{false, true} {
		sc, _ := scenarioRelockAmnesia(crash, 0, 0)
		fins, distinct := sc.result()
		fmt.Printf("=== relock scenario withCrash=%v: finalized=%v distinct=%d steps=%d\n", crash, fins, distinct, sc.stepNo)
		if os.Getenv("VERIF_DEBUG") != "" {
			for _, l := range sc.log {
				fmt.Println("  ", l)
			}
		}
	}
}

// byzMenuAt interns Byzantine validator b's votes (both types, rounds 0..R) at the given
// height for nil and for each named block, and its proposals + block parts for the blocks
// listed in propose (round -> block name, pol -1). Blocks must be named before.
func (x *explorer) byzMenuAt(b int, height int64, R int32, vals map[string]*fBlock, propose map[int32]string) {
	w := x.env.wallets[b]
	nilID := codec.MustMarshalToBytes(1)
	ts := x.env.blockTS(b, int(height)) + 500
	var names []string
	for name := range vals {
		names = append(names, name)
	}
	sort.Strings(names)
	for r := int32(0); r <= R; r++ {
		if name, ok := propose[r]; ok {
			ps := vals[name].partSet()
			pm := NewProposalMessage()
			pm.Height, pm.Round, pm.BlockPartSetID, pm.POLRound = height, r, ps.ID(), -1
			if err := pm.Sign(w); err != nil {
				panic(err)
			}
			x.mt.intern(uint16(ProtoProposal), msgCodec.MustMarshalToBytes(pm))
			bp := newBlockPartMessage()
			bp.Height, bp.Index, bp.BlockPart, bp.Nonce = height, 0, ps.GetPart(0).Bytes(), r
			x.mt.intern(uint16(ProtoBlockPart), msgCodec.MustMarshalToBytes(bp))
		}
		for _, vt := range []VoteType{VoteTypePrevote, VoteTypePrecommit} {
			vm := NewVoteMessage(w, vt, height, r, nilID, nil, ts, nil, nil, 0)
			x.mt.intern(uint16(ProtoVote), msgCodec.MustMarshalToBytes(vm))
			for _, name := range names {
				v := vals[name]
				vm := NewVoteMessage(w, vt, height, r, v.ID(), v.partSet().ID(), ts, nil, nil, 0)
				x.mt.intern(uint16(ProtoVote), msgCodec.MustMarshalToBytes(vm))
			}
		}
	}
}

// ---------------------------------------------------------------- base schedule B7: lock, crash, amnesia at HEIGHT 2
//
// n = 4, V3 Byzantine (silent at height 1). Height 1 is decided synchronously in round 0
// (every correct validator locks B1 and writes its lock record). Height 2: proposers of rounds
// 0, 1 are V2, V3. Round 0: V2 proposes C; V0 and V2 see the polka, lock C and precommit C; V2
// is also shown V3's precommit and FINALIZES C; V1 sees no polka and precommits nil; V0 and V1
// time out into round 1. V0 crashes and restarts - its write-ahead logs hold the records of both
// heights. Round 1: V3 proposes its own block X2 and prevotes/precommits it. A validator that
// still holds its lock prevotes C and X2 gets no polka; one that lost it prevotes X2, and V0 and V1
// finalize X2 at a height where V2 finalized C.
func scenarioHeight2Amnesia(withCrash bool, crashAt, crashNode int) (*scenario, *explorer) {
	env := newCSEnv(4)
	correct := []int{0, 1, 2}
	x := newExplorer(env, correct, 3)
	x.maxHeight = 2
	for _, p := range correct {
		x.mt.nameBlock(x.honestBlock(p).ID(), fmt.Sprintf("B%d", p))
		x.mt.namePS(x.honestBlock(p).partSet().ID().Hash, fmt.Sprintf("B%d", p))
	}
	b1 := x.honestBlock(1)
	c := newFBlock(fBlockHeader{Height: 2, PrevID: b1.ID(), Proposer: env.wallets[2].Address().Bytes(),
		Timestamp: env.blockTS(2, 1), Tag: "n2.p1"}, env.vl)
	x2 := newFBlock(fBlockHeader{Height: 2, PrevID: b1.ID(), Proposer: env.wallets[3].Address().Bytes(),
		Timestamp: env.blockTS(3, 2), Tag: "byzX2"}, env.vl)
	for name, blk := range map[string]*fBlock{"C": c, "X2": x2} {
		x.mt.nameBlock(blk.ID(), name)
		x.mt.namePS(blk.partSet().ID().Hash, name)
		x.mt.registerBlock(name, blk)
	}
	x.byzMenuAt(3, 2, 1, map[string]*fBlock{"C": c, "X2": x2}, map[int32]string{1: "X2"})
	sc := newScenario(x, 3, crashAt, crashNode)
	pv := func(to, signer int, h int64, r int32, blk string) {
		sc.h = h
		sc.send(to, msgPred{"prevote", signer, r, blk})
	}
	pc := func(to, signer int, h int64, r int32, blk string) {
		sc.h = h
		sc.send(to, msgPred{"precommit", signer, r, blk})
	}
	// --- height 1, round 0: V1 proposes B1, everybody sees everything
	sc.pump(1)
	for _, to := range []int{0, 2} {
		sc.send(to, msgPred{"proposal", 1, 0, "B1"})
		sc.send(to, msgPred{"part", -2, 0, "B1"})
	}
	sc.send(1, msgPred{"part", -2, 0, "B1"})
	for _, to := range []int{0, 1, 2} {
		for _, s := range []int{0, 1, 2} {
			pv(to, s, 1, 0, "B1")
		}
	}
	for _, to := range []int{0, 1, 2} {
		for _, s := range []int{0, 1, 2} {
			pc(to, s, 1, 0, "B1")
		}
	}
	// --- height 2: the new-height wait of everybody ends; V2 proposes C
	sc.h = 2
	for _, i := range []int{0, 1, 2} {
		sc.timeout(i)
	}
	sc.pump(2)
	for _, to := range []int{0, 1} {
		sc.send(to, msgPred{"proposal", 2, 0, "C"})
		sc.send(to, msgPred{"part", -2, 0, "C"})
	}
	sc.send(2, msgPred{"part", -2, 0, "C"})
	// V0 and V2 are shown the polka for C, V1 is shown C, C, nil
	pv(0, 2, 2, 0, "C")
	pv(0, 3, 2, 0, "C")
	pv(2, 0, 2, 0, "C")
	pv(2, 3, 2, 0, "C")
	pv(1, 2, 2, 0, "C")
	pv(1, 3, 2, 0, "nil")
	sc.timeout(1) // prevote wait -> precommit nil
	// V2 collects precommits C from V0 and V3 -> finalizes C
	pc(2, 0, 2, 0, "C")
	pc(2, 3, 2, 0, "C")
	// V0 and V1 see own, nil, nil / C, nil, nil -> precommit wait -> round 1
	pc(0, 1, 2, 0, "nil")
	pc(0, 3, 2, 0, "nil")
	pc(1, 0, 2, 0, "C")
	pc(1, 3, 2, 0, "nil")
	sc.timeout(0)
	sc.timeout(1)
	if withCrash {
		sc.crash(0)
	}
	// a restarted V0 is back in round 0 (its own precommit is the last thing it remembers)
	for k := 0; k < 3 && !sc.nodes[0].dead() && sc.nodes[0].cs.height == 2 && sc.nodes[0].cs.round < 1; k++ {
		pc(0, 1, 2, 0, "nil")
		pc(0, 3, 2, 0, "nil")
		sc.timeout(0)
	}
	// --- round 1: V3 proposes X2 and votes for it
	for _, to := range []int{0, 1} {
		sc.send(to, msgPred{"proposal", 3, 1, "X2"})
		sc.send(to, msgPred{"part", -2, 0, "X2"})
	}
	sc.timeout(0) // a locked V0 waits for the propose timeout only if the proposal did not complete; harmless otherwise
	for _, to := range []int{0, 1} {
		for _, s := range []int{0, 1} {
			pv(to, s, 2, 1, "")
		}
		pv(to, 3, 2, 1, "X2")
	}
	for _, to := range []int{0, 1} {
		for _, s := range []int{0, 1} {
			pc(to, s, 2, 1, "")
		}
		pc(to, 3, 2, 1, "X2")
	}
	return sc, x
}

// ---------------------------------------------------------------- base schedule B8: stale lock records of an older height
//
// Like B7, but height 1 is decided in ROUND 1 (round 0 fails: nobody but the proposer sees the
// proposal), so every correct validator's lock WAL holds a lock record of (height 1, round 1).
// Height 2: V2 proposes C in round 0; V0 and V2 lock C, V2 finalizes C with the Byzantine
// precommit; V0 and V1 move on; V0 crashes and restarts. Round 1 (Byzantine proposer, silent)
// ends with nil precommits. Round 2: V0 is the proposer - a validator that still holds its lock
// re-proposes C; one that lost it (e.g. because records of height 1 were taken for a polka of
// height 2, round 1) proposes a new block D, the Byzantine validator votes for D, and V0 and V1
// finalize D at a height where V2 finalized C.
func scenarioStaleHeightRecords(withCrash bool, crashAt, crashNode int) (*scenario, *explorer) {
	env := newCSEnv(4)
	correct := []int{0, 1, 2}
	x := newExplorer(env, correct, 3)
	x.maxHeight = 2
	for _, p := range correct {
		x.mt.nameBlock(x.honestBlock(p).ID(), fmt.Sprintf("B%d", p))
		x.mt.namePS(x.honestBlock(p).partSet().ID().Hash, fmt.Sprintf("B%d", p))
	}
	b2 := x.honestBlock(2)
	c := newFBlock(fBlockHeader{Height: 2, PrevID: b2.ID(), Proposer: env.wallets[2].Address().Bytes(),
		Timestamp: env.blockTS(2, 2), Tag: "n2.p2"}, env.vl)
	d := newFBlock(fBlockHeader{Height: 2, PrevID: b2.ID(), Proposer: env.wallets[0].Address().Bytes(),
		Timestamp: env.blockTS(0, 1), Tag: "n0.p1"}, env.vl)
	for name, blk := range map[string]*fBlock{"C": c, "D": d} {
		x.mt.nameBlock(blk.ID(), name)
		x.mt.namePS(blk.partSet().ID().Hash, name)
		x.mt.registerBlock(name, blk)
	}
	x.byzMenuAt(3, 2, 2, map[string]*fBlock{"C": c, "D": d}, nil)
	sc := newScenario(x, 3, crashAt, crashNode)
	pv := func(to, signer int, h int64, r int32, blk string) {
		sc.h = h
		sc.send(to, msgPred{"prevote", signer, r, blk})
	}
	pc := func(to, signer int, h int64, r int32, blk string) {
		sc.h = h
		sc.send(to, msgPred{"precommit", signer, r, blk})
	}
	// --- height 1, round 0: V1 proposes B1 but the proposal reaches nobody
	sc.pump(1)
	sc.send(1, msgPred{"part", -2, 0, "B1"})
	sc.timeout(0) // propose timeout -> prevote nil
	sc.timeout(2)
	for _, to := range []int{0, 1, 2} {
		for _, s := range []int{0, 1, 2} {
			pv(to, s, 1, 0, "")
		}
	}
	for _, i := range []int{0, 1, 2} {
		if sc.nodes[i].cs.step == stepPrevoteWait {
			sc.timeout(i)
		}
	}
	for _, to := range []int{0, 1, 2} {
		for _, s := range []int{0, 1, 2} {
			pc(to, s, 1, 0, "")
		}
	}
	for _, i := range []int{0, 1, 2} {
		if sc.nodes[i].cs.round == 0 {
			sc.timeout(i) // precommit wait -> round 1
		}
	}
	// --- height 1, round 1: V2 proposes B2, everybody sees everything, locks B2@1 and commits it
	sc.pump(2)
	for _, to := range []int{0, 1} {
		sc.send(to, msgPred{"proposal", 2, 1, "B2"})
		sc.send(to, msgPred{"part", -2, 0, "B2"})
	}
	sc.send(2, msgPred{"part", -2, 0, "B2"})
	for _, to := range []int{0, 1, 2} {
		for _, s := range []int{0, 1, 2} {
			pv(to, s, 1, 1, "B2")
		}
	}
	for _, to := range []int{0, 1, 2} {
		for _, s := range []int{0, 1, 2} {
			pc(to, s, 1, 1, "B2")
		}
	}
	// --- height 2, round 0: V2 proposes C
	sc.h = 2
	for _, i := range []int{0, 1, 2} {
		sc.timeout(i)
	}
	sc.pump(2)
	for _, to := range []int{0, 1} {
		sc.send(to, msgPred{"proposal", 2, 0, "C"})
		sc.send(to, msgPred{"part", -2, 0, "C"})
	}
	sc.send(2, msgPred{"part", -2, 0, "C"})
	pv(0, 2, 2, 0, "C")
	pv(0, 3, 2, 0, "C")
	pv(2, 0, 2, 0, "C")
	pv(2, 3, 2, 0, "C")
	pv(1, 2, 2, 0, "C")
	pv(1, 3, 2, 0, "nil")
	sc.timeout(1)
	pc(2, 0, 2, 0, "C")
	pc(2, 3, 2, 0, "C") // V2 finalizes C
	pc(0, 1, 2, 0, "nil")
	pc(0, 3, 2, 0, "nil")
	pc(1, 0, 2, 0, "C")
	pc(1, 3, 2, 0, "nil")
	sc.timeout(0)
	sc.timeout(1)
	if withCrash {
		sc.crash(0)
	}
	for k := 0; k < 3 && !sc.nodes[0].dead() && sc.nodes[0].cs.height == 2 && sc.nodes[0].cs.round < 1; k++ {
		pc(0, 1, 2, 0, "nil")
		pc(0, 3, 2, 0, "nil")
		sc.timeout(0)
	}
	// --- round 1: the Byzantine proposer is silent; propose timeouts, prevotes, nil precommits
	sc.timeout(0)
	sc.timeout(1)
	pv(0, 1, 2, 1, "")
	pv(0, 3, 2, 1, "nil")
	pv(1, 0, 2, 1, "")
	pv(1, 3, 2, 1, "nil")
	for _, i := range []int{0, 1} {
		if !sc.nodes[i].dead() && sc.nodes[i].cs.step == stepPrevoteWait {
			sc.timeout(i)
		}
	}
	for _, to := range []int{0, 1} {
		for _, s := range []int{0, 1} {
			pc(to, s, 2, 1, "")
		}
		pc(to, 3, 2, 1, "nil")
	}
	for _, i := range []int{0, 1} {
		if !sc.nodes[i].dead() && sc.nodes[i].cs.height == 2 && sc.nodes[i].cs.round == 1 {
			sc.timeout(i)
		}
	}
	// --- round 2: V0 proposes (C again if it still holds its lock)
	sc.pump(0)
	sc.send(1, msgPred{"proposal", 0, 2, ""})
	sc.send(1, msgPred{"part", -2, 0, "C"})
	sc.send(1, msgPred{"part", -2, 0, "D"})
	// V1 is shown the round-0 polka for C (so that it can accept a re-proposal of C)
	pv(1, 0, 2, 0, "C")
	sc.timeout(1)
	for _, to := range []int{0, 1} {
		for _, s := range []int{0, 1} {
			pv(to, s, 2, 2, "")
		}
		pv(to, 3, 2, 2, "D")
	}
	for _, to := range []int{0, 1} {
		for _, s := range []int{0, 1} {
			pc(to, s, 2, 2, "")
		}
		pc(to, 3, 2, 2, "D")
	}
	return sc, x
}

// ---------------------------------------------------------------- base schedule B9: block sync after a validated proposal
//
// n = 4, V3 Byzantine. Round 0: V1 proposes B1; V0 receives, validates and prevotes it, then is
// cut off. V1, V2 see B1, B1, nil: no polka, nil precommits, round 1. Round 1: V2 proposes B2; V1,
// V2, V3 prevote and precommit B2; V1 and V2 finalize B2. V0 (still in round 0, holding the
// validated B1 in its current block parts) is handed the decided block by block sync: B2 with the
// round-1 commit votes of V1, V2, V3. It has to finalize B2 - the block the certificate is for.
func scenarioSyncAfterValidatedProposal(crashAt, crashNode int) (*scenario, *explorer) {
	env := newCSEnv(4)
	correct := []int{0, 1, 2}
	x := newExplorer(env, correct, 3)
	for _, p := range correct {
		x.mt.nameBlock(x.honestBlock(p).ID(), fmt.Sprintf("B%d", p))
		x.mt.namePS(x.honestBlock(p).partSet().ID().Hash, fmt.Sprintf("B%d", p))
	}
	x.byzMenu(3, 3)
	sc := newScenario(x, 3, crashAt, crashNode)
	pv := func(to, signer int, r int32, blk string) { sc.send(to, msgPred{"prevote", signer, r, blk}) }
	pc := func(to, signer int, r int32, blk string) { sc.send(to, msgPred{"precommit", signer, r, blk}) }
	// --- round 0: everybody gets V1's proposal B1 and validates it
	sc.pump(1)
	for _, to := range []int{0, 2} {
		sc.send(to, msgPred{"proposal", 1, 0, "B1"})
		sc.send(to, msgPred{"part", -2, 0, "B1"})
	}
	sc.send(1, msgPred{"part", -2, 0, "B1"})
	// V0 is cut off from here on. V1 and V2 are shown B1, B1, nil (V3): no polka
	pv(1, 2, 0, "B1")
	pv(1, 3, 0, "nil")
	pv(2, 1, 0, "B1")
	pv(2, 3, 0, "nil")
	sc.timeout(1)
	sc.timeout(2)
	for _, to := range []int{1, 2} {
		for _, s := range []int{1, 2} {
			pc(to, s, 0, "nil")
		}
		pc(to, 3, 0, "nil")
	}
	// --- round 1: V2 proposes B2; V1, V2, V3 decide it
	sc.pump(2)
	sc.send(1, msgPred{"proposal", 2, 1, "B2"})
	sc.send(1, msgPred{"part", -2, 0, "B2"})
	sc.send(2, msgPred{"part", -2, 0, "B2"})
	pv(1, 2, 1, "B2")
	pv(1, 3, 1, "B2")
	pv(2, 1, 1, "B2")
	pv(2, 3, 1, "B2")
	pc(1, 2, 1, "B2")
	pc(1, 3, 1, "B2")
	pc(2, 1, 1, "B2")
	pc(2, 3, 1, "B2")
	// --- V0 learns the decision through block sync
	x.mt.registerBlock("B2", x.honestBlock(2))
	sc.blockResult(0, brDesc{block: "B2", round: 1, mask: 0b1110})
	return sc, x
}

// runBaseWorker executes the directed base schedules on real engines: B4 (re-lock, crash,
// amnesia) and B5 (stale polka) as designed, and each of them with one crash+restart of
// each correct node inserted before each of its steps. It reports in the same form as a
// search configuration (one "state" per scenario run).
func runBaseWorker(cfg c01Config) *c01Result {
	t0 := time.Now()
	deadline := t0.Add(time.Duration(cfg.BudgetS) * time.Second)
	out := &c01Result{Config: cfg, Finals: map[string]int{}, Complete: true}
	type variant struct {
		name               string
		withCrash          bool
		crashAt, crashNode int
	}
	base, _ := scenarioRelockAmnesia(false, 0, 0)
	vs := []variant{{"B4-relock-nocrash", false, 0, 0}, {"B4-relock-crashV0-after-relock", true, 0, 0}, {"B5-stalepolka-nocrash", false, 0, 0}}
	base5, _ := scenarioStalePolka(0, 0)
	base6, _ := scenarioLateImport(0, 0)
	vs = append(vs, variant{"B6-lateimport-nocrash", false, 0, 0})
	base7, _ := scenarioHeight2Amnesia(false, 0, 0)
	vs = append(vs, variant{"B7-h2amnesia-nocrash", false, 0, 0}, variant{"B7-h2amnesia-crashV0-after-lock", true, 0, 0})
	base9, _ := scenarioSyncAfterValidatedProposal(0, 0)
	vs = append(vs, variant{"B9-syncaftervalidated-nocrash", false, 0, 0})
	base8, _ := scenarioStaleHeightRecords(false, 0, 0)
	vs = append(vs, variant{"B8-stalerecords-nocrash", false, 0, 0}, variant{"B8-stalerecords-crashV0-after-lock", true, 0, 0})
	for node := 0; node < 3; node++ {
		for at := 1; at <= base6.stepNo; at++ {
			vs = append(vs, variant{fmt.Sprintf("B6-lateimport-crashV%d-before-step%d", node, at), false, at, node})
		}
		for at := 1; at <= base.stepNo; at++ {
			vs = append(vs, variant{fmt.Sprintf("B4-relock-crashV%d-before-step%d", node, at), false, at, node})
		}
		for at := 1; at <= base7.stepNo; at++ {
			vs = append(vs, variant{fmt.Sprintf("B7-h2amnesia-crashV%d-before-step%d", node, at), false, at, node})
		}
		for at := 1; at <= base9.stepNo; at++ {
			vs = append(vs, variant{fmt.Sprintf("B9-syncaftervalidated-crashV%d-before-step%d", node, at), false, at, node})
		}
		for at := 1; at <= base8.stepNo; at++ {
			vs = append(vs, variant{fmt.Sprintf("B8-stalerecords-crashV%d-before-step%d", node, at), false, at, node})
		}
		for at := 1; at <= base5.stepNo; at++ {
			vs = append(vs, variant{fmt.Sprintf("B5-stalepolka-crashV%d-before-step%d", node, at), false, at, node})
		}
	}
	seenSig := map[string]bool{}
	for _, v := range vs {
		if time.Now().After(deadline) {
			out.Complete, out.CapHit = false, "wall-clock budget"
			break
		}
		var sc *scenario
		if strings.HasPrefix(v.name, "B5") {
			sc, _ = scenarioStalePolka(v.crashAt, v.crashNode)
		} else if strings.HasPrefix(v.name, "B6") {
			sc, _ = scenarioLateImport(v.crashAt, v.crashNode)
		} else if strings.HasPrefix(v.name, "B7") {
			sc, _ = scenarioHeight2Amnesia(v.withCrash, v.crashAt, v.crashNode)
		} else if strings.HasPrefix(v.name, "B9") {
			sc, _ = scenarioSyncAfterValidatedProposal(v.crashAt, v.crashNode)
		} else if strings.HasPrefix(v.name, "B8") {
			sc, _ = scenarioStaleHeightRecords(v.withCrash, v.crashAt, v.crashNode)
		} else {
			sc, _ = scenarioRelockAmnesia(v.withCrash, v.crashAt, v.crashNode)
		}
		out.States++
		out.Transitions += len(sc.trace)
		out.EngineSteps += len(sc.trace)
		out.Rebuilds++
		out.Executions++
		fins, _ := sc.result()
		key := v.name[:2] + ":"
		for _, i := range []int{0, 1, 2} {
			if f, ok := fins[i]; ok {
				key += fmt.Sprintf("V%d=%s ", i, sc.finNames(f))
			}
		}
		out.Finals[key]++
		for i, n := range sc.nodes {
			if n.restarts > 0 {
				out.RestartStates++
				if n.resigned > 0 {
					out.ResignedAfterRestart++
					out.RestartKeys = append(out.RestartKeys, fmt.Sprintf("%s/V%d", v.name, i))
				}
			}
		}
		sig, detail := sc.verdict()
		if sig == "" {
			for i, n := range sc.nodes {
				if n.equivocated != "" {
					sig, detail = "equivocation", fmt.Sprintf("correct validator V%d equivocated: %s", i, n.equivocated)
				} else if n.notDurable != "" {
					sig, detail = "sent-before-durable", fmt.Sprintf("correct validator V%d: %s", i, n.notDurable)
				}
			}
		}
		if sig == "" || seenSig[sig+v.name[:2]] {
			continue
		}
		seenSig[sig+v.name[:2]] = true
		ok := true
		for k := 0; k < 5; k++ {
			f2, p2, c2, e2 := replayTraceFull(newCSEnv(4), []int{0, 1, 2}, sc.trace, nil)
			if !violationHoldsFull(sig, f2, p2, c2, e2) {
				ok = false
			}
		}
		tr := make([]gEvent, len(sc.trace))
		copy(tr, sc.trace)
		for i := range tr {
			if i < len(sc.log) {
				_ = i
			}
		}
		out.Violations = append(out.Violations, gViolation{Sig: sig, Detail: detail + "\nbase schedule " + v.name + " (V3 Byzantine)", Trace: tr})
		out.Confirmed = append(out.Confirmed, ok)
	}
	out.WallS = time.Since(t0).Seconds()
	return out
}
