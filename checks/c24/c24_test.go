//go:build verif

package common

import (
	"bytes"
	"encoding/json"
	"fmt"
	"math"
	"math/big"
	"sort"
	"testing"

	"github.com/icon-project/goloop/common/codec"
	"github.com/icon-project/goloop/common/intconv"
	"github.com/icon-project/goloop/verifshim/ev"
	"github.com/icon-project/goloop/verifshim/hist"
)

// refSigned returns the minimal two's-complement big-endian encoding of v
// (independent of intconv: built from the full-width form by stripping
// redundant sign bytes).
func refSigned(v *big.Int) []byte {
	// width: enough bytes to hold v in two's complement
	n := v.BitLen()/8 + 2
	mod := new(big.Int).Lsh(big.NewInt(1), uint(8*n))
	t := new(big.Int).Set(v)
	if t.Sign() < 0 {
		t.Add(t, mod)
	}
	raw := t.Bytes()
	full := make([]byte, n)
	copy(full[n-len(raw):], raw)
	for len(full) > 1 {
		if full[0] == 0x00 && full[1]&0x80 == 0 {
			full = full[1:]
		} else if full[0] == 0xff && full[1]&0x80 != 0 {
			full = full[1:]
		} else {
			break
		}
	}
	return full
}

func c24Int64Values() []int64 {
	m := map[int64]struct{}{}
	for v := int64(-(1 << 17)); v <= 1<<17; v++ {
		m[v] = struct{}{}
	}
	for k := uint(0); k <= 63; k++ {
		for d := int64(-2); d <= 2; d++ {
			var base uint64 = 1 << k
			m[int64(base)+d] = struct{}{}
			m[-int64(base)+d] = struct{}{}
			m[int64(base+uint64(d))] = struct{}{}
		}
	}
	pats := []byte{0x00, 0x01, 0x7f, 0x80, 0xff}
	for _, a := range pats {
		for _, b := range pats {
			for cut := 0; cut <= 8; cut++ {
				var u uint64
				for i := 0; i < 8; i++ {
					x := a
					if i >= cut {
						x = b
					}
					u = u<<8 | uint64(x)
				}
				m[int64(u)] = struct{}{}
			}
		}
	}
	m[math.MaxInt64] = struct{}{}
	m[math.MinInt64] = struct{}{}
	out := make([]int64, 0, len(m))
	for v := range m {
		out = append(out, v)
	}
	sort.Slice(out, func(i, j int) bool { return out[i] < out[j] })
	return out
}

// ---------------------------------------------------------------------------
// History family: the result of a conversion must not depend on the calls made
// before it (pooled temporaries, package-level scratch values, lazy tables).
// ---------------------------------------------------------------------------

func c24HistoryCalls(thorough bool) []hist.Call {
	var calls []hist.Call
	add := func(class, name string, want string, hasWant bool, run func() string) {
		calls = append(calls, hist.Call{Name: name, Class: class, Run: func() string {
			var res string
			if p := ev.Catch(func() { res = run() }); p != "" {
				return "panic:" + p
			}
			return res
		}, Want: want, HasWant: hasWant})
	}
	ks := []uint{0, 7, 8, 15, 16, 31, 63, 64, 65, 71, 72, 79, 127, 128, 255, 256, 520}
	if thorough {
		ks = append(ks, 1, 6, 23, 24, 32, 39, 40, 47, 48, 55, 56, 62, 80, 87, 88, 135, 136, 264, 519)
	}
	seen := map[string]bool{}
	for _, k := range ks {
		for d := int64(-1); d <= 1; d++ {
			for _, sgn := range []int64{1, -1} {
				v := new(big.Int).Lsh(big.NewInt(1), k)
				v.Add(v, big.NewInt(d))
				v.Mul(v, big.NewInt(sgn))
				vs := v.String()
				if seen[vs] {
					continue
				}
				seen[vs] = true
				ref := refSigned(v)
				cls := "positive"
				if v.Sign() < 0 {
					cls = "negative"
				}
				if len(ref) > 8 {
					cls += "-wide"
				}
				ext := byte(0)
				if v.Sign() < 0 {
					ext = 0xff
				}
				nonMin := append([]byte{ext, ext}, ref...)
				add("BigIntSetBytes-"+cls, fmt.Sprintf("BigIntSetBytes(%x)", ref), vs, true, func() string {
					var x big.Int
					return intconv.BigIntSetBytes(&x, ref).String()
				})
				add("BigIntSetBytes-"+cls, fmt.Sprintf("BigIntSetBytes(%x)", nonMin), vs, true, func() string {
					var x big.Int
					return intconv.BigIntSetBytes(&x, nonMin).String()
				})
				add("BigIntToBytes-"+cls, "BigIntToBytes("+vs+")", fmt.Sprintf("%x", ref), true, func() string {
					return fmt.Sprintf("%x", intconv.BigIntToBytes(v))
				})
				add("FormatParseBigInt-"+cls, "ParseBigInt(FormatBigInt("+vs+"))", vs, true, func() string {
					var x big.Int
					if err := intconv.ParseBigInt(&x, intconv.FormatBigInt(v)); err != nil {
						return "err"
					}
					return x.String()
				})
				add("HexInt-json-"+cls, "HexInt-json("+vs+")", vs, true, func() string {
					var hi, back HexInt
					hi.Set(v)
					js, err := json.Marshal(&hi)
					if err != nil || json.Unmarshal(js, &back) != nil {
						return "err"
					}
					return back.Value().String()
				})
				add("HexInt-rlp-"+cls, "HexInt-rlp("+vs+")", vs, true, func() string {
					var hi, back HexInt
					hi.Set(v)
					bs, err := codec.BC.MarshalToBytes(&hi)
					if err != nil {
						return "err"
					}
					if _, err := codec.BC.UnmarshalFromBytes(bs, &back); err != nil {
						return "err"
					}
					return back.Value().String()
				})
				if v.IsInt64() {
					i := v.Int64()
					add("Int64-"+cls, fmt.Sprintf("Int64ToBytes/SafeBytesToInt64/FormatInt/ParseInt(%d)", i), fmt.Sprintf("%x|%d|%d", ref, i, i), true, func() string {
						b := intconv.Int64ToBytes(i)
						back, ok := intconv.SafeBytesToInt64(b)
						if !ok {
							return "not-ok"
						}
						p, err := intconv.ParseInt(intconv.FormatInt(i), 64)
						if err != nil {
							return "err"
						}
						return fmt.Sprintf("%x|%d|%d", b, back, p)
					})
				}
			}
		}
	}
	// failing inputs: no independent expectation, the result must be the same after every history
	for _, str := range []string{"", "-", "0x", "0xzz", "-0x", "zz", "0x-1", " 0x1", "0x1 "} {
		str := str
		add("ParseBigInt-invalid", fmt.Sprintf("ParseBigInt(%q)", str), "", false, func() string {
			var x big.Int
			x.SetInt64(12345)
			if err := intconv.ParseBigInt(&x, str); err != nil {
				return "err"
			}
			return "ok:" + x.String()
		})
	}
	for _, str := range []string{"0x10000000000000000", "0x8000000000000000", "-0x8000000000000001", "zz", ""} {
		str := str
		add("ParseInt-invalid", fmt.Sprintf("ParseInt(%q,64)", str), "", false, func() string {
			if v, err := intconv.ParseInt(str, 64); err == nil {
				return fmt.Sprintf("ok:%d", v)
			}
			return "err"
		})
	}
	for _, b := range [][]byte{{0x00, 0x80, 0, 0, 0, 0, 0, 0, 0}, {0xff, 0x7f, 0xff, 0xff, 0xff, 0xff, 0xff, 0xff, 0xff}, bytes.Repeat([]byte{0xff}, 9), bytes.Repeat([]byte{0x01}, 20)} {
		b := b
		add("SafeBytesToInt64-overflow", fmt.Sprintf("SafeBytesToInt64(%x)", b), "", false, func() string {
			v, ok := intconv.SafeBytesToInt64(b)
			return fmt.Sprintf("%d,%v", v, ok)
		})
		add("SafeBytesToUint64-overflow", fmt.Sprintf("SafeBytesToUint64(%x)", b), "", false, func() string {
			v, ok := intconv.SafeBytesToUint64(b)
			return fmt.Sprintf("%d,%v", v, ok)
		})
	}
	for _, js := range []string{`"zz"`, `""`, `123`, `"0x"`, `null`, `{`, `"-0xff"`} {
		js := js
		add("HexInt-json-invalid", "HexInt-json-decode("+js+")", "", false, func() string {
			var h HexInt
			if err := json.Unmarshal([]byte(js), &h); err != nil {
				return "err"
			}
			return "ok:" + h.Value().String()
		})
	}
	for _, bs := range [][]byte{{0xc0}, {0xf8, 0x00}, {0x82, 0x01}, {0xb8}, {}, {0xc1, 0x01}} {
		bs := bs
		add("HexInt-rlp-invalid", fmt.Sprintf("HexInt-rlp-decode(%x)", bs), "", false, func() string {
			var h HexInt
			if _, err := codec.BC.UnmarshalFromBytes(bs, &h); err != nil {
				return "err"
			}
			return "ok:" + h.Value().String()
		})
	}
	return calls
}

type c24HistCase struct {
	History  []string `json:"history"`
	Expected string   `json:"expected"`
}

func c24History(r *ev.Run) bool {
	calls := c24HistoryCalls(r.Thorough())
	var triple []int
	if r.Thorough() {
		for i := range calls {
			if i%25 == 0 {
				triple = append(triple, i)
			}
		}
	}
	restore := hist.Pin()
	defer restore()
	n, complete := hist.Explore(calls, triple, 1<<16, r.Expired, func(sig, detail string, names []string, expected string) {
		r.Violation(sig, detail, c24HistCase{History: names, Expected: expected})
	})
	r.Eval(n)
	for i, c := range calls {
		r.Nontrivial(fmt.Sprintf("history|%d|%s", i, c.Name))
	}
	r.Set("history_alphabet", len(calls))
	r.Set("history_triple_alphabet", len(triple))
	r.Set("histories", n)
	return complete
}

func TestVerifC24(t *testing.T) {
	r := ev.Start(t, "C24", "exploration")
	r.Rule("int64/uint64: all of [-2^17,2^17], ±2^k+δ (k<=63,|δ|<=2), all 8-byte two-run patterns over {00,01,7f,80,ff}; big.Int ±(2^k+δ), k<=520 (quick 264), |δ|<=2; history family: on one pinned goroutine (single P, collector off) every ordered pair (thorough: also triples over every 25th call) of calls from an alphabet of conversions — BigIntSetBytes of minimal and non-minimal encodings, BigIntToBytes, FormatBigInt/ParseBigInt, HexInt JSON and RLP round trips, the int64 conversions — on ±(2^k+δ), k in {0,7,8,15,16,31,63,64,65,71,72,79,127,128,255,256,520} (thorough 36 values of k), |δ|<=1, i.e. negative and positive values of 1..66 bytes incl. many negative widths above 8 bytes, plus failing parses/decodes: the last result must equal the independent expectation (valid calls) resp. be the same after every history (failing calls); non-trivial = distinct value whose minimal encoding is compared with the independent reference")
	r.Assume("reference = full-width two's complement with redundant sign bytes stripped")
	fail := func(sig, detail string, c interface{}) { r.Violation(sig, detail, c) }
	if ev.Replaying() {
		// only history cases are replayable by file; the value cases are re-run by the full check
		var hc c24HistCase
		if ev.ReplayCase(&hc); len(hc.History) > 0 {
			calls := c24HistoryCalls(true)
			byName := map[string]int{}
			for i, cl := range calls {
				byName[cl.Name] = i
			}
			var idx []int
			for _, n := range hc.History {
				idx = append(idx, byName[n])
			}
			restore := hist.Pin()
			got := hist.Sequence(calls, idx)
			restore()
			r.Eval(1)
			if got != hc.Expected {
				r.Violation("result-depends-on-history:replay", fmt.Sprintf("history %v: last call returned %s, expected %s", hc.History, got, hc.Expected), hc)
			}
			r.Finish(false)
			return
		}
	}

	vals := c24Int64Values()
	codecs := []codec.Codec{codec.BC}
	for _, v := range vals {
		r.Eval(1)
		r.Nontrivial(fmt.Sprintf("i%d", v))
		bv := big.NewInt(v)
		ref := refSigned(bv)
		got := intconv.Int64ToBytes(v)
		if !bytes.Equal(got, ref) {
			fail("Int64ToBytes-not-minimal", fmt.Sprintf("Int64ToBytes(%d)=%x want %x", v, got, ref), v)
		}
		if back, ok := intconv.SafeBytesToInt64(got); !ok || back != v {
			fail("SafeBytesToInt64-roundtrip", fmt.Sprintf("v=%d enc=%x back=%d ok=%v", v, got, back, ok), v)
		}
		// non-minimal forms decode to the same number (up to 8 bytes)
		ext := byte(0)
		if v < 0 {
			ext = 0xff
		}
		for pad := 1; len(ref)+pad <= 8; pad++ {
			nm := append(bytes.Repeat([]byte{ext}, pad), ref...)
			if back, ok := intconv.SafeBytesToInt64(nm); !ok || back != v {
				fail("SafeBytesToInt64-nonminimal", fmt.Sprintf("v=%d enc=%x back=%d ok=%v", v, nm, back, ok), v)
			}
		}
		nine := append(bytes.Repeat([]byte{ext}, 9-len(ref)), ref...)
		if _, ok := intconv.SafeBytesToInt64(nine); ok {
			fail("SafeBytesToInt64-9bytes-accepted", fmt.Sprintf("v=%d enc=%x", v, nine), v)
		}
		if g := intconv.BigIntToBytes(bv); !bytes.Equal(g, ref) {
			fail("BigIntToBytes-not-minimal", fmt.Sprintf("BigIntToBytes(%d)=%x want %x", v, g, ref), v)
		}
		var bi big.Int
		if intconv.BigIntSetBytes(&bi, ref).Cmp(bv) != 0 {
			fail("BigIntSetBytes-roundtrip", fmt.Sprintf("v=%d got=%s", v, bi.String()), v)
		}
		s := intconv.FormatInt(v)
		if p, err := intconv.ParseInt(s, 64); err != nil || p != v {
			fail("FormatInt-ParseInt", fmt.Sprintf("v=%d s=%q p=%d err=%v", v, s, p, err), v)
		}
		if fb := intconv.FormatBigInt(bv); fb != s {
			fail("FormatBigInt-vs-FormatInt", fmt.Sprintf("v=%d %q vs %q", v, fb, s), v)
		}
		// HexInt64 JSON + RLP
		hi := HexInt64{Value: v}
		js, err := json.Marshal(hi)
		var hj HexInt64
		if err != nil || json.Unmarshal(js, &hj) != nil || hj.Value != v {
			fail("HexInt64-json", fmt.Sprintf("v=%d js=%s back=%d", v, js, hj.Value), v)
		}
		for _, c := range codecs {
			bs, err := c.MarshalToBytes(&hi)
			var hr HexInt64
			if err != nil {
				fail("HexInt64-rlp-enc", fmt.Sprintf("v=%d err=%v", v, err), v)
			} else if _, err := c.UnmarshalFromBytes(bs, &hr); err != nil || hr.Value != v {
				fail("HexInt64-rlp", fmt.Sprintf("v=%d bs=%x back=%d err=%v", v, bs, hr.Value, err), v)
			}
			bs2, _ := c.MarshalToBytes(v)
			var iv int64
			if _, err := c.UnmarshalFromBytes(bs2, &iv); err != nil || iv != v {
				fail("int64-rlp", fmt.Sprintf("v=%d bs=%x back=%d err=%v", v, bs2, iv, err), v)
			}
			if !bytes.Equal(bs, bs2) {
				fail("HexInt64-rlp-differs-from-int64", fmt.Sprintf("v=%d %x vs %x", v, bs, bs2), v)
			}
		}
		if v >= math.MinInt32 && v <= math.MaxInt32 {
			h := HexInt32{Value: int32(v)}
			js, _ := json.Marshal(h)
			var b HexInt32
			if json.Unmarshal(js, &b) != nil || b.Value != int32(v) {
				fail("HexInt32-json", fmt.Sprintf("v=%d js=%s", v, js), v)
			}
		}
		if v >= math.MinInt16 && v <= math.MaxInt16 {
			h := HexInt16{Value: int16(v)}
			js, _ := json.Marshal(h)
			var b HexInt16
			if json.Unmarshal(js, &b) != nil || b.Value != int16(v) {
				fail("HexInt16-json", fmt.Sprintf("v=%d js=%s", v, js), v)
			}
		}
		// unsigned view of the same bit pattern
		u := uint64(v)
		r.Eval(1)
		ub := new(big.Int).SetUint64(u)
		uref := refSigned(ub)
		ug := intconv.Uint64ToBytes(u)
		if !bytes.Equal(ug, uref) {
			fail("Uint64ToBytes-not-minimal", fmt.Sprintf("Uint64ToBytes(%d)=%x want %x", u, ug, uref), v)
		}
		if back, ok := intconv.SafeBytesToUint64(ug); !ok || back != u {
			fail("SafeBytesToUint64-roundtrip", fmt.Sprintf("u=%d enc=%x back=%d ok=%v", u, ug, back, ok), v)
		}
		if len(uref) < 9 {
			nm := append([]byte{0}, uref...)
			if back, ok := intconv.SafeBytesToUint64(nm); !ok || back != u {
				fail("SafeBytesToUint64-nonminimal", fmt.Sprintf("u=%d enc=%x back=%d ok=%v", u, nm, back, ok), v)
			}
		}
		us := intconv.FormatUint(u)
		if p, err := intconv.ParseUint(us, 64); err != nil || p != u {
			fail("FormatUint-ParseUint", fmt.Sprintf("u=%d s=%q p=%d err=%v", u, us, p, err), v)
		}
		hu := HexUint64{Value: u}
		js, _ = json.Marshal(hu)
		var hub HexUint64
		if json.Unmarshal(js, &hub) != nil || hub.Value != u {
			fail("HexUint64-json", fmt.Sprintf("u=%d js=%s", u, js), v)
		}
		bs, _ := codec.BC.MarshalToBytes(&hu)
		var hur HexUint64
		if _, err := codec.BC.UnmarshalFromBytes(bs, &hur); err != nil || hur.Value != u {
			fail("HexUint64-rlp", fmt.Sprintf("u=%d bs=%x back=%d err=%v", u, bs, hur.Value, err), v)
		}
		if u <= math.MaxUint32 {
			h := HexUint32{Value: uint32(u)}
			js, _ := json.Marshal(h)
			var b HexUint32
			if json.Unmarshal(js, &b) != nil || b.Value != uint32(u) {
				fail("HexUint32-json", fmt.Sprintf("u=%d js=%s", u, js), v)
			}
		}
		if u <= math.MaxUint16 {
			h := HexUint16{Value: uint16(u)}
			js, _ := json.Marshal(h)
			var b HexUint16
			if json.Unmarshal(js, &b) != nil || b.Value != uint16(u) {
				fail("HexUint16-json", fmt.Sprintf("u=%d js=%s", u, js), v)
			}
		}
	}
	// a negative first byte must be rejected by the unsigned decoder
	for _, bs := range [][]byte{{0x80}, {0xff, 0x00}, {0x80, 0, 0, 0, 0, 0, 0, 0}} {
		r.Eval(1)
		if _, ok := intconv.SafeBytesToUint64(bs); ok {
			fail("SafeBytesToUint64-negative-accepted", fmt.Sprintf("%x", bs), bs)
		}
	}

	// big integers
	maxK := r.Pick(264, 520)
	for k := 0; k <= maxK; k++ {
		for d := int64(-2); d <= 2; d++ {
			for _, sgn := range []int64{1, -1} {
				v := new(big.Int).Lsh(big.NewInt(1), uint(k))
				v.Add(v, big.NewInt(d))
				v.Mul(v, big.NewInt(sgn))
				r.Eval(1)
				r.Nontrivial("b" + v.String())
				ref := refSigned(v)
				got := intconv.BigIntToBytes(v)
				cs := fmt.Sprintf("sign=%d k=%d d=%d", sgn, k, d)
				if !bytes.Equal(got, ref) {
					fail("BigIntToBytes-not-minimal", fmt.Sprintf("%s got=%x want=%x", cs, got, ref), cs)
				}
				var back big.Int
				if intconv.BigIntSetBytes(&back, got).Cmp(v) != 0 {
					fail("BigIntSetBytes-roundtrip", fmt.Sprintf("%s back=%s", cs, back.String()), cs)
				}
				ext := byte(0)
				if v.Sign() < 0 {
					ext = 0xff
				}
				var back2 big.Int
				if intconv.BigIntSetBytes(&back2, append([]byte{ext, ext}, ref...)).Cmp(v) != 0 {
					fail("BigIntSetBytes-nonminimal", fmt.Sprintf("%s back=%s", cs, back2.String()), cs)
				}
				s := intconv.FormatBigInt(v)
				var p big.Int
				if err := intconv.ParseBigInt(&p, s); err != nil || p.Cmp(v) != 0 {
					fail("FormatBigInt-ParseBigInt", fmt.Sprintf("%s s=%q p=%s err=%v", cs, s, p.String(), err), cs)
				}
				var hi HexInt
				hi.Set(v)
				js, err := json.Marshal(&hi)
				var hj HexInt
				if err != nil || json.Unmarshal(js, &hj) != nil || hj.Cmp(v) != 0 {
					fail("HexInt-json", fmt.Sprintf("%s js=%s", cs, js), cs)
				}
				bs, err := codec.BC.MarshalToBytes(&hi)
				var hr HexInt
				if err != nil {
					fail("HexInt-rlp-enc", fmt.Sprintf("%s err=%v", cs, err), cs)
				} else if _, err := codec.BC.UnmarshalFromBytes(bs, &hr); err != nil || hr.Cmp(v) != 0 {
					fail("HexInt-rlp", fmt.Sprintf("%s bs=%x back=%s err=%v", cs, bs, hr.String(), err), cs)
				}
				if !bytes.Equal(hi.Bytes(), ref) {
					fail("HexInt-Bytes-not-minimal", fmt.Sprintf("%s got=%x want=%x", cs, hi.Bytes(), ref), cs)
				}
			}
		}
	}
	r.Sample(map[string]interface{}{"int64": -129, "encoding": fmt.Sprintf("%x", intconv.Int64ToBytes(-129)), "hex": intconv.FormatInt(-129)})
	r.Sample(map[string]interface{}{"uint64": uint64(math.MaxUint64), "encoding": fmt.Sprintf("%x", intconv.Uint64ToBytes(math.MaxUint64))})
	r.Sample(map[string]interface{}{"big": "-(2^64+1)", "encoding": fmt.Sprintf("%x", intconv.BigIntToBytes(new(big.Int).Neg(new(big.Int).Add(new(big.Int).Lsh(big.NewInt(1), 64), big.NewInt(1)))))})
	r.Set("int64_values", len(vals))
	r.Finish(c24History(r))
}
