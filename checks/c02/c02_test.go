//go:build verif

package consensus

import (
	"encoding/json"
	"fmt"
	"os"
	"os/exec"
	"path/filepath"
	"sort"
	"strings"
	"testing"
	"time"

	"github.com/icon-project/goloop/verifshim/ev"
)

// C02: a correct validator never equivocates, even across crashes, and every
// vote/proposal is durable in its WAL before it reaches the network.
//
// Same real engines and explorer as C01; here every configuration allows
// crashes, and a crash may also hit INSIDE any engine step: before each WAL
// write, each WAL sync and each network send of the step (the step is cut
// there, the node restarts from its WAL). The oracle observes every signed
// vote/proposal the engine hands to the network across restarts.

func c02Configs(thorough bool) []c01Config {
	var cs []c01Config
	add := func(name string, byz int, R int32, crashes int, mode string, dev int, depth int) {
		c := c01Config{Name: name, Byz: byz, R: R, Crashes: crashes, Mode: mode, Dev: dev, MaxDepth: depth,
			MaxStates: 4_000_000, BudgetS: 70, DiffEvery: 4, CrashInside: true}
		if thorough {
			c.MaxStates, c.BudgetS, c.DiffEvery = 12_000_000, 200, 2
		}
		cs = append(cs, c)
	}
	addS := func(name string, byz int, R int32, crashes int, dev int, strategy, base string) {
		add(name, byz, R, crashes, "dev", dev, 0)
		cs[len(cs)-1].Strategy, cs[len(cs)-1].Base = strategy, base
	}
	// directed base schedules B4/B5 with a crash+restart of every node before every step
	add("BASE-B4-B5-crash-insertion", 3, 3, 1, "base", 0, 0)
	cs[len(cs)-1].BudgetS = 200 // B4..B8 with crash insertion: about 1100 scenario runs
	if !thorough {
		add("B-nobyz-R1-crash1-dev1", -1, 1, 1, "dev", 1, 0)
		add("C-byz1-R1-crash1-dev1", 1, 1, 1, "dev", 1, 0)
		add("C-byz3-R1-crash1-dev1", 3, 1, 1, "dev", 1, 0)
		addS("S-byz1-equivocate-R1-crash1-dev1", 1, 1, 1, 1, "equivocate", "")
		add("B-nobyz-R0-crash1-bfs4", -1, 0, 1, "bfs", 0, 4)
		add("C-byz3-R0-crash1-bfs4", 3, 0, 1, "bfs", 0, 4)
		// two heights: crash+restart (between and inside steps, also right before Finalize)
		// while committing height 1, entering height 2 and voting there; the WALs then hold
		// records of both heights and the block store holds block 1
		add("H2-nobyz-R1-crash1-dev1", -1, 1, 1, "dev", 1, 0)
		cs[len(cs)-1].Heights = 2
		return cs
	}
	addS("S-byz3-own-R2-crash1-dev1", 3, 2, 1, 1, "own", "")
	addS("B3-byz3-own-R3-crash1-dev1", 3, 3, 1, 1, "own", "B3")
	add("B-nobyz-R1-crash2-dev2", -1, 1, 2, "dev", 2, 0)
	add("B-nobyz-R2-crash2-dev2", -1, 2, 2, "dev", 2, 0)
	add("B-nobyz-R1-crash3-dev3", -1, 1, 3, "dev", 3, 0)
	for _, byz := range []int{0, 1, 2, 3} {
		add(fmt.Sprintf("C-byz%d-R1-crash2-dev2", byz), byz, 1, 2, "dev", 2, 0)
	}
	add("C-byz3-R2-crash2-dev2", 3, 2, 2, "dev", 2, 0)
	add("C-byz2-R2-crash2-dev2", 2, 2, 2, "dev", 2, 0)
	for _, st := range []string{"own", "echo", "equivocate"} {
		addS("S-byz3-"+st+"-R2-crash2-dev2", 3, 2, 2, 2, st, "")
		addS("B3-byz3-"+st+"-R3-crash2-dev2", 3, 3, 2, 2, st, "B3")
	}
	addS("S-byz1-equivocate-R1-crash2-dev2", 1, 1, 2, 2, "equivocate", "")
	add("H2-nobyz-R1-crash2-dev2", -1, 1, 2, "dev", 2, 0)
	cs[len(cs)-1].Heights = 2
	add("H2-byz3-R1-crash2-dev2", 3, 1, 2, "dev", 2, 0)
	cs[len(cs)-1].Heights = 2
	addS("H2-byz3-own-R1-crash2-dev2", 3, 1, 2, 2, "own", "")
	cs[len(cs)-1].Heights = 2
	add("H3-nobyz-R1-crash1-dev1", -1, 1, 1, "dev", 1, 0)
	cs[len(cs)-1].Heights = 3
	add("B-nobyz-R0-crash2-bfs6", -1, 0, 2, "bfs", 0, 6)
	add("C-byz3-R0-crash1-bfs6", 3, 0, 1, "bfs", 0, 6)
	add("C-byz1-R0-crash1-bfs6", 1, 0, 1, "bfs", 0, 6)
	return cs
}

func TestVerifC02(t *testing.T) {
	r := ev.Start(t, "C02", "model_checking")
	r.SetBudget(100*time.Second, 15*time.Minute)
	r.Rule("same explicit-state exploration of real consensus engines as C01 (deviation-bounded DFS from the synchronous scheduler and exact BFS to a stated depth), with up to max_crashes crash+restart events placed between any two events AND inside any engine step before each of its WAL writes, WAL syncs and network sends; a case is non-trivial when some validator restarted and signed again afterwards")
	r.Assume(
		"record-level WAL: a record is durable iff a Sync covering it returned before the crash; unsynced records are lost (byte-level torn tails of the real wal.go are enumerated by C03)",
		"the virtual clock advances 3 s at each restart, so a vote re-signed after a restart differs from the original unless the engine restores it from its WAL",
		"equivocation predicate = two signed votes with equal (type, height, round) or two signed proposals with equal (height, round) whose signed bytes differ (what consensus.dsVote/dsProposal.IsConflictWith treat as slashable)",
	)
	if ev.Replaying() {
		if c02RealWALReplay(r) { // a case of the real-WAL tier (c02_realwal_test.go)
			return
		}
		var c struct {
			Config c01Config `json:"config"`
			Trace  []gEvent  `json:"trace"`
			Sig    string    `json:"sig"`
		}
		ev.ReplayCase(&c)
		env := newCSEnv(4)
		var correct []int
		for i := 0; i < 4; i++ {
			if i != c.Config.Byz {
				correct = append(correct, i)
			}
		}
		fins, panics, cert, c02 := replayTraceFull(env, correct, c.Trace, nil)
		fmt.Printf("replay: finalized=%v panics=%v c02=%v\n", fins, panics, c02)
		if violationHoldsFull(c.Sig, fins, panics, cert, c02) {
			r.Violation(c.Sig, fmt.Sprintf("replayed trace reproduces: %v", c02), c)
		}
		r.Eval(1)
		r.Finish(false)
		return
	}
	cfgs := c02Configs(r.Thorough())
	exe, err := os.Executable()
	if err != nil {
		t.Fatal(err)
	}
	work := filepath.Join(ev.Root(), ".work", "c02-runs")
	os.MkdirAll(work, 0o755)
	results := make([]*c01Result, len(cfgs))
	// extra family: the real wal.go over crashfs under a real engine (c02_realwal_test.go),
	// run concurrently with the worker configurations below
	realWALDone := make(chan bool, 1)
	go func() { realWALDone <- c02RealWAL(r, exe, work) }()
	ev.Par(len(cfgs), 16, func(i int) {
		cfg := cfgs[i]
		if r.Expired() {
			r.Cap("configuration " + cfg.Name + " not started: wall-clock budget of the check used up")
			return
		}
		if os.Getenv("VERIF_BUDGET_S") != "" {
			fmt.Sscan(os.Getenv("VERIF_BUDGET_S"), &cfg.BudgetS)
		}
		spec, _ := json.Marshal(cfg)
		out := filepath.Join(work, fmt.Sprintf("%s-%d.json", cfg.Name, os.Getpid()))
		cmd := exec.Command(exe, "-test.run", "^TestVerifC01Worker$", "-test.timeout", "60m")
		cmd.Env = append(os.Environ(), "VERIF_C01_CONFIG="+string(spec), "VERIF_C01_OUT="+out, "GOMAXPROCS=2", "GOGC=400")
		if ob, err := cmd.CombinedOutput(); err != nil {
			fmt.Printf("HARNESS-ERROR property=C02 worker %s failed: %v\n%s\n", cfg.Name, err, tail(string(ob), 2000))
			r.Cap("worker " + cfg.Name + " failed")
			return
		}
		b, err := os.ReadFile(out)
		os.Remove(out)
		if err != nil {
			r.Cap("worker " + cfg.Name + " wrote no result")
			return
		}
		var res c01Result
		if err := json.Unmarshal(b, &res); err != nil {
			r.Cap("worker " + cfg.Name + " wrote a bad result")
			return
		}
		results[i] = &res
	})
	exhaustive := <-realWALDone
	var summary []map[string]interface{}
	restartStates, resigned := 0, 0
	for _, res := range results {
		if res == nil {
			exhaustive = false
			continue
		}
		r.States(res.States)
		r.Transitions(res.Transitions)
		r.Traces(res.Rebuilds)
		r.Eval(res.EngineSteps)
		r.Add("real_engine_steps", int64(res.EngineSteps))
		r.Add("local_states", int64(res.LocalStates))
		r.Add("projection_checks", int64(res.DiffChecks))
		restartStates += res.RestartStates
		resigned += res.ResignedAfterRestart
		for _, k := range res.RestartKeys {
			r.Nontrivial(res.Config.Name + "/" + k)
		}
		if !res.Complete {
			exhaustive = false
			r.Cap(fmt.Sprintf("config %s: %s after %d states (depth %d)", res.Config.Name, res.CapHit, res.States, res.Depth))
		}
		if res.DiffMismatch > 0 {
			fmt.Printf("HARNESS-ERROR property=C02 config %s: %d projection mismatches\n%s\n", res.Config.Name, res.DiffMismatch, strings.Join(res.Mismatch, "\n"))
			r.Cap("projection mismatch in " + res.Config.Name)
		}
		for vi, v := range res.Violations {
			if v.Sig != "equivocation" && v.Sig != "sent-before-durable" {
				continue // C01's property
			}
			if vi < len(res.Confirmed) && !res.Confirmed[vi] {
				fmt.Printf("HARNESS-ERROR property=C02 config %s: violation %s did not reproduce on fresh engines\n", res.Config.Name, v.Sig)
				r.Cap("non-reproducing violation in " + res.Config.Name)
				continue
			}
			var lines []string
			for _, e := range v.Trace {
				lines = append(lines, fmt.Sprintf("V%d: %s", e.Node, e.Ev))
			}
			r.Violation(v.Sig, v.Detail+"\nconfig "+res.Config.Name+"\n"+strings.Join(lines, "\n"),
				map[string]interface{}{"config": res.Config, "trace": v.Trace, "sig": v.Sig})
		}
		summary = append(summary, map[string]interface{}{
			"config": res.Config.Name, "states": res.States, "transitions": res.Transitions, "depth": res.Depth,
			"complete": res.Complete, "local_states": res.LocalStates, "real_engine_steps": res.EngineSteps,
			"local_states_after_a_restart": res.RestartStates, "of_which_signed_again_after_restart": res.ResignedAfterRestart,
			"wall_s": res.WallS,
		})
	}
	sort.Slice(summary, func(i, j int) bool { return summary[i]["config"].(string) < summary[j]["config"].(string) })
	r.Set("configs", summary)
	r.Set("local_states_after_a_restart", restartStates)
	r.Set("local_states_that_signed_again_after_restart", resigned)
	r.Sanity(restartStates > 0 && resigned > 0, "no state in which a restarted validator signed again was reached")
	r.Sample(map[string]interface{}{"events": []string{"deliver <msg> to Vi", "timeout at Vi", "complete bm request at Vi", "crash+restart Vi", "<event> at Vi cut by a crash before its k-th effect (WAL write / WAL sync / send), then restart"}})
	r.Finish(exhaustive)
}
