//go:build verif

package consensus

// C02, real-WAL tier: "a correct validator never equivocates even across crashes
// that leave torn records".
//
// The other C02 families run real consensus engines over a record-level
// in-memory WAL. Here one validator of a directed base schedule runs over the
// REAL consensus/wal.go on crashfs (import "os" of wal.go rewritten by the
// recipe). Fault enumeration:
//
//	base schedule (happy path, B3, B4, B5: plain event scripts on real engines,
//	               recorded as a wire-level trace)
//	x chosen validator v
//	x every crash position of every step of v: after each file-system call and
//	  after each network send of the step (so also between steps)
//	x every crash image of that position: every torn length of the un-synced
//	  suffix of every WAL file (all lengths up to 64 B, boundary-focused above)
//	  plus the zero-filled-payload-tail family
//	-> a fresh engine is started on the image (real applyWAL / CloseAndRepair),
//	   the rest of v's events of the schedule is delivered
//	-> second generation: the same again on the restarted validator.
//
// Only v is re-executed: the other validators receive exactly the recorded wire
// messages of the base run whatever v does, so their behaviour is the base
// run's. The crash inside a step is reconstructed from the crashfs call log and
// the recorded order of sends (the engine's volatile state at the crash is
// irrelevant: it is lost); a self-test cuts real steps with crashfs.FailAfter
// and compares.
//
// Oracle: csNode.observeOwn (two signed votes/proposals for one (type, height,
// round) with different content, across restarts = equivocation; a vote or
// proposal handed to the network while its round-WAL record is not inside the
// durable prefix of the WAL files = sent-before-durable), restart failure, and
// C01's agreement (v finalizing something else than the base run).

import (
	"bytes"
	"crypto/sha256"
	"encoding/binary"
	"encoding/hex"
	"encoding/json"
	"fmt"
	"os"
	"os/exec"
	"path/filepath"
	"sort"
	"strings"
	"testing"
	"time"

	"github.com/icon-project/goloop/verifshim/crashfs"
	"github.com/icon-project/goloop/verifshim/ev"
	"github.com/icon-project/goloop/verifshim/vclock"
)

// ---------------------------------------------------------------- real WAL manager over crashfs

// rwWM is consensus's defaultWALManager with the housekeeping goroutine
// neutralised: the engine passes no HousekeepingInterval, wal.go would start a
// real 1 s ticker; with 1000 h it never fires inside a run (rotation and head
// deletion are C03's business).
type rwWM struct {
	writers   []*walWriter
	fileLimit int64 // > 0: rotation family - overrides the engine's FileLimit (500 KB..5 MB) so that a housekeeping tick rotates
}

func (m *rwWM) OpenForRead(id string) (WALReader, error) { return OpenWALForRead(id) }

func (m *rwWM) OpenForWrite(id string, cfg *WALConfig) (WALWriter, error) {
	c := *cfg
	c.HousekeepingInterval = 1000 * time.Hour
	c.SyncInterval = 1000 * time.Hour
	if m.fileLimit > 0 {
		c.FileLimit = m.fileLimit
		c.TotalLimit = 1 << 30 // never delete a head segment: losing own votes that way would be a configuration artefact
	}
	ww, err := OpenWALForWrite(id, &c)
	if err != nil {
		return nil, err
	}
	m.writers = append(m.writers, ww.(*walWriter))
	return ww, nil
}

// tick is the housekeeping ticker of wal.go made an explicit event: one
// doHousekeeping call per open writer (round, lock, commit), as the ticker
// goroutine would do. It returns the text of a panic, if any.
func (m *rwWM) tick() string {
	for _, w := range m.writers {
		if p := ev.Catch(w.doHousekeeping); p != "" {
			return p
		}
	}
	return ""
}

// reap stops the housekeeping goroutines of an abandoned ("crashed") engine.
func (m *rwWM) reap() {
	for _, w := range m.writers {
		ev.Catch(w.stopHousekeeping)
	}
	m.writers = nil
}

const rwRoundPrefix = "/wal/round_"

// rwDurable: is rec a complete record inside the durable prefix of the round WAL?
func rwDurable(fs *crashfs.FS, rec []byte) bool {
	for _, p := range fs.Names() {
		if !strings.HasPrefix(p, rwRoundPrefix) {
			continue
		}
		_, dur, _ := fs.FileState(p)
		data, _ := fs.ReadFile(p)
		data = data[:dur]
		for len(data) >= 8 {
			n := int(binary.BigEndian.Uint32(data[4:8]))
			if len(data)-8 < n {
				break
			}
			if bytes.Equal(data[8:8+n], rec) {
				return true
			}
			data = data[8+n:]
		}
	}
	return false
}

// ---------------------------------------------------------------- bookkeeping that survives a crash (harness side)

type rwBook struct {
	signed         map[string]string
	equivocated    string
	notDurable     string
	resigned       int
	restarts       int
	totalProposals int
	finalized      []string
	finalizedRound []int32
	finCertOK      bool
	finCertWhy     string
	durable        []*fBlock // the finalized chain: the block store is durable (Finalize is durable once it returns)
}

// withChainOf returns b with the finalization part replaced by n's current one.
func (b rwBook) withChainOf(n *csNode) rwBook {
	c := copyBook(b)
	c.finalized = append([]string(nil), n.finalized...)
	c.finalizedRound = append([]int32(nil), n.finalizedRound...)
	c.finCertOK, c.finCertWhy = n.finCertOK, n.finCertWhy
	c.durable = append([]*fBlock(nil), n.durable...)
	return c
}

func rwBookOf(n *csNode) rwBook {
	b := rwBook{signed: make(map[string]string, len(n.signed)), equivocated: n.equivocated, notDurable: n.notDurable,
		resigned: n.resigned, restarts: n.restarts, totalProposals: n.totalProposals + n.bm.proposals,
		finalized: append([]string(nil), n.finalized...), finalizedRound: append([]int32(nil), n.finalizedRound...),
		finCertOK: n.finCertOK, finCertWhy: n.finCertWhy, durable: append([]*fBlock(nil), n.durable...)}
	for k, v := range n.signed {
		b.signed[k] = v
	}
	return b
}

func (b rwBook) key() string {
	ks := make([]string, 0, len(b.signed))
	for k, v := range b.signed {
		ks = append(ks, k+"="+v)
	}
	sort.Strings(ks)
	return fmt.Sprintf("%s|%s|%s|%d|%v", strings.Join(ks, ","), b.equivocated, b.notDurable, b.totalProposals, b.finalized)
}

// ---------------------------------------------------------------- one incarnation of validator v

// rwEffect is one externally visible effect of a step, in execution order:
// 'f' a file-system call (about to be applied when logLen calls were logged),
// 's' a vote/proposal handed to the network, 'z' a block finalized (the fake
// block manager's Finalize returned: durable from here on).
type rwEffect struct {
	kind   byte
	logLen int
	book   rwBook // 's', 'z': bookkeeping right after the effect
}

type rwStep struct {
	ev       int // index into the node's events; -1 = the (re)start itself
	desc     string
	logStart int
	logEnd   int
	effects  []rwEffect
	before   rwBook
	after    rwBook
}

// positions of a step: after each effect, in order; the last one is the step boundary.
type rwPos struct {
	logIdx int
	book   rwBook
	inside bool // not the end of the step
	desc   string
}

func (s *rwStep) positions(log []crashfs.Op) []rwPos {
	var out []rwPos
	cur := s.before
	ns := 0
	for _, e := range s.effects {
		switch e.kind {
		case 'f':
			out = append(out, rwPos{logIdx: e.logLen + 1, book: cur, inside: true, desc: "after fs call " + log[e.logLen].String()})
		case 's':
			ns++
			cur = e.book
			out = append(out, rwPos{logIdx: e.logLen, book: cur, inside: true, desc: fmt.Sprintf("after send #%d of the step", ns)})
		case 'z':
			cur = e.book
			out = append(out, rwPos{logIdx: e.logLen, book: cur, inside: true, desc: fmt.Sprintf("after Finalize of height %d returned", len(cur.finalized))})
		}
	}
	// the boundary after the step (nothing visible happens after the last effect)
	if len(out) > 0 {
		out = out[:len(out)-1]
	}
	out = append(out, rwPos{logIdx: s.logEnd, book: s.after, inside: false, desc: "after the step"})
	return out
}

type rwInc struct {
	n       *csNode
	fs      *crashfs.FS
	wm      *rwWM
	steps   []rwStep
	from    int // index of the first event this incarnation is to apply
	next    int // first event index not yet applied
	cur     *rwStep
	curBook rwBook // bookkeeping after the last recorded effect of the current step
	seenFin int    // finalizations already recorded as effects
}

// noteFinalize records a Finalize that returned since the last recorded effect
// (the harness's block manager has no hook of its own; nothing else visible can
// have happened in between).
func (inc *rwInc) noteFinalize(logLen int) {
	if inc.cur == nil || len(inc.n.finalized) <= inc.seenFin {
		return
	}
	inc.seenFin = len(inc.n.finalized)
	inc.curBook = inc.curBook.withChainOf(inc.n)
	inc.cur.effects = append(inc.cur.effects, rwEffect{kind: 'z', logLen: logLen, book: inc.curBook})
}

type rwTier struct {
	env               *csEnv
	v                 int
	evs               []gEvent         // v's events of the base trace
	baseFin           map[int][]string // what every validator of the base run finalized, per height
	heights           int              // number of heights the base run decides
	sched             string
	tear1             *crashfs.TearOptions
	tear2             *crashfs.TearOptions
	gens              int
	laterSteps        int
	tickEvery         int // rotation family: a housekeeping tick at the end of every tickEvery-th step (0 = never)
	fileLimit         int64
	stop              func() bool
	res               *rwResult
	seenPre, seenPost map[string]bool
	sigSeen           map[string]int
}

func (t *rwTier) newNode(fs *crashfs.FS, book rwBook, now time.Time) (*csNode, *rwWM) {
	n := &csNode{env: t.env, idx: t.v, w: t.env.wallets[t.v]}
	n.world = vclock.NewWorld(now)
	wm := &rwWM{fileLimit: t.fileLimit}
	n.wal = wm
	n.durableCheck = func(rec []byte) bool { return rwDurable(fs, rec) }
	n.signed = make(map[string]string, len(book.signed))
	for k, v := range book.signed {
		n.signed[k] = v
	}
	n.equivocated, n.notDurable, n.resigned, n.restarts, n.totalProposals = book.equivocated, book.notDurable, book.resigned, book.restarts, book.totalProposals
	n.durable = append([]*fBlock(nil), book.durable...)
	n.finalized = append([]string(nil), book.finalized...)
	n.finalizedRound = append([]int32(nil), book.finalizedRound...)
	n.finCertOK, n.finCertWhy = book.finCertOK, book.finCertWhy
	return n, wm
}

func copyBook(b rwBook) rwBook {
	c := b
	c.signed = make(map[string]string, len(b.signed))
	for k, v := range b.signed {
		c.signed[k] = v
	}
	c.durable = append([]*fBlock(nil), b.durable...)
	c.finalized = append([]string(nil), b.finalized...)
	c.finalizedRound = append([]int32(nil), b.finalizedRound...)
	return c
}

func (t *rwTier) step(inc *rwInc, evIdx int, desc string, before rwBook, fn func()) {
	s := rwStep{ev: evIdx, desc: desc, logStart: inc.fs.LogLen(), before: before}
	inc.cur = &s
	inc.curBook = before
	fn()
	if t.tickEvery > 0 && (len(inc.steps)+1)%t.tickEvery == 0 && !inc.fs.Frozen() {
		// part of the step: every file-system call of the tick is a crash position too
		if p := inc.wm.tick(); p != "" && inc.n.panicked == "" {
			inc.n.panicked = "housekeeping: " + p
		}
	}
	inc.noteFinalize(inc.fs.LogLen())
	inc.cur = nil
	s.logEnd = inc.fs.LogLen()
	if t.tickEvery > 0 {
		for _, o := range inc.fs.Log()[s.logStart:s.logEnd] {
			if o.Kind == crashfs.OpCreate && evIdx >= 0 {
				t.res.Rotations++
			}
			if o.Kind == crashfs.OpRemove && evIdx < 0 {
				t.res.RepairRemoves++
			}
		}
	}
	s.after = rwBookOf(inc.n)
	inc.steps = append(inc.steps, s)
	t.res.EngineSteps++
}

// start boots an engine for v on fs (real applyWAL on the real wal.go) and
// completes the block-manager requests the start issued; file-system calls and
// sends of the start are recorded as step -1.
func (t *rwTier) start(fs *crashfs.FS, book rwBook, now time.Time, from int) *rwInc {
	crashfs.Use(fs)
	n, wm := t.newNode(fs, book, now)
	inc := &rwInc{n: n, fs: fs, wm: wm, from: from, next: from, seenFin: len(book.finalized)}
	n.onSend = func(proto uint16, b []byte) {
		if inc.cur != nil && (proto == uint16(ProtoVote) || proto == uint16(ProtoProposal)) {
			l := fs.LogLen()
			inc.noteFinalize(l)
			inc.curBook = rwBookOf(n)
			inc.cur.effects = append(inc.cur.effects, rwEffect{kind: 's', logLen: l, book: inc.curBook})
		}
	}
	fs.OnMutate(func(l int) { // runs with fs locked: no fs calls in here
		if inc.cur != nil {
			inc.noteFinalize(l)
			inc.cur.effects = append(inc.cur.effects, rwEffect{kind: 'f', logLen: l})
		}
	})
	t.step(inc, -1, "start", copyBook(book), func() {
		n.boot()
		for !t.terminal(n.finalized) && n.complete(0) {
		}
	})
	n.takeOut()
	return inc
}

func (t *rwTier) setBase(sc *scenario) {
	t.baseFin = map[int][]string{}
	t.heights = 1
	for i, n := range sc.nodes {
		t.baseFin[i] = append([]string(nil), n.finalized...)
		if len(n.finalized) > t.heights {
			t.heights = len(n.finalized)
		}
	}
}

// terminal: the validator has finalized every height the base run decides.
func (t *rwTier) terminal(finalized []string) bool { return len(finalized) >= t.heights }

func rwApply(n *csNode, e gEvent) {
	switch e.Kind {
	case "deliver":
		n.deliver(e.Proto, unhex(e.Bytes), nil)
	case "timeout":
		n.fireTimer()
	case "complete":
		n.complete(e.K)
	}
}

// cont applies v's events inc.next .. upTo-1, recording each step.
func (t *rwTier) cont(inc *rwInc, upTo int) {
	crashfs.Use(inc.fs)
	// a validator that has finalized the last height of its base schedule is done
	for j := inc.next; j < upTo && j < len(t.evs) && !inc.n.dead() && !t.terminal(inc.n.finalized); j++ {
		e := t.evs[j]
		t.step(inc, j, e.Ev, rwBookOf(inc.n), func() { rwApply(inc.n, e) })
		inc.next = j + 1
	}
	inc.n.takeOut()
}

func (t *rwTier) run(fs *crashfs.FS, book rwBook, now time.Time, from int) *rwInc {
	inc := t.start(fs, book, now, from)
	t.cont(inc, len(t.evs))
	return inc
}

// ---------------------------------------------------------------- result / replay types

type rwCrash struct {
	Step  int            `json:"after_event"` // index of v's event during (or after) which the crash hits; -1 = during the (re)start
	Pos   int            `json:"position"`    // effect position inside that step (1-based; the last one is the step boundary)
	Desc  string         `json:"where"`
	Files map[string]int `json:"surviving_file_lengths"`
	Zero  map[string]int `json:"zeroed_tail,omitempty"`
}

type rwCase struct {
	RealWAL   bool      `json:"realwal"`
	Schedule  string    `json:"schedule"`
	Node      int       `json:"validator"`
	TickEvery int       `json:"housekeeping_tick_every_steps,omitempty"`
	FileLimit int64     `json:"wal_file_limit,omitempty"`
	Crashes   []rwCrash `json:"crashes"`
}

type rwViolation struct {
	Sig    string `json:"sig"`
	Detail string `json:"detail"`
	Case   rwCase `json:"case"`
}

type rwSpec struct {
	Schedule   string `json:"schedule"`
	Node       int    `json:"validator"`
	Gens       int    `json:"generations"`
	LaterSteps int    `json:"later_generations_steps_after_restart"` // generations >= 2 crash only inside the restart and the next LaterSteps steps (0 = everywhere)
	Thorough   bool   `json:"thorough"`
	BudgetS    int    `json:"budget_s"`
	TickEvery  int    `json:"housekeeping_tick_every_steps,omitempty"` // rotation family
	FileLimit  int64  `json:"wal_file_limit,omitempty"`
}

type rwResult struct {
	Spec              rwSpec        `json:"spec"`
	Events            int           `json:"events_of_validator"`
	Positions         [4]int        `json:"crash_positions_by_generation"`
	InsideStep        int           `json:"crash_positions_inside_a_step"`
	Images            [4]int        `json:"crash_images_by_generation"`
	ZeroImages        int           `json:"crash_images_zero_filled_tail"`
	TornImages        int           `json:"crash_images_torn"`
	Restarts          int           `json:"engines_restarted_on_an_image"`
	Repairs           int           `json:"restarts_that_repaired_a_wal"`
	Continuations     int           `json:"restarts_continued_through_the_schedule"`
	EngineSteps       int           `json:"real_engine_steps"`
	Resigned          []string      `json:"cases_signed_again_after_restart"`
	Violations        []rwViolation `json:"violations,omitempty"`
	Rotations         int           `json:"segments_created_by_housekeeping_ticks"`
	FinalizePositions int           `json:"crash_positions_right_after_a_finalize"`
	RestartsWithChain int           `json:"restarts_with_a_non_empty_finalized_chain"`
	Heights           int           `json:"heights_of_base_schedule"`
	RepairRemoves     int           `json:"restarts_whose_repair_removed_a_segment"`
	Complete          bool          `json:"complete"`
	SelfTest          int           `json:"failafter_selftest_points"`
	SelfTestBad       string        `json:"failafter_selftest_mismatch,omitempty"`
	BaseMismatch      string        `json:"base_run_mismatch,omitempty"`
	WallS             float64       `json:"wall_s"`
	Sample            interface{}   `json:"sample,omitempty"`
}

// ---------------------------------------------------------------- base schedules

// scenarioHappy: 4 correct validators, synchronous round 0: V1 proposes B1,
// everybody gets the proposal, all prevotes, all precommits; all finalize B1.
func scenarioHappy() (*scenario, *explorer) {
	env := newCSEnv(4)
	correct := []int{0, 1, 2, 3}
	x := newExplorer(env, correct, 1)
	for _, p := range correct {
		x.mt.nameBlock(x.honestBlock(p).ID(), fmt.Sprintf("B%d", p))
		x.mt.namePS(x.honestBlock(p).partSet().ID().Hash, fmt.Sprintf("B%d", p))
	}
	sc := newScenario(x, -1, 0, 0)
	sc.pump(1)
	for _, to := range []int{0, 2, 3} {
		sc.send(to, msgPred{"proposal", 1, 0, "B1"})
		sc.send(to, msgPred{"part", -2, 0, "B1"})
	}
	sc.send(1, msgPred{"part", -2, 0, "B1"})
	for _, kind := range []string{"prevote", "precommit"} {
		for _, to := range correct {
			for _, s := range correct {
				sc.send(to, msgPred{kind, s, 0, "B1"})
			}
		}
	}
	return sc, x
}

func rwSchedule(name string) (*scenario, []int) {
	switch name {
	case "happy":
		sc, _ := scenarioHappy()
		return sc, []int{0, 1, 2, 3}
	case "B3":
		env := newCSEnv(4)
		x := newExplorer(env, []int{0, 1, 2}, 3)
		for _, p := range []int{0, 1, 2} {
			x.mt.nameBlock(x.honestBlock(p).ID(), fmt.Sprintf("B%d", p))
			x.mt.namePS(x.honestBlock(p).partSet().ID().Hash, fmt.Sprintf("B%d", p))
		}
		x.byzMenu(3, 3)
		return scenarioLateCommit(x), []int{0, 1, 2}
	case "B4":
		sc, _ := scenarioRelockAmnesia(false, 0, 0)
		return sc, []int{0, 1, 2}
	case "B5":
		sc, _ := scenarioStalePolka(0, 0)
		return sc, []int{0, 1, 2}
	case "B7": // two heights: lock at height 2, WALs hold records of both heights
		sc, _ := scenarioHeight2Amnesia(false, 0, 0)
		return sc, []int{0, 1, 2}
	case "B8": // two heights, height 1 decided in round 1: stale lock records of the older height
		sc, _ := scenarioStaleHeightRecords(false, 0, 0)
		return sc, []int{0, 1, 2}
	}
	panic("unknown schedule " + name)
}

// ---------------------------------------------------------------- exploration

func rwZeroTails() func(fc *crashfs.FileCrashState, survived int) []int {
	return crashfs.FramedZeroTails(8, func(h []byte) int { return int(binary.BigEndian.Uint32(h[4:8])) })
}

func rwBoundaries(fc *crashfs.FileCrashState) []int {
	var out []int
	off := 0
	for off+8 <= len(fc.Data) {
		off += 8 + int(binary.BigEndian.Uint32(fc.Data[off+4:off+8]))
		if off <= len(fc.Data) {
			out = append(out, off)
		}
	}
	return out
}

func rwHash(s string) string {
	h := sha256.Sum256([]byte(s))
	return hex.EncodeToString(h[:8])
}

func (t *rwTier) violation(sig, detail string, c rwCase) {
	t.sigSeen[sig]++
	if t.sigSeen[sig] > 3 {
		return
	}
	t.res.Violations = append(t.res.Violations, rwViolation{Sig: sig, Detail: detail, Case: c})
}

// verdict evaluates the oracle on the end state of an incarnation.
func (t *rwTier) verdict(inc *rwInc, c rwCase) {
	n := inc.n
	where := fmt.Sprintf("schedule %s, validator V%d, %d crash(es): %s", t.sched, t.v, len(c.Crashes), rwDescribe(c))
	if n.equivocated != "" {
		t.violation("equivocation", fmt.Sprintf("correct validator V%d equivocated over the real WAL: %s\n%s", t.v, n.equivocated, where), c)
	}
	if n.notDurable != "" {
		t.violation("sent-before-durable", fmt.Sprintf("correct validator V%d: %s (real WAL: record not inside the durable prefix of the round WAL files)\n%s", t.v, n.notDurable, where), c)
	}
	if n.panicked != "" {
		sig := "realwal-engine-panic"
		if strings.HasPrefix(n.panicked, "Start:") {
			sig = "realwal-restart-failed"
		}
		t.violation(sig, fmt.Sprintf("validator V%d: %s\n%s", t.v, firstLine(n.panicked), where), c)
	}
	for h, f := range n.finalized { // agreement with the base run, height by height
		for i, bf := range t.baseFin {
			if h < len(bf) && bf[h] != f {
				t.violation("disagreement", fmt.Sprintf("validator V%d finalized %s at height %d, V%d finalized %s there in the base run (V%d: %v, base: %v)\n%s",
					t.v, shortHex(unhex(f)), h+1, i, shortHex(unhex(bf[h])), t.v, n.finalized, t.baseFin, where), c)
				break
			}
		}
	}
	if len(n.finalized) > 0 && !n.finCertOK {
		t.violation("finalize-without-quorum", fmt.Sprintf("validator V%d: %s\n%s", t.v, n.finCertWhy, where), c)
	}
}

func rwDescribe(c rwCase) string {
	var parts []string
	for i, cr := range c.Crashes {
		parts = append(parts, fmt.Sprintf("crash %d during/after event %d (%s), files %v zeroed %v", i+1, cr.Step, cr.Desc, cr.Files, cr.Zero))
	}
	return strings.Join(parts, "; ")
}

func rwRepaired(inc *rwInc) bool {
	if len(inc.steps) == 0 {
		return false
	}
	log := inc.fs.Log()
	for _, o := range log[:inc.steps[0].logEnd] {
		if o.Kind == crashfs.OpTruncate || o.Kind == crashfs.OpRemove {
			return true
		}
	}
	return false
}

// explore enumerates every crash position x image of inc, restarts, continues,
// checks, and recurses for the next generation.
func (t *rwTier) explore(inc *rwInc, gen int, sofar []rwCrash) {
	opt := t.tear1
	if gen >= 2 {
		opt = t.tear2
	}
	log := inc.fs.Log()
	for si := range inc.steps {
		s := &inc.steps[si]
		if t.terminal(s.before.finalized) {
			break // every height finalized before this step: terminal
		}
		if gen >= 2 && t.laterSteps > 0 && si > t.laterSteps {
			break
		}
		pos := s.positions(log)
		for pi, p := range pos {
			if t.stop() {
				t.res.Complete = false
				return
			}
			t.res.Positions[gen]++
			if p.inside {
				t.res.InsideStep++
			}
			if strings.HasPrefix(p.desc, "after Finalize") {
				t.res.FinalizePositions++
			}
			next := s.ev + 1
			if s.ev < 0 {
				next = inc.from // the restart itself was interrupted: same remaining events
			}
			st := inc.fs.StateAt(p.logIdx)
			book := copyBook(p.book)
			book.restarts++
			st.Images(opt, func(img *crashfs.Image, tears []crashfs.Tear) bool {
				if t.stop() {
					t.res.Complete = false
					return false
				}
				t.res.Images[gen]++
				torn := false
				zero := map[string]int{}
				for _, tr := range tears {
					if tr.Survived != tr.Durable && tr.Survived != tr.Full {
						torn = true
					}
					if tr.Zeroed > 0 {
						zero[tr.Path] = tr.Zeroed
					}
				}
				if len(zero) > 0 {
					t.res.ZeroImages++
					torn = true
				} else {
					zero = nil
				}
				if torn {
					t.res.TornImages++
				}
				ikey := img.Key()
				pre := fmt.Sprintf("%d|%d|%s|%s", gen, next, ikey, book.key())
				if t.seenPre[pre] {
					return true
				}
				t.seenPre[pre] = true
				files := map[string]int{}
				for f, b := range img.Files {
					files[f] = len(b)
				}
				c := rwCase{RealWAL: true, Schedule: t.sched, Node: t.v, TickEvery: t.tickEvery, FileLimit: t.fileLimit,
					Crashes: append(append([]rwCrash(nil), sofar...), rwCrash{Step: s.ev, Pos: pi + 1, Desc: s.desc + ": " + p.desc, Files: files, Zero: zero})}
				inc2 := t.restartOn(img, book, inc.n.world.NowT.Add(3*time.Second), next, gen, c)
				if inc2 != nil {
					if gen < t.gens {
						t.explore(inc2, gen+1, c.Crashes)
					}
					inc2.wm.reap()
				}
				return true
			})
		}
	}
}

// restartOn boots a fresh engine on the image; if the state after the restart is
// new it is continued through the rest of the schedule and judged.
func (t *rwTier) restartOn(img *crashfs.Image, book rwBook, now time.Time, next int, gen int, c rwCase) *rwInc {
	inc := t.start(crashfs.FromImage(img), book, now, next)
	t.res.Restarts++
	if len(book.durable) > 0 {
		t.res.RestartsWithChain++
	}
	if rwRepaired(inc) {
		t.res.Repairs++
	}
	if inc.n.dead() {
		t.verdict(inc, c)
		inc.wm.reap()
		return nil
	}
	post := fmt.Sprintf("%d|%d|%s|%s|%s", gen, next, inc.n.projection(nil), inc.fs.Snapshot().Key(), rwBookOf(inc.n).key())
	if t.seenPost[post] {
		inc.wm.reap()
		return nil
	}
	t.seenPost[post] = true
	t.cont(inc, len(t.evs))
	t.res.Continuations++
	if inc.n.resigned > book.resigned {
		t.res.Resigned = append(t.res.Resigned, rwHash(fmt.Sprintf("%s/V%d/%v", t.sched, t.v, c.Crashes)))
	}
	t.verdict(inc, c)
	if t.res.Sample == nil && len(c.Crashes[len(c.Crashes)-1].Zero)+gen > 1 {
		t.res.Sample = map[string]interface{}{"case": c, "finalized_after_restarts": inc.n.finalized, "signed": inc.n.signedProj()}
	}
	return inc
}

// selfTest: cut real steps with crashfs.FailAfter and compare the frozen file
// system with the log-based reconstruction the exploration uses.
func (t *rwTier) selfTest(full *rwInc) {
	checked := 0
	for si := range full.steps {
		s := &full.steps[si]
		if s.ev < 0 || s.logEnd == s.logStart || checked >= 12 {
			continue
		}
		for k := 0; k < s.logEnd-s.logStart; k++ {
			inc := t.start(crashfs.New(), rwBook{}, t.env.t0, 0)
			t.cont(inc, s.ev) // the prefix, uninterrupted
			inc.fs.FailAfter(k, crashfs.FailPanic)
			t.step(inc, s.ev, "self-test", rwBookOf(inc.n), func() { rwApply(inc.n, t.evs[s.ev]) }) // incl. the housekeeping tick, if due
			want := full.fs.StateAt(s.logStart + k)
			got := inc.fs.CrashState()
			if !inc.fs.Frozen() || !strings.Contains(inc.n.panicked, "simulated crash") || fmt.Sprint(want.Files) != fmt.Sprint(got.Files) {
				t.res.SelfTestBad = fmt.Sprintf("event %d (%s) cut at fs call %d: frozen=%v panicked=%q, state differs=%v", s.ev, s.desc, k, inc.fs.Frozen(), inc.n.panicked, fmt.Sprint(want.Files) != fmt.Sprint(got.Files))
			}
			checked++
			inc.wm.reap()
		}
	}
	t.res.SelfTest = checked
}

func runRealWALWorker(spec rwSpec) *rwResult {
	t0 := time.Now()
	res := &rwResult{Spec: spec, Complete: true}
	sc, _ := rwSchedule(spec.Schedule)
	t := &rwTier{env: sc.x.env, v: spec.Node, sched: spec.Schedule, res: res, gens: spec.Gens, laterSteps: spec.LaterSteps, tickEvery: spec.TickEvery, fileLimit: spec.FileLimit,
		seenPre: map[string]bool{}, seenPost: map[string]bool{}, sigSeen: map[string]int{}}
	for _, e := range sc.trace {
		if e.Node == spec.Node {
			t.evs = append(t.evs, e)
		}
	}
	res.Events = len(t.evs)
	t.setBase(sc)
	res.Heights = t.heights
	deadline := t0.Add(time.Duration(spec.BudgetS) * time.Second)
	t.stop = func() bool { return time.Now().After(deadline) }
	t.tear1 = &crashfs.TearOptions{AllUpTo: 64, Boundaries: rwBoundaries, MaxProduct: 512, ZeroTails: rwZeroTails()}
	if spec.Thorough {
		t.tear2 = t.tear1
	} else {
		// second generation, quick: clean cuts and header-sized tears only
		t.tear2 = &crashfs.TearOptions{AllUpTo: 1, Around: []int{0, 8}, Boundaries: rwBoundaries, MaxProduct: 64}
	}
	// generation 0: the uninterrupted run of v over the real WAL must behave like the base run
	full := t.run(crashfs.New(), rwBook{}, t.env.t0, 0)
	bn := sc.nodes[spec.Node]
	if full.n.signedProj() != bn.signedProj() || fmt.Sprint(full.n.finalized) != fmt.Sprint(bn.finalized) || full.n.dead() {
		res.BaseMismatch = fmt.Sprintf("real-WAL run of V%d differs from the base run: signed %q vs %q, finalized %v vs %v, panic %q",
			spec.Node, full.n.signedProj(), bn.signedProj(), full.n.finalized, bn.finalized, full.n.panicked)
	}
	t.verdict(full, rwCase{RealWAL: true, Schedule: spec.Schedule, Node: spec.Node, TickEvery: spec.TickEvery, FileLimit: spec.FileLimit})
	t.selfTest(full)
	t.explore(full, 1, nil)
	full.wm.reap()
	crashfs.Use(nil)
	res.WallS = time.Since(t0).Seconds()
	return res
}

func TestVerifC02RealWALWorker(t *testing.T) {
	specS := os.Getenv("VERIF_C02RW_SPEC")
	if specS == "" {
		t.Skip("worker only")
	}
	var spec rwSpec
	if err := json.Unmarshal([]byte(specS), &spec); err != nil {
		t.Fatal(err)
	}
	res := runRealWALWorker(spec)
	b, _ := json.Marshal(res)
	if err := os.WriteFile(os.Getenv("VERIF_C02RW_OUT"), b, 0o644); err != nil {
		t.Fatal(err)
	}
}

// ---------------------------------------------------------------- replay of one case

func rwReplay(c rwCase) *rwResult {
	res := &rwResult{Complete: true}
	sc, _ := rwSchedule(c.Schedule)
	t := &rwTier{env: sc.x.env, v: c.Node, sched: c.Schedule, res: res, tickEvery: c.TickEvery, fileLimit: c.FileLimit,
		seenPre: map[string]bool{}, seenPost: map[string]bool{}, sigSeen: map[string]int{}, stop: func() bool { return false }}
	for _, e := range sc.trace {
		if e.Node == c.Node {
			t.evs = append(t.evs, e)
		}
	}
	t.setBase(sc)
	inc := t.run(crashfs.New(), rwBook{}, t.env.t0, 0)
	fmt.Printf("replay: schedule %s validator V%d: %d events, base run finalized %v\n", c.Schedule, c.Node, len(t.evs), t.baseFin)
	for ci, cr := range c.Crashes {
		var s *rwStep
		for i := range inc.steps {
			if inc.steps[i].ev == cr.Step {
				s = &inc.steps[i]
				break
			}
		}
		if s == nil {
			fmt.Printf("replay: crash %d: step %d not executed\n", ci+1, cr.Step)
			return res
		}
		pos := s.positions(inc.fs.Log())
		if cr.Pos < 1 || cr.Pos > len(pos) {
			fmt.Printf("replay: crash %d: no position %d\n", ci+1, cr.Pos)
			return res
		}
		p := pos[cr.Pos-1]
		img := inc.fs.StateAt(p.logIdx).ImageWithZero(cr.Files, cr.Zero)
		book := copyBook(p.book)
		book.restarts++
		next := s.ev + 1
		if s.ev < 0 {
			next = inc.from
		}
		fmt.Printf("replay: crash %d at %s: %s -> image %s zeroed %v\n", ci+1, s.desc, p.desc, img.Describe(), cr.Zero)
		now := inc.n.world.NowT.Add(3 * time.Second)
		inc.wm.reap()
		inc = t.run(crashfs.FromImage(img), book, now, next)
		fmt.Printf("replay: after restart %d: signed %s finalized %v equivocated=%q notDurable=%q panic=%q\n", ci+1, inc.n.signedProj(), inc.n.finalized, inc.n.equivocated, inc.n.notDurable, inc.n.panicked)
	}
	t.verdict(inc, c)
	inc.wm.reap()
	crashfs.Use(nil)
	return res
}

// c02RealWALReplay handles `bin/check C02 --replay` for cases of this tier; it
// reports whether the replay file was one of them.
func c02RealWALReplay(r *ev.Run) bool {
	var c rwCase
	ev.ReplayCase(&c)
	if !c.RealWAL {
		return false
	}
	res := rwReplay(c)
	for _, v := range res.Violations {
		r.Violation("realwal/"+v.Sig, v.Detail, v.Case)
	}
	r.Eval(1)
	r.Finish(false)
	return true
}

// ---------------------------------------------------------------- parent side: spawn workers, merge into the C02 evidence

func c02RealWALSpecs(thorough bool) []rwSpec {
	var out []rwSpec
	add := func(s string, v, gens, budget int) {
		out = append(out, rwSpec{Schedule: s, Node: v, Gens: gens, Thorough: thorough, BudgetS: budget})
	}
	rot := func(s string, v, gens, budget, tick int) {
		add(s, v, gens, budget)
		out[len(out)-1].TickEvery, out[len(out)-1].FileLimit = tick, 200 // a vote record is ~160 B: the tail exceeds the limit after two records
	}
	if !thorough {
		for v := 0; v < 4; v++ {
			add("happy", v, 2, 35)
		}
		add("B4", 0, 2, 35)
		out[len(out)-1].LaterSteps = 5
		add("B4", 1, 1, 35)
		add("B4", 2, 1, 35)
		for _, s := range []string{"B3", "B5"} {
			for v := 0; v < 3; v++ {
				add(s, v, 1, 35)
			}
		}
		// two-height schedules
		add("B7", 0, 1, 35)
		add("B8", 0, 1, 35)
		// rotation family (tiny FileLimit, housekeeping tick as an event)
		rot("happy", 0, 2, 35, 1)
		rot("happy", 1, 2, 35, 1)
		rot("happy", 2, 2, 35, 2)
		rot("B4", 0, 2, 35, 1)
		out[len(out)-1].LaterSteps = 5
		rot("B4", 1, 1, 35, 2)
		return out
	}
	for v := 0; v < 4; v++ {
		add("happy", v, 3, 330)
	}
	for _, s := range []string{"B4", "B3", "B5", "B7", "B8"} {
		for v := 0; v < 3; v++ {
			add(s, v, 2, 330)
		}
	}
	for _, tick := range []int{1, 2, 3} {
		for _, v := range []int{0, 1} {
			rot("happy", v, 2, 330, tick)
		}
	}
	for _, tick := range []int{1, 2} {
		for _, v := range []int{0, 1} {
			rot("B4", v, 2, 330, tick)
		}
	}
	return out
}

// c02RealWAL runs the real-WAL tier (one subprocess per schedule x validator:
// one process drives one virtual clock) and adds its counts and violations to r.
// It returns false if some part did not complete.
func c02RealWAL(r *ev.Run, exe, work string) bool {
	specs := c02RealWALSpecs(r.Thorough())
	r.Assume(
		"real-WAL family: one validator of a directed base schedule (happy path, B3, B4, B5) runs over the real consensus/wal.go on crashfs; crash model as in C03: directory operations durable once issued, file data durable up to the last Sync, any byte prefix of the un-synced suffix of each WAL file may survive, plus (size metadata durable before payload data) a zero-filled tail confined to the payload of the last surviving record whose header is intact",
		"real-WAL family: crash positions = after every file-system call and after every network send of every step of the chosen validator (reconstructed from the crashfs call log and the recorded send order; cross-checked against real crashfs.FailAfter cuts); after a restart the rest of the validator's recorded wire events is delivered; the other validators behave as in the base run; up to 2 (thorough: 3 on the happy path) crash generations",
		"real-WAL rotation family: the engine's WAL FileLimit is replaced by 200 bytes (TotalLimit 1 GiB: no head segment is ever deleted) and wal.go's housekeeping ticker becomes an explicit event - one doHousekeeping call per open writer at the end of every k-th step (k in 1..3) - so segments rotate after about two records; the file-system calls of a tick are crash positions like any other; a record written to an unlinked segment is not durable (not reachable by name)",
		"real-WAL family: the finalized chain is durable (the fake block manager's Finalize is durable once it returns: a crash position before that point restarts without the block, one after it with the block in the chain; the block store itself is not torn); a validator is terminal once it has finalized the last height its base schedule decides (1 height for happy/B3/B4/B5, 2 heights for B7/B8, whose WALs then hold records of both heights); housekeeping of wal.go never runs (HousekeepingInterval 1000 h): rotation is C03's business",
	)
	results := make([]*rwResult, len(specs))
	ev.Par(len(specs), 16, func(i int) {
		spec := specs[i]
		if os.Getenv("VERIF_BUDGET_S") != "" {
			fmt.Sscan(os.Getenv("VERIF_BUDGET_S"), &spec.BudgetS)
		}
		sj, _ := json.Marshal(spec)
		out := filepath.Join(work, fmt.Sprintf("realwal-%s-V%d-t%d-%d.json", spec.Schedule, spec.Node, spec.TickEvery, os.Getpid()))
		cmd := exec.Command(exe, "-test.run", "^TestVerifC02RealWALWorker$", "-test.timeout", "60m")
		cmd.Env = append(os.Environ(), "VERIF_C02RW_SPEC="+string(sj), "VERIF_C02RW_OUT="+out, "GOMAXPROCS=2", "GOGC=400")
		if ob, err := cmd.CombinedOutput(); err != nil {
			fmt.Printf("HARNESS-ERROR property=C02 real-WAL worker %s/V%d failed: %v\n%s\n", spec.Schedule, spec.Node, err, tail(string(ob), 2000))
			r.Cap(fmt.Sprintf("real-WAL worker %s/V%d failed", spec.Schedule, spec.Node))
			return
		}
		b, err := os.ReadFile(out)
		os.Remove(out)
		if err != nil {
			r.Cap(fmt.Sprintf("real-WAL worker %s/V%d wrote no result", spec.Schedule, spec.Node))
			return
		}
		var res rwResult
		if err := json.Unmarshal(b, &res); err != nil {
			r.Cap(fmt.Sprintf("real-WAL worker %s/V%d wrote a bad result", spec.Schedule, spec.Node))
			return
		}
		results[i] = &res
	})
	ok := true
	var summary []map[string]interface{}
	tot := map[string]int64{}
	confirmed := map[string]int{}
	var sample interface{}
	for i, res := range results {
		if res == nil {
			ok = false
			continue
		}
		name := fmt.Sprintf("%s/V%d", specs[i].Schedule, specs[i].Node)
		if specs[i].TickEvery > 0 {
			name += fmt.Sprintf("/rotation(tick every %d, FileLimit %d)", specs[i].TickEvery, specs[i].FileLimit)
			tot["realwal_rotation_family_crash_images"] += int64(res.Images[1] + res.Images[2] + res.Images[3])
			tot["realwal_rotation_family_segments_created_by_ticks"] += int64(res.Rotations)
			tot["realwal_rotation_family_repairs_that_removed_a_segment"] += int64(res.RepairRemoves)
		}
		cases := res.Images[1] + res.Images[2] + res.Images[3]
		r.Eval(cases)
		for _, k := range res.Resigned {
			r.Nontrivial("realwal/" + name + "/" + k)
		}
		tot["realwal_crash_positions"] += int64(res.Positions[1] + res.Positions[2] + res.Positions[3])
		tot["realwal_crash_positions_inside_a_step"] += int64(res.InsideStep)
		tot["realwal_crash_images"] += int64(cases)
		tot["realwal_crash_images_second_generation"] += int64(res.Images[2])
		tot["realwal_crash_images_third_generation"] += int64(res.Images[3])
		tot["realwal_crash_images_torn"] += int64(res.TornImages)
		tot["realwal_crash_images_zero_filled_tail"] += int64(res.ZeroImages)
		tot["realwal_engines_restarted_on_an_image"] += int64(res.Restarts)
		tot["realwal_restarts_that_repaired_a_wal"] += int64(res.Repairs)
		tot["realwal_restarts_continued_through_the_schedule"] += int64(res.Continuations)
		tot["realwal_cases_signed_again_after_restart"] += int64(len(res.Resigned))
		tot["realwal_real_engine_steps"] += int64(res.EngineSteps)
		tot["realwal_failafter_selftest_points"] += int64(res.SelfTest)
		tot["realwal_crash_positions_right_after_a_finalize"] += int64(res.FinalizePositions)
		if res.Heights > 1 {
			tot["realwal_two_height_schedules_crash_images"] += int64(cases)
			tot["realwal_two_height_schedules_restarts_with_a_finalized_chain"] += int64(res.RestartsWithChain)
		}
		if !res.Complete {
			ok = false
			r.Cap(fmt.Sprintf("real-WAL %s: wall-clock budget after %d crash images", name, cases))
		}
		if res.SelfTestBad != "" {
			fmt.Printf("HARNESS-ERROR property=C02 real-WAL %s: FailAfter self-test: %s\n", name, res.SelfTestBad)
			r.Cap("real-WAL FailAfter self-test mismatch in " + name)
		}
		if res.BaseMismatch != "" {
			fmt.Printf("HARNESS-ERROR property=C02 real-WAL %s: %s\n", name, res.BaseMismatch)
			r.Cap("real-WAL base-run mismatch in " + name)
		}
		for _, v := range res.Violations {
			tot["realwal_violating_cases_reported_by_workers"]++
			confirmed[v.Sig]++
			if confirmed[v.Sig] > 3 {
				continue // enough of this kind (each report is first re-run in a fresh process)
			}
			// confirm on fresh engines from the replay form before reporting
			again := rwConfirm(exe, work, v.Case, v.Sig)
			if !again {
				fmt.Printf("HARNESS-ERROR property=C02 real-WAL %s: violation %s did not reproduce from its replay case\n", name, v.Sig)
				r.Cap("non-reproducing real-WAL violation in " + name)
				continue
			}
			r.Violation("realwal/"+v.Sig, v.Detail, v.Case)
		}
		if sample == nil && res.Sample != nil {
			sample = res.Sample
		}
		summary = append(summary, map[string]interface{}{"schedule": specs[i].Schedule, "validator": specs[i].Node, "generations": specs[i].Gens,
			"housekeeping_tick_every_steps": specs[i].TickEvery, "wal_file_limit": specs[i].FileLimit,
			"events": res.Events, "crash_positions": res.Positions, "crash_images": res.Images, "restarts": res.Restarts,
			"continued": res.Continuations, "signed_again_after_restart": len(res.Resigned), "complete": res.Complete, "wall_s": res.WallS})
	}
	for k, v := range tot {
		r.Add(k, v)
	}
	r.Set("realwal_runs", summary)
	if sample != nil {
		r.Sample(map[string]interface{}{"realwal_case": sample})
	}
	r.Sanity(tot["realwal_crash_images_torn"] > 0 && tot["realwal_restarts_that_repaired_a_wal"] > 0 && tot["realwal_cases_signed_again_after_restart"] > 0 && tot["realwal_crash_images_zero_filled_tail"] > 0,
		"real-WAL tier vacuous: torn=%d repaired=%d resigned=%d zero=%d", tot["realwal_crash_images_torn"], tot["realwal_restarts_that_repaired_a_wal"], tot["realwal_cases_signed_again_after_restart"], tot["realwal_crash_images_zero_filled_tail"])
	r.Sanity(tot["realwal_two_height_schedules_restarts_with_a_finalized_chain"] > 0 && tot["realwal_crash_positions_right_after_a_finalize"] > 0,
		"two-height schedules vacuous: restarts with a chain=%d, positions right after a finalize=%d", tot["realwal_two_height_schedules_restarts_with_a_finalized_chain"], tot["realwal_crash_positions_right_after_a_finalize"])
	r.Sanity(tot["realwal_rotation_family_segments_created_by_ticks"] > 0 && tot["realwal_rotation_family_repairs_that_removed_a_segment"] > 0,
		"rotation family vacuous: segments created=%d, repairs that removed a segment=%d", tot["realwal_rotation_family_segments_created_by_ticks"], tot["realwal_rotation_family_repairs_that_removed_a_segment"])
	return ok
}

// rwConfirm re-runs one case in a fresh subprocess (fresh engines, fresh file
// system) and says whether the same signature shows again.
func rwConfirm(exe, work string, c rwCase, sig string) bool {
	cj, _ := json.Marshal(c)
	out := filepath.Join(work, fmt.Sprintf("realwal-confirm-%s-%d.json", rwHash(string(cj)), os.Getpid()))
	cmd := exec.Command(exe, "-test.run", "^TestVerifC02RealWALConfirm$", "-test.timeout", "10m")
	cmd.Env = append(os.Environ(), "VERIF_C02RW_CASE="+string(cj), "VERIF_C02RW_OUT="+out, "GOMAXPROCS=2")
	if _, err := cmd.CombinedOutput(); err != nil {
		return false
	}
	b, err := os.ReadFile(out)
	os.Remove(out)
	if err != nil {
		return false
	}
	var res rwResult
	if json.Unmarshal(b, &res) != nil {
		return false
	}
	for _, v := range res.Violations {
		if v.Sig == sig {
			return true
		}
	}
	return false
}

func TestVerifC02RealWALConfirm(t *testing.T) {
	cs := os.Getenv("VERIF_C02RW_CASE")
	if cs == "" {
		t.Skip("worker only")
	}
	var c rwCase
	if err := json.Unmarshal([]byte(cs), &c); err != nil {
		t.Fatal(err)
	}
	res := rwReplay(c)
	b, _ := json.Marshal(res)
	if err := os.WriteFile(os.Getenv("VERIF_C02RW_OUT"), b, 0o644); err != nil {
		t.Fatal(err)
	}
}
