//go:build verif

package jsonrpc

import (
	"bytes"
	"encoding/hex"
	"encoding/json"
	"fmt"
	"sort"
	"strings"
	"sync"
	"testing"

	"github.com/icon-project/goloop/common"
	"github.com/icon-project/goloop/common/codec"
	"github.com/icon-project/goloop/verifshim/ev"
)

// c36Case is the replayable form of one enumerated case.
//
//	kind "addr":  Hex = the 21 raw bytes of an address (type byte 0/1 + id)
//	kind "bytes": Hex = candidate byte form fed to SetBytes/NewAddress/RLP decode
//	kind "str":   Hex = bytes of the candidate string fed to the strict parser
type c36Case struct {
	Kind string `json:"kind"`
	Hex  string `json:"hex"`
	Text string `json:"text,omitempty"` // printable copy of a "str" case (information only)
}

// ---- independent reference (written without encoding/hex, strings.ToLower, regexp) ----

const c36Digits = "0123456789abcdef"

// c36RefString is the canonical text of the 21-byte address raw (raw[0] in {0,1}).
func c36RefString(raw []byte) string {
	out := make([]byte, 0, 42)
	if raw[0] == 1 {
		out = append(out, 'c', 'x')
	} else {
		out = append(out, 'h', 'x')
	}
	for _, b := range raw[1:] {
		out = append(out, c36Digits[b>>4], c36Digits[b&15])
	}
	return string(out)
}

// c36RefParse is the reference strict parser: s is canonical iff it is exactly
// "hx"|"cx" followed by 40 characters of [0-9a-f].
func c36RefParse(s string) (raw [21]byte, ok bool) {
	if len(s) != 42 {
		return raw, false
	}
	switch {
	case s[0] == 'h' && s[1] == 'x':
		raw[0] = 0
	case s[0] == 'c' && s[1] == 'x':
		raw[0] = 1
	default:
		return raw, false
	}
	nib := func(c byte) int {
		switch {
		case c >= '0' && c <= '9':
			return int(c - '0')
		case c >= 'a' && c <= 'f':
			return int(c-'a') + 10
		}
		return -1
	}
	for i := 0; i < 20; i++ {
		h, l := nib(s[2+2*i]), nib(s[3+2*i])
		if h < 0 || l < 0 {
			return [21]byte{}, false
		}
		raw[1+i] = byte(h<<4 | l)
	}
	return raw, true
}

// c36Class names why a string is not canonical (used in violation signatures).
func c36Class(s string) string {
	if len(s) != 42 {
		return "length"
	}
	if p := s[:2]; p != "hx" && p != "cx" {
		return "prefix"
	}
	upper, other := false, false
	for i := 2; i < len(s); i++ {
		c := s[i]
		switch {
		case c >= '0' && c <= '9', c >= 'a' && c <= 'f':
		case c >= 'A' && c <= 'F':
			upper = true
		default:
			other = true
		}
	}
	switch {
	case other:
		return "non-hex-char"
	case upper:
		return "uppercase-hex"
	}
	return "canonical"
}

// c36RLPBytes is the RLP encoding of a byte string of length 2..55.
func c36RLPBytes(b []byte) []byte {
	return append([]byte{0x80 + byte(len(b))}, b...)
}

type c36Env struct {
	r       *ev.Run
	v       *Validator
	mu      sync.Mutex
	strings map[string][21]byte // String() image -> address (injectivity; first c36TrackMax addresses)
	classes map[string]int64    // candidate strings per class
	acc     int64               // canonical candidate strings
	rej     int64               // non-canonical candidate strings
	bacc    int64
	brej    int64
}

const c36TrackMax = 1 << 18

// validatorAccepts runs the real jsonrpc validator with the t_addr, t_addr_eoa
// and t_addr_score tags on s.
func (e *c36Env) validatorAccepts(s string) (any, eoa, score bool) {
	x := struct {
		A Address `validate:"t_addr"`
	}{Address(s)}
	y := struct {
		A Address `validate:"t_addr_eoa"`
	}{Address(s)}
	z := struct {
		A Address `validate:"t_addr_score"`
	}{Address(s)}
	return e.v.Validate(&x) == nil, e.v.Validate(&y) == nil, e.v.Validate(&z) == nil
}

func c36Dirty(raw []byte) *common.Address {
	// an Address object that holds a different address before being set
	d := new(common.Address)
	for i := range d {
		d[i] = ^raw[i%len(raw)] | 0x5a
	}
	d[0] = 1 - raw[0]&1
	return d
}

func (e *c36Env) checkAddr(raw [21]byte) {
	r := e.r
	c := c36Case{Kind: "addr", Hex: hex.EncodeToString(raw[:])}
	r.Eval(1)
	r.Nontrivial("a" + c.Hex)
	fail := func(sig, format string, a ...interface{}) {
		r.Violation(sig, "addr="+c.Hex+" "+fmt.Sprintf(format, a...), c)
	}
	if p := ev.Catch(func() {
		var a common.Address
		copy(a[:], raw[:])
		want := c36RefString(raw[:])
		s := a.String()
		if s != want {
			fail("String-not-canonical", "String()=%q want %q", s, want)
		}
		if s2 := a.String(); s2 != s {
			fail("String-not-deterministic", "%q then %q", s, s2)
		}
		e.mu.Lock()
		prev, dup := e.strings[s]
		if !dup && len(e.strings) < c36TrackMax {
			e.strings[s] = raw
		}
		e.mu.Unlock()
		if dup && prev != raw {
			fail("String-not-injective", "%q is also the text of %x", s, prev)
		}
		// strict parser maps the canonical text back to the same address
		for name, dst := range map[string]*common.Address{"fresh": new(common.Address), "reused": c36Dirty(raw[:])} {
			if err := dst.SetStringStrict(s); err != nil {
				fail("SetStringStrict-rejects-own-String", "(%s) s=%q err=%v", name, s, err)
			} else if *dst != a {
				fail("SetStringStrict-roundtrip-"+name, "s=%q got=%x", s, dst[:])
			}
			dst2 := new(common.Address)
			if name == "reused" {
				dst2 = c36Dirty(raw[:])
			}
			if err := dst2.SetString(s); err != nil || *dst2 != a {
				fail("SetString-roundtrip-"+name, "s=%q got=%x err=%v", s, dst2[:], err)
			}
		}
		// the jsonrpc layer agrees on the canonical text and on the kind
		isC := raw[0] == 1
		if eoaAddressRegex.MatchString(s) != !isC || scoreAddressRegex.MatchString(s) != isC {
			fail("jsonrpc-regex-rejects-canonical", "s=%q eoa=%v score=%v", s, eoaAddressRegex.MatchString(s), scoreAddressRegex.MatchString(s))
		}
		if any, eoa, score := e.validatorAccepts(s); !any || eoa != !isC || score != isC {
			fail("jsonrpc-validator-rejects-canonical", "s=%q t_addr=%v t_addr_eoa=%v t_addr_score=%v", s, any, eoa, score)
		}
		if got := Address(s).Address(); got == nil || !bytes.Equal(got.Bytes(), raw[:]) {
			fail("jsonrpc-Address-conversion", "s=%q got=%v", s, got)
		}
		// byte form
		if !bytes.Equal(a.Bytes(), raw[:]) || !bytes.Equal(a.ID(), raw[1:]) || a.IsContract() != isC {
			fail("Bytes-ID-IsContract", "Bytes=%x ID=%x IsContract=%v", a.Bytes(), a.ID(), a.IsContract())
		}
		for name, dst := range map[string]*common.Address{"fresh": new(common.Address), "reused": c36Dirty(raw[:])} {
			if err := dst.SetBytes(a.Bytes()); err != nil || *dst != a {
				fail("SetBytes-roundtrip-"+name, "got=%x err=%v", dst[:], err)
			}
		}
		if n, err := common.NewAddress(a.Bytes()); err != nil || n == nil || *n != a {
			fail("NewAddress-roundtrip", "got=%v err=%v", n, err)
		}
		if m, err := common.BytesToAddress(a.Bytes()); err != nil || m == nil || !bytes.Equal(m.Bytes(), raw[:]) {
			fail("BytesToAddress-roundtrip", "got=%v err=%v", m, err)
		}
		if got := common.NewAddressWithTypeAndID(isC, a.ID()); *got != a {
			fail("NewAddressWithTypeAndID-roundtrip", "got=%x", got[:])
		}
		if !a.Equal(&a) || !common.AddressEqual(&a, common.AddressToPtr(&a)) {
			fail("Equal-not-reflexive", "")
		}
		{ // 20-byte form means account
			dst := c36Dirty(raw[:])
			wantE := append([]byte{0}, raw[1:]...)
			if err := dst.SetBytes(a.ID()); err != nil || !bytes.Equal(dst[:], wantE) {
				fail("SetBytes-20-byte-form-not-account", "got=%x err=%v", dst[:], err)
			}
			other := a
			other[0] = 1 - other[0]
			if a.Equal(&other) {
				fail("Equal-ignores-type", "")
			}
		}
		// JSON
		js, err := json.Marshal(&a)
		if err != nil || string(js) != `"`+want+`"` {
			fail("JSON-form", "json=%s err=%v", js, err)
		} else {
			back := c36Dirty(raw[:])
			if err := json.Unmarshal(js, back); err != nil || *back != a {
				fail("JSON-roundtrip", "json=%s got=%x err=%v", js, back[:], err)
			}
		}
		// RLP and msgpack
		bs, err := codec.BC.MarshalToBytes(&a)
		if err != nil || !bytes.Equal(bs, c36RLPBytes(raw[:])) {
			fail("RLP-form", "rlp=%x err=%v", bs, err)
		} else {
			back := c36Dirty(raw[:])
			if rest, err := codec.BC.UnmarshalFromBytes(bs, back); err != nil || *back != a || len(rest) != 0 {
				fail("RLP-roundtrip", "rlp=%x got=%x rest=%x err=%v", bs, back[:], rest, err)
			}
		}
		if ms, err := codec.MP.MarshalToBytes(&a); err != nil {
			fail("MP-form", "err=%v", err)
		} else {
			back := c36Dirty(raw[:])
			if _, err := codec.MP.UnmarshalFromBytes(ms, back); err != nil || *back != a {
				fail("MP-roundtrip", "mp=%x got=%x err=%v", ms, back[:], err)
			}
		}
	}); p != "" {
		fail("panic-on-address", "%s", p)
	}
}

func (e *c36Env) checkBytes(b []byte) {
	r := e.r
	c := c36Case{Kind: "bytes", Hex: hex.EncodeToString(b)}
	r.Eval(1)
	r.Nontrivial("b" + c.Hex)
	fail := func(sig, format string, a ...interface{}) {
		r.Violation(sig, "bytes="+c.Hex+" "+fmt.Sprintf(format, a...), c)
	}
	var want []byte
	switch {
	case len(b) == 21 && (b[0] == 0 || b[0] == 1):
		want = append([]byte{}, b...)
	case len(b) == 20:
		want = append([]byte{0}, b...)
	}
	kind := fmt.Sprintf("len%d", len(b))
	if len(b) == 21 {
		kind = "len21-type-byte-other"
		if b[0] <= 1 {
			kind = "len21-type-byte-0or1"
		}
	}
	if p := ev.Catch(func() {
		a := new(common.Address)
		err := a.SetBytes(b)
		switch {
		case want == nil && err == nil:
			fail("SetBytes-accepts-"+kind, "got=%x", a[:])
		case want != nil && err != nil:
			fail("SetBytes-rejects-"+kind, "err=%v", err)
		case want != nil && !bytes.Equal(a.Bytes(), want):
			fail("SetBytes-wrong-value-"+kind, "got=%x want=%x", a.Bytes(), want)
		}
		n, err := common.NewAddress(b)
		if (err == nil) != (want != nil) || (err == nil && !bytes.Equal(n.Bytes(), want)) {
			fail("NewAddress-"+kind, "got=%v err=%v want=%x", n, err, want)
		}
		if len(b) >= 2 && len(b) <= 55 {
			d := new(common.Address)
			_, err := codec.BC.UnmarshalFromBytes(c36RLPBytes(b), d)
			if (err == nil) != (want != nil) || (err == nil && !bytes.Equal(d.Bytes(), want)) {
				fail("RLP-decode-"+kind, "got=%x err=%v want=%x", d[:], err, want)
			}
		}
	}); p != "" {
		fail("panic-on-bytes-"+kind, "%s", p)
	}
	if want != nil {
		e.bacc++
	} else {
		e.brej++
	}
}

func (e *c36Env) checkString(s string) {
	r := e.r
	c := c36Case{Kind: "str", Hex: hex.EncodeToString([]byte(s)), Text: fmt.Sprintf("%q", s)}
	r.Eval(1)
	r.Nontrivial("s" + s)
	fail := func(sig, format string, a ...interface{}) {
		r.Violation(sig, fmt.Sprintf("s=%q ", s)+fmt.Sprintf(format, a...), c)
	}
	ref, ok := c36RefParse(s)
	class := c36Class(s)
	if p := ev.Catch(func() {
		a := new(common.Address)
		err := a.SetStringStrict(s)
		switch {
		case err == nil && !ok:
			fail("strict-accepts-noncanonical:"+class, "parsed as %x (%s)", a[:], a.String())
		case err != nil && ok:
			fail("strict-rejects-canonical", "err=%v", err)
		case err == nil:
			if *a != common.Address(ref) {
				fail("strict-parses-wrong-address", "got=%x want=%x", a[:], ref[:])
			}
			if a.String() != s {
				fail("strict-accepted-text-is-not-String", "String()=%q", a.String())
			}
		}
		// second, independent implementation in the repository: the jsonrpc validator
		re := eoaAddressRegex.MatchString(s) || scoreAddressRegex.MatchString(s)
		if re != ok {
			fail("jsonrpc-regex-vs-canonical:"+class, "regex=%v canonical=%v", re, ok)
		}
		if re != (err == nil) {
			fail("jsonrpc-regex-vs-strict-parser:"+class, "regex=%v strict err=%v", re, err)
		}
		any, eoa, score := e.validatorAccepts(s)
		if any != ok || (ok && (eoa != (s[0] == 'h') || score != (s[0] == 'c'))) || (!ok && (eoa || score)) {
			fail("jsonrpc-validator-vs-canonical:"+class, "t_addr=%v t_addr_eoa=%v t_addr_score=%v canonical=%v", any, eoa, score, ok)
		}
	}); p != "" {
		fail("panic-on-string:"+class, "%s", p)
	}
	e.mu.Lock()
	e.classes[class]++
	if ok {
		e.acc++
	} else {
		e.rej++
	}
	e.mu.Unlock()
}

// ---- the enumerated spaces ----

// c36Batch collects cases and runs them on 16 workers when full.
type c36Batch[T any] struct {
	buf []T
	fn  func(T)
}

func (b *c36Batch[T]) add(x T) {
	b.buf = append(b.buf, x)
	if len(b.buf) >= 1<<16 {
		b.flush()
	}
}

func (b *c36Batch[T]) flush() {
	buf := b.buf
	ev.Par(len(buf), 16, func(i int) { b.fn(buf[i]) })
	b.buf = b.buf[:0]
}

var c36PairVals16 = []byte{0x00, 0x01, 0x09, 0x0a, 0x0f, 0x10, 0x7f, 0x80, 0x9a, 0xa0, 0xa9, 0xaf, 0xf0, 0xfa, 0xfe, 0xff}

// c36Ids enumerates the id family; ids may repeat (the evidence counts distinct ones).
func c36Ids(thorough bool, emit func(id [20]byte)) {
	var zero, ff, asc, mix [20]byte
	for i := range ff {
		ff[i] = 0xff
		asc[i] = byte(i)
		mix[i] = []byte{0xab, 0xcd, 0xef, 0x09, 0x1a}[i%5]
	}
	emit(zero)
	emit(ff)
	emit(asc)
	emit(mix)
	for _, bg := range [][20]byte{zero, ff} {
		for pos := 0; pos < 20; pos++ {
			for v := 0; v < 256; v++ {
				id := bg
				id[pos] = byte(v)
				emit(id)
			}
		}
	}
	// every pair of positions x a value set squared
	vals := c36PairVals16[:4]
	if thorough {
		vals = make([]byte, 0, 64)
		for v := 0; v < 256; v += 4 { // 64 values: every high nibble x low nibble in {0,4,8,c} ...
			vals = append(vals, byte(v))
		}
		vals = append(vals, c36PairVals16...) // ... plus the 16 boundary values
	}
	for _, bg := range [][20]byte{zero, ff} {
		for p := 0; p < 20; p++ {
			for q := p + 1; q < 20; q++ {
				for _, x := range vals {
					for _, y := range vals {
						id := bg
						id[p], id[q] = x, y
						emit(id)
					}
				}
			}
		}
	}
}

func c36ByteInputs() [][]byte {
	var out [][]byte
	for _, n := range []int{0, 1, 2, 19, 20, 21, 22, 23, 40, 41, 42} {
		for first := 0; first < 256; first++ {
			for fill := 0; fill < 3; fill++ {
				b := make([]byte, n)
				for i := range b {
					switch fill {
					case 0:
						b[i] = 0
					case 1:
						b[i] = 0xff
					default:
						b[i] = byte(i * 7)
					}
				}
				if n > 0 {
					b[0] = byte(first)
				} else if first > 0 || fill > 0 {
					continue
				}
				out = append(out, b)
			}
		}
	}
	out = append(out, nil)
	return out
}

// c36Strings enumerates the candidate-string family; strings may repeat.
func c36Strings(thorough bool, emit func(string)) {
	bodies := []string{
		strings.Repeat("0", 40),
		strings.Repeat("f", 40),
		"000102030405060708090a0b0c0d0e0f10111213",
		strings.Repeat("abcdef091a", 4),
		"1234567890abcdef1234567890abcdef12345678",
	}
	if thorough {
		for d := 0; d < 16; d++ {
			bodies = append(bodies, strings.Repeat(string(c36Digits[d]), 40))
		}
		bodies = append(bodies, "fedcba9876543210fedcba9876543210fedcba98", strings.Repeat("a0", 20), strings.Repeat("0a", 20))
	}
	var bases []string
	for _, b := range bodies {
		bases = append(bases, "hx"+b, "cx"+b)
	}
	// (a) the canonical strings themselves and every single-byte substitution
	for _, s := range bases {
		emit(s)
		for pos := 0; pos < len(s); pos++ {
			for v := 0; v < 256; v++ {
				if byte(v) == s[pos] {
					continue
				}
				emit(s[:pos] + string([]byte{byte(v)}) + s[pos+1:])
			}
		}
	}
	// (b) every substitution at two positions over a small alphabet
	alpha := []byte{'A', 'F', 'G', 'g', ' ', 'X', '0', 'a', 'c', 'h'}
	nb := 2
	if thorough {
		nb = 6
		alpha = append(alpha, 'B', 'C', 'D', 'E', 'H', 'x', 'f', '9', '/', ':', '@', '`', 'G'+0x80, 0x00, '\n', '+')
	}
	for _, s := range []string{bases[6], bases[7], bases[4], bases[3], bases[8], bases[9]}[:nb] {
		for p := 0; p < len(s); p++ {
			for q := p + 1; q < len(s); q++ {
				for _, x := range alpha {
					for _, y := range alpha {
						b := []byte(s)
						b[p], b[q] = x, y
						emit(string(b))
					}
				}
			}
		}
	}
	if thorough {
		// (b2) adjacent positions x all 256^2 byte values (covers every 2-byte UTF-8 sequence at every offset)
		for _, s := range []string{bases[6], bases[3]} {
			for p := 0; p+1 < len(s); p++ {
				for x := 0; x < 256; x++ {
					for y := 0; y < 256; y++ {
						b := []byte(s)
						b[p], b[p+1] = byte(x), byte(y)
						emit(string(b))
					}
				}
			}
		}
		// (b3) three positions over {A, g, space}
		a3 := []byte{'A', 'g', ' '}
		s := bases[6]
		for p := 0; p < len(s); p++ {
			for q := p + 1; q < len(s); q++ {
				for t := q + 1; t < len(s); t++ {
					for _, x := range a3 {
						for _, y := range a3 {
							for _, z := range a3 {
								b := []byte(s)
								b[p], b[q], b[t] = x, y, z
								emit(string(b))
							}
						}
					}
				}
			}
		}
	}
	// (c) prefix variants x body lengths x body styles
	prefixes := []string{"hx", "cx", "0x", "Hx", "hX", "HX", "Cx", "cX", "CX", "", "hxhx", "cxhx", "hx0x", "0xhx", "dx", "xh", "h", "x", "hx ", " hx", "hx\n", "\thx", "hy", "cy", "bx", "ix"}
	pc := []byte{'h', 'c', 'x', 'H', 'C', 'X', '0', ' ', 'g', 'i'}
	for _, x := range pc {
		for _, y := range pc {
			prefixes = append(prefixes, string([]byte{x, y}))
		}
	}
	styles := []string{"0", "a", "f", "A", "F", "9", "aB", "Ab", "0g", "g", " "}
	for _, p := range prefixes {
		for _, n := range []int{0, 1, 2, 20, 36, 37, 38, 39, 40, 41, 42, 43, 44, 80} {
			for _, st := range styles {
				body := strings.Repeat(st, n/len(st)+1)[:n]
				emit(p + body)
			}
		}
	}
	// (d) whitespace / control characters around and inside
	ws := []string{"", " ", "\n", "\t", "\r", "\x00", "\r\n", "\v", "\u00a0", "\u2028"}
	for _, s := range bases[:10] {
		for _, pre := range ws {
			for _, suf := range ws {
				emit(pre + s + suf)
				// same total length 42
				if t := pre + s + suf; len(t) > 42 {
					emit(t[:42])
					emit(t[len(t)-42:])
					if len(pre) <= 40 {
						emit(pre + s[:42-len(pre)])
					}
					if len(suf) <= 40 {
						emit(s[:42-len(suf)] + suf)
						emit(s[:2] + s[2+len(suf):] + suf)
					}
				}
			}
		}
	}
	// (e) multi-byte UTF-8 whose lower-casing changes (or keeps) the byte length,
	// placed at every body offset so that the byte length stays 42 or the rune count is 42
	exotic := []string{"İ", "K", "ａ", "０", "é", "ı", "ſ", "\U0001d7d8", "\xff", "\xc0\xaf", "А", "а"}
	for _, s := range bases[:4] {
		for _, x := range exotic {
			for off := 2; off+len(x) <= 42; off++ {
				emit(s[:off] + x + s[off+len(x):]) // 42 bytes
				emit(s[:off] + x + s[off+1:])      // 42 runes when x is one rune
			}
			emit(s[:2] + strings.Repeat(x, 40))
			emit(x + s[len(x):])
		}
	}
}

func TestVerifC36(t *testing.T) {
	r := ev.Start(t, "C36", "exploration")
	r.Rule("addresses: type{0,1} x ids {zero, ff, ascending, mixed; every single position x 256 values on a 00 and an ff background; every position pair x V^2 on both backgrounds, |V|=4 quick / 80 thorough}; byte forms: lengths {0,1,2,19..23,40..42} x first byte 0..255 x 3 fills; strings: every 1-byte substitution (256 values, 42 positions) of 10 (thorough 48) canonical strings, every 2-position substitution over a 10-letter (thorough 26-letter, 6 bases) alphabet, thorough: adjacent positions x all 65536 byte pairs on 2 bases and 3-position substitutions over {A,g,space}; 126 prefixes x 14 body lengths x 11 body styles; whitespace/control wrappers; multi-byte UTF-8 insertions at every offset. distinct_nontrivial = distinct address / byte input / string (all cases exercise a parser or printer)")
	r.Assume("reference canonical form: ^(hx|cx)[0-9a-f]{40}$ implemented by hand in the harness (no regexp, no encoding/hex)",
		"Address values with a type byte other than 0/1 cannot be produced through the API and are outside the statement")
	e := &c36Env{r: r, v: NewValidator(), strings: map[string][21]byte{}, classes: map[string]int64{}}

	if ev.Replaying() {
		var c c36Case
		ev.ReplayCase(&c)
		b, err := hex.DecodeString(c.Hex)
		if err != nil {
			t.Fatal(err)
		}
		switch c.Kind {
		case "addr":
			var raw [21]byte
			copy(raw[:], b)
			e.checkAddr(raw)
		case "bytes":
			e.checkBytes(b)
		case "str":
			e.checkString(string(b))
		}
		r.Finish(false)
		return
	}

	naddr := 0
	ab := &c36Batch[[21]byte]{fn: e.checkAddr}
	c36Ids(r.Thorough(), func(id [20]byte) {
		for typ := byte(0); typ <= 1; typ++ {
			var raw [21]byte
			raw[0] = typ
			copy(raw[1:], id[:])
			ab.add(raw)
			naddr++
		}
	})
	ab.flush()
	r.Set("address_cases", naddr)

	for _, b := range c36ByteInputs() {
		e.checkBytes(b)
	}
	r.Set("byte_inputs_accepted", e.bacc)
	r.Set("byte_inputs_rejected", e.brej)

	nstr := 0
	sb := &c36Batch[string]{fn: e.checkString}
	c36Strings(r.Thorough(), func(s string) { sb.add(s); nstr++ })
	sb.flush()
	r.Set("candidate_string_cases", nstr)
	r.Set("candidate_strings_canonical", e.acc)
	r.Set("candidate_strings_noncanonical", e.rej)
	var cl []string
	for k, n := range e.classes {
		cl = append(cl, fmt.Sprintf("%s=%d", k, n))
	}
	sort.Strings(cl)
	r.Set("candidate_string_classes", cl)

	r.Sanity(e.acc > 100 && e.rej > 1000, "string space must contain canonical and non-canonical strings (acc=%d rej=%d)", e.acc, e.rej)
	r.Sanity(e.bacc > 100 && e.brej > 100, "byte space must contain accepted and rejected inputs (acc=%d rej=%d)", e.bacc, e.brej)
	for _, k := range []string{"length", "prefix", "uppercase-hex", "non-hex-char", "canonical"} {
		r.Sanity(e.classes[k] > 0, "no candidate string of class %s", k)
	}

	r.Sample(map[string]interface{}{"address_bytes": "01" + strings.Repeat("00", 19) + "80", "string": "cx" + strings.Repeat("00", 19) + "80"})
	r.Sample(map[string]interface{}{"candidate_string": "hx" + strings.Repeat("0", 39) + "A", "canonical": false, "class": "uppercase-hex"})
	r.Sample(map[string]interface{}{"candidate_string": "hx" + strings.Repeat("f", 40) + "\n", "canonical": false, "class": "length"})
	r.Sample(map[string]interface{}{"byte_input": "02" + strings.Repeat("ff", 20), "accepted": false})
	r.Finish(true)
}
