//go:build verif

package hexary_test

import (
	"bytes"
	"encoding/binary"
	"fmt"
	"sort"
	"sync"
	"sync/atomic"
	"testing"

	"golang.org/x/crypto/sha3"

	"github.com/icon-project/goloop/common/db"
	"github.com/icon-project/goloop/common/errors"
	"github.com/icon-project/goloop/icon/merkle/hexary"
	"github.com/icon-project/goloop/verifshim/ev"
)

// ---------------------------------------------------------------------------
// storage: a db.Bucket whose content is (a prefix of a shared append-only
// log) + (own writes). It lets every case start from an exact copy of the
// buckets of "an accumulator after N adds" without copying anything.
// ---------------------------------------------------------------------------

type c28Log struct {
	idx map[string]int // key -> sequence number of its (only) write
	val [][]byte
}

type c28Bucket struct {
	shared *c28Log
	upto   int // shared entries with sequence number < upto are visible
	own    map[string][]byte
	grow   bool // writes go to the shared log (phase 1 master only, single goroutine)
}

func (b *c28Bucket) Get(k []byte) ([]byte, error) {
	if v, ok := b.own[string(k)]; ok {
		if v == nil {
			return nil, nil
		}
		return append([]byte{}, v...), nil
	}
	if b.shared != nil {
		if i, ok := b.shared.idx[string(k)]; ok && i < b.upto {
			return append([]byte{}, b.shared.val[i]...), nil
		}
	}
	return nil, nil
}

func (b *c28Bucket) Has(k []byte) (bool, error) {
	v, _ := b.Get(k)
	return v != nil, nil
}

func (b *c28Bucket) Set(k, v []byte) error {
	cp := append([]byte{}, v...)
	if b.grow {
		if _, ok := b.shared.idx[string(k)]; !ok {
			b.shared.idx[string(k)] = len(b.shared.val)
			b.shared.val = append(b.shared.val, cp)
			b.upto = len(b.shared.val)
		}
		return nil
	}
	if b.own == nil {
		b.own = map[string][]byte{}
	}
	b.own[string(k)] = cp
	return nil
}

func (b *c28Bucket) Delete(k []byte) error {
	if b.own == nil {
		b.own = map[string][]byte{}
	}
	b.own[string(k)] = nil
	return nil
}

var _ db.Bucket = (*c28Bucket)(nil)

// ---------------------------------------------------------------------------
// reference: the hexary merkle root of a hash sequence, computed level by
// level (groups of 16, the last group may be shorter), independent of goloop.
// ---------------------------------------------------------------------------

func c28RefRoot(leaves [][]byte) []byte {
	if len(leaves) == 0 {
		return nil
	}
	cur := leaves
	for len(cur) > 1 {
		var next [][]byte
		for i := 0; i < len(cur); i += 16 {
			end := i + 16
			if end > len(cur) {
				end = len(cur)
			}
			h := sha3.New256()
			for _, c := range cur[i:end] {
				h.Write(c)
			}
			next = append(next, h.Sum(nil))
		}
		cur = next
	}
	return cur[0]
}

type c28Seq struct {
	name     string
	distinct bool
	hash     [][]byte
	fork     [][]byte // fork[i] != hash[i]: the hashes of an alternative branch
	ref      [][]byte // ref[n] = reference root of the first n hashes
	tree     *c28Log  // nodes written by n plain Adds ...
	treeCnt  []int    // ... visible count after n adds
	accData  [][]byte // accumulator record after n adds
}

const c28AccKey = "accumulator"

func (s *c28Seq) buckets(n int) (tree, acc *c28Bucket) {
	tree = &c28Bucket{shared: s.tree, upto: s.treeCnt[n]}
	acc = &c28Bucket{own: map[string][]byte{}}
	if s.accData[n] != nil {
		acc.own[c28AccKey] = s.accData[n]
	}
	return
}

// C28Case: replayable identification of a case.
type C28Case struct {
	Seq  string
	Kind string // "header", "proof", "rewind"
	N    int
	L    int `json:",omitempty"`
	Key  int `json:",omitempty"`
}

type c28Ctx struct {
	r        *ev.Run
	readd    int
	cnt      sync.Map
	obsOnce  sync.Once
	obsText  atomic.Value
	maxSmall int
}

func (c *c28Ctx) add(k string, n int64) {
	v, _ := c.cnt.LoadOrStore(k, new(int64))
	atomic.AddInt64(v.(*int64), n)
}

func (c *c28Ctx) get(k string) int64 {
	if v, ok := c.cnt.Load(k); ok {
		return atomic.LoadInt64(v.(*int64))
	}
	return 0
}

func c28HdrEq(h *hexary.MerkleHeader, root []byte, n int) bool {
	return h != nil && h.Leaves == int64(n) && bytes.Equal(h.RootHash, root)
}

func c28Pow16Rel(l int) string {
	for p := 16; p <= 1<<20; p *= 16 {
		switch l {
		case p - 1:
			return "l=16^k-1"
		case p:
			return "l=16^k"
		case p + 1:
			return "l=16^k+1"
		}
	}
	switch {
	case l == 0:
		return "l=0"
	case l == 1:
		return "l=1"
	case l%16 == 0:
		return "l%16=0"
	case l%16 == 15:
		return "l%16=15"
	case l%16 == 1:
		return "l%16=1"
	}
	return "l-other"
}

func (c *c28Ctx) open(cs C28Case, s *c28Seq, n int) (hexary.Accumulator, *c28Bucket, *c28Bucket) {
	tree, accb := s.buckets(n)
	acc, err := hexary.NewAccumulator(tree, accb, "")
	if err != nil {
		c.r.Violation("open-fails", fmt.Sprintf("NewAccumulator on the buckets of %d adds: %v", n, err), cs)
		return nil, nil, nil
	}
	return acc, tree, accb
}

// headerCase: an accumulator re-opened from the buckets left by N adds.
func (c *c28Ctx) headerCase(s *c28Seq, n int) {
	cs := C28Case{Seq: s.name, Kind: "header", N: n}
	if p := ev.Catch(func() {
		acc, _, _ := c.open(cs, s, n)
		if acc == nil {
			return
		}
		if acc.Len() != int64(n) {
			c.r.Violation("reopened-len-wrong", fmt.Sprintf("Len()=%d after %d adds", acc.Len(), n), cs)
		}
		tree, accb := s.buckets(n)
		acc2, err := hexary.NewAccumulator(tree, accb, "")
		if err != nil {
			c.r.Violation("open-fails", fmt.Sprintf("NewAccumulator on the buckets of %d adds: %v", n, err), cs)
			return
		}
		c.entryPoints(cs, s, "reopened", fmt.Sprintf("N=%d re-opened", n), acc, nil, nil, n, false, false)
		c.entryPoints(cs, s, "reopened", fmt.Sprintf("N=%d re-opened", n), acc2, tree, accb, n, true, false)
		// SetLen to the current length is a no-op and must not disturb anything
		if err := acc.SetLen(int64(n)); err != nil {
			c.r.Violation("setlen-to-len-fails", fmt.Sprintf("N=%d: %v", n, err), cs)
		}
		c.entryPoints(cs, s, "after-setlen-to-len", fmt.Sprintf("N=%d SetLen(%d)", n, n), acc, nil, nil, n, true, false)
		if n > 0 {
			if err := acc.SetLen(int64(n) + 1); err == nil {
				c.r.Violation("setlen-beyond-len-accepted", fmt.Sprintf("SetLen(%d) on Len %d returned nil", n+1, n), cs)
			}
		}
	}); p != "" {
		c.r.Violation("header-panic", fmt.Sprintf("N=%d: %s", n, p), cs)
	}
	c.add("headers_checked", 1)
}

func c28Keys(n int, all bool) []int {
	if all {
		out := make([]int, n)
		for i := range out {
			out[i] = i
		}
		return out
	}
	m := map[int]bool{}
	for k := 0; k < n; k += 16 {
		m[k] = true
	}
	for _, b := range []int{0, 16, 256, 4096, n} {
		for d := -2; d <= 2; d++ {
			if k := b + d; k >= 0 && k < n {
				m[k] = true
			}
		}
	}
	out := make([]int, 0, len(m))
	for k := range m {
		out = append(out, k)
	}
	sort.Ints(out)
	return out
}

// c28MinProofLen: the number of proof levels MerkleTree.Add insists on for a
// key: the nodes that are new relative to key-1 = trailing zero hex digits of
// the key (all levels for key 0), at most the tree's level.
func c28MinProofLen(key, level int) int {
	if key == 0 {
		return level
	}
	z := 0
	for key&0xf == 0 {
		z++
		key >>= 4
	}
	if z > level {
		z = level
	}
	return z
}

func c28CloneProof(p [][]byte) [][]byte {
	out := make([][]byte, len(p))
	for i := range p {
		out[i] = append([]byte{}, p[i]...)
	}
	return out
}

func c28Fresh(hd *hexary.MerkleHeader) hexary.MerkleTree {
	mt, err := hexary.NewMerkleTree(&c28Bucket{}, hd, -1)
	if err != nil {
		panic(err)
	}
	return mt
}

// proofCase: proofs of the finalized tree of N hashes.
func (c *c28Ctx) proofCase(s *c28Seq, n int, allKeys, sequential bool) {
	cs := C28Case{Seq: s.name, Kind: "proof", N: n}
	if p := ev.Catch(func() {
		acc, tree, _ := c.open(cs, s, n)
		if acc == nil {
			return
		}
		hd, err := acc.Finalize()
		if err != nil {
			c.r.Violation("finalize-fails", fmt.Sprintf("N=%d: %v", n, err), cs)
			return
		}
		prover, err := hexary.NewMerkleTree(tree, hd, -1)
		if err != nil {
			c.r.Violation("merkletree-open-fails", fmt.Sprintf("N=%d: %v", n, err), cs)
			return
		}
		level := hexary.LevelFromLen(int64(n))
		for _, key := range c28Keys(n, allKeys) {
			cs.Key = key
			full, err := prover.Prove(int64(key), 0)
			if err != nil {
				c.r.Violation("prove-fails", fmt.Sprintf("N=%d key=%d: %v", n, key, err), cs)
				continue
			}
			hk := s.hash[key]
			if s.distinct {
				rej := func(what string, k int, h []byte, pf [][]byte) {
					err := c28Fresh(hd).Add(int64(k), h, pf)
					if err == nil {
						c.r.Violation("altered-proof-accepted:"+what, fmt.Sprintf("N=%d key=%d: a fresh tree accepted %s", n, key, what), cs)
					} else if errors.Is(err, hexary.ErrVerify) {
						c.add("rejected_with_ErrVerify", 1)
					} else {
						c.add("rejected_with_other_error", 1)
					}
				}
				if n > 1 {
					rej("another-hash", key, s.hash[(key+1)%n], full)
				}
				rej("key+1", key+1, hk, full)
				if key > 0 {
					rej("key-1", key-1, hk, full)
				}
				for e := range full {
					fl := c28CloneProof(full)
					fl[e][(key*7+e*13)%len(fl[e])] ^= 0x01 << uint((key+e)%8)
					rej("flipped-byte", key, hk, fl)
					dr := append(c28CloneProof(full[:e]), c28CloneProof(full[e+1:])...)
					rej("dropped-level", key, hk, dr)
				}
			}
			if len(full) != level {
				c.r.Violation("full-proof-length", fmt.Sprintf("N=%d key=%d: %d levels, tree has %d", n, key, len(full), level), cs)
			}
			if err := c28Fresh(hd).Add(int64(key), hk, c28CloneProof(full)); err != nil {
				c.r.Violation("valid-proof-rejected:full", fmt.Sprintf("N=%d key=%d: a fresh tree built from the header rejects Prove(key,0): %v", n, key, err), cs)
			}
			c.add("full_proofs_accepted", 1)
		}
		if sequential {
			// a syncing node: keys in order, each with only the part of the proof that is new
			b := c28Fresh(hd)
			for key := 0; key < n; key++ {
				cs.Key = key
				part, err := prover.Prove(int64(key), -1)
				if err != nil {
					c.r.Violation("prove-fails:partial", fmt.Sprintf("N=%d key=%d: %v", n, key, err), cs)
					return
				}
				if err := b.Add(int64(key), s.hash[key], part); err != nil {
					c.r.Violation("valid-proof-rejected:partial-in-order", fmt.Sprintf("N=%d key=%d (%d new levels): %v", n, key, len(part), err), cs)
					return
				}
			}
			c.add("partial_proofs_accepted", int64(n))
		}
	}); p != "" {
		c.r.Violation("proof-panic", fmt.Sprintf("N=%d key=%d: %s", n, cs.Key, p), cs)
	}
	c.r.Eval(1)
}

// entryPoints compares EVERY header-returning entry point of an accumulator
// that should now hold exactly the first `want` hashes with the reference:
// Len, GetMerkleHeader and Finalize (in the given order, then both again), a
// proof of the first and the last key against the finalized header, and (if
// tree/accb are given) what an accumulator re-opened from the buckets reports.
// where names the situation for the signature ("after-rewind", ...).
// It returns false if something differed.
func (c *c28Ctx) entryPoints(cs C28Case, s *c28Seq, where, ctx string, acc hexary.Accumulator, tree, accb *c28Bucket, want int, finalizeFirst, reopenIsObservation bool) bool {
	return c.entryPointsRef(cs, where, ctx, acc, tree, accb, want, s.ref[want], func(i int) []byte { return s.hash[i] }, []int{0, want - 1}, finalizeFirst, reopenIsObservation)
}

// entryPointsRef: as entryPoints, for an arbitrary expected sequence given by
// its reference root, its leaves and the keys whose proofs are to be checked.
func (c *c28Ctx) entryPointsRef(cs C28Case, where, ctx string, acc hexary.Accumulator, tree, accb *c28Bucket, want int, root []byte, leaf func(int) []byte, keys []int, finalizeFirst, reopenIsObservation bool) bool {
	ok := true
	bad := func(sig, detail string) {
		ok = false
		c.r.Violation(sig+":"+where, fmt.Sprintf("%s: %s; the first %d hashes have reference root %x", ctx, detail, want, root), cs)
	}
	if acc.Len() != int64(want) {
		bad("len-differs-from-prefix", fmt.Sprintf("Len()=%d", acc.Len()))
	}
	var fh *hexary.MerkleHeader
	get := func(round string) {
		if h := acc.GetMerkleHeader(); !c28HdrEq(h, root, want) {
			bad("getmerkleheader-differs-from-prefix"+round, fmt.Sprintf("GetMerkleHeader() = %v", h))
		}
	}
	fin := func(round string) {
		h, err := acc.Finalize()
		if err != nil || !c28HdrEq(h, root, want) {
			bad("finalize-differs-from-prefix"+round, fmt.Sprintf("Finalize() = %v, %v", h, err))
		} else {
			fh = h
		}
	}
	if finalizeFirst {
		fin("")
		get("")
	} else {
		get("")
		fin("")
	}
	get(":repeated")
	fin(":repeated")
	c.add("entry_point_comparisons", 5)
	if fh != nil && want > 0 && tree != nil {
		prover, err := hexary.NewMerkleTree(tree, fh, -1)
		if err != nil {
			bad("merkletree-open-fails", err.Error())
		} else {
			for _, key := range keys {
				if key < 0 || key >= want {
					continue
				}
				pf, err := prover.Prove(int64(key), 0)
				if err != nil {
					bad("prove-fails", fmt.Sprintf("Prove(%d,0) against the finalized header: %v", key, err))
				} else if err := c28Fresh(fh).Add(int64(key), leaf(key), pf); err != nil {
					bad("valid-proof-rejected", fmt.Sprintf("key %d: %v", key, err))
				}
			}
		}
	}
	if tree != nil && accb != nil {
		re, err := hexary.NewAccumulator(tree, accb, "")
		var rh, rf *hexary.MerkleHeader
		if err == nil {
			rh = re.GetMerkleHeader()
			rf, err = re.Finalize()
		}
		if err != nil || !c28HdrEq(rh, root, want) || !c28HdrEq(rf, root, want) {
			if reopenIsObservation {
				c.add("obs_rewind_not_persisted", 1)
				c.obsOnce.Do(func() {
					c.obsText.Store(fmt.Sprintf("%s: a re-opened accumulator reports %v", ctx, rh))
				})
			} else {
				bad("reopened-differs-from-prefix", fmt.Sprintf("an accumulator re-opened from the buckets reports GetMerkleHeader %v, Finalize %v, %v", rh, rf, err))
			}
		} else {
			c.add("reopened_agrees", 1)
		}
	}
	return ok
}

// rewindCase: buckets of N adds, re-opened, SetLen(l). Run twice on two
// copies: once asking Finalize first after the rewind, once GetMerkleHeader
// first (the second copy then continues with adds and a second rewind).
func (c *c28Ctx) rewindCase(s *c28Seq, n, l int) {
	cs := C28Case{Seq: s.name, Kind: "rewind", N: n, L: l}
	rel := c28Pow16Rel(l)
	if p := ev.Catch(func() {
		for _, finalizeFirst := range []bool{true, false} {
			acc, tree, accb := c.open(cs, s, n)
			if acc == nil {
				return
			}
			if !finalizeFirst && (n+l)%2 == 1 {
				// half of the pairs: the N-state had been finalized before the rewind
				if _, err := acc.Finalize(); err != nil {
					c.r.Violation("finalize-fails", fmt.Sprintf("N=%d: %v", n, err), cs)
					return
				}
			}
			if err := acc.SetLen(int64(l)); err != nil {
				c.r.Violation("setlen-fails:"+rel, fmt.Sprintf("N=%d SetLen(%d): %v", n, l, err), cs)
				return
			}
			// SetLen(0) does not write the accumulator record (observation, see DETECTION.md);
			// for every other l the re-opened view must agree as well.
			if !c.entryPoints(cs, s, "after-rewind:"+rel, fmt.Sprintf("N=%d SetLen(%d)", n, l), acc, tree, accb, l, finalizeFirst, l == 0 && n > 0) {
				return
			}
			if finalizeFirst {
				continue
			}
			if l < n {
				if err := acc.SetLen(int64(l) + 1); err == nil {
					c.r.Violation("setlen-beyond-len-accepted:after-rewind", fmt.Sprintf("N=%d SetLen(%d) then SetLen(%d) returned nil", n, l, l+1), cs)
				}
			}
			// subsequent behaviour: adding the next hashes again gives the headers of the longer prefixes
			k := n - l
			if k > c.readd && n > c.maxSmall {
				k = c.readd
			}
			for j := 1; j <= k; j++ {
				if err := acc.Add(s.hash[l+j-1]); err != nil {
					c.r.Violation("add-after-rewind-fails:"+rel, fmt.Sprintf("N=%d SetLen(%d) add #%d: %v", n, l, j, err), cs)
					return
				}
				// every entry point after every add (proofs / re-open only after the last one)
				var t, a *c28Bucket
				if j == k {
					t, a = tree, accb
				}
				if !c.entryPoints(cs, s, "after-rewind-and-add:"+rel, fmt.Sprintf("N=%d SetLen(%d) then %d adds", n, l, j), acc, t, a, l+j, j%2 == 0, false) {
					return
				}
			}
			m := l + k
			if m > 0 {
				fh, err := acc.Finalize()
				if err != nil {
					return
				}
				prover, err := hexary.NewMerkleTree(tree, fh, -1)
				if err != nil {
					c.r.Violation("merkletree-open-fails:after-rewind", fmt.Sprintf("N=%d l=%d: %v", n, l, err), cs)
					return
				}
				for _, key := range []int{l - 1, l} {
					if key < 0 || key >= m {
						continue
					}
					pf, err := prover.Prove(int64(key), 0)
					if err != nil {
						c.r.Violation("prove-fails:after-rewind-and-add:"+rel, fmt.Sprintf("N=%d SetLen(%d) +%d adds, key %d: %v", n, l, k, key, err), cs)
						continue
					}
					if err := c28Fresh(fh).Add(int64(key), s.hash[key], pf); err != nil {
						c.r.Violation("valid-proof-rejected:after-rewind-and-add:"+rel, fmt.Sprintf("N=%d SetLen(%d) +%d adds, key %d: %v", n, l, k, key, err), cs)
					}
				}
			}
			// a second rewind from the rewound-and-regrown (and finalized) state
			l2 := l / 2
			if err := acc.SetLen(int64(l2)); err != nil {
				c.r.Violation("setlen-fails:second:"+c28Pow16Rel(l2), fmt.Sprintf("N=%d SetLen(%d) +%d adds SetLen(%d): %v", n, l, k, l2, err), cs)
			} else {
				c.entryPoints(cs, s, "after-second-rewind:"+c28Pow16Rel(l2), fmt.Sprintf("N=%d SetLen(%d) +%d adds SetLen(%d)", n, l, k, l2), acc, tree, accb, l2, (n+l)%2 == 0, l2 == 0 && m > 0)
			}
		}
	}); p != "" {
		c.r.Violation("rewind-panic:"+rel, fmt.Sprintf("N=%d SetLen(%d): %s", n, l, p), cs)
	}
	c.add("rewinds_"+rel, 1)
}

// forkCase: the rebase pattern. On a copy of the N-state the header-returning
// entry points are asked at length N (so that anything an implementation may
// remember about "length N" is in place), the accumulator is rewound to l<N
// and DIFFERENT hashes g_l, g_l+1, ... are added. Everything is compared with
// the reference of the forked sequence h_0..h_l-1, g_l..; the new leaves must
// be provable.
//
//	variant 0: no query between the rewind and length N; all entry points at
//	           N (GetMerkleHeader first), one more add, all entry points at N+1
//	variant 1: as 0 but Finalize first at N; then add up to N+2 without any
//	           query, rewind to N again, all entry points (GetMerkleHeader first)
//	variant 2: a GetMerkleHeader and a Finalize query at an intermediate length,
//	           then on to N, all entry points (order by parity)
func (c *c28Ctx) forkCase(s *c28Seq, n, l, variant int) {
	cs := C28Case{Seq: s.name, Kind: "fork", N: n, L: l, Key: variant}
	rel := c28Pow16Rel(l)
	where := fmt.Sprintf("after-rewind-and-fork:v%d:%s", variant, rel)
	leaf := func(i int) []byte {
		if i < l {
			return s.hash[i]
		}
		return s.fork[i]
	}
	ref := func(m int) []byte {
		seq := make([][]byte, m)
		for i := range seq {
			seq[i] = leaf(i)
		}
		return c28RefRoot(seq)
	}
	if p := ev.Catch(func() {
		acc, tree, accb := c.open(cs, s, n)
		if acc == nil {
			return
		}
		// queries at the old tip
		if !c.entryPoints(cs, s, "before-fork", fmt.Sprintf("N=%d", n), acc, nil, nil, n, variant == 1, false) {
			return
		}
		if err := acc.SetLen(int64(l)); err != nil {
			c.r.Violation("setlen-fails:"+rel, fmt.Sprintf("N=%d SetLen(%d): %v", n, l, err), cs)
			return
		}
		grow := func(to int) bool {
			for i := int(acc.Len()); i < to; i++ {
				if err := acc.Add(leaf(i)); err != nil {
					c.r.Violation("add-after-rewind-fails:fork:"+rel, fmt.Sprintf("N=%d SetLen(%d) fork add #%d: %v", n, l, i, err), cs)
					return false
				}
			}
			return true
		}
		at := func(m int, finalizeFirst bool, what string) bool {
			return c.entryPointsRef(cs, where, fmt.Sprintf("N=%d, headers asked, SetLen(%d), %d different hashes added%s", n, l, m-l, what), acc, tree, accb, m, ref(m), leaf, []int{0, l - 1, l, m - 1}, finalizeFirst, false)
		}
		switch variant {
		case 0:
			if !grow(n) || !at(n, false, "") {
				return
			}
			if grow(n + 1) {
				at(n+1, true, " (+1)")
			}
		case 1:
			if !grow(n) || !at(n, true, "") {
				return
			}
			if !grow(n + 2) {
				return
			}
			if err := acc.SetLen(int64(n)); err != nil {
				c.r.Violation("setlen-fails:fork-second:"+c28Pow16Rel(n), fmt.Sprintf("N=%d SetLen(%d) fork to %d SetLen(%d): %v", n, l, n+2, n, err), cs)
				return
			}
			at(n, false, fmt.Sprintf(", grown to %d and rewound to %d", n+2, n))
		case 2:
			mid := (l + n + 1) / 2
			if !grow(mid) {
				return
			}
			if h := acc.GetMerkleHeader(); !c28HdrEq(h, ref(mid), mid) {
				c.r.Violation("getmerkleheader-differs-from-prefix:"+where+":intermediate", fmt.Sprintf("N=%d SetLen(%d) fork to %d: %v", n, l, mid, h), cs)
				return
			}
			if h, err := acc.Finalize(); err != nil || !c28HdrEq(h, ref(mid), mid) {
				c.r.Violation("finalize-differs-from-prefix:"+where+":intermediate", fmt.Sprintf("N=%d SetLen(%d) fork to %d: %v, %v", n, l, mid, h, err), cs)
				return
			}
			if grow(n) {
				at(n, (n+l)%2 == 0, fmt.Sprintf(" (headers also asked at %d)", mid))
			}
		}
	}); p != "" {
		c.r.Violation("fork-panic:"+rel, fmt.Sprintf("N=%d SetLen(%d) variant %d: %s", n, l, variant, p), cs)
	}
	c.add("forks", 1)
}

// warmCase: soundness of MerkleTree.Add on a tree that already knows part of
// the branch. For the finalized tree of N hashes and a warm-up key w, ONE tree
// instance is filled with genuine proofs (mode "full": the full proof of w on
// an empty tree; mode "sync": keys 0..w in order with minimal proofs, what a
// syncing node holds), then, on that same instance, for w itself and its
// neighbours t (t = w, w+-1, w+-16, w+-256, the ends of w's 16- and 256-block,
// 0, N-1), for every proof depth the API offers (Prove(t, from) for from =
// 0..level and the minimal from = -1) and for EVERY element of that proof:
// the element with one byte flipped, and the element replaced by the genuine
// node of another key at the same depth, must be rejected - whatever the tree
// has cached. A wrong hash with the genuine proof must be rejected too. After
// all alterations, the genuine proofs whose omitted upper part is known to the
// tree must be accepted.
func (c *c28Ctx) warmCase(s *c28Seq, n int, wkeys []int) {
	cs := C28Case{Seq: s.name, Kind: "warm", N: n}
	if p := ev.Catch(func() {
		acc, tree, _ := c.open(cs, s, n)
		if acc == nil {
			return
		}
		hd, err := acc.Finalize()
		if err != nil {
			c.r.Violation("finalize-fails", fmt.Sprintf("N=%d: %v", n, err), cs)
			return
		}
		prover, err := hexary.NewMerkleTree(tree, hd, 1024)
		if err != nil {
			c.r.Violation("merkletree-open-fails", fmt.Sprintf("N=%d: %v", n, err), cs)
			return
		}
		level := hexary.LevelFromLen(int64(n))
		proofs := map[[2]int][][]byte{}
		prove := func(t, from int) [][]byte {
			k := [2]int{t, from}
			if pf, ok := proofs[k]; ok {
				return pf
			}
			pf, err := prover.Prove(int64(t), from)
			if err != nil {
				c.r.Violation("prove-fails", fmt.Sprintf("N=%d Prove(%d,%d): %v", n, t, from, err), cs)
				pf = nil
			}
			proofs[k] = pf
			return pf
		}
		for _, w := range wkeys {
			tm := map[int]bool{0: true, n - 1: true, w: true}
			for _, d := range []int{1, 16, 256} {
				tm[w-d], tm[w+d] = true, true
			}
			tm[w&^15], tm[w|15], tm[w&^255], tm[w|255] = true, true, true, true
			var targets []int
			for t := range tm {
				if t >= 0 && t < n {
					targets = append(targets, t)
				}
			}
			sort.Ints(targets)
			for _, mode := range []string{"full", "sync"} {
				cs.Key = w
				b := c28Fresh(hd)
				if mode == "full" {
					if err := b.Add(int64(w), s.hash[w], c28CloneProof(prove(w, 0))); err != nil {
						c.r.Violation("valid-proof-rejected:warmup-full", fmt.Sprintf("N=%d key=%d: %v", n, w, err), cs)
						continue
					}
				} else {
					bad := false
					for k := 0; k <= w && !bad; k++ {
						if err := b.Add(int64(k), s.hash[k], c28CloneProof(prove(k, -1))); err != nil {
							c.r.Violation("valid-proof-rejected:warmup-sync", fmt.Sprintf("N=%d key=%d of 0..%d: %v", n, k, w, err), cs)
							bad = true
						}
					}
					if bad {
						continue
					}
				}
				known := func(t, from int) bool { // are the omitted upper nodes of Prove(t,from) known to b?
					if from <= 0 {
						return from == 0
					}
					if mode == "sync" && t <= w {
						return true
					}
					sh := uint((level - from + 1) * 4)
					return w>>sh == t>>sh
				}
				var alts int64
				for _, t := range targets {
					other := (t + n/2 + 1) % n
					for from := -1; from <= level; from++ {
						pf := prove(t, from)
						kind := "partial-proof"
						if from == 0 {
							kind = "full-proof"
						} else if from < 0 {
							kind = "minimal-proof"
						}
						try := func(what string, h []byte, alt [][]byte) {
							alts++
							if err := b.Add(int64(t), h, alt); err == nil {
								c.r.Violation("altered-proof-accepted:after-warmup-"+mode+":"+what+":"+kind, fmt.Sprintf("N=%d: tree warmed with key %d (%s), then Add(key %d, Prove(%d,%d) with %s) was accepted", n, w, mode, t, t, from, what), cs)
							}
						}
						if s.distinct && n > 1 && (from == 0 || known(t, from)) {
							try("another-hash", s.hash[(t+1)%n], c28CloneProof(pf))
						}
						for e := range pf {
							fl := c28CloneProof(pf)
							fl[e][(t*7+e*13+w)%len(fl[e])] ^= 0x01 << uint((t+e)%8)
							try(fmt.Sprintf("flipped-byte-in-element-%d-of-%d", e, len(pf)), s.hash[t], fl)
							if opf := prove(other, from); s.distinct && len(opf) == len(pf) && !bytes.Equal(opf[e], pf[e]) {
								sw := c28CloneProof(pf)
								sw[e] = append([]byte{}, opf[e]...)
								try(fmt.Sprintf("foreign-node-in-element-%d-of-%d", e, len(pf)), s.hash[t], sw)
							}
						}
					}
				}
				c.add("warm_alterations_rejected_or_reported", alts)
				// genuine proofs are (still) accepted by the same instance
				for _, t := range targets {
					for from := -1; from <= level; from++ {
						if from < 0 {
							continue // minimal proofs assume key t-1 was added; covered by the in-order run
						}
						if !known(t, from) || level-from < c28MinProofLen(t, level) {
							continue // Add documents a minimum proof length per key (new nodes since key-1)
						}
						if err := b.Add(int64(t), s.hash[t], c28CloneProof(prove(t, from))); err != nil {
							c.r.Violation("valid-proof-rejected:after-warmup-"+mode, fmt.Sprintf("N=%d: tree warmed with key %d (%s), then genuine Add(key %d, Prove(%d,%d)): %v", n, w, mode, t, t, from, err), cs)
						}
						c.add("warm_genuine_accepted", 1)
					}
				}
			}
			c.add("warm_cases", 1)
		}
	}); p != "" {
		c.r.Violation("warm-panic", fmt.Sprintf("N=%d warm-up key %d: %s", n, cs.Key, p), cs)
	}
}

// poisonCase: failed Adds must not change what a tree accepts afterwards.
// For the finalized tree of N hashes, start states of ONE verifier-side tree
// (its own bucket): cold; warmed with the full proof of w; warmed with keys
// 0..w in order (w from a small boundary set). Then ONE failing Add F:
//   - "uncheckable": a genuine partial proof Prove(t,from), from>=1, of legal
//     length, whose omitted upper nodes the tree does NOT know in that state,
//   - the same with one byte flipped in each element,
//   - the full proof Prove(t,0) with one byte flipped in each element,
//
// (F must fail; whether with ErrVerify or not-found is counted, not judged),
// and a variant in which ALL failing Adds of the state are issued one after
// the other. THEN the genuine script G on the same instance: Prove(t,0);
// Prove(lo,0) for the start lo of the neighbourhood; Prove(k,-1) for
// k=lo+1..hi in order (hi = max(t,w)+17); finally G's in-order part again on a
// tree RE-OPENED on the same bucket. Oracle: every Add of G is accepted, as on
// the control tree that got the same start state and G but never saw F.
func (c *c28Ctx) poisonCase(s *c28Seq, n int, single bool) {
	cs := C28Case{Seq: s.name, Kind: "poison", N: n}
	if p := ev.Catch(func() {
		acc, tree, _ := c.open(cs, s, n)
		if acc == nil {
			return
		}
		hd, err := acc.Finalize()
		if err != nil {
			c.r.Violation("finalize-fails", fmt.Sprintf("N=%d: %v", n, err), cs)
			return
		}
		prover, err := hexary.NewMerkleTree(tree, hd, 1024)
		if err != nil {
			c.r.Violation("merkletree-open-fails", fmt.Sprintf("N=%d: %v", n, err), cs)
			return
		}
		level := hexary.LevelFromLen(int64(n))
		proofs := map[[2]int][][]byte{}
		prove := func(t, from int) [][]byte {
			k := [2]int{t, from}
			if pf, ok := proofs[k]; ok {
				return c28CloneProof(pf)
			}
			pf, err := prover.Prove(int64(t), from)
			if err != nil {
				panic(fmt.Sprintf("Prove(%d,%d): %v", t, from, err))
			}
			proofs[k] = pf
			return c28CloneProof(pf)
		}
		type state struct {
			mode string
			w    int
		}
		states := []state{{"cold", 0}}
		wm := map[int]bool{}
		for _, w := range []int{0, 1, 15, 16, 17, n / 2, n - 1} {
			if w >= 0 && w < n && !wm[w] {
				wm[w] = true
				states = append(states, state{"full", w}, state{"sync", w})
			}
		}
		// builds a tree in the given start state on a new bucket
		start := func(st state) (hexary.MerkleTree, *c28Bucket, bool) {
			bk := &c28Bucket{}
			b, err := hexary.NewMerkleTree(bk, hd, -1)
			if err != nil {
				panic(err)
			}
			switch st.mode {
			case "full":
				if err := b.Add(int64(st.w), s.hash[st.w], prove(st.w, 0)); err != nil {
					c.r.Violation("valid-proof-rejected:warmup-full", fmt.Sprintf("N=%d key=%d: %v", n, st.w, err), cs)
					return nil, nil, false
				}
			case "sync":
				for k := 0; k <= st.w; k++ {
					if err := b.Add(int64(k), s.hash[k], prove(k, -1)); err != nil {
						c.r.Violation("valid-proof-rejected:warmup-sync", fmt.Sprintf("N=%d key=%d of 0..%d: %v", n, k, st.w, err), cs)
						return nil, nil, false
					}
				}
			}
			return b, bk, true
		}
		known := func(st state, t, from int) bool {
			if from <= 0 {
				return true
			}
			switch st.mode {
			case "cold":
				return false
			case "sync":
				if t <= st.w {
					return true
				}
			}
			sh := uint((level - from + 1) * 4)
			return st.w>>sh == t>>sh
		}
		type failing struct {
			what  string
			t     int
			proof [][]byte
		}
		// the genuine script; returns the description of the first rejected Add ("" = all accepted)
		script := func(st state, b hexary.MerkleTree, bk *c28Bucket, t int) string {
			lo := t
			if st.mode != "cold" && st.w < lo {
				lo = st.w
			}
			lo = lo&^15 - 16
			if lo < 0 {
				lo = 0
			}
			hi := t
			if st.mode != "cold" && st.w > hi {
				hi = st.w
			}
			hi += 17
			if hi > n-1 {
				hi = n - 1
			}
			if err := b.Add(int64(t), s.hash[t], prove(t, 0)); err != nil {
				return fmt.Sprintf("full proof of key %d: %v", t, err)
			}
			inOrder := func(tr hexary.MerkleTree, tag string) string {
				if err := tr.Add(int64(lo), s.hash[lo], prove(lo, 0)); err != nil {
					return fmt.Sprintf("%sfull proof of key %d: %v", tag, lo, err)
				}
				for k := lo + 1; k <= hi; k++ {
					if err := tr.Add(int64(k), s.hash[k], prove(k, -1)); err != nil {
						return fmt.Sprintf("%sminimal proof Prove(%d,-1) (keys %d.. in order): %v", tag, k, lo, err)
					}
				}
				return ""
			}
			if d := inOrder(b, ""); d != "" {
				return d
			}
			re, err := hexary.NewMerkleTree(bk, hd, -1)
			if err != nil {
				return "re-open: " + err.Error()
			}
			// the re-opened tree relies on what the first tree stored: minimal proofs only
			for k := lo + 1; k <= hi; k++ {
				if err := re.Add(int64(k), s.hash[k], prove(k, -1)); err != nil {
					return fmt.Sprintf("tree re-opened on the same bucket: minimal proof Prove(%d,-1): %v", k, err)
				}
			}
			c.add("poison_genuine_adds", int64(2+2*(hi-lo)))
			return ""
		}
		for _, st := range states {
			tm := map[int]bool{0: true, n - 1: true, st.w: true}
			for _, d := range []int{1, 16, 256} {
				tm[st.w-d], tm[st.w+d] = true, true
			}
			tm[st.w|15], tm[(st.w|15)+1], tm[(st.w|255)+1] = true, true, true
			if st.mode == "cold" {
				for _, k := range c28Keys(n, n <= 40) {
					tm[k] = true
				}
			}
			var targets []int
			for t := range tm {
				if t >= 0 && t < n {
					targets = append(targets, t)
				}
			}
			sort.Ints(targets)
			control := map[int]string{}
			for _, t := range targets {
				b, bk, ok := start(st)
				if !ok {
					return
				}
				control[t] = script(st, b, bk, t)
				if control[t] != "" {
					cs.Key = t
					c.r.Violation("valid-proof-rejected:genuine-script:"+st.mode, fmt.Sprintf("N=%d start %s(w=%d), no failed Add before: %s", n, st.mode, st.w, control[t]), cs)
				}
			}
			var fails []failing
			for _, t := range targets {
				for from := 0; from <= level; from++ {
					if level-from < c28MinProofLen(t, level) {
						continue // not a legal-length proof
					}
					unknown := !known(st, t, from)
					if from > 0 && !unknown {
						continue // a checkable genuine partial proof: would be accepted
					}
					pf := prove(t, from)
					kind := "full-proof"
					if from > 0 {
						kind = "partial-proof-with-unknown-upper-part"
						fails = append(fails, failing{"uncheckable:" + kind, t, pf})
					}
					for e := range pf {
						fl := c28CloneProof(pf)
						fl[e][(t*7+e*13+st.w)%len(fl[e])] ^= 0x01 << uint((t+e)%8)
						fails = append(fails, failing{"flipped-byte:" + kind, t, fl})
					}
				}
			}
			issue := func(b hexary.MerkleTree, f failing) bool {
				err := b.Add(int64(f.t), s.hash[f.t], c28CloneProof(f.proof))
				if err == nil {
					cs.Key = f.t
					c.r.Violation("altered-proof-accepted:"+f.what+":start-"+st.mode, fmt.Sprintf("N=%d start %s(w=%d): Add(key %d, %s) was accepted", n, st.mode, st.w, f.t, f.what), cs)
					return false
				}
				if errors.Is(err, hexary.ErrVerify) {
					c.add("poison_failed_with_ErrVerify", 1)
				} else {
					c.add("poison_failed_with_other_error", 1)
				}
				return true
			}
			after := func(what string, t int, b hexary.MerkleTree, bk *c28Bucket) {
				if control[t] != "" {
					return
				}
				if d := script(st, b, bk, t); d != "" {
					cs.Key = t
					c.r.Violation("valid-proof-rejected:after-failed-add:"+what+":start-"+st.mode, fmt.Sprintf("N=%d start %s(w=%d): after the failed Add(s) [%s] the genuine script for key %d fails (it passes on a tree that never saw them): %s", n, st.mode, st.w, what, t, d), cs)
				}
			}
			if single {
				for _, f := range fails {
					b, bk, ok := start(st)
					if !ok {
						return
					}
					if issue(b, f) {
						after(f.what, f.t, b, bk)
					}
					c.add("poison_single_failed_add_cases", 1)
				}
			}
			// all failing Adds of this state one after the other, then the script for every target
			for _, t := range targets {
				b, bk, ok := start(st)
				if !ok {
					return
				}
				for _, f := range fails {
					issue(b, f)
				}
				after("all-failing-adds-of-the-state", t, b, bk)
				c.add("poison_all_failed_adds_cases", 1)
			}
		}
	}); p != "" {
		c.r.Violation("poison-panic", fmt.Sprintf("N=%d key %d: %s", n, cs.Key, p), cs)
	}
}

// retainedFamily: results handed out by the accumulator / merkle tree must not
// change when the accumulator is used further. Three live accumulators (own
// buckets) add h_0..h_top-1; at EVERY length L<=retainUpTo one of them is asked
// Finalize(), one GetMerkleHeader(), one both; the returned headers are KEPT
// together with a deep copy taken immediately. After every further Add every
// kept header must still equal its deep copy and the reference header of the
// first L hashes. For L<=64 and the special L the proofs Prove(0,0), Prove(L-1,0)
// of a tree opened on the finalized header are kept in the same way and
// compared after all other keys were proven and at the very end.
func (c *c28Ctx) retainedFamily(s *c28Seq, top, retainUpTo int) {
	hash := func(i int) []byte {
		var in [8]byte
		binary.BigEndian.PutUint64(in[:], uint64(i))
		h := sha3.Sum256(in[:])
		return h[:]
	}
	type kept struct {
		how   string
		l     int
		hd    *hexary.MerkleHeader
		root  []byte
		proof [][]byte
		pcopy [][]byte
		key   int
	}
	special := c28Special(top)
	var all []*kept
	hows := []string{"Finalize", "GetMerkleHeader", "Finalize+GetMerkleHeader"}
	accs := make([]hexary.Accumulator, 3)
	trees := make([]*c28Bucket, 3)
	for i := range accs {
		trees[i] = &c28Bucket{}
		a, err := hexary.NewAccumulator(trees[i], &c28Bucket{}, "")
		if err != nil {
			panic(err)
		}
		accs[i] = a
	}
	keep := func(how string, l int, hd *hexary.MerkleHeader) {
		all = append(all, &kept{how: how, l: l, hd: hd, root: append([]byte(nil), hd.RootHash...)})
	}
	check := func(n int) bool {
		ok := true
		for _, k := range all {
			cs := C28Case{Seq: s.name, Kind: "retained", N: n, L: k.l}
			if k.hd != nil {
				if k.hd.Leaves != int64(k.l) || !bytes.Equal(k.hd.RootHash, k.root) || (k.l < len(s.ref) && !bytes.Equal(k.hd.RootHash, s.ref[k.l])) {
					c.r.Violation("retained-header-changed:"+k.how+":"+c28Pow16Rel(k.l), fmt.Sprintf("header returned by %s at length %d was {%x,%d}; after the accumulator grew to %d the SAME header object reads {%x,%d}", k.how, k.l, k.root, k.l, n, k.hd.RootHash, k.hd.Leaves), cs)
					k.hd = nil // report once
					ok = false
				}
			}
			if k.proof != nil {
				same := len(k.proof) == len(k.pcopy)
				for i := 0; same && i < len(k.proof); i++ {
					same = bytes.Equal(k.proof[i], k.pcopy[i])
				}
				if !same {
					c.r.Violation("retained-proof-changed:"+c28Pow16Rel(k.l), fmt.Sprintf("proof of key %d returned by Prove at length %d changed later (n=%d)", k.key, k.l, n), cs)
					k.proof = nil
					ok = false
				}
			}
		}
		c.add("retained_comparisons", int64(len(all)))
		return ok
	}
	if p := ev.Catch(func() {
		for n := 0; n <= top; n++ {
			if n > 0 {
				for _, a := range accs {
					if err := a.Add(hash(n - 1)); err != nil {
						panic(err)
					}
				}
				check(n)
			}
			if n > retainUpTo {
				continue
			}
			f0, err := accs[0].Finalize()
			if err != nil {
				panic(err)
			}
			keep(hows[0], n, f0)
			keep(hows[1], n, accs[1].GetMerkleHeader())
			f2, err := accs[2].Finalize()
			if err != nil {
				panic(err)
			}
			keep(hows[2]+":finalize", n, f2)
			keep(hows[2]+":get", n, accs[2].GetMerkleHeader())
			if n > 0 && (n <= 64 || special[n]) {
				prover, err := hexary.NewMerkleTree(trees[0], &hexary.MerkleHeader{RootHash: append([]byte(nil), f0.RootHash...), Leaves: f0.Leaves}, -1)
				if err != nil {
					panic(err)
				}
				var mine []*kept
				for _, key := range []int{0, n - 1} {
					pf, err := prover.Prove(int64(key), 0)
					if err != nil {
						panic(fmt.Sprintf("Prove(%d) at %d: %v", key, n, err))
					}
					k := &kept{how: "Prove", l: n, proof: pf, pcopy: c28CloneProof(pf), key: key}
					all = append(all, k)
					mine = append(mine, k)
				}
				for key := 0; key < n; key++ { // churn the prover's cache
					if _, err := prover.Prove(int64(key), -1); err != nil {
						panic(err)
					}
				}
				check(n)
				// a kept proof is still accepted
				for _, k := range mine {
					if k.proof != nil {
						if err := c28Fresh(f0).Add(int64(k.key), hash(k.key), c28CloneProof(k.proof)); err != nil {
							c.r.Violation("valid-proof-rejected:retained", fmt.Sprintf("n=%d key=%d: %v", n, k.key, err), C28Case{Seq: s.name, Kind: "retained", N: n, L: n})
						}
					}
				}
			}
			check(n)
		}
		check(top)
	}); p != "" {
		c.r.Violation("retained-panic", p, C28Case{Seq: s.name, Kind: "retained"})
	}
	c.add("retained_results_kept", int64(len(all)))
}

// build runs phase 1 for a sequence: a master accumulator adds the hashes one
// by one (its tree bucket is the shared log), a second accumulator is
// re-opened from its own buckets before every add; both must agree with the
// reference after every add.
func (c *c28Ctx) build(name string, distinct bool, maxN int) *c28Seq {
	s := &c28Seq{name: name, distinct: distinct, tree: &c28Log{idx: map[string]int{}}}
	for i := 0; i < maxN; i++ {
		var in [8]byte
		if distinct {
			binary.BigEndian.PutUint64(in[:], uint64(i))
		}
		h := sha3.Sum256(in[:])
		s.hash = append(s.hash, h[:])
	}
	for i := 0; i < maxN+3; i++ {
		g := sha3.Sum256([]byte(fmt.Sprintf("fork-%d", i)))
		s.fork = append(s.fork, g[:])
	}
	s.ref = make([][]byte, maxN+1)
	ev.Par(maxN+1, 16, func(n int) { s.ref[n] = c28RefRoot(s.hash[:n]) })
	mtree := &c28Bucket{shared: s.tree, grow: true}
	macc := &c28Bucket{}
	master, err := hexary.NewAccumulator(mtree, macc, "")
	if err != nil {
		panic(err)
	}
	btree, bacc := &c28Bucket{}, &c28Bucket{}
	// a third, live accumulator that is finalized after every add
	live, err := hexary.NewAccumulator(&c28Bucket{}, &c28Bucket{}, "")
	if err != nil {
		panic(err)
	}
	s.treeCnt = make([]int, maxN+1)
	s.accData = make([][]byte, maxN+1)
	for n := 0; ; n++ {
		cs := C28Case{Seq: name, Kind: "header", N: n}
		s.treeCnt[n] = len(s.tree.val)
		s.accData[n], _ = macc.Get([]byte(c28AccKey))
		b, err := hexary.NewAccumulator(btree, bacc, "")
		if err != nil {
			c.r.Violation("open-fails", fmt.Sprintf("re-open after %d adds: %v", n, err), cs)
			return nil
		}
		mh, bh := master.GetMerkleHeader(), b.GetMerkleHeader()
		if !c28HdrEq(mh, s.ref[n], n) {
			c.r.Violation("header-differs-from-reference:live", fmt.Sprintf("N=%d header %v, reference root %x", n, mh, s.ref[n]), cs)
		}
		if !c28HdrEq(bh, s.ref[n], n) {
			c.r.Violation("header-differs-from-reference:reopened-every-add", fmt.Sprintf("N=%d header %v, reference root %x", n, bh, s.ref[n]), cs)
		}
		if p := ev.Catch(func() {
			c.entryPoints(cs, s, "reopened-every-add", fmt.Sprintf("N=%d (re-opened before every add)", n), b, nil, nil, n, n%2 == 0, false)
			c.entryPoints(cs, s, "live-finalized-every-add", fmt.Sprintf("N=%d (live, finalized after every add)", n), live, nil, nil, n, n%2 == 1, false)
		}); p != "" {
			c.r.Violation("header-panic", fmt.Sprintf("N=%d: %s", n, p), cs)
			return nil
		}
		if n == maxN {
			break
		}
		if p := ev.Catch(func() {
			if err := master.Add(s.hash[n]); err != nil {
				panic(err)
			}
			if err := live.Add(s.hash[n]); err != nil {
				panic(err)
			}
			if err := b.Add(s.hash[n]); err != nil {
				panic(err)
			}
		}); p != "" {
			c.r.Violation("add-fails", fmt.Sprintf("add #%d: %s", n, p), cs)
			return nil
		}
	}
	c.add("sequences_built", 1)
	return s
}

func c28Special(maxN int) map[int]bool {
	m := map[int]bool{maxN: true}
	for p := 16; p <= maxN+1; p *= 16 {
		for d := -1; d <= 1; d++ {
			if p+d <= maxN {
				m[p+d] = true
			}
		}
	}
	return m
}

func TestVerifC28(t *testing.T) {
	r := ev.Start(t, "C28", "exploration")
	maxN := r.Pick(300, 4200)
	small := r.Pick(300, 1000) // every (N,l) pair and every key up to here
	constN := 300
	forkAll := r.Pick(96, 200) // every (N,l) fork pair up to here
	warmAll := r.Pick(48, 300) // warm-up soundness cases for every N up to here (plus 272, 300 and the special N)
	retainTop, retainUpTo := r.Pick(700, 4200), r.Pick(300, 1100)
	poisonAll := r.Pick(48, 300)    // failed-Add-then-genuine cases for every N up to here (plus 272, 300, special N)
	poisonSingle := r.Pick(40, 300) // ... with one tree per single failed Add up to here (above: all failed Adds on one tree)
	c := &c28Ctx{r: r, readd: 17, maxSmall: r.Pick(64, 300)}
	r.Rule(fmt.Sprintf("hash sequence h_i = SHA3(i) ('distinct') for N = 0..%d and the constant sequence ('constant', positive checks only) for N = 0..%d; phase 1: header after every add of a live accumulator and of one re-opened from its buckets before every add, against the reference root; in every situation ALL header-returning entry points are compared with the reference: Len, GetMerkleHeader and Finalize in both orders and repeated, proofs of the first and last key against the finalized header, and the view of an accumulator re-opened from the buckets; phase 1 also on a live accumulator finalized after every add; phase 2 on exact copies of the buckets after N adds: 'header' every N (re-opened, also after the no-op SetLen(N)); 'proof' every N<=%d with every key, larger N with key boundaries and every 16th key: Prove(key,0) accepted by a fresh tree made from the header, and for the distinct sequence rejected with another hash, as key+1/key-1, with one byte flipped in each level, with each level dropped; keys in order with Prove(key,-1) into one tree (N<=%d and the special N); 'rewind' SetLen(l): every pair l<=N<=%d, for larger N: every l for N in {16^k-1,16^k,16^k+1,%d} and l in {0,N-1,N-15,N-16,N-17,16^k-1,16^k,16^k+1} for every N; each rewind on two copies (Finalize asked first / GetMerkleHeader asked first; for odd N+l the N-state is finalized before the rewind): immediately after SetLen(l), before any Add, all entry points incl. the re-opened view (for l=0 the re-opened view is only an observation) = reference of the prefix; SetLen(l+1) fails; re-add (all up to N for N<=%d, else %d) with all entry points after every add; proofs of keys l-1,l; second rewind to l/2 with all entry points; 'fork' (distinct sequence): every l<N<=%d and the boundary l (0,1,N-1,N-2,N-15..N-17,16^k-1..16^k+1, multiples of 16) for larger N: all entry points asked at N, SetLen(l), DIFFERENT hashes added, 3 variants (no query before reaching N again then N+1; grown to N+2 and rewound to N; queries at an intermediate length), all entry points incl. proofs of the new leaves against the reference of the forked sequence; 'warm' (distinct sequence): every N<=%d and N in {272,300, 16^k-1,16^k,16^k+1, max} x every warm-up key w (N<=%d: all keys, else boundaries and every 16th) x 2 warm-up modes (full proof of w on an empty tree / keys 0..w in order with minimal proofs) on ONE tree instance x targets t in {w, w+-1, w+-16, w+-256, ends of w's 16- and 256-block, 0, N-1} x every proof depth Prove(t,from), from=-1,0..level x EVERY proof element: one byte flipped / replaced by another key's node must be rejected, also a wrong hash; afterwards the genuine proofs with known upper part are accepted; 'poison' (distinct sequence): every N<=%d and N in {272,300,special}: start states of one verifier tree {cold, full proof of w, keys 0..w in order; w in {0,1,15,16,17,N/2,N-1}} x ONE failing Add (N<=%d; for all N also ALL failing Adds in a row): every legal-length genuine partial proof Prove(t,from>=1) whose omitted upper nodes are unknown in that state, each of its elements with a flipped byte, each element of the full proof with a flipped byte (t = neighbours of w; cold: all keys for N<=40 else boundaries and every 16th) - then the genuine script on the same instance: Prove(t,0), Prove(lo,0), Prove(k,-1) for k=lo+1..hi in order, and the minimal proofs again on a tree re-opened on the same bucket; every genuine Add must be accepted exactly as on a control tree that never saw the failed Add. 'retained': three live accumulators grow to %d hashes; at EVERY length L<=%d the headers returned by Finalize / GetMerkleHeader (and for L<=64 and special L the proofs Prove(0,0), Prove(L-1,0)) are KEPT with an immediate deep copy, and after EVERY further Add each kept result must still equal its copy and the reference of the first L hashes. evaluation = one case; non-trivial = distinct (sequence, kind, N, l)", maxN, constN, small, small, small, maxN, c.maxSmall, c.readd, forkAll, warmAll, small, poisonAll, poisonSingle, retainTop, retainUpTo))
	r.Assume("reference root: groups of 16 hashed level by level with SHA3-256 until one hash is left; a single hash is its own root", "storage: an in-memory db.Bucket of the harness that copies on Set and Get", "'rejected' means Add returns any error (ErrVerify and other errors are counted separately)")

	seqs := []*c28Seq{}
	if s := c.build("distinct", true, maxN); s != nil {
		seqs = append(seqs, s)
	}
	if s := c.build("constant", false, constN); s != nil {
		seqs = append(seqs, s)
	}
	if len(seqs) > 0 && !ev.Replaying() {
		c.retainedFamily(seqs[0], retainTop, retainUpTo)
		r.Eval(retainUpTo + 1)
		r.Nontrivial("retained")
	}
	if ev.Replaying() {
		var cs C28Case
		ev.ReplayCase(&cs)
		if cs.Kind == "retained" && len(seqs) > 0 {
			c.retainedFamily(seqs[0], retainTop, retainUpTo)
			r.Finish(false)
			return
		}
		for _, s := range seqs {
			if s.name != cs.Seq {
				continue
			}
			switch cs.Kind {
			case "proof":
				c.proofCase(s, cs.N, true, true)
			case "rewind":
				c.rewindCase(s, cs.N, cs.L)
			case "fork":
				c.forkCase(s, cs.N, cs.L, cs.Key)
			case "warm":
				c.warmCase(s, cs.N, []int{cs.Key})
			case "poison":
				c.poisonCase(s, cs.N, true)
			default:
				c.headerCase(s, cs.N)
			}
		}
		r.Finish(false)
		return
	}

	type job struct {
		s    *c28Seq
		kind string
		n    int
		ls   []int
	}
	var jobs []job
	for _, s := range seqs {
		top := len(s.hash)
		special := c28Special(top)
		for n := 0; n <= top; n++ { // small N first: the first reported violations are minimal ones
			jobs = append(jobs, job{s: s, kind: "header", n: n})
			jobs = append(jobs, job{s: s, kind: "proof", n: n})
			if s.distinct && n > 0 && (n <= poisonAll || (special[n] && n <= small) || n == 272 || n == 300) {
				jobs = append(jobs, job{s: s, kind: "poison", n: n})
			}
			if s.distinct && n > 0 && (n <= warmAll || special[n] || n == 272 || n == 300) {
				wk := c28Keys(n, n <= small)
				for len(wk) > 0 {
					k := len(wk)
					if k > 16 {
						k = 16
					}
					jobs = append(jobs, job{s: s, kind: "warm", n: n, ls: wk[:k]})
					wk = wk[k:]
				}
			}
			var ls []int
			if n <= small || special[n] {
				for l := 0; l <= n; l++ {
					ls = append(ls, l)
				}
			} else {
				m := map[int]bool{0: true}
				for _, l := range []int{n - 1, n - 15, n - 16, n - 17} {
					m[l] = true
				}
				for p := 16; p < n; p *= 16 {
					m[p-1], m[p], m[p+1] = true, true, true
				}
				for l := range m {
					if l >= 0 && l <= n {
						ls = append(ls, l)
					}
				}
				sort.Ints(ls)
			}
			// fork (rebase) cases, distinct sequence only: every l<N for N<=forkAll, else the boundary l
			if s.distinct && (n <= small || special[n]) {
				var fl []int
				for _, l := range ls {
					if l >= n {
						continue
					}
					d := n - l
					if n <= forkAll || l <= 1 || d <= 2 || (d >= 15 && d <= 17) || c28Pow16Rel(l)[:2] == "l=" || l%16 == 0 {
						fl = append(fl, l)
					}
				}
				for len(fl) > 0 {
					k := len(fl)
					if k > 32 {
						k = 32
					}
					jobs = append(jobs, job{s: s, kind: "fork", n: n, ls: fl[:k]})
					fl = fl[k:]
				}
			}
			// split long l-lists so that the work is spread over the workers
			for len(ls) > 0 {
				k := len(ls)
				if k > 64 {
					k = 64
				}
				jobs = append(jobs, job{s: s, kind: "rewind", n: n, ls: ls[:k]})
				ls = ls[k:]
			}
		}
	}
	var skipped int64
	ev.Par(len(jobs), 16, func(i int) {
		if r.Expired() {
			atomic.AddInt64(&skipped, 1)
			return
		}
		j := jobs[i]
		special := c28Special(len(j.s.hash))
		switch j.kind {
		case "header":
			c.headerCase(j.s, j.n)
			r.Eval(1)
			r.Nontrivial(fmt.Sprintf("%s/h/%d", j.s.name, j.n))
		case "proof":
			c.proofCase(j.s, j.n, j.n <= small, j.n <= small || special[j.n])
			r.Nontrivial(fmt.Sprintf("%s/p/%d", j.s.name, j.n))
		case "poison":
			c.poisonCase(j.s, j.n, j.n <= poisonSingle)
			r.Nontrivial(fmt.Sprintf("%s/x/%d", j.s.name, j.n))
			r.Eval(1)
		case "warm":
			c.warmCase(j.s, j.n, j.ls)
			for _, w := range j.ls {
				r.Nontrivial(fmt.Sprintf("%s/w/%d/%d", j.s.name, j.n, w))
			}
			r.Eval(len(j.ls))
		case "fork":
			for _, l := range j.ls {
				for v := 0; v < 3; v++ {
					c.forkCase(j.s, j.n, l, v)
					r.Nontrivial(fmt.Sprintf("%s/f/%d/%d/%d", j.s.name, j.n, l, v))
				}
			}
			r.Eval(3 * len(j.ls))
		case "rewind":
			for _, l := range j.ls {
				c.rewindCase(j.s, j.n, l)
				r.Nontrivial(fmt.Sprintf("%s/r/%d/%d", j.s.name, j.n, l))
			}
			r.Eval(len(j.ls))
		}
	})

	var rew int64
	c.cnt.Range(func(k, v interface{}) bool {
		r.Set(k.(string), atomic.LoadInt64(v.(*int64)))
		if len(k.(string)) > 8 && k.(string)[:8] == "rewinds_" {
			rew += atomic.LoadInt64(v.(*int64))
		}
		return true
	})
	r.Set("rewind_pairs", rew)
	r.Set("max_n", maxN)
	r.Set("jobs_skipped_by_budget", skipped)
	if t := c.obsText.Load(); t != nil {
		r.Set("observation_not_a_violation", "a rewind is not always persisted: "+t.(string))
	}
	if len(seqs) > 0 {
		s := seqs[0]
		r.Sample(map[string]interface{}{"sequence": s.name, "N": 17, "reference_root": fmt.Sprintf("%x", s.ref[17]), "levels": hexary.LevelFromLen(17), "tree_nodes_stored_by_adds": s.treeCnt[17]})
		r.Sample(map[string]interface{}{"sequence": s.name, "kind": "rewind", "N": 272, "l": 256, "class": c28Pow16Rel(256), "reference_root_of_prefix": fmt.Sprintf("%x", s.ref[256])})
		r.Sample(map[string]interface{}{"sequence": s.name, "kind": "proof", "N": 300, "key": 255, "alterations": "another hash, key+1, key-1, flipped byte per level, dropped level"})
	}
	r.Sanity(len(seqs) == 2, "a sequence could not be built")
	r.Sanity(skipped > 0 || c.get("forks") > 0, "no fork case ran")
	r.Sanity(c.get("retained_results_kept") > 0 && c.get("retained_comparisons") > 0, "no retained result compared")
	r.Sanity(skipped > 0 || (c.get("poison_single_failed_add_cases") > 0 && c.get("poison_all_failed_adds_cases") > 0 && c.get("poison_failed_with_other_error")+c.get("poison_failed_with_ErrVerify") > 0), "no failed-Add-then-genuine case ran")
	r.Sanity(skipped > 0 || (c.get("warm_cases") > 0 && c.get("warm_genuine_accepted") > 0), "no warm-up case ran")
	r.Sanity(c.get("full_proofs_accepted") > 0 && c.get("partial_proofs_accepted") > 0, "no proof accepted")
	r.Sanity(c.get("rejected_with_ErrVerify") > 0, "no altered proof was rejected with ErrVerify")
	r.Sanity(skipped > 0 || (c.get("rewinds_l=16^k") > 0 && c.get("rewinds_l=16^k-1") > 0 && c.get("rewinds_l=16^k+1") > 0 && c.get("rewinds_l=0") > 0), "rewind classes missing")
	r.Finish(skipped == 0)
}
