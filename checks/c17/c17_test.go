//go:build verif

package ompt

// C17 — the Merkle Patricia trie is a canonical map.
//
// Explicit-state BFS over operation histories executed on the REAL trie
// (bytes flavour trie.Mutable and object flavour trie.MutableForObject) over a
// MapDB. A state is identified by
//   - the reference model (current map, stashed snapshot map, stash flushed?),
//   - the shape of the real node graphs of the mutable trie and of the stashed
//     snapshot (node kind, node state dirty/frozen/hashed/written/flushed, hash
//     present?, unrealized hash node, sharing between the two graphs),
//   - the set of node hashes present in the database.
// It is re-created by replaying the first history that reached it on a fresh
// instance. Operations are NOT followed by intrusive observations during replay
// (Hash/Iterator need a snapshot, which freezes nodes and would hide the
// in-place update paths); the full observation is made once, at the end of the
// replayed history, on an instance that is thrown away afterwards.

import (
	"bytes"
	"encoding/hex"
	"fmt"
	"reflect"
	"runtime/debug"
	"sort"
	"strconv"
	"strings"
	"sync"
	"sync/atomic"
	"testing"
	"time"

	"github.com/icon-project/goloop/common/db"
	"github.com/icon-project/goloop/common/merkle"
	"github.com/icon-project/goloop/common/trie"
	"github.com/icon-project/goloop/verifshim/ev"
	"github.com/icon-project/goloop/verifshim/pbfs"
)

// ---- alphabet ----

var c17AllKeys = []string{"", "\x00", "\x01", "\x10", "\x00\x11", "\x00\x12", "\x00\x11\x22", "\x00\x11\x22\x33", "\xff"}
var c17AllVals = []string{"x", strings.Repeat("L", 40), "y"}

// prefixes used for Filter: every byte prefix of every key, plus two that match nothing
var c17Prefixes = []string{"", "\x00", "\x01", "\x10", "\x00\x11", "\x00\x12", "\x00\x11\x22", "\x00\x11\x22\x33", "\xff", "\x02", "\x00\x11\x23"}

type c17Alphabet struct {
	keys     []string
	vals     []string
	boundary bool // vals = c17BoundaryVals
}

// value lengths at and around the RLP size boundaries: 55/56 for the value
// string itself (and 255/256 for its length field), lengths that make the leaf
// list payload (encoded key + encoded value) 55/56 bytes for keys of 0..2 bytes
// (50..54), that make a branch with one hashed child and a value 55/56 bytes
// (6,7) or a branch with seven hashed children 255/256 bytes (14,15), and the
// embedded/hashed node limit (31..33). Every value starts with its own letter
// (the model key of the canonicity table records the first byte).
var c17BoundaryLens = []int{1, 5, 6, 7, 8, 14, 15, 31, 32, 33, 50, 51, 52, 53, 54, 55, 56, 57, 255, 256}
var c17BoundaryVals = func() []string {
	var out []string
	for i, n := range c17BoundaryLens {
		out = append(out, strings.Repeat(string([]byte{byte('a' + i)}), n))
	}
	return out
}()

const (
	c17Snap = iota
	c17Reset
	c17FlushStash
	c17Reload
	c17ClearMut
	c17ClearStash
	c17GetAll
	c17SnapFlush       // macro: GetSnapshot->stash; stash.Flush()
	c17SnapFlushReload // macro: GetSnapshot->stash; stash.Flush(); reload
	c17SnapFlushClear  // macro: GetSnapshot->stash; stash.Flush(); mutable.ClearCache()
	c17NumSpecial
)

var c17SpecialNames = []string{"GetSnapshot->stash", "Reset(stash)", "stash.Flush()", "Reload(NewMutable(db,stash.Hash()))", "mutable.ClearCache()", "stash.ClearCache()", "Get(every key)",
	"GetSnapshot->stash+stash.Flush()", "GetSnapshot->stash+stash.Flush()+Reload", "GetSnapshot->stash+stash.Flush()+mutable.ClearCache()"}

func (a *c17Alphabet) nops() int { return len(a.keys)*len(a.vals) + len(a.keys) + c17NumSpecial }

func (a *c17Alphabet) name(op int) string {
	ns := len(a.keys) * len(a.vals)
	switch {
	case op < ns:
		v := a.vals[op%len(a.vals)]
		if len(v) > 8 {
			v = fmt.Sprintf("%s*%d", v[:1], len(v))
		}
		return fmt.Sprintf("Set(%x,%s)", a.keys[op/len(a.vals)], v)
	case op < ns+len(a.keys):
		return fmt.Sprintf("Delete(%x)", a.keys[op-ns])
	default:
		return c17SpecialNames[op-ns-len(a.keys)]
	}
}

// ---- object flavour value type ----

type c17Obj struct{ data []byte }

func (o *c17Obj) Bytes() []byte                        { return o.data }
func (o *c17Obj) Reset(d db.Database, b []byte) error  { o.data = append([]byte(nil), b...); return nil }
func (o *c17Obj) Flush() error                         { return nil }
func (o *c17Obj) Resolve(builder merkle.Builder) error { return nil }
func (o *c17Obj) ClearCache()                          {}
func (o *c17Obj) Equal(x trie.Object) bool {
	o2, ok := x.(*c17Obj)
	return ok && o2 != nil && bytes.Equal(o.data, o2.data)
}

var c17ObjType = reflect.TypeOf((*c17Obj)(nil))

// ---- key-recording database wrapper (to know which node hashes are stored) ----

type c17DB struct {
	inner db.Database
	mu    sync.Mutex
	keys  map[string]struct{}
}

type c17Bucket struct {
	d     *c17DB
	inner db.Bucket
}

func c17NewDB() *c17DB { return &c17DB{inner: db.NewMapDB(), keys: map[string]struct{}{}} }

func (d *c17DB) GetBucket(id db.BucketID) (db.Bucket, error) {
	bk, err := d.inner.GetBucket(id)
	if err != nil {
		return nil, err
	}
	return &c17Bucket{d, bk}, nil
}
func (d *c17DB) Close() error                     { return nil }
func (b *c17Bucket) Get(k []byte) ([]byte, error) { return b.inner.Get(k) }
func (b *c17Bucket) Has(k []byte) (bool, error)   { return b.inner.Has(k) }
func (b *c17Bucket) Delete(k []byte) error        { return b.inner.Delete(k) }
func (b *c17Bucket) Set(k, v []byte) error {
	b.d.mu.Lock()
	b.d.keys[string(k)] = struct{}{}
	b.d.mu.Unlock()
	return b.inner.Set(k, v)
}

func (d *c17DB) sig() string {
	ks := make([]string, 0, len(d.keys))
	for k := range d.keys {
		ks = append(ks, k[:6])
	}
	sort.Strings(ks)
	return hex.EncodeToString([]byte(strings.Join(ks, "")))
}

// ---- adapters over the two flavours ----

type c17KV struct{ k, v string }

type c17Snapshot struct {
	m  *mpt
	bs *mptForBytes // nil in object flavour
}

type c17Mutable struct {
	m  *mpt
	bs *mptForBytes
}

func c17NewMutable(flavour int, d db.Database, h []byte) *c17Mutable {
	if flavour == 0 {
		t := NewMutable(d, h).(*mptForBytes)
		return &c17Mutable{m: t.mpt, bs: t}
	}
	t := NewMutableForObject(d, h, c17ObjType).(*mpt)
	return &c17Mutable{m: t}
}

func c17NewImmutable(flavour int, d db.Database, h []byte) *c17Snapshot {
	if flavour == 0 {
		t := NewImmutable(d, h).(*mptForBytes)
		return &c17Snapshot{m: t.mpt, bs: t}
	}
	t := NewImmutableForObject(d, h, c17ObjType).(*mpt)
	return &c17Snapshot{m: t}
}

func c17ObjBytes(o trie.Object) []byte {
	if o == nil {
		return nil
	}
	return o.Bytes()
}

func (t *c17Mutable) Get(k string) ([]byte, error) {
	if t.bs != nil {
		return t.bs.Get([]byte(k))
	}
	o, err := t.m.Get([]byte(k))
	return c17ObjBytes(o), err
}
func (t *c17Mutable) Set(k, v string) ([]byte, error) {
	kb, vb := []byte(k), []byte(v)
	if t.bs != nil {
		return t.bs.Set(kb, vb)
	}
	o, err := t.m.Set(kb, &c17Obj{vb})
	return c17ObjBytes(o), err
}
func (t *c17Mutable) Delete(k string) ([]byte, error) {
	if t.bs != nil {
		return t.bs.Delete([]byte(k))
	}
	o, err := t.m.Delete([]byte(k))
	return c17ObjBytes(o), err
}
func (t *c17Mutable) Snapshot() *c17Snapshot {
	if t.bs != nil {
		s := t.bs.GetSnapshot().(*mptForBytes)
		return &c17Snapshot{m: s.mpt, bs: s}
	}
	return &c17Snapshot{m: t.m.GetSnapshot().(*mpt)}
}
func (t *c17Mutable) Reset(s *c17Snapshot) {
	if t.bs != nil {
		t.bs.Reset(s.bs)
		return
	}
	t.m.Reset(s.m)
}
func (t *c17Mutable) ClearCache() { t.m.ClearCache() }

func (s *c17Snapshot) Get(k string) ([]byte, error) {
	if s.bs != nil {
		return s.bs.Get([]byte(k))
	}
	o, err := s.m.Get([]byte(k))
	return c17ObjBytes(o), err
}
func (s *c17Snapshot) Hash() []byte { return s.m.Hash() }
func (s *c17Snapshot) Empty() bool  { return s.m.Empty() }
func (s *c17Snapshot) Flush() error { return s.m.Flush() }
func (s *c17Snapshot) ClearCache()  { s.m.ClearCache() }
func (s *c17Snapshot) Equal(o *c17Snapshot, exact bool) bool {
	if s.bs != nil {
		return s.bs.Equal(o.bs, exact)
	}
	return s.m.Equal(o.m, exact)
}

// Iterate runs Filter(prefix) (Iterator() when prefix is nil) to the end.
func (s *c17Snapshot) Iterate(prefix *string) ([]c17KV, error) {
	var out []c17KV
	if s.bs != nil {
		var it trie.Iterator
		if prefix == nil {
			it = s.bs.Iterator()
		} else {
			it = s.bs.Filter([]byte(*prefix))
		}
		for n := 0; it.Has(); n++ {
			v, k, err := it.Get()
			if err != nil {
				return out, err
			}
			out = append(out, c17KV{string(k), string(v)})
			if err := it.Next(); err != nil {
				return out, err
			}
			if n > 64 {
				return out, fmt.Errorf("iterator does not terminate")
			}
		}
		return out, nil
	}
	var it trie.IteratorForObject
	if prefix == nil {
		it = s.m.Iterator()
	} else {
		it = s.m.Filter([]byte(*prefix))
	}
	for n := 0; it.Has(); n++ {
		o, k, err := it.Get()
		if err != nil {
			return out, err
		}
		out = append(out, c17KV{string(k), string(c17ObjBytes(o))})
		if err := it.Next(); err != nil {
			return out, err
		}
		if n > 64 {
			return out, fmt.Errorf("iterator does not terminate")
		}
	}
	return out, nil
}

// ---- shape of the real node graphs (for the canonical state key) ----

type c17Walker struct {
	sb  strings.Builder
	ids map[node]int
}

func (w *c17Walker) base(tag byte, n node, b *nodeBase, val trie.Object) bool {
	if id, ok := w.ids[n]; ok {
		w.sb.WriteByte('@')
		w.sb.WriteString(strconv.Itoa(id))
		return false
	}
	w.ids[n] = len(w.ids)
	w.sb.WriteByte(tag)
	w.sb.WriteByte(byte('0' + b.state))
	if b.hashValue != nil {
		w.sb.WriteByte('h')
	}
	if val != nil {
		if _, ok := val.(bytesObject); ok {
			w.sb.WriteByte('b')
		} else {
			w.sb.WriteByte('o')
		}
	}
	return true
}

func (w *c17Walker) walk(n node) {
	switch nn := n.(type) {
	case nil:
		w.sb.WriteByte('-')
	case *hash:
		w.sb.WriteByte('H')
	case *leaf:
		if w.base('L', n, &nn.nodeBase, nn.value) {
			w.sb.WriteString(hex.EncodeToString(nn.keys))
		}
	case *extension:
		if w.base('E', n, &nn.nodeBase, nil) {
			w.sb.WriteString(hex.EncodeToString(nn.keys))
			w.sb.WriteByte('[')
			w.walk(nn.next)
			w.sb.WriteByte(']')
		}
	case *branch:
		if w.base('B', n, &nn.nodeBase, nn.value) {
			w.sb.WriteByte('{')
			for _, c := range nn.children {
				w.walk(c)
			}
			w.sb.WriteByte('}')
		}
	default:
		fmt.Fprintf(&w.sb, "?%T", n)
	}
}

// ---- model + instance ----

type c17Inst struct {
	flavour int
	alpha   *c17Alphabet
	d       *c17DB
	mut     *c17Mutable
	stash   *c17Snapshot

	cur          map[string]string
	stashModel   map[string]string
	hasStash     bool
	stashFlushed bool
}

type c17Case struct {
	Flavour  int   `json:"flavour"`
	Keys     int   `json:"keys"`
	Vals     int   `json:"vals"`
	Boundary bool  `json:"rlp_boundary_values,omitempty"`
	Ops      []int `json:"ops"`
	Other    []int `json:"other_history,omitempty"` // second history for canonicity conflicts
	OtherFl  int   `json:"other_flavour,omitempty"`
}

func (c c17Case) alphabet() *c17Alphabet {
	if c.Boundary {
		return &c17Alphabet{keys: c17AllKeys[:c.Keys], vals: c17BoundaryVals, boundary: true}
	}
	return &c17Alphabet{keys: c17AllKeys[:c.Keys], vals: c17AllVals[:c.Vals]}
}

func (c c17Case) String() string {
	a := c.alphabet()
	f := func(ops []int) string {
		var names []string
		for _, o := range ops {
			names = append(names, a.name(o))
		}
		return "[" + strings.Join(names, "; ") + "]"
	}
	s := fmt.Sprintf("%s trie, history %s", []string{"bytes", "object"}[c.Flavour], f(c.Ops))
	if c.Other != nil {
		s += " vs history " + f(c.Other)
	}
	return s
}

func c17CopyMap(m map[string]string) map[string]string {
	o := make(map[string]string, len(m))
	for k, v := range m {
		o[k] = v
	}
	return o
}

func c17Sorted(m map[string]string, prefix string) []c17KV {
	var out []c17KV
	for k, v := range m {
		if strings.HasPrefix(k, prefix) {
			out = append(out, c17KV{k, v})
		}
	}
	sort.Slice(out, func(i, j int) bool { return out[i].k < out[j].k })
	return out
}

func c17ModelKey(m map[string]string) string { return c17ListKey(c17Sorted(m, "")) }

func c17ListKey(l []c17KV) string {
	var sb strings.Builder
	for _, kv := range l {
		sb.WriteString(hex.EncodeToString([]byte(kv.k)))
		sb.WriteByte('=')
		sb.WriteByte(kv.v[0])
		if len(kv.v) > 1 {
			sb.WriteByte('+')
		}
		sb.WriteByte(',')
	}
	return sb.String()
}

func c17FilterSorted(l []c17KV, prefix string) []c17KV {
	var out []c17KV
	for _, kv := range l {
		if strings.HasPrefix(kv.k, prefix) {
			out = append(out, kv)
		}
	}
	return out
}

func c17KVString(l []c17KV) string {
	var sb strings.Builder
	sb.WriteByte('[')
	for _, kv := range l {
		fmt.Fprintf(&sb, "%x=%s%d ", kv.k, kv.v[:1], len(kv.v))
	}
	sb.WriteByte(']')
	return sb.String()
}

type c17Shared struct {
	r     *ev.Run
	mu    sync.Mutex
	byMap map[string]c17Entry // model key -> root hash + first history
	byHsh map[string]c17Entry // root hash -> model key + first history

	evals, inPlace, realized, collapses, reloads, resets, clearHash, tableChecks, filterNonEmpty, branchValue int64
}

type c17Entry struct {
	other string
	cs    c17Case
}

func (in *c17Inst) enabled(op int) bool {
	a := in.alpha
	sp := op - len(a.keys)*len(a.vals) - len(a.keys)
	switch sp {
	case c17Reset, c17FlushStash, c17ClearStash:
		return in.hasStash
	case c17Reload:
		return in.hasStash && in.stashFlushed
	}
	return true
}

func c17Val(v string) string {
	if len(v) == 0 {
		return "nil"
	}
	return fmt.Sprintf("%s*%d", v[:1], len(v))
}

// apply runs one operation on the real trie and the model, comparing return values.
func (in *c17Inst) apply(sh *c17Shared, op int, cs c17Case) {
	a := in.alpha
	ns := len(a.keys) * len(a.vals)
	fl := []string{"bytes", "object"}[in.flavour]
	switch {
	case op < ns:
		k, v := a.keys[op/len(a.vals)], a.vals[op%len(a.vals)]
		want := in.cur[k]
		old, err := in.mut.Set(k, v)
		if err != nil || string(old) != want {
			sh.r.Violation("Set-return-value/"+fl, fmt.Sprintf("%v: Set(%x) returned old=%s err=%v, model old=%s", cs, k, c17Val(string(old)), err, c17Val(want)), cs)
		}
		in.cur[k] = v
	case op < ns+len(a.keys):
		k := a.keys[op-ns]
		want := in.cur[k]
		old, err := in.mut.Delete(k)
		if err != nil || string(old) != want {
			sh.r.Violation("Delete-return-value/"+fl, fmt.Sprintf("%v: Delete(%x) returned old=%s err=%v, model old=%s", cs, k, c17Val(string(old)), err, c17Val(want)), cs)
		}
		delete(in.cur, k)
	default:
		sp := op - ns - len(a.keys)
		if sp >= c17SnapFlush {
			in.apply(sh, ns+len(a.keys)+c17Snap, cs)
			in.apply(sh, ns+len(a.keys)+c17FlushStash, cs)
			switch sp {
			case c17SnapFlushReload:
				in.apply(sh, ns+len(a.keys)+c17Reload, cs)
			case c17SnapFlushClear:
				in.apply(sh, ns+len(a.keys)+c17ClearMut, cs)
			}
			return
		}
		switch sp {
		case c17Snap:
			in.stash = in.mut.Snapshot()
			in.stashModel = c17CopyMap(in.cur)
			in.hasStash, in.stashFlushed = true, false
		case c17Reset:
			in.mut.Reset(in.stash)
			in.cur = c17CopyMap(in.stashModel)
			atomic.AddInt64(&sh.resets, 1)
		case c17FlushStash:
			if err := in.stash.Flush(); err != nil {
				sh.r.Violation("Flush-error/"+fl, fmt.Sprintf("%v: %v", cs, err), cs)
			}
			in.stashFlushed = true
		case c17Reload:
			in.mut = c17NewMutable(in.flavour, in.d, in.stash.Hash())
			in.cur = c17CopyMap(in.stashModel)
			atomic.AddInt64(&sh.reloads, 1)
		case c17ClearMut:
			in.mut.ClearCache()
		case c17ClearStash:
			in.stash.ClearCache()
		case c17GetAll:
			in.checkGets(sh, "mutable", in.mut.Get, in.cur, cs)
		}
	}
}

func (in *c17Inst) checkGets(sh *c17Shared, what string, get func(string) ([]byte, error), model map[string]string, cs c17Case) {
	fl := []string{"bytes", "object"}[in.flavour]
	for _, k := range c17AllKeys {
		got, err := get(k)
		if err != nil || string(got) != model[k] {
			sh.r.Violation("Get/"+what+"/"+fl, fmt.Sprintf("%v: %s.Get(%x) = %s err=%v, model %s", cs, what, k, c17Val(string(got)), err, c17Val(model[k])), cs)
		}
	}
}

func c17EqualKV(a, b []c17KV) bool {
	if len(a) != len(b) {
		return false
	}
	for i := range a {
		if a[i] != b[i] {
			return false
		}
	}
	return true
}

// checkSnapshot: every observable of an immutable view against a model map.
func (in *c17Inst) checkSnapshot(sh *c17Shared, what string, s *c17Snapshot, model map[string]string, filters bool, cs c17Case) {
	sorted := c17Sorted(model, "")
	fl := []string{"bytes", "object"}[in.flavour]
	if s.Empty() != (len(model) == 0) {
		sh.r.Violation("Empty/"+what+"/"+fl, fmt.Sprintf("%v: %s.Empty()=%v, model has %d entries", cs, what, s.Empty(), len(model)), cs)
	}
	h := s.Hash()
	if (h == nil) != (len(model) == 0) {
		sh.r.Violation("Hash-nil-iff-empty/"+what+"/"+fl, fmt.Sprintf("%v: %s.Hash()=%x, model has %d entries", cs, what, h, len(model)), cs)
	}
	if h != nil {
		mk := c17ListKey(sorted)
		hk := string(h)
		sh.mu.Lock()
		e1, ok1 := sh.byMap[mk]
		if !ok1 {
			sh.byMap[mk] = c17Entry{hk, cs}
		}
		e2, ok2 := sh.byHsh[hk]
		if !ok2 {
			sh.byHsh[hk] = c17Entry{mk, cs}
		}
		sh.mu.Unlock()
		atomic.AddInt64(&sh.tableChecks, 1)
		if ok1 && e1.other != hk {
			c := cs
			c.Other, c.OtherFl = e1.cs.Ops, e1.cs.Flavour
			sh.r.Violation("root-hash-depends-on-history/"+what+"/"+fl,
				fmt.Sprintf("%v: same contents %s, root %x here but %x after the other history (%s trie)", c, mk, h, e1.other, []string{"bytes", "object"}[e1.cs.Flavour]), c)
		}
		if ok2 && e2.other != mk {
			c := cs
			c.Other, c.OtherFl = e2.cs.Ops, e2.cs.Flavour
			sh.r.Violation("same-root-hash-different-contents/"+what+"/"+fl,
				fmt.Sprintf("%v: root %x for contents %s and for contents %s", c, h, mk, e2.other), c)
		}
	}
	in.checkGets(sh, what, s.Get, model, cs)
	all, err := s.Iterate(nil)
	want := sorted
	if err != nil || !c17EqualKV(all, want) {
		sig := "Iterator-pairs/"
		if err == nil && len(all) == len(want) {
			x := append([]c17KV(nil), all...)
			sort.Slice(x, func(i, j int) bool { return x[i].k < x[j].k })
			if c17EqualKV(x, want) {
				sig = "Iterator-order-not-ascending/"
			}
		}
		sh.r.Violation(sig+what+"/"+fl, fmt.Sprintf("%v: %s.Iterator() = %s err=%v, model %s", cs, what, c17KVString(all), err, c17KVString(want)), cs)
	}
	for i := range c17Prefixes {
		if !filters {
			break
		}
		p := c17Prefixes[i]
		got, err := s.Iterate(&p)
		want := c17FilterSorted(sorted, p)
		if len(want) > 0 && len(want) < len(model) {
			atomic.AddInt64(&sh.filterNonEmpty, 1)
		}
		if err != nil || !c17EqualKV(got, want) {
			sh.r.Violation("Filter-pairs/"+what+"/"+fl, fmt.Sprintf("%v: %s.Filter(%x) = %s err=%v, model %s", cs, what, p, c17KVString(got), err, c17KVString(want)), cs)
		}
	}
}

// observe is the intrusive end-of-history observation.
func (in *c17Inst) observe(sh *c17Shared, cs c17Case) {
	fl := []string{"bytes", "object"}[in.flavour]
	in.checkGets(sh, "mutable", in.mut.Get, in.cur, cs)
	s := in.mut.Snapshot()
	in.checkSnapshot(sh, "snapshot", s, in.cur, true, cs)
	if in.hasStash {
		// persistence: an older snapshot is not affected by what happened since
		in.checkSnapshot(sh, "stashed-snapshot", in.stash, in.stashModel, false, cs)
		same := c17ModelKey(in.cur) == c17ModelKey(in.stashModel)
		if eq := s.Equal(in.stash, true); eq != same {
			sh.r.Violation("Equal-exact/"+fl, fmt.Sprintf("%v: snapshot.Equal(stash,true)=%v, models equal=%v", cs, eq, same), cs)
		}
		if eq := s.Equal(in.stash, false); eq && !same {
			sh.r.Violation("Equal-inexact-true-for-different-maps/"+fl, fmt.Sprintf("%v", cs), cs)
		}
	}
	// flush, reopen from the root hash alone, and drop caches
	if err := s.Flush(); err != nil {
		sh.r.Violation("Flush-error/"+fl, fmt.Sprintf("%v: %v", cs, err), cs)
	}
	re := c17NewImmutable(in.flavour, in.d, s.Hash())
	in.checkSnapshot(sh, "reloaded", re, in.cur, true, cs)
	s.ClearCache()
	in.checkSnapshot(sh, "snapshot-after-flush+ClearCache", s, in.cur, false, cs)
	in.checkGets(sh, "mutable-after-flush+ClearCache", in.mut.Get, in.cur, cs)
}

func (in *c17Inst) key() string {
	w := &c17Walker{ids: map[node]int{}}
	w.walk(in.mut.m.root)
	w.sb.WriteByte('|')
	if in.hasStash {
		w.walk(in.stash.m.root)
		if in.stashFlushed {
			w.sb.WriteByte('F')
		}
	} else {
		w.sb.WriteByte('~')
	}
	w.sb.WriteByte('|')
	w.sb.WriteString(in.d.sig())
	w.sb.WriteByte('|')
	w.sb.WriteByte(byte('0' + in.flavour))
	w.sb.WriteString(c17ModelKey(in.cur))
	w.sb.WriteByte('|')
	if in.hasStash {
		w.sb.WriteString(c17ModelKey(in.stashModel))
	}
	return w.sb.String()
}

// vacuity: which interesting code paths does the last operation take?
func (in *c17Inst) countPaths(sh *c17Shared, before string, after string) {
	if strings.Contains(before, "L0") || strings.Contains(before, "B0") || strings.Contains(before, "E0") {
		atomic.AddInt64(&sh.inPlace, 1) // dirty nodes present: in-place update paths reachable
	}
	if strings.Contains(before, "H") {
		atomic.AddInt64(&sh.realized, 1)
	}
}

func c17Run(sh *c17Shared, alpha *c17Alphabet, hist []byte) (string, bool) {
	atomic.AddInt64(&sh.evals, 1)
	cs := c17Case{Flavour: int(hist[0]), Keys: len(alpha.keys), Vals: len(alpha.vals), Boundary: alpha.boundary}
	in := &c17Inst{flavour: cs.Flavour, alpha: alpha, d: c17NewDB(), cur: map[string]string{}}
	in.mut = c17NewMutable(in.flavour, in.d, nil)
	var before string
	for i, o := range hist[1:] {
		op := int(o)
		if !in.enabled(op) {
			return "", false
		}
		cs.Ops = append(cs.Ops, op)
		if i == len(hist)-2 {
			before = in.key()
		}
		if p := ev.Catch(func() { in.apply(sh, op, cs) }); p != "" {
			sh.r.Violation("panic-in-operation/"+[]string{"bytes", "object"}[in.flavour], fmt.Sprintf("%v: panic: %s", cs, p), cs)
			return "panic:" + fmt.Sprint(cs.Ops), true
		}
	}
	key := in.key()
	in.countPaths(sh, before, key)
	if len(in.cur) > 0 {
		if _, ok := in.cur[""]; ok && len(in.cur) > 1 {
			atomic.AddInt64(&sh.branchValue, 1)
		}
	}
	if p := ev.Catch(func() { in.observe(sh, cs) }); p != "" {
		sh.r.Violation("panic-in-observation/"+[]string{"bytes", "object"}[in.flavour], fmt.Sprintf("%v: panic: %s", cs, p), cs)
	}
	return key, true
}

func TestVerifC17(t *testing.T) {
	r := ev.Start(t, "C17", "model_checking")
	r.SetBudget(80*time.Second, 14*time.Minute)
	debug.SetGCPercent(100)
	sh := &c17Shared{r: r, byMap: map[string]c17Entry{}, byHsh: map[string]c17Entry{}}
	if ev.Replaying() {
		var c c17Case
		ev.ReplayCase(&c)
		a := c.alphabet()
		fmt.Println("replaying", c.String())
		run := func(fl int, ops []int) {
			h := []byte{byte(fl)}
			for _, o := range ops {
				h = append(h, byte(o))
			}
			c17Run(sh, a, h)
		}
		if c.Other != nil {
			run(c.OtherFl, c.Other)
		}
		run(c.Flavour, c.Ops)
		r.Finish(false)
		return
	}
	type phase struct{ nk, nv, depth int }
	phases := []phase{{6, 2, 5}}
	if r.Thorough() {
		phases = []phase{{9, 3, 4}, {7, 2, 6}}
	}
	var rule []string
	for _, ph := range phases {
		a := &c17Alphabet{keys: c17AllKeys[:ph.nk], vals: c17AllVals[:ph.nv]}
		rule = append(rule, fmt.Sprintf("<= %d operations over %d ops (Set over %d keys hex %x x %d values, Delete per key, %d trie-level ops)", ph.depth, a.nops(), ph.nk, a.keys, ph.nv, c17NumSpecial))
	}
	r.Rule("BFS over operation histories on the real bytes trie and object trie over a MapDB, one search per bound: " + strings.Join(rule, "; ") +
		". Values: 1 byte (embedded nodes) and 40 bytes (hashed nodes). Trie-level ops: GetSnapshot->stash, Reset(stash), stash.Flush, reload from stash hash, ClearCache of mutable / stash, Get of every key, and three macros (snapshot+flush, +reload, +ClearCache). At the end of every history: Get of every key, Empty, Hash (canonicity table model<->root shared by all histories and both flavours), Iterator and Filter for " + strconv.Itoa(len(c17Prefixes)) +
		" prefixes on a fresh snapshot and on a trie reopened from the root hash after Flush; Get/Hash/Iterator on the stashed snapshot and again after ClearCache. In addition (both tiers) a directed family of 61 056 histories over the full 9-key universe: insert 1-2 keys, GetSnapshot->stash, insert 1-2 other keys, delete all of the first or all of the second group in both orders (1-byte or 40-byte values, both flavours), with the same end-of-history observation (snapshot isolation under node split and collapse); and a directed family over value sizes at the RLP boundaries (20 lengths 1,5..8,14,15,31..33,50..57,255,256): every single-entry trie and every two-entry trie over ordered pairs of the 9 keys (quick: second value 1 or 33 bytes; thorough: every pair of lengths), both flavours, observed fresh, reopened from the root hash after Flush and after ClearCache. Distinct non-trivial = distinct canonical state (model maps + shape and node states of the real node graphs incl. sharing + set of stored node hashes)")
	r.Assume("values are non-empty (the trie does not support empty values: a branch value of length 0 is dropped on decode)",
		"single goroutine; database = MapDB that never fails; no node cache attached",
		"states are de-duplicated on a 128-bit hash of the canonical state string",
		"one stash slot: at most one older snapshot is kept alive at a time")
	var samples []c17Case
	var total pbfs.Stats
	total.Complete = true
	var perPhase []map[string]interface{}
	for _, ph := range phases {
		alpha := &c17Alphabet{keys: c17AllKeys[:ph.nk], vals: c17AllVals[:ph.nv]}
		ph := ph
		st := pbfs.Run(pbfs.Config{
			Roots: [][]byte{{0}, {1}}, Ops: alpha.nops(), MaxDepth: ph.depth, Batch: 1024,
			Step: func(h []byte) (string, bool) { return c17Run(sh, alpha, h) },
			Stop: func() bool { return r.Expired() || r.Violations() > 20 },
			OnNew: func(h []byte, key string, d int) {
				r.Nontrivial(key)
				if d == ph.depth && len(samples) < 4 && strings.Contains(key, "H") && strings.Contains(key, "F") && h[len(h)-1] < byte(ph.nk*ph.nv+ph.nk) {
					c := c17Case{Flavour: int(h[0]), Keys: ph.nk, Vals: ph.nv}
					for _, o := range h[1:] {
						c.Ops = append(c.Ops, int(o))
					}
					samples = append(samples, c)
				}
			},
		})
		total.States += st.States
		total.Transitions += st.Transitions
		total.Replays += st.Replays
		total.Complete = total.Complete && st.Complete
		perPhase = append(perPhase, map[string]interface{}{"keys": ph.nk, "values": ph.nv, "ops": alpha.nops(), "depth_bound": ph.depth,
			"depth_completed": st.DepthDone, "complete": st.Complete, "states": st.States, "transitions": st.Transitions, "new_states_per_depth": st.PerDepth})
	}
	st := total
	// Directed family (both tiers): snapshot isolation under structural change.
	// insert A (1-2 keys), GetSnapshot->stash, insert B (1-2 other keys, which may
	// split the nodes the snapshot shares), then delete all of A or all of B (which
	// collapses the new nodes back, possibly onto the other side). Full 9-key
	// universe, one value (1-byte or 40-byte) per history, both flavours; the usual
	// end-of-history observation checks the stashed snapshot and canonicity.
	dAlpha := &c17Alphabet{keys: c17AllKeys, vals: c17AllVals}
	var directed [][]byte
	{
		nk, nv := len(dAlpha.keys), len(dAlpha.vals)
		setOp := func(k, v int) byte { return byte(k*nv + v) }
		delOp := func(k int) byte { return byte(nk*nv + k) }
		snapOp := byte(nk*nv + nk + c17Snap)
		var seqs [][]int // ordered key lists of length 1..2
		for a := 0; a < nk; a++ {
			seqs = append(seqs, []int{a})
			for b := 0; b < nk; b++ {
				if b != a {
					seqs = append(seqs, []int{a, b})
				}
			}
		}
		disjoint := func(x, y []int) bool {
			for _, i := range x {
				for _, j := range y {
					if i == j {
						return false
					}
				}
			}
			return true
		}
		for fl := 0; fl < 2; fl++ {
			for v := 0; v < 2; v++ {
				for _, A := range seqs {
					for _, B := range seqs {
						if !disjoint(A, B) {
							continue
						}
						for which := 0; which < 2; which++ {
							del := A
							if which == 1 {
								del = B
							}
							// deletions in ascending index order of the ordered list and reversed
							for rev := 0; rev < len(del); rev++ {
								h := []byte{byte(fl)}
								for _, k := range A {
									h = append(h, setOp(k, v))
								}
								h = append(h, snapOp)
								for _, k := range B {
									h = append(h, setOp(k, v))
								}
								for i := range del {
									k := del[i]
									if rev == 1 {
										k = del[len(del)-1-i]
									}
									h = append(h, delOp(k))
								}
								directed = append(directed, h)
							}
						}
					}
				}
			}
		}
	}
	// Directed family 2 (both tiers): value sizes at the RLP boundaries crossed with the
	// persistence phases. Every single-entry trie (9 keys x 20 value lengths) and
	// two-entry tries (every ordered pair of keys; quick: first value any length, second
	// 1 or 33 bytes; thorough: every pair of lengths), both flavours; the end-of-history
	// observation reads the trie fresh, reopened from the root hash after Flush and after ClearCache.
	bAlpha := &c17Alphabet{keys: c17AllKeys, vals: c17BoundaryVals, boundary: true}
	nDirected1 := len(directed)
	{
		nk, nv := len(bAlpha.keys), len(bAlpha.vals)
		second := []int{0, 9} // lengths 1 and 33
		if r.Thorough() {
			second = nil
			for v := 0; v < nv; v++ {
				second = append(second, v)
			}
		}
		for fl := 0; fl < 2; fl++ {
			for k1 := 0; k1 < nk; k1++ {
				for v1 := 0; v1 < nv; v1++ {
					directed = append(directed, []byte{byte(fl), byte(k1*nv + v1)})
					for k2 := 0; k2 < nk; k2++ {
						if k2 == k1 {
							continue
						}
						for _, v2 := range second {
							directed = append(directed, []byte{byte(fl), byte(k1*nv + v1), byte(k2*nv + v2)})
						}
					}
				}
			}
		}
	}
	var dirDone int64
	ev.Par(len(directed), 0, func(i int) {
		if r.Expired() || r.Violations() > 20 {
			return
		}
		a := dAlpha
		if i >= nDirected1 {
			a = bAlpha
		}
		key, _ := c17Run(sh, a, directed[i])
		r.Nontrivial("d:" + key)
		atomic.AddInt64(&dirDone, 1)
	})
	r.Set("directed_snapshot_split_collapse_histories", nDirected1)
	r.Set("directed_rlp_boundary_value_size_histories", len(directed)-nDirected1)
	r.Set("directed_histories_completed", dirDone)
	if int(dirDone) != len(directed) {
		st.Complete = false
	}
	st.Replays += int(dirDone)
	for _, c := range samples {
		r.Sample(map[string]interface{}{"history": c.String(), "ops": c.Ops})
	}
	if len(samples) == 0 {
		r.Sample("bytes trie, history [Set(00,x)]")
	}
	r.Eval(int(sh.evals))
	r.States(st.States)
	r.Transitions(st.Transitions)
	r.Traces(st.Replays)
	r.Set("searches", perPhase)
	r.Set("distinct_maps_in_canonicity_table", len(sh.byMap))
	r.Set("canonicity_table_checks", sh.tableChecks)
	r.Set("histories_ending_with_dirty_nodes_before_last_op", sh.inPlace)
	r.Set("histories_with_unrealized_hash_nodes_before_last_op", sh.realized)
	r.Set("reloads", sh.reloads)
	r.Set("resets", sh.resets)
	r.Set("proper_subset_filters", sh.filterNonEmpty)
	r.Set("states_with_value_on_root_branch", sh.branchValue)
	r.Sanity(int64(len(sh.byMap)) > 50 && sh.tableChecks > int64(4*len(sh.byMap)), "canonicity table too small: maps=%d checks=%d", len(sh.byMap), sh.tableChecks)
	r.Sanity(sh.inPlace > 0 && sh.realized > 0 && sh.reloads > 0 && sh.resets > 0 && sh.filterNonEmpty > 0 && sh.branchValue > 0,
		"vacuity: inPlace=%d realized=%d reloads=%d resets=%d filters=%d branchValue=%d", sh.inPlace, sh.realized, sh.reloads, sh.resets, sh.filterNonEmpty, sh.branchValue)
	r.Finish(st.Complete)
}
