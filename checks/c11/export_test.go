//go:build verif

package txlocator

// Accessors for the C11 harness (which lives in the external test package
// because it needs package service, which imports this package).
// Nothing here changes behaviour: the functions only read state or join the
// flush worker the manager starts by itself.

import (
	"fmt"
	"sort"
	"strings"

	"github.com/icon-project/goloop/module"
)

// VerifWaitFlush waits until every queued flush job of the normal group has
// been written to the database and its list moved to the cache, so that the
// next observation does not depend on goroutine scheduling.
func VerifWaitFlush(lm module.LocatorManager) {
	lm.(*manager).flushWG.Wait()
}

func dumpList(l *txList) string {
	var ids []string
	for p := l.head; p != nil; p = p.next {
		ids = append(ids, p.id)
	}
	return fmt.Sprintf("(%d,%d:%s)", l.ts, l.th, strings.Join(ids, ","))
}

// VerifDumpManager renders everything of the manager that can influence a
// later Has/Add/Commit: the id->list index, both list caches and maxTSInDB.
func VerifDumpManager(lm module.LocatorManager) string {
	m := lm.(*manager)
	m.lock.Lock()
	defer m.lock.Unlock()
	var sb strings.Builder
	if m.locators == nil {
		sb.WriteString("L=nil")
	} else {
		keys := make([]string, 0, len(m.locators))
		for k, l := range m.locators {
			keys = append(keys, fmt.Sprintf("%s@%d/%d", k, l.list.ts, l.list.th))
		}
		sort.Strings(keys)
		sb.WriteString("L=" + strings.Join(keys, ","))
	}
	for g := 0; g < 2; g++ {
		c := &m.cache[g]
		fmt.Fprintf(&sb, ";C%d max=%d", g, c.maxTSInDB)
		for p := c.head; p != nil; p = p.next {
			sb.WriteString(dumpList(p))
		}
	}
	if m.flushHead != nil {
		sb.WriteString(";flush-pending")
	}
	return sb.String()
}

// VerifMaxTSInDB returns cache[group].maxTSInDB.
func VerifMaxTSInDB(lm module.LocatorManager, g module.TransactionGroup) int64 {
	m := lm.(*manager)
	m.lock.Lock()
	defer m.lock.Unlock()
	return m.cache[g].maxTSInDB
}

// VerifInIndex reports whether id is in the manager's in-memory index.
func VerifInIndex(lm module.LocatorManager, id []byte) bool {
	m := lm.(*manager)
	m.lock.Lock()
	defer m.lock.Unlock()
	if m.locators == nil {
		return false
	}
	_, ok := m.locators[string(id)]
	return ok
}

// VerifTrackerNode is one tracker object on the parent-pointer path.
type VerifTrackerNode struct {
	TS, TH    int64
	Committed bool // locators == nil
	IDs       []string
}

// VerifTrackerPath returns the tracker objects reachable through parent
// pointers, starting with lt itself.
func VerifTrackerPath(lt module.LocatorTracker) []VerifTrackerNode {
	var out []VerifTrackerNode
	for t := lt.(*tracker); t != nil; {
		t.lock.Lock()
		n := VerifTrackerNode{TS: t.list.ts, TH: t.list.th, Committed: t.locators == nil}
		for k := range t.locators {
			n.IDs = append(n.IDs, k)
		}
		sort.Strings(n.IDs)
		p := t.parent
		t.lock.Unlock()
		out = append(out, n)
		t = p
	}
	return out
}

// VerifDumpTracker renders a tracker and its parent-pointer path.
func VerifDumpTracker(lt module.LocatorTracker) string {
	var sb strings.Builder
	for _, n := range VerifTrackerPath(lt) {
		c := ""
		if n.Committed {
			c = "C"
		}
		fmt.Fprintf(&sb, "<%d,%d%s:%s>", n.TS, n.TH, c, strings.Join(n.IDs, ","))
	}
	return sb.String()
}
