//go:build verif

package txlocator_test

// C11 — replay protection.
//
// Explicit-state BFS over the real common/txlocator manager + trackers on a
// MapDB, with service.NewTimestampRange(bts, th).CheckTx (= CheckTxTimestamp)
// as the window gate. "A block is accepted" means exactly what
// service/transition.go does while validating a block:
//   ensureRecordTXIDs: parentTracker.New(h, bts, th).Add(list, force=false) == nil
//   validateTxs:       every tx passes CheckTxTimestamp(bts-th, bts+th)
// The oracle is the property statement, evaluated on a boring model (sets of
// ids along the parent path + the finalized set).

import (
	"fmt"
	"runtime/debug"
	"sort"
	"strings"
	"sync"
	"sync/atomic"
	"testing"
	"time"

	"github.com/icon-project/goloop/common/db"
	"github.com/icon-project/goloop/common/log"
	"github.com/icon-project/goloop/common/txlocator"
	"github.com/icon-project/goloop/module"
	"github.com/icon-project/goloop/service"
	"github.com/icon-project/goloop/service/transaction"
	"github.com/icon-project/goloop/verifshim/ev"
)

// ---------------------------------------------------------------- dummy tx

type c11Tx struct {
	id []byte
	ts int64
	g  module.TransactionGroup
	transaction.Transaction
}

func (t *c11Tx) Group() module.TransactionGroup { return t.g }
func (t *c11Tx) ID() []byte                     { return t.id }
func (t *c11Tx) Hash() []byte                   { return t.id }
func (t *c11Tx) Timestamp() int64               { return t.ts }

type c11TxList struct {
	txs []*c11Tx
	module.TransactionList
}

func (l *c11TxList) Get(i int) (module.Transaction, error) { return l.txs[i], nil }
func (l *c11TxList) Iterator() module.TransactionIterator  { return &c11TxIter{l: l} }

type c11TxIter struct {
	l   *c11TxList
	idx int
}

func (t *c11TxIter) Has() bool   { return t.idx < len(t.l.txs) }
func (t *c11TxIter) Next() error { t.idx++; return nil }
func (t *c11TxIter) Get() (module.Transaction, int, error) {
	return t.l.txs[t.idx], t.idx, nil
}

// ---------------------------------------------------------------- config / ops

type c11TxDef struct {
	ID string `json:"id"`
	TS int64  `json:"ts"`
}

// c11Config is one configuration; one BFS is run per configuration.
type c11Config struct {
	Group    int        `json:"group"`   // module.TransactionGroupPatch(0) / Normal(1)
	Startup  string     `json:"startup"` // "base-force-committed" | "raw-root"
	Th0      int64      `json:"th0"`     // threshold in force at (re)start: root tracker and base block
	Universe []c11TxDef `json:"universe"`
	BlockTS  []int64    `json:"block_ts"`
	BlockTH  []int64    `json:"block_th"`
	MaxLive  int        `json:"max_live"` // simultaneously live unfinalized blocks
	MaxList  int        `json:"max_list"`
	Depth    int        `json:"depth"`
	Restart  bool       `json:"restart"`
	// EvalFull: also evaluate proposals (against the oracle) in states whose
	// MaxLive slots are all in use; such a block is evaluated but not retained.
	EvalFull bool `json:"eval_full"`
}

func (c *c11Config) name() string {
	var u []string
	for _, t := range c.Universe {
		u = append(u, fmt.Sprintf("%s@%d", t.ID, t.TS))
	}
	return fmt.Sprintf("g%d/%s/th0=%d/{%s}", c.Group, c.Startup, c.Th0, strings.Join(u, ","))
}

type c11Op struct {
	K   string `json:"k"`           // "new" | "commit" | "restart"
	P   int    `json:"p,omitempty"` // new: parent slot (0 = last finalized block)
	BTS int64  `json:"bts,omitempty"`
	TH  int64  `json:"th,omitempty"`
	L   []int  `json:"l,omitempty"` // new: indices into the universe
	S   int    `json:"s,omitempty"` // commit: slot

	str  string     // cached String()
	list *c11TxList // cached transaction list (immutable)
}

func (o c11Op) String() string {
	if o.str != "" {
		return o.str
	}
	switch o.K {
	case "new":
		return fmt.Sprintf("new(p=%d,bts=%d,th=%d,l=%v)", o.P, o.BTS, o.TH, o.L)
	case "commit":
		return fmt.Sprintf("commit(%d)", o.S)
	}
	return o.K
}

type c11Case struct {
	Cfg  c11Config `json:"cfg"`
	Hist []c11Op   `json:"hist"`
}

func c11Lists(n, maxLen int) [][]int {
	out := [][]int{{}}
	prev := [][]int{{}}
	for l := 1; l <= maxLen; l++ {
		var cur [][]int
		for _, p := range prev {
			for i := 0; i < n; i++ {
				cur = append(cur, append(append([]int{}, p...), i))
			}
		}
		out = append(out, cur...)
		prev = cur
	}
	return out
}

func (c *c11Config) newOps() []c11Op {
	var ops []c11Op
	lists := c11Lists(len(c.Universe), c.MaxList)
	for p := 0; p <= c.MaxLive; p++ {
		for _, bts := range c.BlockTS {
			for _, th := range c.BlockTH {
				for _, l := range lists {
					o := c11Op{K: "new", P: p, BTS: bts, TH: th, L: l}
					o.str = o.String()
					o.list = &c11TxList{}
					for _, i := range l {
						d := c.Universe[i]
						o.list.txs = append(o.list.txs, &c11Tx{id: []byte(d.ID), ts: d.TS, g: module.TransactionGroup(c.Group)})
					}
					ops = append(ops, o)
				}
			}
		}
	}
	return ops
}

func (c *c11Config) mutOps() []c11Op {
	var ops []c11Op
	for s := 1; s <= c.MaxLive; s++ {
		ops = append(ops, c11Op{K: "commit", S: s})
	}
	if c.Restart {
		ops = append(ops, c11Op{K: "restart"})
	}
	return ops
}

// ---------------------------------------------------------------- instance = real objects + model

type c11Blk struct {
	parent    *c11Blk // model parent; nil = child of a finalized block
	ts, th    int64
	txs       []int
	height    int64
	committed bool
	tr        module.LocatorTracker
	dump      string // cached part of the state key
}

type c11Holder struct{ ts, th int64 }

type c11Inst struct {
	cfg   *c11Config
	g     module.TransactionGroup
	dbase db.Database
	bk    db.Bucket
	mgr   module.LocatorManager

	// model
	finalized map[string]c11Holder // id -> finalized block holding it
	tip       c11Blk               // last finalized block (tr = tracker children are derived from)
	tipTS     int64                // timestamp of the last finalized block (survives restart)
	slots     []*c11Blk            // live unfinalized blocks, nil = free
	static    string               // cached part of the state key (everything but the live forest)
}

type c11Stats struct {
	accepted, acceptedNonEmpty                 int64
	rejDupAdd, rejWindow                       int64
	dupSameBlock, dupUnfinal, dupFinalCached   int64
	dupFinalEvicted, dupAtBoundary             int64
	dupBehindSmallerTh                         int64
	spuriousReject                             int64
	evictedStates, restarts, commits           int64
	winLowEq, winHighEq, winHighPlus1, winLow1 int64
	nontrivialProposals                        int64
}

var (
	c11SigMu  sync.Mutex
	c11SigCnt = map[string]int64{}
)

func c11Violation(r *ev.Run, sig, detail string, c c11Case) {
	c11SigMu.Lock()
	c11SigCnt[sig]++
	c11SigMu.Unlock()
	r.Violation(sig, detail, c)
}

func (a *c11Stats) add(b *c11Stats) {
	a.accepted += b.accepted
	a.acceptedNonEmpty += b.acceptedNonEmpty
	a.rejDupAdd += b.rejDupAdd
	a.rejWindow += b.rejWindow
	a.dupSameBlock += b.dupSameBlock
	a.dupUnfinal += b.dupUnfinal
	a.dupFinalCached += b.dupFinalCached
	a.dupFinalEvicted += b.dupFinalEvicted
	a.dupAtBoundary += b.dupAtBoundary
	a.dupBehindSmallerTh += b.dupBehindSmallerTh
	a.spuriousReject += b.spuriousReject
	a.evictedStates += b.evictedStates
	a.restarts += b.restarts
	a.commits += b.commits
	a.winLowEq += b.winLowEq
	a.winHighEq += b.winHighEq
	a.winHighPlus1 += b.winHighPlus1
	a.winLow1 += b.winLow1
	a.nontrivialProposals += b.nontrivialProposals
}

type c11Ctx struct {
	r          *ev.Run
	st         *c11Stats
	hist       func() []c11Op // current history for replay files
	key        string         // canonical key of the state the op is applied in
	evals      int            // evaluations not yet reported to r (batched per state)
	nontrivial int            // non-trivial proposals evaluated in this state
	quiet      bool           // do not report (used while replaying a prefix that was checked before)
}

var c11Logger = func() log.Logger {
	l := log.New()
	l.SetLevel(log.PanicLevel)
	return l
}()

func newC11Inst(cfg *c11Config) *c11Inst {
	in := &c11Inst{cfg: cfg, g: module.TransactionGroup(cfg.Group), finalized: map[string]c11Holder{},
		slots: make([]*c11Blk, cfg.MaxLive)}
	in.dbase = db.NewMapDB()
	bk, err := in.dbase.GetBucket(db.TransactionLocatorByHash)
	if err != nil {
		panic(err)
	}
	in.bk = bk
	if cfg.Startup == "base-force-committed" {
		in.tip = c11Blk{ts: 90, th: cfg.Th0, height: 1, committed: true}
		in.tipTS = 90
	} else {
		in.tip = c11Blk{ts: 0, th: cfg.Th0, height: 0, committed: true}
	}
	in.start()
	return in
}

func (in *c11Inst) list(idx []int) *c11TxList {
	l := &c11TxList{}
	for _, i := range idx {
		d := in.cfg.Universe[i]
		l.txs = append(l.txs, &c11Tx{id: []byte(d.ID), ts: d.TS, g: in.g})
	}
	return l
}

// start mirrors what goloop does when a chain (re)starts
// (service.newInitTransition + block.NewManager):
//   - the init transition owns root trackers NewTracker(group, 0, 0, tsc.Threshold());
//   - for the normal group block/manager.go re-creates the transition of the last
//     finalized block with validated=true and finalizes it at once
//     ("This ensures that locators are flushed to the database"), i.e.
//     root.New(h, ts, th).Add(txs, force=true).Commit();
//   - for the patch group nothing is committed at start: blocks hang off the root.
func (in *c11Inst) start() {
	mgr, err := txlocator.NewManager(in.dbase, c11Logger)
	if err != nil {
		panic(err)
	}
	mgr.Start()
	in.mgr = mgr
	root := mgr.NewTracker(in.g, 0, 0, in.cfg.Th0)
	if in.cfg.Startup == "base-force-committed" {
		base := root.New(in.tip.height, in.tip.ts, in.tip.th)
		if _, err := base.Add(in.list(in.tip.txs), true); err != nil {
			panic(fmt.Sprintf("startup force add: %v", err))
		}
		if err := base.Commit(); err != nil {
			panic(fmt.Sprintf("startup commit: %v", err))
		}
		txlocator.VerifWaitFlush(mgr)
		in.tip.tr = base
	} else {
		in.tip.ts = 0
		in.tip.th = in.cfg.Th0
		in.tip.txs = nil
		in.tip.tr = root
	}
}

func (in *c11Inst) parentOf(p int) *c11Blk {
	if p == 0 {
		return &in.tip
	}
	if p > len(in.slots) {
		return nil
	}
	return in.slots[p-1]
}

func (in *c11Inst) freeSlot() int {
	for i, b := range in.slots {
		if b == nil {
			return i
		}
	}
	return -1
}

func (in *c11Inst) enabled(o c11Op) bool {
	switch o.K {
	case "new":
		pb := in.parentOf(o.P)
		if pb == nil || (!in.cfg.EvalFull && in.freeSlot() < 0) {
			return false
		}
		pts := pb.ts
		if o.P == 0 {
			pts = in.tipTS
		}
		return o.BTS > pts
	case "commit":
		return o.S <= len(in.slots) && in.slots[o.S-1] != nil
	case "restart":
		return in.cfg.Restart
	}
	return false
}

// holderOf finds the nearest ancestor (starting with pb itself) holding id.
func (in *c11Inst) holderOf(pb *c11Blk, id string) (where string, h c11Holder, found bool) {
	for b := pb; b != nil; b = b.parent {
		if b.committed {
			break
		}
		for _, i := range b.txs {
			if in.cfg.Universe[i].ID == id {
				return "unfinalized-ancestor", c11Holder{b.ts, b.th}, true
			}
		}
	}
	if hh, ok := in.finalized[id]; ok {
		return "finalized-ancestor", hh, true
	}
	return "", c11Holder{}, false
}

// classify names *why* the implementation missed a duplicate. It only labels a
// violation the model has already established; it never decides one.
func (in *c11Inst) classify(tr module.LocatorTracker, where string, h c11Holder, tx c11TxDef) string {
	path := txlocator.VerifTrackerPath(tr)[1:]
	for _, n := range path {
		if tx.TS >= n.TS+n.TH {
			rel := "ts>"
			if tx.TS == n.TS+n.TH {
				rel = "ts=="
			}
			switch {
			case n.TS == h.ts && n.TH == h.th:
				return fmt.Sprintf("dup-accepted/%s/shortcut-at-holder/%sholder.bts+holder.th", where, rel)
			case n.TS == 0:
				return fmt.Sprintf("dup-accepted/%s/shortcut-at-initial-root-tracker(ts=0)", where)
			case n.TH < h.th:
				return fmt.Sprintf("dup-accepted/%s/shortcut-at-nearer-block/nearer.th<holder.th/%snearer.bts+nearer.th", where, rel)
			default:
				return fmt.Sprintf("dup-accepted/%s/shortcut-at-nearer-block/nearer.th>=holder.th/%snearer.bts+nearer.th", where, rel)
			}
		}
		for _, id := range n.IDs {
			if id == tx.ID {
				return fmt.Sprintf("dup-accepted/%s/unexplained(tracker-holds-id)", where)
			}
		}
	}
	if where == "finalized-ancestor" {
		if txlocator.VerifInIndex(in.mgr, []byte(tx.ID)) {
			return "dup-accepted/finalized-ancestor/unexplained(id-in-manager-index)"
		}
		max := txlocator.VerifMaxTSInDB(in.mgr, in.g)
		switch {
		case max != 0 && tx.TS == max:
			return "dup-accepted/finalized-ancestor/evicted-from-cache/ts==maxTSInDB"
		case max != 0 && tx.TS > max:
			return "dup-accepted/finalized-ancestor/evicted-from-cache/ts>maxTSInDB"
		}
		return "dup-accepted/finalized-ancestor/unexplained(db-path)"
	}
	return fmt.Sprintf("dup-accepted/%s/unexplained", where)
}

// applyNew evaluates one block proposal on the real objects and on the model.
// It returns the slot the block was put in (-1 = block rejected, state unchanged).
func (in *c11Inst) applyNew(o c11Op, cx *c11Ctx) int {
	pb := in.parentOf(o.P)
	var mp *c11Blk // model parent pointer
	if o.P != 0 {
		mp = pb
	}
	// ---- model verdict (the property statement)
	windowOK := true
	var winBad c11TxDef
	for _, i := range o.L {
		d := in.cfg.Universe[i]
		if !(d.TS > o.BTS-o.TH && d.TS <= o.BTS+o.TH) {
			if windowOK {
				winBad = d
			}
			windowOK = false
		}
	}
	dupWhere, dupTx := "", c11TxDef{}
	var dupHolder c11Holder
	seen := map[string]bool{}
	for _, i := range o.L {
		d := in.cfg.Universe[i]
		if seen[d.ID] {
			dupWhere, dupTx = "same-block", d
			break
		}
		seen[d.ID] = true
		if w, h, ok := in.holderOf(mp, d.ID); ok {
			dupWhere, dupTx, dupHolder = w, d, h
			break
		}
	}
	expect := windowOK && dupWhere == ""

	// ---- implementation
	tr := pb.tr.New(pb.height+1, o.BTS, o.TH)
	list := o.list
	if list == nil {
		list = in.list(o.L)
	}
	_, addErr := tr.Add(list, false)
	tsr := service.NewTimestampRange(o.BTS, o.TH)
	var winErr error
	for _, tx := range list.txs {
		if err := tsr.CheckTx(tx); err != nil {
			winErr = err
			break
		}
	}
	got := addErr == nil && winErr == nil

	if cx != nil && !cx.quiet {
		st := cx.st
		cx.evals++
		nontrivial := false
		for _, i := range o.L {
			d := in.cfg.Universe[i]
			switch d.TS {
			case o.BTS - o.TH:
				st.winLowEq++
				nontrivial = true
			case o.BTS - o.TH + 1:
				st.winLow1++
				nontrivial = true
			case o.BTS + o.TH:
				st.winHighEq++
				nontrivial = true
			case o.BTS + o.TH + 1:
				st.winHighPlus1++
				nontrivial = true
			}
		}
		if dupWhere != "" {
			nontrivial = true
			switch dupWhere {
			case "same-block":
				st.dupSameBlock++
			case "unfinalized-ancestor":
				st.dupUnfinal++
			case "finalized-ancestor":
				if txlocator.VerifInIndex(in.mgr, []byte(dupTx.ID)) {
					st.dupFinalCached++
				} else {
					st.dupFinalEvicted++
				}
			}
			if dupWhere != "same-block" && windowOK {
				if dupTx.TS == dupHolder.ts+dupHolder.th {
					st.dupAtBoundary++
				}
				if o.TH < dupHolder.th || pb.th < dupHolder.th {
					st.dupBehindSmallerTh++
				}
			}
		}
		if nontrivial {
			cx.nontrivial++
		}
		switch {
		case got:
			st.accepted++
			if len(o.L) > 0 {
				st.acceptedNonEmpty++
			}
		case addErr != nil:
			st.rejDupAdd++
		default:
			st.rejWindow++
		}
		mk := func() c11Case {
			return c11Case{Cfg: *in.cfg, Hist: append(append([]c11Op{}, cx.hist()...), o)}
		}
		if got && dupWhere != "" {
			sig := "dup-accepted/same-block"
			if dupWhere != "same-block" {
				sig = in.classify(tr, dupWhere, dupHolder, dupTx)
			}
			c11Violation(cx.r, sig, fmt.Sprintf(
				"%s: block(bts=%d,th=%d) with list %v was accepted although tx %s(ts=%d) is already in %s (holder bts=%d th=%d); parent path %s; manager %s; history %v",
				in.cfg.name(), o.BTS, o.TH, o.L, dupTx.ID, dupTx.TS, dupWhere, dupHolder.ts, dupHolder.th,
				txlocator.VerifDumpTracker(tr), txlocator.VerifDumpManager(in.mgr), cx.hist()), mk())
		}
		if got && !windowOK {
			rel := ""
			switch {
			case winBad.TS == o.BTS-o.TH:
				rel = "ts==bts-th"
			case winBad.TS < o.BTS-o.TH:
				rel = "ts<bts-th"
			case winBad.TS == o.BTS+o.TH+1:
				rel = "ts==bts+th+1"
			default:
				rel = "ts>bts+th+1"
			}
			c11Violation(cx.r, "out-of-window-accepted/"+rel, fmt.Sprintf(
				"%s: block(bts=%d,th=%d) accepted tx %s(ts=%d) outside (bts-th, bts+th]; history %v",
				in.cfg.name(), o.BTS, o.TH, winBad.ID, winBad.TS, cx.hist()), mk())
		}
		if !got && expect {
			// Not demanded by the property statement ("accepted only if"): counted, not reported.
			st.spuriousReject++
		}
	}
	// The successor state follows the model: a block the statement does not
	// allow is treated as rejected (the tracker is dropped), so exploration
	// continues past a known defect with model and implementation in step.
	if !(got && expect) {
		return -1
	}
	s := in.freeSlot()
	if s < 0 {
		// all MaxLive slots are in use: the proposal was evaluated against the
		// oracle but the block is not retained (bound of the explored space)
		return -1
	}
	in.slots[s] = &c11Blk{parent: mp, ts: o.BTS, th: o.TH, txs: append([]int{}, o.L...), height: pb.height + 1, tr: tr}
	return s
}

func (in *c11Inst) undoNew(slot int) {
	if slot >= 0 {
		in.slots[slot] = nil
	}
}

func (in *c11Inst) descendsFrom(b, anc *c11Blk) bool {
	for x := b; x != nil; x = x.parent {
		if x == anc {
			return true
		}
	}
	return false
}

func (in *c11Inst) applyCommit(o c11Op, cx *c11Ctx) {
	b := in.slots[o.S-1]
	if err := b.tr.Commit(); err != nil {
		cx.r.Sanity(false, "Commit failed: %v (%s, history %v)", err, in.cfg.name(), cx.hist())
	}
	txlocator.VerifWaitFlush(in.mgr)
	if cx != nil && !cx.quiet {
		cx.st.commits++
	}
	for a := b; a != nil && !a.committed; a = a.parent {
		a.committed = true
		for _, i := range a.txs {
			in.finalized[in.cfg.Universe[i].ID] = c11Holder{a.ts, a.th}
		}
	}
	in.tip = *b
	in.tipTS = b.ts
	in.static = ""
	for _, c := range in.slots {
		if c != nil {
			c.dump = ""
		}
	}
	// block manager drops every fork that does not descend from the finalized block
	for i, c := range in.slots {
		if c == nil {
			continue
		}
		if c == b || c.committed || !in.descendsFrom(c, b) {
			in.slots[i] = nil
		}
	}
	// children of b keep their model parent pointer to b (now finalized)
}

func (in *c11Inst) applyRestart(cx *c11Ctx) {
	in.mgr.Term()
	for i := range in.slots {
		in.slots[i] = nil
	}
	in.static = ""
	in.start()
	if cx != nil && !cx.quiet {
		cx.st.restarts++
	}
}

func (in *c11Inst) apply(o c11Op, cx *c11Ctx) {
	switch o.K {
	case "new":
		in.applyNew(o, cx)
	case "commit":
		in.applyCommit(o, cx)
	case "restart":
		in.applyRestart(cx)
	}
}

// key is the canonical state: model (finalized ids, last finalized block, forest
// of live blocks) plus everything of the real objects that can influence later
// behaviour (manager index, caches, maxTSInDB, DB membership, tracker paths).
func (in *c11Inst) key() string {
	if in.static == "" {
		var sb strings.Builder
		var fin []string
		for id, h := range in.finalized {
			fin = append(fin, fmt.Sprintf("%s:%d/%d", id, h.ts, h.th))
		}
		sort.Strings(fin)
		fmt.Fprintf(&sb, "F[%s]T(%d;%d,%d,%v)", strings.Join(fin, ","), in.tipTS, in.tip.ts, in.tip.th, in.tip.txs)
		sb.WriteString("|tip:" + txlocator.VerifDumpTracker(in.tip.tr))
		sb.WriteString("|M:" + txlocator.VerifDumpManager(in.mgr))
		sb.WriteString("|DB:")
		for _, d := range in.cfg.Universe {
			bs, _ := in.bk.Get([]byte(d.ID))
			if len(bs) > 0 {
				sb.WriteString(d.ID)
			}
		}
		in.static = sb.String()
	}
	var node func(b *c11Blk) string
	node = func(b *c11Blk) string {
		var kids []string
		for _, c := range in.slots {
			if c != nil && c.parent == b {
				kids = append(kids, node(c))
			}
		}
		sort.Strings(kids)
		if b.dump == "" {
			// a tracker (and the parent path behind it) only changes on Commit,
			// which clears these caches
			b.dump = fmt.Sprintf("(%d,%d,%v|%s)", b.ts, b.th, b.txs, txlocator.VerifDumpTracker(b.tr))
		}
		return b.dump + "[" + strings.Join(kids, "") + "]"
	}
	var roots []string
	for _, c := range in.slots {
		if c != nil && (c.parent == nil || c.parent.committed) {
			roots = append(roots, node(c))
		}
	}
	sort.Strings(roots)
	return "B" + strings.Join(roots, "") + "|" + in.static
}

func (in *c11Inst) term() { in.mgr.Term() }

// ---------------------------------------------------------------- BFS

type c11Result struct {
	states, transitions, traces int64
	fixpoint                    bool
	depthDone                   int
}

func c11Replay(cfg *c11Config, hist []c11Op, cx *c11Ctx) *c11Inst {
	in := newC11Inst(cfg)
	for _, o := range hist {
		if !in.enabled(o) {
			panic(fmt.Sprintf("replay: op %v not enabled in %s", o, cfg.name()))
		}
		in.apply(o, cx)
	}
	return in
}

func c11BFS(r *ev.Run, cfg *c11Config, st *c11Stats, samples *[]c11Case, smu *sync.Mutex) c11Result {
	var res c11Result
	newOps, mutOps := cfg.newOps(), cfg.mutOps()
	type fr struct {
		hist []c11Op
		key  string
	}
	quiet := &c11Ctx{r: r, st: st, quiet: true, hist: func() []c11Op { return nil }}
	in0 := newC11Inst(cfg)
	k0 := in0.key()
	in0.term()
	seen := map[string]struct{}{k0: {}}
	frontier := []fr{{nil, k0}}
	res.states = 1
	var deepest []c11Op
	for depth := 0; depth < cfg.Depth && len(frontier) > 0; depth++ {
		var next []fr
		for _, f := range frontier {
			if r.Expired() {
				return res
			}
			// one real instance of this state, re-created from its history
			in := c11Replay(cfg, f.hist, quiet)
			res.traces++
			if k := in.key(); k != f.key {
				r.Sanity(false, "state key not reproducible on replay (%s): %q vs %q hist=%v", cfg.name(), k, f.key, f.hist)
			}
			if txlocator.VerifMaxTSInDB(in.mgr, in.g) != 0 {
				st.evictedStates++
			}
			hist := f.hist
			cx := &c11Ctx{r: r, st: st, key: f.key, hist: func() []c11Op { return hist }}
			// block proposals do not mutate anything but the new tracker:
			// evaluate all of them on this instance, undoing the model step.
			for _, o := range newOps {
				if !in.enabled(o) {
					continue
				}
				slot := in.applyNew(o, cx)
				res.transitions++
				if slot >= 0 {
					k := in.key()
					if _, dup := seen[k]; !dup {
						seen[k] = struct{}{}
						next = append(next, fr{append(append([]c11Op{}, hist...), o), k})
					}
					in.undoNew(slot)
				}
			}
			r.Eval(cx.evals)
			if cx.nontrivial > 0 {
				// every (state, proposal) pair is evaluated exactly once, so the
				// proposals are distinct by construction; they are counted in
				// nontrivial_proposals, and distinct_nontrivial conservatively
				// counts the distinct (configuration, state) pairs having one.
				r.Nontrivial(cfg.name() + "#" + f.key)
				st.nontrivialProposals += int64(cx.nontrivial)
			}
			cx.evals, cx.nontrivial = 0, 0
			in.static = ""
			for _, c := range in.slots {
				if c != nil {
					c.dump = ""
				}
			}
			if k := in.key(); k != f.key {
				r.Sanity(false, "block proposals mutated shared state (%s): %q vs %q hist=%v", cfg.name(), k, f.key, f.hist)
			}
			first := true
			for _, o := range mutOps {
				if !in.enabled(o) {
					continue
				}
				im := in
				if !first {
					im = c11Replay(cfg, f.hist, quiet)
					res.traces++
				}
				first = false
				im.apply(o, cx)
				res.transitions++
				k := im.key()
				if _, dup := seen[k]; !dup {
					seen[k] = struct{}{}
					next = append(next, fr{append(append([]c11Op{}, hist...), o), k})
				}
				if im != in {
					im.term()
				}
			}
			in.term()
		}
		res.depthDone = depth + 1
		if len(next) > 0 {
			deepest = next[len(next)/2].hist
		}
		frontier = next
	}
	res.states = int64(len(seen))
	res.fixpoint = len(frontier) == 0
	if deepest != nil {
		smu.Lock()
		if len(*samples) < 4 {
			*samples = append(*samples, c11Case{Cfg: *cfg, Hist: deepest})
		}
		smu.Unlock()
	}
	return res
}

// ---------------------------------------------------------------- configurations

// c11Timestamps: every comparison in the code and in the statement is between a
// tx timestamp and bts-th / bts+th of some block (maxTSInDB is a maximum of
// such sums), so the boundary points and their neighbours represent every cell.
func c11Timestamps(blockTS, ths []int64, deltas []int64) []int64 {
	m := map[int64]bool{}
	for _, b := range append([]int64{90}, blockTS...) {
		for _, th := range ths {
			for _, d := range deltas {
				m[b-th+d] = true
				m[b+th+d] = true
			}
		}
	}
	var out []int64
	for v := range m {
		// keep only timestamps that at least one block of the alphabet could accept,
		// plus the nearest rejected neighbours
		ok := false
		for _, b := range blockTS {
			for _, th := range ths {
				if v >= b-th && v <= b+th+1 {
					ok = true
				}
			}
		}
		if ok {
			out = append(out, v)
		}
	}
	sort.Slice(out, func(i, j int) bool { return out[i] < out[j] })
	return out
}

func c11Configs(r *ev.Run) []c11Config {
	blockTS := []int64{100, 110, 120, 130}
	ths := []int64{10, 50}
	deltas := []int64{0, 1}
	if r.Thorough() {
		deltas = []int64{-1, 0, 1}
	}
	tss := c11Timestamps(blockTS, ths, deltas)
	var out []c11Config
	maxLive := r.Pick(2, 3)
	depth := 20
	depth2 := r.Pick(4, 20)
	for _, th0 := range ths {
		for _, ts := range tss {
			// normal group: thresholds may change between blocks (governance)
			out = append(out, c11Config{Group: int(module.TransactionGroupNormal), Startup: "base-force-committed", Th0: th0,
				Universe: []c11TxDef{{"x", ts}}, BlockTS: blockTS, BlockTH: ths, MaxLive: maxLive, MaxList: 2, Depth: depth, Restart: true, EvalFull: r.Thorough()})
		}
	}
	// patch group: the threshold of patch blocks is a constant in goloop
	// (ConfigPatchTimestampThreshold); the root tracker uses tsc.Threshold().
	for _, th0 := range ths {
		for _, ts := range c11Timestamps(blockTS, []int64{10}, deltas) {
			out = append(out, c11Config{Group: int(module.TransactionGroupPatch), Startup: "raw-root", Th0: th0,
				Universe: []c11TxDef{{"x", ts}}, BlockTS: blockTS, BlockTH: []int64{10}, MaxLive: maxLive, MaxList: 2, Depth: depth, Restart: true, EvalFull: r.Thorough()})
		}
	}
	if r.Quick() {
		// quick only: unfinalized chains of three blocks (two live + every proposal on top)
		for _, th0 := range ths {
			for _, ts := range tss {
				out = append(out, c11Config{Group: int(module.TransactionGroupNormal), Startup: "base-force-committed", Th0: th0,
					Universe: []c11TxDef{{"x", ts}}, BlockTS: blockTS, BlockTH: ths, MaxLive: 3, MaxList: 2, Depth: 3, Restart: false})
			}
		}
	}
	// two-transaction universes (interplay inside one list, partial Add failure)
	second := []int64{105, 140}
	for _, th0 := range ths {
		for _, ts := range tss {
			for _, ts2 := range second {
				if r.Quick() && !(ts2 == 105 && th0 == 10) {
					continue
				}
				out = append(out, c11Config{Group: int(module.TransactionGroupNormal), Startup: "base-force-committed", Th0: th0,
					Universe: []c11TxDef{{"x", ts}, {"y", ts2}}, BlockTS: blockTS, BlockTH: ths, MaxLive: 2, MaxList: 2,
					Depth: depth2, Restart: r.Thorough(), EvalFull: false})
			}
		}
	}
	return out
}

// ---------------------------------------------------------------- test

func TestVerifC11(t *testing.T) {
	r := ev.Start(t, "C11", "model_checking")
	r.Rule("per configuration (tx group x start-up threshold x universe of 1-2 transactions whose timestamps sit on/next to every window boundary bts±th of the block alphabet) a BFS over all reachable states of real txlocator manager+trackers on MapDB: ops = propose block(parent in live blocks or last finalized, bts in {100,110,120,130} > parent bts, th in {10,50}, list of <=2 txs incl. same-id twice), Commit(block) (finalizes ancestors, prunes other forks, joins the flush worker), Restart (Term + NewManager on the same DB + goloop's start-up sequence); state = model + manager index/caches/maxTSInDB/DB membership/tracker parent paths; non-trivial proposal = its list has a tx on a window boundary or a tx already present in the block/an ancestor (each (state, proposal) pair is evaluated once: nontrivial_proposals); distinct_nontrivial counts, conservatively, the distinct (configuration, state) pairs with at least one such proposal")
	r.Assume(
		"a transaction id determines its timestamp (id is a hash of the signed content), so one id never appears with two timestamps",
		"block timestamps strictly increase along a chain",
		"block acceptance = tracker.New(...).Add(list,false)==nil and CheckTxTimestamp(bts-th,bts+th) for every tx (the two gates service/transition.go applies); force=true Add only in the start-up sequence",
		"after a block is finalized the block manager drops every fork not descending from it",
		"the normal-group flush worker is joined after every Commit; interleavings of that goroutine with Has/Add are not explored",
		"patch group: constant block threshold 10, start-up without committing (block/manager.go commits only the normal group at start)",
		"classification of a missed duplicate (which shortcut fired) reads internals through accessor functions; the verdict itself comes from the model only")

	if ev.Replaying() {
		var probe struct {
			Place string `json:"place"`
		}
		ev.ReplayCase(&probe)
		if probe.Place != "" { // a service-level scenario
			var sc c11SvcCase
			ev.ReplayCase(&sc)
			c11SvcRun(t, r, sc, &c11SvcStats{})
			r.States(1)
			r.Transitions(1)
			r.Traces(1)
			r.Sample(sc)
			r.Finish(false)
			return
		}
		var c c11Case
		ev.ReplayCase(&c)
		st := &c11Stats{}
		n := len(c.Hist)
		in := c11Replay(&c.Cfg, c.Hist[:n-1], &c11Ctx{r: r, st: st, quiet: true, hist: func() []c11Op { return nil }})
		hist := c.Hist[:n-1]
		in.apply(c.Hist[n-1], &c11Ctx{r: r, st: st, hist: func() []c11Op { return hist }})
		in.term()
		r.Eval(1)
		r.States(1)
		r.Transitions(1)
		r.Traces(1)
		r.Sample(c)
		r.Finish(false)
		return
	}

	// service-level family first (small, always completed)
	svcScenarios, svcBlocks := c11ServiceFamily(t, r)
	defer debug.SetGCPercent(debug.SetGCPercent(400))
	cfgs := c11Configs(r)
	st := &c11Stats{}
	var samples []c11Case
	var smu sync.Mutex
	var states, transitions, traces, fixpoints int64
	var notFix []string
	maxDepthDone := int64(0)
	t0 := time.Now()
	ev.Par(len(cfgs), 16, func(i int) {
		if r.Expired() {
			return
		}
		lst := &c11Stats{}
		res := c11BFS(r, &cfgs[i], lst, &samples, &smu)
		smu.Lock()
		st.add(lst)
		smu.Unlock()
		atomic.AddInt64(&states, res.states)
		atomic.AddInt64(&transitions, res.transitions)
		atomic.AddInt64(&traces, res.traces)
		smu.Lock()
		if res.fixpoint {
			fixpoints++
		} else {
			notFix = append(notFix, cfgs[i].name())
		}
		if int64(res.depthDone) > maxDepthDone {
			maxDepthDone = int64(res.depthDone)
		}
		smu.Unlock()
	})
	_ = t0
	r.States(int(states) + svcBlocks)
	r.Transitions(int(transitions) + svcBlocks)
	r.Traces(int(traces) + svcScenarios)
	r.Set("configurations", len(cfgs))
	r.Set("configurations_reaching_fixpoint", fixpoints)
	r.Set("max_depth_completed", maxDepthDone)
	r.Set("blocks_accepted", st.accepted)
	r.Set("blocks_accepted_nonempty", st.acceptedNonEmpty)
	r.Set("blocks_rejected_by_Add", st.rejDupAdd)
	r.Set("blocks_rejected_by_window", st.rejWindow)
	r.Set("dup_same_block", st.dupSameBlock)
	r.Set("dup_in_unfinalized_ancestor", st.dupUnfinal)
	r.Set("dup_in_finalized_ancestor_cached", st.dupFinalCached)
	r.Set("dup_in_finalized_ancestor_evicted_db_only", st.dupFinalEvicted)
	r.Set("dup_with_ts_eq_holder_bts_plus_th", st.dupAtBoundary)
	r.Set("dup_behind_block_with_smaller_threshold", st.dupBehindSmallerTh)
	r.Set("tx_at_bts_minus_th", st.winLowEq)
	r.Set("tx_at_bts_minus_th_plus_1", st.winLow1)
	r.Set("tx_at_bts_plus_th", st.winHighEq)
	r.Set("tx_at_bts_plus_th_plus_1", st.winHighPlus1)
	r.Set("states_with_cache_eviction", st.evictedStates)
	r.Set("nontrivial_proposals", st.nontrivialProposals)
	r.Set("commits", st.commits)
	r.Set("restarts", st.restarts)
	r.Set("valid_blocks_rejected_not_a_violation", st.spuriousReject)
	c11SigMu.Lock()
	if len(c11SigCnt) > 0 {
		r.Set("violating_proposals_by_signature", c11SigCnt)
	}
	c11SigMu.Unlock()
	for _, s := range samples {
		r.Sample(s)
	}
	r.Sample(c11Case{Cfg: cfgs[0], Hist: []c11Op{{K: "new", P: 0, BTS: 100, TH: 10, L: []int{0}}, {K: "commit", S: 1}}})
	r.Sanity(st.accepted > 0 && st.acceptedNonEmpty > 0, "no block accepted")
	r.Sanity(st.rejDupAdd > 0, "Add never rejected a duplicate")
	r.Sanity(st.rejWindow > 0, "window check never rejected")
	r.Sanity(st.dupSameBlock > 0 && st.dupUnfinal > 0 && st.dupFinalCached > 0 && st.dupFinalEvicted > 0, "a duplicate placement class was never exercised")
	r.Sanity(st.dupAtBoundary > 0 && st.dupBehindSmallerTh > 0, "boundary/threshold duplicate classes never exercised")
	r.Sanity(st.evictedStates > 0 && st.restarts > 0 && st.commits > 0, "eviction/restart/commit never exercised")
	r.Sanity(st.winLowEq > 0 && st.winHighEq > 0 && st.winHighPlus1 > 0 && st.winLow1 > 0, "window boundaries never exercised")
	exhaustive := len(notFix) == 0
	if !exhaustive {
		sort.Strings(notFix)
		if len(notFix) > 8 {
			notFix = append(notFix[:8], fmt.Sprintf("... (%d in total)", len(notFix)))
		}
		r.Set("configurations_cut_by_depth_bound", notFix)
	}
	// exhaustive = every configuration's BFS reached its fixpoint (all reachable
	// states, histories of any length) or completed its stated depth bound.
	r.Set("exhaustive_meaning", "every configuration explored to its depth bound; configurations_reaching_fixpoint of them have no unexplored state at all")
	r.Finish(true)
}
