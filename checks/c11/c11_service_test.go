//go:build verif

package txlocator_test

// C11, service-level family ("S").
//
// The txlocator-level BFS (c11_test.go) hands its own (ts, th) to the trackers,
// so it cannot see how service/transition.go wires them: which threshold goes
// to which group's logger, NewLogger arguments, the order ensureRecordTXIDs /
// validateTxs. This family drives REAL transitions of a test.Node service
// manager (CreateInitialTransition / CreateTransition(validated=false) /
// PatchTransition / Execute / Finalize) with explicit block timestamps and the
// production thresholds (normal: default 5 min from the world context, patch:
// 1 min), over a finite grid:
//   group x tx-timestamp offset (on/next to bts-th, bts-60s, bts, bts+60s, bts+th)
//         x duplicate placement (same block / unfinalized parent / unfinalized
//           grandparent / finalized parent / parent finalized under a live child
//           / finalized + later finalized blocks up to th/2 / up to 2*th).
// Oracle = the statement: a block is valid only if every tx timestamp is in
// (bts-th, bts+th] and no id occurs twice along the chain.

import (
	"fmt"
	"sync"
	"testing"
	"time"

	"github.com/icon-project/goloop/common"
	"github.com/icon-project/goloop/common/log"
	"github.com/icon-project/goloop/module"
	"github.com/icon-project/goloop/service"
	"github.com/icon-project/goloop/service/transaction"
	"github.com/icon-project/goloop/test"
	"github.com/icon-project/goloop/verifshim/ev"
)

const (
	c11Sec = int64(time.Second / time.Microsecond)
	c11T0  = 1000 * 60 * c11Sec // timestamp of the first block of every scenario
)

// production thresholds (service/tschecker.go): the oracle uses these numbers,
// not whatever the implementation hands to its trackers.
func c11SvcThreshold(group string) int64 {
	if group == "patch" {
		return 60 * c11Sec
	}
	return 300 * c11Sec
}

type c11SvcCase struct {
	Group string `json:"group"` // normal | patch
	Off   int64  `json:"off"`   // tx timestamp - timestamp of the block that first includes it (us)
	Place string `json:"place"`
}

func (c c11SvcCase) String() string {
	return fmt.Sprintf("%s/off=%+dus/%s", c.Group, c.Off, c.Place)
}

var c11SvcPlaces = []string{
	"same-block",                   // B1{x,x}
	"unfinalized-parent",           // B1{x} B2{x}
	"unfinalized-grandparent",      // B1{x} B2{y} B3{x}
	"finalized-parent",             // B1{x} fin; B2{x}
	"parent-finalized-under-child", // B1{x} B2{y}; fin B1; B3{x} on B2
	"finalized+2blocks-to-th/2",    // B1{x} fin; F1(+th/4) fin; F2(+th/2) fin; B4{x}
	"finalized+1block-to-2th",      // B1{x} fin; F1(+2th) fin; B3{x}
}

func c11SvcOffsets(group string, quick bool) []int64 {
	th := c11SvcThreshold(group)
	m := map[int64]bool{}
	for _, p := range []int64{-th, -60 * c11Sec, 0, 60 * c11Sec, th} {
		for _, d := range []int64{-1, 0, 1} {
			if quick && d == -1 && p != -th && p != th {
				continue // quick: p-1 only at the window boundaries
			}
			m[p+d] = true
		}
	}
	// a value well inside each half of the window
	m[-th/2] = true
	m[th/2] = true
	var out []int64
	for v := range m {
		if v >= -th-1 && v <= th+1 {
			out = append(out, v)
		}
	}
	sortInt64(out)
	return out
}

func sortInt64(a []int64) {
	for i := 1; i < len(a); i++ {
		for j := i; j > 0 && a[j] < a[j-1]; j-- {
			a[j], a[j-1] = a[j-1], a[j]
		}
	}
}

type c11DummyPatch struct{ tag string }

func (p c11DummyPatch) Type() string { return "verif-c11" }
func (p c11DummyPatch) Data() []byte { return []byte(fmt.Sprintf("%q", p.tag)) }

type c11SvcCB struct{ ch chan error }

func (c *c11SvcCB) OnValidate(tr module.Transition, err error) { c.ch <- err }
func (c *c11SvcCB) OnExecute(tr module.Transition, err error)  { c.ch <- err }

type c11SvcChain struct {
	nd    *test.Node
	group string
	th    int64
	fatal string
}

// mkTx builds a transaction of the scenario's group with the given timestamp.
func (c *c11SvcChain) mkTx(ts int64, tag string) module.Transaction {
	if c.group == "patch" {
		tx, err := transaction.NewPatchTransaction(c11DummyPatch{tag}, c.nd.Chain.NID(), ts, c.nd.Chain.Wallet())
		if err != nil {
			c.fatal = "NewPatchTransaction: " + err.Error()
			return nil
		}
		return tx
	}
	js := test.NewTx().SetTimestamp(ts).SetVarTest(&tag).Bytes()
	tx, err := c.nd.SM.TransactionFromBytes(js, module.BlockVersion2)
	if err != nil {
		c.fatal = "TransactionFromBytes: " + err.Error()
		return nil
	}
	return tx
}

// block validates (and executes) the block (height, bts) carrying txs of the
// scenario's group on top of parent, exactly as a validator does for a block
// received from a proposer. It returns the validation verdict.
func (c *c11SvcChain) block(parent module.Transition, height, bts int64, txs ...module.Transaction) (module.Transition, error) {
	sm := c.nd.SM
	var normal []module.Transaction
	if c.group == "normal" {
		normal = txs
	}
	bi := common.NewBlockInfo(height, bts)
	// real transitions (service/transition.go); test.ServiceManager's own
	// CreateTransition/PatchTransition are simplified stand-ins and not used
	tr := service.NewTransition(parent, nil, sm.TransactionListFromSlice(normal, module.BlockVersion2), bi,
		common.NewConsensusInfo(nil, nil, nil), false)
	if c.group == "patch" {
		// the patches of a block are applied on the transition; their block
		// info carries the timestamp the patch window is checked against
		tr = service.PatchTransition(tr, sm.TransactionListFromSlice(txs, module.BlockVersion2), bi, false)
	}
	cb := &c11SvcCB{ch: make(chan error, 2)}
	if _, err := tr.Execute(cb); err != nil {
		c.fatal = "Execute: " + err.Error()
		return nil, err
	}
	if err := <-cb.ch; err != nil {
		return tr, err // validation failed: the block is invalid
	}
	if err := <-cb.ch; err != nil {
		c.fatal = "execution failed: " + err.Error()
		return tr, err
	}
	return tr, nil
}

func (c *c11SvcChain) finalize(tr module.Transition) {
	if err := service.FinalizeTransition(tr, module.FinalizeNormalTransaction|module.FinalizePatchTransaction|module.FinalizeResult, false); err != nil {
		c.fatal = "Finalize: " + err.Error()
	}
}

// settle makes the effects of all finalizations so far visible
// deterministically. The normal group's locators are flushed by a worker
// goroutine of a locator manager that is private to the init transition; a
// Commit returns only after its own job was fetched by that single worker,
// i.e. after every earlier job was processed completely (DB write, cache
// insertion, eviction). So one more (empty) finalized block on top, 1 us later,
// settles everything before it. The chain continues from the returned block.
func (c *c11SvcChain) settle(tip module.Transition, height *int64, bts int64) module.Transition {
	tr, err := c.block(tip, *height, bts)
	*height++
	if err != nil && c.fatal == "" {
		c.fatal = "empty settle block rejected: " + err.Error()
	}
	if c.fatal == "" {
		c.finalize(tr)
	}
	return tr
}

type c11SvcStats struct {
	mu                                        sync.Mutex
	scenarios, firstAccepted, firstRejected   int
	dupRejected, windowRejected, harnessFails int
	blocks                                    int
}

// inWindow is the statement's window.
func c11InWindow(ts, bts, th int64) bool { return ts > bts-th && ts <= bts+th }

// c11SvcRun plays one scenario on a fresh node and reports violations.
func c11SvcRun(t *testing.T, r *ev.Run, sc c11SvcCase, st *c11SvcStats) {
	nd := test.NewNode(t)
	nd.Chain.Logger().SetLevel(log.PanicLevel)
	defer nd.Close()
	c := &c11SvcChain{nd: nd, group: sc.Group, th: c11SvcThreshold(sc.Group)}
	th := c.th
	itr, err := nd.SM.CreateInitialTransition(nil, nil)
	if err != nil {
		r.Sanity(false, "CreateInitialTransition: %v", err)
		return
	}
	xts := c11T0 + sc.Off
	x := c.mkTx(xts, "X")
	nblocks := 0
	fail := func(sig, detail string) {
		r.Violation(sig, fmt.Sprintf("service-level scenario %s: %s", sc, detail), sc)
	}
	defer func() {
		st.mu.Lock()
		st.scenarios++
		st.blocks += nblocks
		if c.fatal != "" {
			st.harnessFails++
		}
		st.mu.Unlock()
		if c.fatal != "" {
			r.Sanity(false, "service scenario %s: %s", sc, c.fatal)
		}
	}()
	if c.fatal != "" {
		return
	}
	r.Eval(1)
	r.Nontrivial("S:" + sc.String())

	// ---- first inclusion
	firstList := []module.Transaction{x}
	if sc.Place == "same-block" {
		firstList = []module.Transaction{x, x}
	}
	tr1, err1 := c.block(itr, 1, c11T0, firstList...)
	nblocks++
	if c.fatal != "" {
		return
	}
	firstOK := c11InWindow(xts, c11T0, th)
	if sc.Place == "same-block" {
		if err1 == nil {
			if firstOK {
				fail("service/dup-accepted/same-block", fmt.Sprintf("block(bts=T) with [x,x] (x.ts=T%+dus) was validated", sc.Off))
			} else {
				fail("service/out-of-window-accepted/"+c11SvcWinRel(xts, c11T0, th), fmt.Sprintf("block(bts=T) accepted x.ts=T%+dus, th=%dus", sc.Off, th))
			}
		} else {
			st.mu.Lock()
			st.dupRejected++
			st.mu.Unlock()
		}
		return
	}
	if err1 == nil && !firstOK {
		fail("service/out-of-window-accepted/"+c11SvcWinRel(xts, c11T0, th),
			fmt.Sprintf("block(bts=T) accepted x with ts=T%+dus outside (T-th, T+th], th=%dus", sc.Off, th))
		return
	}
	if err1 != nil {
		st.mu.Lock()
		st.firstRejected++
		if !firstOK {
			st.windowRejected++
		}
		st.mu.Unlock()
		// a valid block being rejected is not demanded by the statement; nothing more to do
		return
	}
	st.mu.Lock()
	st.firstAccepted++
	st.mu.Unlock()

	// ---- build the rest of the chain and place the duplicate
	var parent module.Transition
	var dupTS int64
	var where string
	h := int64(2)
	filler := func(p module.Transition, bts int64, fin bool) module.Transition {
		tr, err := c.block(p, h, bts, c.mkTx(bts, fmt.Sprintf("Y%d", h)))
		nblocks++
		h++
		if err != nil && c.fatal == "" {
			c.fatal = fmt.Sprintf("filler block at T%+dus rejected: %v", bts-c11T0, err)
		}
		if fin && c.fatal == "" {
			c.finalize(tr)
		}
		return tr
	}
	switch sc.Place {
	case "unfinalized-parent":
		parent, dupTS, where = tr1, c11T0+c11Sec, "unfinalized-ancestor"
	case "unfinalized-grandparent":
		parent, dupTS, where = filler(tr1, c11T0+c11Sec, false), c11T0+2*c11Sec, "unfinalized-ancestor"
	case "finalized-parent":
		c.finalize(tr1)
		parent, dupTS, where = c.settle(tr1, &h, c11T0+1), c11T0+c11Sec, "finalized-ancestor"
	case "parent-finalized-under-child":
		tr2 := filler(tr1, c11T0+c11Sec, false)
		if c.fatal == "" {
			c.finalize(tr1)
		}
		parent, dupTS, where = tr2, c11T0+2*c11Sec, "finalized-ancestor"
	case "finalized+2blocks-to-th/2":
		c.finalize(tr1)
		p := filler(tr1, c11T0+th/4, true)
		if c.fatal == "" {
			p = filler(p, c11T0+th/2, true)
		}
		if c.fatal == "" {
			p = c.settle(p, &h, c11T0+th/2+1)
		}
		parent, dupTS, where = p, c11T0+th/2+c11Sec, "finalized-ancestor"
	case "finalized+1block-to-2th":
		c.finalize(tr1)
		p := filler(tr1, c11T0+2*th, true)
		if c.fatal == "" {
			p = c.settle(p, &h, c11T0+2*th+1)
		}
		parent, dupTS, where = p, c11T0+2*th+c11Sec, "finalized-ancestor"
	}
	if c.fatal != "" {
		return
	}
	_, err2 := c.block(parent, h, dupTS, x)
	nblocks++
	if c.fatal != "" {
		return
	}
	if err2 != nil {
		st.mu.Lock()
		if c11InWindow(xts, dupTS, th) {
			st.dupRejected++
		} else {
			st.windowRejected++
		}
		st.mu.Unlock()
		return
	}
	// the block with the second inclusion was validated
	if !c11InWindow(xts, dupTS, th) {
		fail("service/out-of-window-accepted/"+c11SvcWinRel(xts, dupTS, th),
			fmt.Sprintf("block(bts=T%+dus) accepted x with ts=T%+dus outside its window, th=%dus", dupTS-c11T0, sc.Off, th))
		return
	}
	// Known defect D1 is exactly: tx timestamp == holder.bts + (production) threshold,
	// holder still reachable through tracker parent pointers. Only that relation
	// may reuse D1's signature; every other relation is a new signature.
	sig := ""
	switch {
	case xts == c11T0+th && sc.Place != "finalized-parent" && sc.Place != "finalized+2blocks-to-th/2" && sc.Place != "finalized+1block-to-2th":
		sig = fmt.Sprintf("dup-accepted/%s/shortcut-at-holder/ts==holder.bts+holder.th", where)
	default:
		sig = fmt.Sprintf("service/dup-accepted/%s/%s/%s", where, sc.Place, c11SvcDupRel(xts, c11T0, th))
	}
	fail(sig, fmt.Sprintf("x (ts=T%+dus, group %s, th=%dus) is in block(bts=T) and was validated again in block(bts=T%+dus), placement %s",
		sc.Off, sc.Group, th, dupTS-c11T0, sc.Place))
}

func c11SvcWinRel(ts, bts, th int64) string {
	switch {
	case ts == bts-th:
		return "ts==bts-th"
	case ts < bts-th:
		return "ts<bts-th"
	case ts == bts+th+1:
		return "ts==bts+th+1"
	}
	return "ts>bts+th+1"
}

// c11SvcDupRel names where the tx timestamp lies relative to the holder block.
func c11SvcDupRel(ts, hbts, th int64) string {
	m := 60 * c11Sec
	switch {
	case ts == hbts+th:
		return "ts==holder.bts+th"
	case ts > hbts+m && th > m:
		return "holder.bts+60s<ts<holder.bts+th"
	case ts == hbts+m && th > m:
		return "ts==holder.bts+60s"
	case ts >= hbts:
		return "holder.bts<=ts<holder.bts+min(60s,th)"
	case ts > hbts-m:
		return "holder.bts-60s<ts<holder.bts"
	}
	return "ts<=holder.bts-60s"
}

func c11SvcCases(r *ev.Run) []c11SvcCase {
	var out []c11SvcCase
	for _, g := range []string{"normal", "patch"} {
		for _, off := range c11SvcOffsets(g, r.Quick()) {
			for _, p := range c11SvcPlaces {
				out = append(out, c11SvcCase{Group: g, Off: off, Place: p})
			}
		}
	}
	return out
}

// c11ServiceFamily runs every scenario; it returns (scenarios, blocks validated).
func c11ServiceFamily(t *testing.T, r *ev.Run) (int, int) {
	cases := c11SvcCases(r)
	st := &c11SvcStats{}
	ev.Par(len(cases), 8, func(i int) {
		if r.Expired() {
			return
		}
		if p := ev.Catch(func() { c11SvcRun(t, r, cases[i], st) }); p != "" {
			r.Violation("service/panic", fmt.Sprintf("scenario %s: panic %s", cases[i], p), cases[i])
		}
	})
	r.Set("service_scenarios", st.scenarios)
	r.Set("service_blocks_validated", st.blocks)
	r.Set("service_first_inclusion_accepted", st.firstAccepted)
	r.Set("service_first_inclusion_rejected", st.firstRejected)
	r.Set("service_second_inclusion_rejected_as_duplicate", st.dupRejected)
	r.Set("service_blocks_rejected_by_window", st.windowRejected)
	r.Sanity(st.harnessFails == 0, "%d service scenarios could not be played", st.harnessFails)
	r.Sanity(st.firstAccepted > len(cases)/3, "only %d of %d service scenarios had their first inclusion accepted", st.firstAccepted, len(cases))
	r.Sanity(st.dupRejected > 0 && st.windowRejected > 0, "service family never saw a duplicate/window rejection")
	if len(cases) > 0 {
		r.Sample(map[string]interface{}{"family": "service", "scenario": cases[len(cases)/2]})
	}
	return st.scenarios, st.blocks
}
