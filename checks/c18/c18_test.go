//go:build verif

package ompt

// C18 — trie proofs are sound and complete.
//
// Exhaustive enumeration: every map with 1..N entries over a key universe that
// forces every node shape (values of 1 byte -> embedded nodes, 40 bytes -> hashed
// nodes) plus two fixed larger maps; for each map the real trie is built, and for
// every key of the universe (stored or absent) the real GetProof / Prove are
// exercised: genuine proofs, every single-element mutation of them, the proof of
// every other key presented for this key, and verification under other roots.

import (
	"bytes"
	"encoding/hex"
	"fmt"
	"reflect"
	"sort"
	"strings"
	"sync"
	"sync/atomic"
	"testing"
	"time"

	"github.com/icon-project/goloop/common/db"
	"github.com/icon-project/goloop/common/merkle"
	"github.com/icon-project/goloop/common/trie"
	"github.com/icon-project/goloop/verifshim/ev"
)

var c18AllKeys = []string{"", "\x00", "\x01", "\x10", "\x00\x11", "\x00\x12", "\x00\x11\x22", "\x00\x11\x22\x33", "\xff"}
var c18AllVals = []string{"x", strings.Repeat("L", 40), "y"}

// keys that are never stored (absent in every enumerated map)
var c18ExtraAbsent = []string{"\x02", "\x00\x11\x23", "\x00\x1f", "\x00\x11\x22\x33\x44"}

type c18Obj struct{ data []byte }

func (o *c18Obj) Bytes() []byte                        { return o.data }
func (o *c18Obj) Reset(d db.Database, b []byte) error  { o.data = append([]byte(nil), b...); return nil }
func (o *c18Obj) Flush() error                         { return nil }
func (o *c18Obj) Resolve(builder merkle.Builder) error { return nil }
func (o *c18Obj) ClearCache()                          {}
func (o *c18Obj) Equal(x trie.Object) bool {
	o2, ok := x.(*c18Obj)
	return ok && o2 != nil && bytes.Equal(o.data, o2.data)
}

var c18ObjType = reflect.TypeOf((*c18Obj)(nil))

type c18KV struct{ K, V string }

// c18Map is one enumerated map (sorted by key).
type c18Map []c18KV

func (m c18Map) get(k string) (string, bool) {
	for _, kv := range m {
		if kv.K == k {
			return kv.V, true
		}
	}
	return "", false
}

func (m c18Map) String() string {
	var sb strings.Builder
	sb.WriteByte('{')
	for i, kv := range m {
		if i > 0 {
			sb.WriteByte(' ')
		}
		fmt.Fprintf(&sb, "%x=%s*%d", kv.K, kv.V[:1], len(kv.V))
	}
	sb.WriteByte('}')
	return sb.String()
}

// c18Trie: the real tries built for one map.
type c18Trie struct {
	m       c18Map
	flavour int
	d       db.Database
	root    []byte
	mem     c18Imm // snapshot with realized in-memory nodes
	re      c18Imm // reopened from the root hash over the flushed database
}

// c18Imm adapts the two flavours of immutable tries.
type c18Imm struct {
	bs trie.Immutable
	ob trie.ImmutableForObject
}

func (t c18Imm) GetProof(k string) [][]byte {
	if t.bs != nil {
		return t.bs.GetProof([]byte(k))
	}
	return t.ob.GetProof([]byte(k))
}

// Prove returns (value, err, panic text).
func (t c18Imm) Prove(k string, p [][]byte) (val []byte, err error, panicked string) {
	panicked = ev.Catch(func() {
		if t.bs != nil {
			val, err = t.bs.Prove([]byte(k), p)
			return
		}
		var o trie.Object
		o, err = t.ob.Prove([]byte(k), p)
		if o != nil {
			val = o.Bytes()
		}
	})
	return
}

func c18Verifier(flavour int, root []byte) c18Imm {
	if flavour == 0 {
		return c18Imm{bs: NewImmutable(db.NewMapDB(), root)}
	}
	return c18Imm{ob: NewImmutableForObject(db.NewMapDB(), root, c18ObjType)}
}

func c18Build(flavour int, m c18Map) *c18Trie {
	t := &c18Trie{m: m, flavour: flavour, d: db.NewMapDB()}
	if flavour == 0 {
		mu := NewMutable(t.d, nil)
		for _, kv := range m {
			mu.Set([]byte(kv.K), []byte(kv.V))
		}
		s := mu.GetSnapshot()
		t.root = s.Hash()
		s.Flush()
		t.mem = c18Imm{bs: s}
		t.re = c18Imm{bs: NewImmutable(t.d, t.root)}
	} else {
		mu := NewMutableForObject(t.d, nil, c18ObjType)
		for _, kv := range m {
			mu.Set([]byte(kv.K), &c18Obj{[]byte(kv.V)})
		}
		s := mu.GetSnapshot()
		t.root = s.Hash()
		s.Flush()
		t.mem = c18Imm{ob: s}
		t.re = c18Imm{ob: NewImmutableForObject(t.d, t.root, c18ObjType)}
	}
	return t
}

// enumerate all maps with 1..maxN entries over keys x vals
func c18Enumerate(keys, vals []string, maxN int) []c18Map {
	var out []c18Map
	var rec func(start int, cur c18Map)
	rec = func(start int, cur c18Map) {
		if len(cur) > 0 {
			out = append(out, append(c18Map(nil), cur...))
		}
		if len(cur) == maxN {
			return
		}
		for i := start; i < len(keys); i++ {
			for _, v := range vals {
				rec(i+1, append(cur, c18KV{keys[i], v}))
			}
		}
	}
	rec(0, nil)
	for _, m := range out {
		sort.Slice(m, func(i, j int) bool { return m[i].K < m[j].K })
	}
	return out
}

func c18FixedMap(n int) c18Map {
	var m c18Map
	seen := map[string]bool{}
	for i := 0; len(m) < n; i++ {
		x := uint32(i)*2654435761 + 12345
		var k string
		switch i % 3 {
		case 0:
			k = string([]byte{byte(x >> 24)})
		case 1:
			k = string([]byte{byte(x >> 24), byte(x >> 16)})
		default:
			k = string([]byte{byte(x>>24) & 0x0f, byte(x >> 16), byte(x >> 8)})
		}
		if seen[k] {
			continue
		}
		seen[k] = true
		v := strings.Repeat(string([]byte{'a' + byte(i%26)}), 40)
		m = append(m, c18KV{k, v})
	}
	sort.Slice(m, func(i, j int) bool { return m[i].K < m[j].K })
	return m
}

type c18Case struct {
	Flavour  int      `json:"flavour"`
	Map      c18Map   `json:"map"`
	Key      string   `json:"key_hex"`
	Proof    []string `json:"proof_hex"`
	Root     string   `json:"root_hex"`
	Verifier string   `json:"verifier"`
	What     string   `json:"what"`
	// presentations made earlier on the SAME verifier instance (reused-verifier family)
	Before []c18Step `json:"before_on_same_verifier,omitempty"`
}

type c18Step struct {
	Key   string   `json:"key_hex"`
	Proof []string `json:"proof_hex"`
	What  string   `json:"what"`
}

// c18Pres is one (key, proof) presentation with the oracle class that applies to
// it regardless of what the verifier has seen before.
type c18Pres struct {
	key   string
	proof [][]byte
	mode  string // genuine | reject | sound
	what  string
}

func c18HexProof(p [][]byte) []string {
	out := make([]string, len(p))
	for i, e := range p {
		out[i] = hex.EncodeToString(e)
	}
	return out
}

type c18Counters struct {
	proves, genuine, mutated, crossKey, wrongRoot, rejected, absentProofNil, embeddedPaths, multiElem, reusedSeqs, reusedCalls int64
}

type c18Ctx struct {
	r   *ev.Run
	cnt c18Counters
}

func c18NoValue(v []byte, err error) bool { return err != nil || len(v) == 0 }

// verify runs one (key, proof) under one verifier and applies the oracle.
//
//	mode "genuine": must yield want
//	mode "reject":  must be rejected (error / no value); a value != truth is the severe case
//	mode "sound":   may be rejected, may yield the true value, must never yield anything else
func (cx *c18Ctx) verify(t *c18Trie, vname string, v c18Imm, key string, proof [][]byte, mode, what string, before ...c18Step) {
	atomic.AddInt64(&cx.cnt.proves, 1)
	val, err, pan := v.Prove(key, proof)
	fl := []string{"bytes", "object"}[t.flavour]
	truth, stored := t.m.get(key)
	mk := func() c18Case {
		return c18Case{t.flavour, t.m, hex.EncodeToString([]byte(key)), c18HexProof(proof), hex.EncodeToString(t.root), vname, what, before}
	}
	desc := func() string {
		d := fmt.Sprintf("%s trie %v root %x, key %x (stored=%v), %s, verifier=%s: Prove -> value=%q err=%v panic=%q; proof=%v",
			fl, t.m, t.root[:4], key, stored, what, vname, val, err, pan, c18HexProof(proof))
		for i, b := range before {
			d += fmt.Sprintf("\n  earlier call %d on the same verifier: key %s, %s", i+1, b.Key, b.What)
		}
		return d
	}
	if len(before) > 0 {
		fl += "/reused-verifier"
	}
	if pan != "" {
		shape := "stored-key"
		if !stored {
			shape = "absent-key"
			if c18EndsAtValuelessBranch(t.m, key) {
				shape = "absent-key-ending-at-valueless-branch"
			}
		}
		cx.r.Violation("Prove-panics/"+shape+"/"+strings.SplitN(what, ":", 2)[0]+"/"+fl, desc(), mk())
		return
	}
	got := !c18NoValue(val, err)
	if got && (!stored || string(val) != truth) {
		sig := "proof-yields-wrong-value/"
		if !stored {
			sig = "absent-key-yields-value/"
		}
		cx.r.Violation(sig+strings.SplitN(what, ":", 2)[0]+"/"+fl, desc(), mk())
		return
	}
	switch mode {
	case "genuine":
		if !got {
			cx.r.Violation("genuine-proof-rejected/"+vname+"/"+fl, desc(), mk())
		}
	case "reject":
		if got {
			cx.r.Violation("altered-proof-accepted/"+strings.SplitN(what, ":", 2)[0]+"/"+fl, desc(), mk())
		} else {
			atomic.AddInt64(&cx.cnt.rejected, 1)
		}
	}
}

// c18EndsAtValuelessBranch: key is not stored and at least two stored keys
// continue its nibble path with different next nibbles, i.e. the canonical trie
// has a branch node without value exactly at the end of key's path.
func c18EndsAtValuelessBranch(m c18Map, key string) bool {
	if _, ok := m.get(key); ok {
		return false
	}
	next := map[byte]bool{}
	for _, kv := range m {
		if len(kv.K) > len(key) && strings.HasPrefix(kv.K, key) {
			next[kv.K[len(key)]>>4] = true
		}
	}
	return len(next) >= 2
}

func c18EqualProof(a, b [][]byte) bool {
	if len(a) != len(b) {
		return false
	}
	for i := range a {
		if !bytes.Equal(a[i], b[i]) {
			return false
		}
	}
	return true
}

func c18Clone(p [][]byte) [][]byte {
	out := make([][]byte, len(p))
	for i, e := range p {
		out[i] = append([]byte(nil), e...)
	}
	return out
}

type c18Mut struct {
	what  string
	proof [][]byte
}

// single-element mutations of p; donors are other proofs whose elements are spliced in
func c18Mutations(p [][]byte, donors map[string][][]byte) []c18Mut {
	var out []c18Mut
	add := func(what string, q [][]byte) {
		if !c18EqualProof(p, q) {
			out = append(out, c18Mut{what, q})
		}
	}
	for i := range p {
		n := len(p[i])
		for _, pos := range []int{0, n / 2, n - 1} {
			for _, x := range []byte{0x01, 0x80} {
				q := c18Clone(p)
				q[i][pos] ^= x
				add(fmt.Sprintf("flip:elem %d byte %d xor %02x", i, pos, x), q)
			}
		}
		q := c18Clone(p)
		q[i] = q[i][:n-1]
		add(fmt.Sprintf("truncate:elem %d", i), q)
		q = c18Clone(p)
		q[i] = append(q[i], 0)
		add(fmt.Sprintf("extend:elem %d", i), q)
		q = c18Clone(p)
		q = append(q[:i], q[i+1:]...)
		add(fmt.Sprintf("delete:elem %d", i), q)
		if i+1 < len(p) {
			q = c18Clone(p)
			q[i], q[i+1] = q[i+1], q[i]
			add(fmt.Sprintf("swap:elems %d,%d", i, i+1), q)
		}
		dn := make([]string, 0, len(donors))
		for name := range donors {
			dn = append(dn, name)
		}
		sort.Strings(dn)
		for _, name := range dn {
			d := donors[name]
			if i < len(d) {
				q = c18Clone(p)
				q[i] = append([]byte(nil), d[i]...)
				add(fmt.Sprintf("splice:elem %d from proof of %s", i, name), q)
			}
		}
	}
	return out
}

// neighbours of m: one entry removed, or one value replaced
func c18Neighbours(m c18Map, vals []string) []c18Map {
	var out []c18Map
	for i := range m {
		if len(m) > 1 {
			n := append(append(c18Map(nil), m[:i]...), m[i+1:]...)
			out = append(out, n)
		}
		for _, v := range vals {
			if v != m[i].V {
				n := append(c18Map(nil), m...)
				n[i].V = v
				out = append(out, n)
			}
		}
	}
	return out
}

func (cx *c18Ctx) checkMap(flavour int, m c18Map, probe []string, vals []string, panel []*c18Trie, full bool, stateful int) {
	var pres []c18Pres
	t := c18Build(flavour, m)
	fl := []string{"bytes", "object"}[flavour]
	proofs := map[string][][]byte{}
	for _, k := range probe {
		var pm, pr [][]byte
		pan := ev.Catch(func() { pm = t.mem.GetProof(k); pr = t.re.GetProof(k) })
		_, stored := m.get(k)
		cs := c18Case{flavour, m, hex.EncodeToString([]byte(k)), nil, hex.EncodeToString(t.root), "-", "GetProof", nil}
		if pan != "" {
			cx.r.Violation("GetProof-panics/"+fl, fmt.Sprintf("%s trie %v key %x: %s", fl, m, k, pan), cs)
			continue
		}
		if !c18EqualProof(pm, pr) {
			cx.r.Violation("GetProof-differs-memory-vs-reloaded/"+fl, fmt.Sprintf("%s trie %v key %x: %v vs %v", fl, m, k, c18HexProof(pm), c18HexProof(pr)), cs)
		}
		if stored {
			if pm == nil {
				cx.r.Violation("no-proof-for-stored-key/"+fl, fmt.Sprintf("%s trie %v key %x: GetProof returned nil", fl, m, k), cs)
				continue
			}
			proofs[k] = pm
		} else {
			if pm == nil {
				atomic.AddInt64(&cx.cnt.absentProofNil, 1)
			} else {
				// a non-nil "proof" for an absent key must not verify to a value
				cx.verify(t, "fresh", c18Verifier(flavour, t.root), k, pm, "sound", "absent-getproof:GetProof output for an absent key")
			}
			// the empty proof never proves anything
			cx.verify(t, "fresh", c18Verifier(flavour, t.root), k, nil, "sound", "absent-nil:nil proof")
			cx.verify(t, "realized", t.mem, k, nil, "sound", "absent-nil:nil proof")
		}
	}
	// donors from neighbouring tries (same key, other contents)
	var neigh []*c18Trie
	if full {
		for _, nm := range c18Neighbours(m, vals) {
			neigh = append(neigh, c18Build(flavour, nm))
		}
	}
	for _, k := range probe {
		p, stored := proofs[k]
		if stored {
			cx.r.Nontrivial(fl + m.String() + hex.EncodeToString([]byte(k)))
			atomic.AddInt64(&cx.cnt.genuine, 1)
			if len(p) > 1 {
				atomic.AddInt64(&cx.cnt.multiElem, 1)
			}
			// 1. genuine proof under the right root: three verifiers
			cx.verify(t, "fresh", c18Verifier(flavour, t.root), k, p, "genuine", "genuine:unaltered proof")
			cx.verify(t, "realized", t.mem, k, p, "genuine", "genuine:unaltered proof")
			cx.verify(t, "reloaded", t.re, k, p, "genuine", "genuine:unaltered proof")
			// warmed verifier: first the genuine proof, then altered ones on the same instance
			warm := c18Verifier(flavour, t.root)
			cx.verify(t, "fresh", warm, k, p, "genuine", "genuine:unaltered proof")
			pres = append(pres, c18Pres{k, p, "genuine", "genuine:unaltered proof"})
			for ni, nt := range neigh {
				if np := nt.mem.GetProof(k); np != nil && !c18EqualProof(np, p) {
					pres = append(pres, c18Pres{k, np, "reject", fmt.Sprintf("other-root:whole proof of this key from neighbour trie %d %v", ni, nt.m)})
				}
			}
			// 2. single-element mutations
			donors := map[string][][]byte{}
			for k2, p2 := range proofs {
				if k2 != k {
					donors[fmt.Sprintf("key %x", k2)] = p2
				}
			}
			for ni, nt := range neigh {
				if np := nt.mem.GetProof(k); np != nil {
					donors[fmt.Sprintf("same key in neighbour trie %d %v", ni, nt.m)] = np
				}
			}
			for _, mu := range c18Mutations(p, donors) {
				atomic.AddInt64(&cx.cnt.mutated, 1)
				pres = append(pres, c18Pres{k, mu.proof, "reject", mu.what})
				cx.verify(t, "fresh", c18Verifier(flavour, t.root), k, mu.proof, "reject", mu.what)
				if full {
					cx.verify(t, "realized", t.mem, k, mu.proof, "reject", mu.what)
					cx.verify(t, "warmed", warm, k, mu.proof, "reject", mu.what)
				}
			}
			// 3. the genuine proof under other roots
			for _, o := range panel {
				if bytes.Equal(o.root, t.root) {
					continue
				}
				atomic.AddInt64(&cx.cnt.wrongRoot, 1)
				cx.verifyOther(t, o, k, p)
			}
			for _, o := range neigh {
				if bytes.Equal(o.root, t.root) {
					continue
				}
				atomic.AddInt64(&cx.cnt.wrongRoot, 1)
				cx.verifyOther(t, o, k, p)
			}
		}
		// 4. the proof of every other stored key presented for k (k stored or absent)
		for _, k2 := range probe {
			p2, ok := proofs[k2]
			if !ok || k2 == k {
				continue
			}
			atomic.AddInt64(&cx.cnt.crossKey, 1)
			what := fmt.Sprintf("other-key-proof:proof of key %x presented for this key", k2)
			cx.verify(t, "fresh", c18Verifier(flavour, t.root), k, p2, "sound", what)
			cx.verify(t, "realized", t.mem, k, p2, "sound", what)
			pres = append(pres, c18Pres{k, p2, "sound", what})
		}
	}
	cx.reused(t, pres, stateful)
}

// reused: the verifier trie is REUSED across Prove calls (as consensus.partSet
// does): every presentation must get the verdict of its class whatever was
// presented to the same verifier before.
//
//	level 1: for every non-genuine presentation a: [a,a], [a,a,genuine of a's key],
//	         and for every genuine presentation g: [a,g], [g,a]
//	level -1: only [a,a] and [a, genuine of a's key]
//	level 2: every ordered pair of presentations
//	level 3: every ordered triple of presentations
func (cx *c18Ctx) reused(t *c18Trie, pres []c18Pres, level int) {
	if level == 0 || len(pres) == 0 {
		return
	}
	run := func(seq ...int) {
		atomic.AddInt64(&cx.cnt.reusedSeqs, 1)
		v := c18Verifier(t.flavour, t.root)
		var before []c18Step
		for j, i := range seq {
			p := pres[i]
			if j == 0 {
				// first call on a fresh verifier: same as the "fresh" checks, but it must be executed
				v.Prove(p.key, p.proof)
			} else {
				atomic.AddInt64(&cx.cnt.reusedCalls, 1)
				cx.verify(t, fmt.Sprintf("reused(call %d)", j+1), v, p.key, p.proof, p.mode, p.what, before...)
			}
			before = append(before, c18Step{hex.EncodeToString([]byte(p.key)), c18HexProof(p.proof), p.what})
		}
	}
	var genuine []int
	for i, p := range pres {
		if p.mode == "genuine" {
			genuine = append(genuine, i)
		}
	}
	switch level {
	case 1, -1:
		for a, p := range pres {
			if p.mode == "genuine" {
				continue
			}
			run(a, a)
			for _, g := range genuine {
				same := pres[g].key == p.key
				if level == -1 {
					if same {
						run(a, g)
					}
					continue
				}
				run(a, g)
				run(g, a)
				if same {
					run(a, a, g)
				}
			}
		}
	case 2:
		for a := range pres {
			for b := range pres {
				run(a, b)
			}
		}
	default:
		for a := range pres {
			for b := range pres {
				for c := range pres {
					run(a, b, c)
				}
			}
		}
	}
}

// verifyOther: proof p of key k generated under t.root, verified under o.root (a different root).
func (cx *c18Ctx) verifyOther(t, o *c18Trie, k string, p [][]byte) {
	atomic.AddInt64(&cx.cnt.proves, 1)
	fl := []string{"bytes", "object"}[t.flavour]
	for _, v := range []struct {
		name string
		imm  c18Imm
	}{{"fresh", c18Verifier(t.flavour, o.root)}, {"realized", o.mem}} {
		val, err, pan := v.imm.Prove(k, p)
		cs := c18Case{t.flavour, t.m, hex.EncodeToString([]byte(k)), c18HexProof(p), hex.EncodeToString(o.root), v.name, "wrong-root:other map " + o.m.String(), nil}
		d := fmt.Sprintf("%s: proof of key %x from trie %v verified under the root of trie %v (%s verifier): value=%q err=%v panic=%q", fl, k, t.m, o.m, v.name, val, err, pan)
		if pan != "" {
			cx.r.Violation("Prove-panics/wrong-root/"+fl, d, cs)
		} else if !c18NoValue(val, err) {
			cx.r.Violation("proof-accepted-under-another-root/"+fl, d, cs)
		} else {
			atomic.AddInt64(&cx.cnt.rejected, 1)
		}
	}
}

func TestVerifC18(t *testing.T) {
	r := ev.Start(t, "C18", "exploration")
	r.SetBudget(80*time.Second, 14*time.Minute)
	cx := &c18Ctx{r: r}
	if ev.Replaying() {
		var c c18Case
		ev.ReplayCase(&c)
		tr := c18Build(c.Flavour, c.Map)
		key, _ := hex.DecodeString(c.Key)
		var proof [][]byte
		for _, e := range c.Proof {
			b, _ := hex.DecodeString(e)
			proof = append(proof, b)
		}
		root, _ := hex.DecodeString(c.Root)
		fmt.Printf("replaying %s trie %v key %x %s verifier=%s\n", []string{"bytes", "object"}[c.Flavour], c.Map, key, c.What, c.Verifier)
		if strings.HasPrefix(c.What, "wrong-root") || c.What == "GetProof" {
			// re-run the whole map (cheap) so that the same oracle code path is taken
			cx.checkMap(c.Flavour, c.Map, append(append([]string(nil), c18AllKeys...), c18ExtraAbsent...), c18AllVals, nil, true, 0)
		} else {
			mode := "sound"
			switch {
			case strings.HasPrefix(c.What, "genuine"):
				mode = "genuine"
			case strings.HasPrefix(c.What, "flip"), strings.HasPrefix(c.What, "truncate"), strings.HasPrefix(c.What, "extend"),
				strings.HasPrefix(c.What, "delete"), strings.HasPrefix(c.What, "swap"), strings.HasPrefix(c.What, "splice"), strings.HasPrefix(c.What, "other-root"):
				mode = "reject"
			}
			v := c18Verifier(c.Flavour, root)
			switch c.Verifier {
			case "realized":
				v = tr.mem
			case "reloaded":
				v = tr.re
			case "warmed":
				if p := tr.mem.GetProof(string(key)); p != nil {
					v.Prove(string(key), p)
				}
			}
			for _, b := range c.Before {
				bk, _ := hex.DecodeString(b.Key)
				var bp [][]byte
				for _, e := range b.Proof {
					x, _ := hex.DecodeString(e)
					bp = append(bp, x)
				}
				v.Prove(string(bk), bp)
			}
			cx.verify(tr, c.Verifier, v, string(key), proof, mode, c.What, c.Before...)
		}
		r.Finish(false)
		return
	}
	nk, nv, maxN := 7, 2, 3
	if r.Thorough() {
		nk, nv, maxN = 9, 3, 4
	}
	keys, vals := c18AllKeys[:nk], c18AllVals[:nv]
	maps := c18Enumerate(keys, vals, maxN)
	nEnum := len(maps)
	maps = append(maps, c18FixedMap(16), c18FixedMap(40))
	probe := append(append([]string(nil), keys...), c18ExtraAbsent...)
	r.Rule(fmt.Sprintf("every map with 1..%d entries over %d keys (hex %x) x %d values (1 and 40 bytes) = %d maps, plus 2 fixed maps of 16 and 40 keys; both trie flavours; for every map and every key of the universe + %d never-stored keys: GetProof from the in-memory and from the reloaded trie; genuine proof under 4 verifiers (fresh from root hash, realized, reloaded, warmed); every single-element mutation (flip byte first/middle/last xor 01/80, truncate, extend, delete element, swap neighbours, splice in the element of every other key's proof and of the same key's proof in every neighbouring trie (one entry removed / one value changed)) under fresh, realized and warmed verifiers; the proof of every other stored key presented for the key; the genuine proof under the roots of all maps with <= 2 entries and of all neighbouring tries. REUSED verifier (one verifier trie, several Prove calls, verdict of every call must not depend on the earlier ones; presentations = genuine proofs of all stored keys, all mutations, whole proofs of the key from neighbouring tries, other keys' proofs): every ordered pair of presentations for maps with <= 2 entries (thorough: every ordered triple for 1-entry maps); for 3-entry maps [a,a], [a,a,genuine], [a,g], [g,a] for every altered presentation a and every genuine g; for 4-entry maps and the fixed maps [a,a], [a,genuine of the same key]. Non-trivial = distinct (flavour, map, stored key) whose proof went through all of this",
		maxN, nk, keys, nv, nEnum, len(c18ExtraAbsent)))
	r.Assume("appending surplus trailing elements to a proof is not in the alphabet (ambiguous in the statement; such a proof certifies only true data)",
		"values are non-empty",
		"'rejected' = Prove returns an error or no value")
	// panel of other roots: all maps with <= 2 entries
	var panels [2][]*c18Trie
	for fl := 0; fl < 2; fl++ {
		for _, m := range maps[:nEnum] {
			if len(m) <= 2 {
				panels[fl] = append(panels[fl], c18Build(fl, m))
			}
		}
	}
	var done int64
	var stopped int32
	var mu sync.Mutex
	ev.Par(len(maps)*2, 0, func(i int) {
		if atomic.LoadInt32(&stopped) != 0 {
			return
		}
		if r.Expired() {
			atomic.StoreInt32(&stopped, 1)
			return
		}
		m := maps[i/2]
		full := len(m) <= 8
		panel := panels[i%2]
		if !full {
			panel = panel[:20]
		}
		// reused-verifier family: all ordered triples for 1-entry maps (thorough),
		// all ordered pairs for maps with <= 2 entries, the directed sequences of
		// level 1 for 3-entry maps, same-key-only for 4-entry maps and the fixed maps
		level := 1
		switch {
		case len(m) == 1 && r.Thorough():
			level = 3
		case len(m) <= 2:
			level = 2
		case len(m) == 4 || len(m) > 8:
			level = -1
		}
		cx.checkMap(i%2, m, probeFor(m, probe), vals, panel, full, level)
		atomic.AddInt64(&done, 1)
		_ = mu
	})
	r.Eval(int(cx.cnt.proves))
	ex := c18Build(0, maps[nEnum/2])
	for _, kv := range ex.m {
		r.Sample(map[string]interface{}{"map": ex.m.String(), "root": hex.EncodeToString(ex.root), "key": hex.EncodeToString([]byte(kv.K)), "proof": c18HexProof(ex.mem.GetProof(kv.K))})
	}
	r.Set("maps", len(maps))
	r.Set("maps_completed_x_flavours", done)
	r.Set("genuine_proofs", cx.cnt.genuine)
	r.Set("genuine_proofs_with_more_than_one_element", cx.cnt.multiElem)
	r.Set("mutated_proofs", cx.cnt.mutated)
	r.Set("other_key_proof_presentations", cx.cnt.crossKey)
	r.Set("wrong_root_verifications", cx.cnt.wrongRoot)
	r.Set("rejections_observed", cx.cnt.rejected)
	r.Set("absent_keys_with_nil_GetProof", cx.cnt.absentProofNil)
	r.Set("reused_verifier_sequences", cx.cnt.reusedSeqs)
	r.Set("reused_verifier_checked_calls", cx.cnt.reusedCalls)
	r.Sanity(cx.cnt.reusedSeqs > 10000, "vacuity: only %d reused-verifier sequences", cx.cnt.reusedSeqs)
	r.Sanity(cx.cnt.genuine > 100 && cx.cnt.multiElem > 10 && cx.cnt.mutated > 1000 && cx.cnt.crossKey > 100 && cx.cnt.wrongRoot > 100 && cx.cnt.rejected > 1000 && cx.cnt.absentProofNil > 100,
		"vacuity: %+v", cx.cnt)
	r.Finish(atomic.LoadInt32(&stopped) == 0 && done == int64(len(maps)*2))
}

// probeFor: the key universe for a map = enumerated keys + never-stored keys (+ the map's own keys for the fixed maps).
func probeFor(m c18Map, probe []string) []string {
	out := append([]string(nil), probe...)
	have := map[string]bool{}
	for _, k := range out {
		have[k] = true
	}
	for _, kv := range m {
		if !have[kv.K] {
			out = append(out, kv.K)
			have[kv.K] = true
		}
	}
	return out
}
