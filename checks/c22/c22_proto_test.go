//go:build verif

package txresult_test

import (
	"bytes"
	"fmt"

	"github.com/icon-project/goloop/module"
	"github.com/icon-project/goloop/verifshim/ev"
	"github.com/icon-project/goloop/verifshim/opseq"
)

// ---------------------------------------------------------------------------
// iterator-protocol family: a consumer may call Get() once, twice or not at
// all at a position before Next(). Whatever it did at earlier positions, a
// Get() at position p must return item p (and index p), Has() must be true
// exactly for the n positions, and looking the reported index up in the list
// must give the same item.
// ---------------------------------------------------------------------------

// c22Patterns: the call patterns for a list of n items. pattern[p % len] is
// the number of Get() calls (0, 1 or 2) at position p.
//
//	n <= 6 : every one of the 3^n explicit patterns
//	n > 6  : every periodic pattern of period 1, 2, 3 (large lists: 1, 2)
func c22Patterns(n int, large bool) [][]int {
	var out [][]int
	if n <= 6 {
		opseq.Sequences(3, n, n, func(seq []int) bool {
			out = append(out, append([]int{}, seq...))
			return true
		})
		return out
	}
	maxP := 3
	if large {
		maxP = 2
	}
	opseq.Sequences(3, 1, maxP, func(seq []int) bool {
		out = append(out, append([]int{}, seq...))
		return true
	})
	return out
}

func c22PatName(pat []int, n int) string {
	s := ""
	for _, k := range pat {
		s += fmt.Sprint(k)
	}
	if n > 6 {
		return "periodic(" + s + ")"
	}
	return "explicit(" + s + ")"
}

// c22LookupAt: positions at which the reported index is also looked up.
func c22LookupAt(p, n int) bool {
	if n <= 40 || p%7 == 0 || p >= n-3 {
		return true
	}
	for _, b := range []int{128, 256, 4096, 32768, 65536} {
		if p >= b-3 && p <= b+3 {
			return true
		}
	}
	return false
}

// c22History names what the consumer did before the offending call.
func c22History(second, skipped, doubled bool) string {
	switch {
	case second:
		return "second-get-at-position"
	case skipped:
		return "after-position-without-get"
	case doubled:
		return "after-position-with-two-gets"
	}
	return "one-get-per-position"
}

func (c *c22Ctx) protoTx(cs C22Case, view string, l module.TransactionList, n int, large bool) {
	for _, pat := range c22Patterns(n, large) {
		name := c22PatName(pat, n)
		cs.Idx = -1
		if p := ev.Catch(func() {
			it := l.Iterator()
			skipped, doubled := false, false
			for p := 0; p < n; p++ {
				cs.Idx = p
				if !it.Has() {
					c.viol(cs, "tx-iterator-protocol:has-false-early:"+view+":"+c22History(false, skipped, doubled), fmt.Sprintf("pattern %s: Has() is false at position %d of %d", name, p, n))
					return
				}
				k := pat[p%len(pat)]
				for g := 0; g < k; g++ {
					tx, idx, err := it.Get()
					hist := c22History(g == 1, skipped, doubled)
					if err != nil || tx == nil {
						c.viol(cs, "tx-iterator-protocol:get-fails:"+view+":"+hist, fmt.Sprintf("pattern %s position %d: err=%v", name, p, err))
						return
					}
					if idx != p {
						c.viol(cs, "tx-iterator-protocol:wrong-index:"+view+":"+hist, fmt.Sprintf("pattern %s: Get() #%d at position %d reports index %d", name, g+1, p, idx))
						return
					}
					if !bytes.Equal(tx.ID(), c.txID[p]) {
						c.viol(cs, "tx-iterator-protocol:wrong-item:"+view+":"+hist, fmt.Sprintf("pattern %s: Get() #%d at position %d returns another item", name, g+1, p))
						return
					}
					if g == 0 && c22LookupAt(p, n) {
						tx2, err := l.Get(idx)
						if err != nil || tx2 == nil || !bytes.Equal(tx2.ID(), tx.ID()) {
							c.viol(cs, "tx-iterator-protocol:lookup-by-reported-index-differs:"+view+":"+hist, fmt.Sprintf("pattern %s position %d: list.Get(%d) err=%v", name, p, idx, err))
							return
						}
					}
				}
				skipped = skipped || k == 0
				doubled = doubled || k == 2
				if err := it.Next(); err != nil {
					c.viol(cs, "tx-iterator-protocol:next-fails:"+view+":"+c22History(false, skipped, doubled), fmt.Sprintf("pattern %s position %d: %v", name, p, err))
					return
				}
			}
			cs.Idx = n
			if it.Has() {
				c.viol(cs, "tx-iterator-protocol:has-true-after-end:"+view+":"+c22History(false, skipped, doubled), fmt.Sprintf("pattern %s: Has() still true after %d Next()", name, n))
			}
		}); p != "" {
			c.viol(cs, "tx-iterator-protocol:panic:"+view, fmt.Sprintf("pattern %s: %s", name, p))
		}
		c.add("protocol_patterns_run", 1)
	}
}

func (c *c22Ctx) protoRct(cs C22Case, view string, l module.ReceiptList, n int, want [][]byte, large bool) {
	for _, pat := range c22Patterns(n, large) {
		name := c22PatName(pat, n)
		cs.Idx = -1
		if p := ev.Catch(func() {
			it := l.Iterator()
			skipped, doubled := false, false
			for p := 0; p < n; p++ {
				cs.Idx = p
				if !it.Has() {
					c.viol(cs, "rct-iterator-protocol:has-false-early:"+view+":"+c22History(false, skipped, doubled), fmt.Sprintf("pattern %s: Has() is false at position %d of %d", name, p, n))
					return
				}
				k := pat[p%len(pat)]
				for g := 0; g < k; g++ {
					rct, err := it.Get()
					hist := c22History(g == 1, skipped, doubled)
					if err != nil || rct == nil {
						c.viol(cs, "rct-iterator-protocol:get-fails:"+view+":"+hist, fmt.Sprintf("pattern %s position %d: err=%v", name, p, err))
						return
					}
					if !bytes.Equal(rct.Bytes(), want[p]) {
						c.viol(cs, "rct-iterator-protocol:wrong-item:"+view+":"+hist, fmt.Sprintf("pattern %s: Get() #%d at position %d returns another receipt (to=%s)", name, g+1, p, rct.To()))
						return
					}
					if g == 0 && c22LookupAt(p, n) {
						r2, err := l.Get(p)
						if err != nil || r2 == nil || !bytes.Equal(r2.Bytes(), want[p]) {
							c.viol(cs, "rct-iterator-protocol:lookup-by-position-differs:"+view+":"+hist, fmt.Sprintf("pattern %s position %d: list.Get(%d) err=%v", name, p, p, err))
							return
						}
					}
				}
				skipped = skipped || k == 0
				doubled = doubled || k == 2
				if err := it.Next(); err != nil {
					c.viol(cs, "rct-iterator-protocol:next-fails:"+view+":"+c22History(false, skipped, doubled), fmt.Sprintf("pattern %s position %d: %v", name, p, err))
					return
				}
			}
			cs.Idx = n
			if it.Has() {
				c.viol(cs, "rct-iterator-protocol:has-true-after-end:"+view+":"+c22History(false, skipped, doubled), fmt.Sprintf("pattern %s: Has() still true after %d Next()", name, n))
			}
		}); p != "" {
			c.viol(cs, "rct-iterator-protocol:panic:"+view, fmt.Sprintf("pattern %s: %s", name, p))
		}
		c.add("protocol_patterns_run", 1)
	}
}
