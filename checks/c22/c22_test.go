//go:build verif

package txresult_test

import (
	"bytes"
	"encoding/base64"
	"fmt"
	"math/big"
	"sort"
	"sync"
	"sync/atomic"
	"testing"

	"github.com/icon-project/goloop/common"
	"github.com/icon-project/goloop/common/codec"
	"github.com/icon-project/goloop/common/db"
	"github.com/icon-project/goloop/common/trie/trie_manager"
	"github.com/icon-project/goloop/module"
	"github.com/icon-project/goloop/service/transaction"
	"github.com/icon-project/goloop/service/txresult"
	"github.com/icon-project/goloop/verifshim/ev"
)

// C22Case is one list: kind x size (replayable).
type C22Case struct {
	Kind string // "tx", "txv1", "rct-v1" (receipt format 1), "rct-v2" (event logs in a trie)
	N    int
	Idx  int // index at which the violation was observed (-1: whole list)
}

type c22Ctx struct {
	r       *ev.Run
	txs     []module.Transaction // pool: item i is the i-th distinct transaction
	txID    [][]byte
	txBytes [][]byte
	cnt     sync.Map // string -> *int64
}

func (c *c22Ctx) add(k string, n int64) {
	v, _ := c.cnt.LoadOrStore(k, new(int64))
	atomic.AddInt64(v.(*int64), n)
}

var c22Sig = base64.StdEncoding.EncodeToString(bytes.Repeat([]byte{0x11}, 65))

// c22NewTx: a distinct, parseable (unsigned-valid) version-3 transaction per i.
func c22NewTx(i int) module.Transaction {
	js := fmt.Sprintf(`{"version":"0x3","from":"hx%040x","to":"hx%040x","value":"0x%x","stepLimit":"0x100000","timestamp":"0x%x","nid":"0x1","nonce":"0x%x","signature":"%s"}`,
		i+1, 2*i+7, i+1, 0x5a0000000000+i, i, c22Sig)
	tx, err := transaction.NewTransactionFromJSON([]byte(js))
	if err != nil {
		panic(err)
	}
	return tx
}

var c22Sigs = [][]byte{[]byte("Transfer(Address,Address,int)")}

// c22NewReceipts: n fresh receipts, receipt i distinct by content (status,
// steps, destination, every 5th with an event log).
func c22NewReceipts(d db.Database, rev module.Revision, n int) ([]txresult.Receipt, [][]byte) {
	rs := make([]txresult.Receipt, n)
	bs := make([][]byte, n)
	for i := 0; i < n; i++ {
		to := common.MustNewAddressFromString(fmt.Sprintf("cx%040x", i+1))
		r := txresult.NewReceipt(d, rev, to)
		if i%5 == 0 {
			r.AddLog(to, c22Sigs, [][]byte{{byte(i), byte(i >> 8)}})
		}
		r.SetCumulativeStepUsed(big.NewInt(int64(i) * 1000))
		st := module.StatusSuccess
		if i%3 == 1 {
			st = module.StatusOutOfBalance
		}
		r.SetResult(st, big.NewInt(int64(i)+1), big.NewInt(10), nil)
		rs[i] = r
		bs[i] = r.Bytes()
	}
	return rs, bs
}

// indices to look up individually: all for n<=600, else every key-encoding
// boundary +-3 and 97 evenly spaced positions.
func c22Lookups(n int) []int {
	if n <= 600 {
		out := make([]int, n)
		for i := range out {
			out[i] = i
		}
		return out
	}
	m := map[int]bool{}
	for _, b := range []int{0, 128, 256, 4096, 32768, 65536, n} {
		for d := -3; d <= 3; d++ {
			if j := b + d; j >= 0 && j < n {
				m[j] = true
			}
		}
	}
	for k := 0; k < 97; k++ {
		m[int(int64(k)*int64(n-1)/96)] = true
	}
	out := make([]int, 0, len(m))
	for j := range m {
		out = append(out, j)
	}
	sort.Ints(out)
	return out
}

func (c *c22Ctx) viol(cs C22Case, sig, detail string) {
	c.r.Violation(sig+":"+c22Band(cs.Idx), fmt.Sprintf("%s list of %d items, index %d: %s", cs.Kind, cs.N, cs.Idx, detail), cs)
}

// c22Band names the index range (relative to the key-encoding boundaries) for
// the signature, so different boundary failures get different signatures.
func c22Band(i int) string {
	switch {
	case i < 0:
		return "list"
	case i < 128:
		return "idx<128"
	case i < 256:
		return "128<=idx<256"
	case i < 32768:
		return "256<=idx<32768"
	case i < 65536:
		return "32768<=idx<65536"
	default:
		return "idx>=65536"
	}
}

// checkTxList runs the oracle on one transaction list view.
func (c *c22Ctx) checkTxList(cs C22Case, view string, l module.TransactionList, n int) {
	cs.Idx = -1
	count := 0
	if p := ev.Catch(func() {
		for it := l.Iterator(); it.Has(); {
			tx, idx, err := it.Get()
			cs.Idx = count
			if err != nil || tx == nil {
				c.viol(cs, "tx-iterator-get-fails:"+view, fmt.Sprintf("err=%v tx=%v", err, tx))
				return
			}
			if count >= n {
				c.viol(cs, "tx-iterator-yields-too-many:"+view, fmt.Sprintf("item #%d (index %d) beyond the %d items of the list", count, idx, n))
				return
			}
			if idx != count {
				c.viol(cs, "tx-iterator-wrong-index:"+view, fmt.Sprintf("item #%d carries index %d", count, idx))
				return
			}
			if !bytes.Equal(tx.ID(), c.txID[count]) || !bytes.Equal(tx.Bytes(), c.txBytes[count]) {
				c.viol(cs, "tx-iterator-wrong-item:"+view, fmt.Sprintf("item #%d has id %x, original item has %x", count, tx.ID(), c.txID[count]))
				return
			}
			count++
			if err := it.Next(); err != nil {
				c.viol(cs, "tx-iterator-next-fails:"+view, err.Error())
				return
			}
		}
		if count != n {
			cs.Idx = count
			c.viol(cs, "tx-iterator-stops-early:"+view, fmt.Sprintf("iteration ended after %d of %d items", count, n))
		}
	}); p != "" {
		c.viol(cs, "tx-iterator-panic:"+view, p)
	}
	c.add("items_iterated", int64(count))
	lk := c22Lookups(n)
	for _, j := range lk {
		cs.Idx = j
		var tx module.Transaction
		var err error
		if p := ev.Catch(func() { tx, err = l.Get(j) }); p != "" || err != nil || tx == nil {
			c.viol(cs, "tx-get-fails:"+view, fmt.Sprintf("panic=%q err=%v", p, err))
			continue
		}
		if !bytes.Equal(tx.ID(), c.txID[j]) || !bytes.Equal(tx.Bytes(), c.txBytes[j]) {
			c.viol(cs, "tx-get-wrong-item:"+view, fmt.Sprintf("Get(%d) has id %x, original %x", j, tx.ID(), c.txID[j]))
		}
	}
	c.add("lookups", int64(len(lk)))
	for _, j := range []int{n, n + 1} {
		cs.Idx = j
		var tx module.Transaction
		var err error
		if p := ev.Catch(func() { tx, err = l.Get(j) }); p != "" {
			c.viol(cs, "tx-get-beyond-end-panics:"+view, p)
		} else if err == nil && tx != nil {
			c.viol(cs, "tx-get-beyond-end-succeeds:"+view, fmt.Sprintf("Get(%d) returned a transaction %x", j, tx.ID()))
		}
	}
}

func (c *c22Ctx) txCase(cs C22Case) {
	n := cs.N
	cs.Idx = -1
	mdb := db.NewMapDB()
	var l module.TransactionList
	if p := ev.Catch(func() {
		if cs.Kind == "txv1" {
			l = transaction.NewTransactionListV1FromSlice(c.txs[:n])
		} else {
			l = transaction.NewTransactionListFromSlice(mdb, c.txs[:n])
		}
	}); p != "" {
		c.viol(cs, "tx-list-build-panics", p)
		return
	}
	c.checkTxList(cs, "built", l, n)
	if n <= 600 {
		c.protoTx(cs, "built", l, n, false)
	}
	h := l.Hash()
	if cs.Kind == "txv1" {
		return
	}
	if (n == 0) != (len(h) == 0) {
		c.viol(cs, "tx-list-hash-emptiness", fmt.Sprintf("hash=%x", h))
	}
	// same content built again => same hash
	if h2 := h; n <= 600 {
		h2 = transaction.NewTransactionListFromSlice(db.NewMapDB(), c.txs[:n]).Hash()
		if !bytes.Equal(h, h2) {
			c.viol(cs, "tx-list-hash-not-deterministic", fmt.Sprintf("%x vs %x", h, h2))
		}
	}
	if err := l.Flush(); err != nil {
		c.viol(cs, "tx-list-flush-fails", err.Error())
		return
	}
	c.checkTxList(cs, "flushed", l, n)
	l2 := transaction.NewTransactionListFromHash(mdb, h)
	c.checkTxList(cs, "reopened", l2, n)
	c.protoTx(cs, "reopened", transaction.NewTransactionListFromHash(mdb, h), n, n > 600)
}

func (c *c22Ctx) checkRctList(cs C22Case, view string, l module.ReceiptList, n int, want [][]byte, proofs bool) {
	cs.Idx = -1
	count := 0
	if p := ev.Catch(func() {
		for it := l.Iterator(); it.Has(); {
			rct, err := it.Get()
			cs.Idx = count
			if err != nil || rct == nil {
				c.viol(cs, "rct-iterator-get-fails:"+view, fmt.Sprintf("err=%v", err))
				return
			}
			if count >= n {
				c.viol(cs, "rct-iterator-yields-too-many:"+view, fmt.Sprintf("item #%d beyond the %d items of the list", count, n))
				return
			}
			if !bytes.Equal(rct.Bytes(), want[count]) {
				c.viol(cs, "rct-iterator-wrong-item:"+view, fmt.Sprintf("item #%d is not the original item #%d (to=%s)", count, count, rct.To()))
				return
			}
			count++
			if err := it.Next(); err != nil {
				c.viol(cs, "rct-iterator-next-fails:"+view, err.Error())
				return
			}
		}
		if count != n {
			cs.Idx = count
			c.viol(cs, "rct-iterator-stops-early:"+view, fmt.Sprintf("iteration ended after %d of %d items", count, n))
		}
	}); p != "" {
		c.viol(cs, "rct-iterator-panic:"+view, p)
	}
	c.add("items_iterated", int64(count))
	lk := c22Lookups(n)
	h := l.Hash()
	for _, j := range lk {
		cs.Idx = j
		var rct module.Receipt
		var err error
		if p := ev.Catch(func() { rct, err = l.Get(j) }); p != "" || err != nil || rct == nil {
			c.viol(cs, "rct-get-fails:"+view, fmt.Sprintf("panic=%q err=%v", p, err))
			continue
		}
		if !bytes.Equal(rct.Bytes(), want[j]) {
			c.viol(cs, "rct-get-wrong-item:"+view, fmt.Sprintf("Get(%d) returned the receipt for %s", j, rct.To()))
		}
		if !proofs {
			continue
		}
		var proof [][]byte
		if p := ev.Catch(func() { proof, err = l.GetProof(j) }); p != "" || err != nil || len(proof) == 0 {
			c.viol(cs, "rct-getproof-fails:"+view, fmt.Sprintf("panic=%q err=%v", p, err))
			continue
		}
		// verify against the list hash with a verifier that has no data at all
		ver := trie_manager.NewImmutableForObject(db.NewMapDB(), h, txresult.ReceiptType)
		key := codec.BC.MustMarshalToBytes(uint(j)) // the list's own key encoding (c22Key is only a cross-check, see Sanity)
		obj, err := ver.Prove(key, proof)
		if err != nil || obj == nil {
			c.viol(cs, "rct-proof-does-not-verify:"+view, fmt.Sprintf("Prove(key %x) err=%v", key, err))
		} else if !bytes.Equal(obj.Bytes(), want[j]) {
			c.viol(cs, "rct-proof-proves-other-item:"+view, fmt.Sprintf("proof of %d proves %x", j, obj.Bytes()))
		}
		c.add("proofs_verified", 1)
	}
	c.add("lookups", int64(len(lk)))
	for _, j := range []int{n, n + 1} {
		cs.Idx = j
		var rct module.Receipt
		var err error
		if p := ev.Catch(func() { rct, err = l.Get(j) }); p != "" {
			c.viol(cs, "rct-get-beyond-end-panics:"+view, p)
		} else if err == nil && rct != nil {
			c.viol(cs, "rct-get-beyond-end-succeeds:"+view, fmt.Sprintf("Get(%d) returned a receipt", j))
		}
	}
}

// c22Key: the list key of index j as the ICON block format defines it: the
// RLP form of the unsigned integer (minimal big-endian, a leading 00 when the
// top bit is set; a single byte < 0x80 stands for itself). Only used for the
// key-length statistics in the evidence (not by the oracle).
func c22Key(j int) []byte {
	var b []byte
	for v := j; v > 0; v >>= 8 {
		b = append([]byte{byte(v)}, b...)
	}
	if len(b) == 0 || b[0]&0x80 != 0 {
		b = append([]byte{0}, b...)
	}
	if len(b) == 1 && b[0] < 0x80 {
		return b
	}
	return append([]byte{0x80 + byte(len(b))}, b...)
}

func (c *c22Ctx) rctCase(cs C22Case) {
	n := cs.N
	cs.Idx = -1
	rev := module.Revision(0)
	if cs.Kind == "rct-v2" {
		rev = module.UseMPTOnEvents
	}
	mdb := db.NewMapDB()
	rs, want := c22NewReceipts(mdb, rev, n)
	var l module.ReceiptList
	if p := ev.Catch(func() { l = txresult.NewReceiptListFromSlice(mdb, rs) }); p != "" || l == nil {
		c.viol(cs, "rct-list-build-panics", p)
		return
	}
	c.checkRctList(cs, "built", l, n, want, true)
	if n <= 600 {
		c.protoRct(cs, "built", l, n, want, false)
	}
	h := l.Hash()
	if n <= 600 {
		rs2, _ := c22NewReceipts(db.NewMapDB(), rev, n)
		if h2 := txresult.NewReceiptListFromSlice(db.NewMapDB(), rs2).Hash(); !bytes.Equal(h, h2) {
			c.viol(cs, "rct-list-hash-not-deterministic", fmt.Sprintf("%x vs %x", h, h2))
		}
	}
	if err := l.Flush(); err != nil {
		c.viol(cs, "rct-list-flush-fails", err.Error())
		return
	}
	l2 := txresult.NewReceiptListFromHash(mdb, h)
	c.checkRctList(cs, "reopened", l2, n, want, n <= 600)
	c.protoRct(cs, "reopened", txresult.NewReceiptListFromHash(mdb, h), n, want, n > 600)
}

func TestVerifC22(t *testing.T) {
	r := ev.Start(t, "C22", "exploration")
	c := &c22Ctx{r: r}
	small := r.Pick(160, 600)
	extra := []int{255, 256, 257} // quick only (thorough has them in 0..600)
	big := []int{32769}
	bigKinds := []string{"tx", "rct-v2"}
	if r.Thorough() {
		extra = nil
		big = []int{4095, 4096, 4097, 32767, 32768, 32769, 65535, 65536, 65537}
		bigKinds = []string{"tx", "rct-v1", "rct-v2"}
	}
	r.Rule(fmt.Sprintf("list sizes n = 0..%d (all), %v and large %v; kinds: transaction list (trie), version-1 transaction list (small n), receipt list with format-1 receipts and with format-2 receipts (event logs in their own trie) (large n: %v); per list: iterate (count, index, content of every item), Get(j) for every j (n<=600) or for every key-encoding boundary +-3 and 97 evenly spaced j (large n), Get(n), Get(n+1) must fail, receipts: GetProof(j) verified by an empty-database verifier against Hash(); rebuild => same hash (n<=600); Flush; the same checks on a list re-opened from Hash(); iterator protocol on the built (n<=600) and the re-opened list: per position the consumer calls Get() once, twice or not at all before Next() - all 3^n patterns for n<=6, every periodic pattern of period 1,2,3 for larger n (period 1,2 for the large sizes) - every Get() at position p must return item p with index p, Has() true for exactly n positions, lookup by the reported index gives the same item. evaluation = one list view checked; non-trivial = distinct (kind, n)", small, extra, big, bigKinds))
	r.Assume("items: parseable version-3 transactions / receipts, distinct per index", "database is the in-memory MapDB", "the next key-length boundary (index 2^23) is out of reach and not covered")

	maxN := big[len(big)-1]
	if ev.Replaying() {
		var cs C22Case
		ev.ReplayCase(&cs)
		maxN = cs.N
		big = nil
	}
	// transaction pool (shared, read-only after this block)
	c.txs = make([]module.Transaction, maxN)
	c.txID = make([][]byte, maxN)
	c.txBytes = make([][]byte, maxN)
	ev.Par(maxN, 16, func(i int) {
		tx := c22NewTx(i)
		c.txs[i], c.txID[i], c.txBytes[i] = tx, tx.ID(), tx.Bytes()
		tx.Hash()
	})
	seen := map[string]bool{}
	for _, id := range c.txID {
		seen[string(id)] = true
	}
	r.Sanity(len(seen) == maxN, "pool transactions are not distinct (%d of %d)", len(seen), maxN)

	run := func(cs C22Case) {
		switch cs.Kind {
		case "tx", "txv1":
			c.txCase(cs)
		default:
			c.rctCase(cs)
		}
	}
	if ev.Replaying() {
		var cs C22Case
		ev.ReplayCase(&cs)
		run(cs)
		r.Finish(false)
		return
	}

	var cases []C22Case
	for _, n := range big { // big ones first: they dominate the wall time
		for _, k := range bigKinds {
			cases = append(cases, C22Case{Kind: k, N: n})
		}
	}
	sizes := append([]int{}, extra...)
	for n := small; n >= 0; n-- {
		sizes = append(sizes, n)
	}
	for _, n := range sizes {
		for _, k := range []string{"tx", "txv1", "rct-v1", "rct-v2"} {
			cases = append(cases, C22Case{Kind: k, N: n})
		}
	}
	var skipped int64
	ev.Par(len(cases), 16, func(i int) {
		if r.Expired() {
			atomic.AddInt64(&skipped, 1)
			return
		}
		cs := cases[i]
		run(cs)
		r.Eval(1)
		r.Nontrivial(fmt.Sprintf("%s/%d", cs.Kind, cs.N))
		c.add("lists_"+cs.Kind, 1)
	})

	klens := map[int]bool{}
	keyModelOK := true
	for j := 0; j < maxN; j++ {
		klens[len(c22Key(j))] = true
		keyModelOK = keyModelOK && bytes.Equal(c22Key(j), codec.BC.MustMarshalToBytes(uint(j)))
	}
	r.Sanity(keyModelOK, "the harness' model of the index key (used for the key-length statistics) disagrees with codec.BC")
	c.cnt.Range(func(k, v interface{}) bool { r.Set(k.(string), atomic.LoadInt64(v.(*int64))); return true })
	r.Set("sizes_small_max", small)
	r.Set("sizes_extra", extra)
	r.Set("sizes_large", big)
	r.Set("distinct_key_lengths_crossed", len(klens))
	r.Set("cases_skipped_by_budget", skipped)
	r.Sample(map[string]interface{}{"kind": "tx", "n": 129, "key_of_127": fmt.Sprintf("%x", c22Key(127)), "key_of_128": fmt.Sprintf("%x", c22Key(128)), "id_of_item_128": fmt.Sprintf("%x", c.txID[128])})
	r.Sample(map[string]interface{}{"kind": "rct-v2", "n": big[len(big)-1], "key_of_32767": fmt.Sprintf("%x", c22Key(32767)), "key_of_32768": fmt.Sprintf("%x", c22Key(32768)), "lookups": len(c22Lookups(big[len(big)-1]))})
	r.Sample(map[string]interface{}{"kind": "tx", "n": 0, "note": "empty list: no items, empty hash, Get(0) fails"})
	get := func(k string) int64 {
		if v, ok := c.cnt.Load(k); ok {
			return atomic.LoadInt64(v.(*int64))
		}
		return 0
	}
	r.Sanity(len(klens) >= 3, "index keys of only %d distinct lengths", len(klens))
	r.Sanity(get("proofs_verified") > 0, "no receipt proof verified")
	r.Sanity(get("protocol_patterns_run") > 0, "no iterator-protocol pattern ran")
	r.Sanity(get("items_iterated") > 0 && get("lookups") > 0, "nothing iterated / looked up")
	r.Finish(skipped == 0)
}
