//go:build verif

package mta

import (
	"errors"
	"fmt"

	"github.com/icon-project/goloop/common/db"
	"github.com/icon-project/goloop/verifshim/ev"
)

// ---------------------------------------------------------------------------
// store-fault family: an environment error during Flush, followed by a
// successful retry, must still leave a recoverable accumulator.
// ---------------------------------------------------------------------------

var errC27Injected = errors.New("injected store error")

// c27FaultBucket wraps a bucket; the failAt-th Set (1-based, counted since
// arm) fails without writing anything.
type c27FaultBucket struct {
	db.Bucket
	sets   int
	failAt int
	fired  bool
}

func (b *c27FaultBucket) Set(k, v []byte) error {
	b.sets++
	if b.failAt > 0 && b.sets == b.failAt {
		b.fired = true
		return errC27Injected
	}
	return b.Bucket.Set(k, v)
}

func (b *c27FaultBucket) arm(k int) { b.sets, b.failAt, b.fired = 0, k, false }

// faultCase: lengths m (already flushed without a fault; m = 0: nothing
// flushed before) and n >= m; the Flush at length n is run once without a
// fault to count its Set calls S, then for EVERY k in 1..S on a new
// accumulator with exactly the k-th Set failing.
func (c *c27Ctx) faultCase(cs C27Case) {
	m, n := cs.M, cs.N
	cs.Idx = -1
	build := func() (*Accumulator, *c27FaultBucket, bool) {
		fb := &c27FaultBucket{Bucket: c27Bucket()}
		a := &Accumulator{KeyForState: []byte("a"), Bucket: fb}
		if !c.grow(cs, "fresh", a, 0, m) {
			return nil, nil, false
		}
		if m > 0 {
			if err := a.Flush(); err != nil {
				c.r.Violation("Flush-error:fresh", fmt.Sprintf("Flush() of %d items: %v (case %+v)", m, err, cs), cs)
				return nil, nil, false
			}
		}
		if !c.grow(cs, "fresh", a, m, n) {
			return nil, nil, false
		}
		return a, fb, true
	}
	// control: never faulted; counts the Sets of the flush under test
	ctl, cfb, ok := build()
	if !ok {
		return
	}
	cfb.arm(0)
	if err := ctl.Flush(); err != nil {
		c.r.Violation("Flush-error:fresh", fmt.Sprintf("Flush() of %d items: %v (case %+v)", n, err, cs), cs)
		return
	}
	total := cfb.sets
	ext := n + 3
	if ext > len(c.f.items)-1 {
		ext = len(c.f.items) - 1
	}
	for k := 1; k <= total; k++ {
		cs.Idx = k
		where := fmt.Sprintf("store fault at Set #%d of %d during Flush of %d items (%s, %d of them flushed before)", k, total, n, c27VariantName[cs.Variant], m)
		a, fb, ok := build()
		if !ok {
			return
		}
		fb.arm(k)
		var err error
		if p := ev.Catch(func() { err = a.Flush() }); p != "" {
			c.r.Violation("Flush-panic:"+c27PanicKind(p)+":on-store-error", where+": "+p, cs)
			continue
		}
		if !fb.fired {
			c.r.Sanity(false, "fault %d of %d did not fire (n=%d m=%d)", k, total, n, m)
			continue
		}
		if err == nil {
			c.r.Violation("Flush-swallows-store-error", where+": Flush() returned nil", cs)
		}
		c.add("store_faults_injected", 1)
		// retry without faults until it succeeds
		fb.arm(0)
		okFlush := false
		for try := 1; try <= 3 && !okFlush; try++ {
			if p := ev.Catch(func() { err = a.Flush() }); p != "" {
				c.r.Violation("Flush-panic:"+c27PanicKind(p)+":retry-after-store-error", where+": "+p, cs)
				break
			}
			okFlush = err == nil
		}
		if !okFlush {
			c.r.Violation("Flush-retry-fails-after-store-error", fmt.Sprintf("%s: retried Flush() keeps failing: %v", where, err), cs)
			continue
		}
		// the live object still works
		c.checkRoots(cs, "flushed-after-store-fault", a, n)
		c.checkWitnesses(cs, "flushed-after-store-fault", a, n, c27Some(n, false), false)
		// recovery from the store alone
		b := &Accumulator{KeyForState: []byte("a"), Bucket: fb.Bucket}
		if p := ev.Catch(func() { err = b.Recover() }); p != "" || err != nil {
			c.r.Violation("Recover-fails:after-store-fault-and-retry", fmt.Sprintf("%s, retried: Recover() panic=%q err=%v", where, p, err), cs)
			continue
		}
		c.checkRoots(cs, "recovered-after-store-fault", b, n)
		c.checkWitnesses(cs, "recovered-after-store-fault", b, n, c27All(n), false)
		// growing the recovered accumulator agrees with the never-faulted control (= reference forest)
		if c.grow(cs, "resumed-after-store-fault", b, n, ext) {
			c.checkRoots(cs, "resumed-after-store-fault", b, ext)
			c.checkWitnesses(cs, "resumed-after-store-fault", b, ext, c27All(ext), false)
			// and it can be persisted and recovered again
			if p := ev.Catch(func() { err = b.Flush() }); p != "" || err != nil {
				c.r.Violation("Flush-fails:resumed-after-store-fault", fmt.Sprintf("%s: later Flush() at %d items: panic=%q err=%v", where, ext, p, err), cs)
				continue
			}
			d := &Accumulator{KeyForState: []byte("a"), Bucket: fb.Bucket}
			if p := ev.Catch(func() { err = d.Recover() }); p != "" || err != nil {
				c.r.Violation("Recover-fails:resumed-after-store-fault", fmt.Sprintf("%s: Recover() at %d items: panic=%q err=%v", where, ext, p, err), cs)
				continue
			}
			c.checkRoots(cs, "recovered-after-store-fault", d, ext)
			c.checkWitnesses(cs, "recovered-after-store-fault", d, ext, c27All(ext), false)
		}
		c.add("store_fault_cases_completed", 1)
	}
	// the control, recovered, for the differential statement
	cb := c.reopen(cs, cfb.Bucket, n)
	if cb != nil {
		c.checkRoots(cs, "recovered", cb, n)
	}
}
