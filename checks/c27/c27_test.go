//go:build verif

package mta

import (
	"bytes"
	"fmt"
	"math/bits"
	"sort"
	"strings"
	"sync"
	"testing"

	"golang.org/x/crypto/sha3"

	"github.com/icon-project/goloop/common/db"
	"github.com/icon-project/goloop/verifshim/ev"
)

// ---------------------------------------------------------------------------
// Independent reference: a binary-counter merkle forest over leaf hashes.
// levels[l][p] is the hash of the complete aligned subtree of height l that
// covers leaves [p<<l, (p+1)<<l).  The tree kept in root slot k of a forest of
// n leaves covers leaves [base, base+2^k) with base = n with bits <= k cleared,
// which is a multiple of 2^k, hence always one of these aligned subtrees.
// ---------------------------------------------------------------------------

type c27Ref struct {
	items  [][]byte
	levels [][][]byte
}

func c27Item(i int) []byte { return []byte(fmt.Sprintf("item-%d", i)) }

func c27NewRef(max int) *c27Ref {
	f := &c27Ref{}
	l0 := make([][]byte, max)
	for i := 0; i < max; i++ {
		f.items = append(f.items, c27Item(i))
		h := sha3.Sum256(f.items[i])
		l0[i] = h[:]
	}
	f.levels = append(f.levels, l0)
	for len(f.levels[len(f.levels)-1]) >= 2 {
		prev := f.levels[len(f.levels)-1]
		cur := make([][]byte, len(prev)/2)
		for p := range cur {
			h := sha3.Sum256(append(append([]byte{}, prev[2*p]...), prev[2*p+1]...))
			cur[p] = h[:]
		}
		f.levels = append(f.levels, cur)
	}
	return f
}

// root returns the reference hash of root slot k of a forest of n leaves, or
// nil if that slot is empty.
func (f *c27Ref) root(n, k int) []byte {
	if n>>uint(k)&1 == 0 {
		return nil
	}
	base := (n >> uint(k+1)) << uint(k+1)
	return f.levels[k][base>>uint(k)]
}

// locate returns the slot of the tree holding leaf idx in a forest of n leaves.
func c27Locate(n, idx int) (slot int) {
	base := 0
	for k := bits.Len(uint(n)) - 1; k >= 0; k-- {
		if n>>uint(k)&1 == 1 {
			if idx < base+1<<uint(k) {
				return k
			}
			base += 1 << uint(k)
		}
	}
	return -1
}

// witness returns the reference witness of leaf idx in a forest of n leaves.
func (f *c27Ref) witness(n, idx int) []Witness {
	k := c27Locate(n, idx)
	w := make([]Witness, 0, k)
	for l := 0; l < k; l++ {
		p := idx >> uint(l)
		d := Right
		if p&1 == 1 {
			d = Left
		}
		w = append(w, Witness{Direction: d, HashValue: f.levels[l][p^1]})
	}
	return w
}

// c27FirstGap returns how many leaves are held by the leading run of occupied
// root slots (from the top); leaves with idx >= that number live in a tree that
// sits below an empty root slot.  For n = 2^k-1 (no empty slot) it returns n.
func c27FirstGap(n int) int {
	got := 0
	for k := bits.Len(uint(n)) - 1; k >= 0; k-- {
		if n>>uint(k)&1 == 0 {
			return got
		}
		got += 1 << uint(k)
	}
	return got
}

func c27HasEmptySlot(n int) bool { return n&(n+1) != 0 }

func c27PanicKind(p string) string {
	if strings.Contains(p, "nil pointer dereference") {
		return "nil-deref"
	}
	if strings.Contains(p, "index out of range") {
		return "index-out-of-range"
	}
	return "other-panic"
}

// ---------------------------------------------------------------------------

// C27Case identifies one case of the space (replayable).
type C27Case struct {
	Phase   string // "length" or "resume"
	Variant int    // 0 AddData, 1 AddHash, 2 alternating
	M       int    // resume: length at which the accumulator was persisted first
	N       int    // final length
	Idx     int    // index the violation was seen at (-1: none)
}

var c27VariantName = []string{"AddData", "AddHash", "alternating"}

var c27HeightKey = func() (k [40]string) {
	for i := range k {
		k[i] = fmt.Sprintf("witness_height_%02d", i)
	}
	return
}()

type c27Ctx struct {
	flipAll  int
	denseAll int
	r        *ev.Run
	f        *c27Ref
	mu       sync.Mutex
	cnt      map[string]int64
}

// add is only called on the per-case context (one goroutine).
func (c *c27Ctx) add(key string, n int64) { c.cnt[key] += n }

func (c *c27Ctx) appendItem(a *Accumulator, variant, i int) []Witness {
	useData := variant == 0 || (variant == 2 && i%2 == 0)
	if useData {
		return a.AddData(c.f.items[i])
	}
	return a.AddHash(c.f.levels[0][i])
}

// grow appends items [from,to) and returns false after reporting a violation
// if an append panicked or the length is wrong.
func (c *c27Ctx) grow(cs C27Case, tag string, a *Accumulator, from, to int) bool {
	for i := from; i < to; i++ {
		var w []Witness
		if p := ev.Catch(func() { w = c.appendItem(a, cs.Variant, i) }); p != "" {
			cs.Idx = i
			c.r.Violation("Add-panic:"+c27PanicKind(p)+":"+tag, fmt.Sprintf("%s appending item %d: %s (case %+v)", tag, i, p, cs), cs)
			return false
		}
		if a.Len() != int64(i+1) {
			cs.Idx = i
			c.r.Violation("Len-wrong-after-add:"+tag, fmt.Sprintf("Len()=%d after %d appends (case %+v)", a.Len(), i+1, cs), cs)
			return false
		}
		if i == to-1 {
			// the witness handed out by the append verifies against the roots of that moment
			var err error
			if p := ev.Catch(func() { err = a.Verify(w, c.f.levels[0][i]) }); p != "" || err != nil {
				cs.Idx = i
				c.r.Violation("Add-witness-does-not-verify:"+tag, fmt.Sprintf("witness returned by append %d: panic=%q err=%v (case %+v)", i, p, err, cs), cs)
			} else if d := c27DiffWitness(w, c.f.witness(i+1, i)); d != "" {
				cs.Idx = i
				c.r.Violation("Add-witness-differs-from-reference:"+tag, fmt.Sprintf("append %d: %s (case %+v)", i, d, cs), cs)
			}
			c.add("add_witness_verified", 1)
		}
	}
	return true
}

func c27DiffWitness(got, want []Witness) string {
	if len(got) != len(want) {
		return fmt.Sprintf("witness length %d, reference %d", len(got), len(want))
	}
	for l := range got {
		if got[l].Direction != want[l].Direction || !bytes.Equal(got[l].HashValue, want[l].HashValue) {
			return fmt.Sprintf("level %d: got %s, reference %s", l, got[l], want[l])
		}
	}
	return ""
}

// checkRoots compares the root slots with the reference forest of n leaves.
func (c *c27Ctx) checkRoots(cs C27Case, tag string, a *Accumulator, n int) {
	if a.Len() != int64(n) {
		c.r.Violation("Len-wrong:"+tag, fmt.Sprintf("Len()=%d want %d (case %+v)", a.Len(), n, cs), cs)
	}
	want := bits.Len(uint(n))
	if len(a.roots) != want {
		c.r.Violation("root-slot-count-wrong:"+tag, fmt.Sprintf("%d root slots for %d items, binary counter needs %d (case %+v)", len(a.roots), n, want, cs), cs)
		return
	}
	for k := 0; k < want; k++ {
		ref := c.f.root(n, k)
		var got []byte
		if a.roots[k] != nil {
			if p := ev.Catch(func() { got = a.roots[k].Hash() }); p != "" {
				c.r.Violation("root-Hash-panic:"+tag, fmt.Sprintf("slot %d: %s (case %+v)", k, p, cs), cs)
				return
			}
		}
		if (ref == nil) != (a.roots[k] == nil) || !bytes.Equal(ref, got) {
			c.r.Violation("roots-differ-from-reference-forest:"+tag, fmt.Sprintf("slot %d of %d items: got %x reference %x (case %+v)", k, n, got, ref, cs), cs)
			return
		}
	}
	c.add("root_lists_compared", 1)
}

// checkWitnesses asks for a witness of every index in idxs and checks it.
// allFlips: try a flipped hash at every level (else at one level per index).
func (c *c27Ctx) checkWitnesses(cs C27Case, tag string, a *Accumulator, n int, idxs []int, allFlips bool) {
	var ok, panics int64
	for _, idx := range idxs {
		cs.Idx = idx
		var w []Witness
		var err error
		if p := ev.Catch(func() { w, err = a.WitnessFor(int64(idx)) }); p != "" {
			panics++
			where := "idx-in-leading-occupied-slots"
			if idx >= c27FirstGap(n) {
				where = "idx-beyond-first-empty-root-slot"
			}
			c.r.Violation("WitnessFor-panic:"+c27PanicKind(p)+":"+where+":"+c27ObjKind(tag),
				fmt.Sprintf("WitnessFor(%d) on %s accumulator of %d items (%s, root slots %s): %s", idx, tag, n, c27VariantName[cs.Variant], c27Slots(n), p), cs)
			continue
		}
		if err != nil {
			c.r.Violation("WitnessFor-error:"+tag, fmt.Sprintf("WitnessFor(%d) of %d items: %v (case %+v)", idx, n, err, cs), cs)
			continue
		}
		leaf := c.f.levels[0][idx]
		var verr error
		if p := ev.Catch(func() { verr = a.Verify(w, leaf) }); p != "" || verr != nil {
			c.r.Violation("witness-does-not-verify:"+tag, fmt.Sprintf("Verify(WitnessFor(%d)) of %d items: panic=%q err=%v (case %+v)", idx, n, p, verr, cs), cs)
			continue
		}
		if d := c27DiffWitness(w, c.f.witness(n, idx)); d != "" {
			c.r.Violation("witness-differs-from-reference-forest:"+tag, fmt.Sprintf("WitnessFor(%d) of %d items: %s (case %+v)", idx, n, d, cs), cs)
			continue
		}
		if d := c27DiffWitness(HashesToWitness(WitnessesToHashes(w), int64(idx)), w); d != "" {
			c.r.Violation("HashesToWitness-roundtrip:"+tag, fmt.Sprintf("idx %d of %d: %s (case %+v)", idx, n, d, cs), cs)
		}
		// soundness: another item's hash, and a witness with one hash altered, are rejected
		other := c.f.levels[0][(idx+1)%len(c.f.levels[0])]
		if p := ev.Catch(func() { verr = a.Verify(w, other) }); p != "" || verr == nil {
			c.r.Violation("witness-accepts-wrong-item:"+tag, fmt.Sprintf("Verify(WitnessFor(%d), hash of item %d) of %d items: panic=%q err=%v (case %+v)", idx, idx+1, n, p, verr, cs), cs)
		}
		for l := range w {
			if !allFlips && l != (idx+n)%len(w) {
				continue
			}
			mw := make([]Witness, len(w))
			copy(mw, w)
			hv := append([]byte{}, w[l].HashValue...)
			hv[(idx+l)%len(hv)] ^= 1 << uint((idx+n)%8)
			mw[l].HashValue = hv
			if p := ev.Catch(func() { verr = a.Verify(mw, leaf) }); p != "" || verr == nil {
				c.r.Violation("altered-witness-accepted:"+tag, fmt.Sprintf("idx %d of %d items, level %d altered: panic=%q err=%v (case %+v)", idx, n, l, p, verr, cs), cs)
			}
			c.add("altered_witnesses_rejected", 1)
		}
		c.add(c27HeightKey[len(w)], 1)
		ok++
	}
	c.add("witnesses_verified_"+tag, ok)
	c.add("witnessfor_panics_"+tag, panics)
	c.r.Eval(len(idxs))
}

// c27ObjKind maps the phase tag to the kind of object for panic signatures:
// "grown" = its last mutation was an append (fresh, or recovered and appended to),
// "flushed" = just flushed, "recovered" = just recovered from the bucket.
func c27ObjKind(tag string) string {
	if tag == "fresh" || tag == "resumed" {
		return "grown"
	}
	return tag
}

func c27Slots(n int) string {
	if n == 0 {
		return "-"
	}
	s := fmt.Sprintf("%b", n)
	return strings.NewReplacer("1", "X", "0", "_").Replace(s) + " (top..0)"
}

// c27Some: every index if all, else first, middle, last two.
func c27Some(n int, all bool) []int {
	if all || n <= 4 {
		return c27All(n)
	}
	return []int{0, n / 2, n - 2, n - 1}
}

func c27All(n int) []int {
	out := make([]int, n)
	for i := range out {
		out[i] = i
	}
	return out
}

// checkBeyond: asking for an index that does not exist fails cleanly.
func (c *c27Ctx) checkBeyond(cs C27Case, tag string, a *Accumulator, n int) {
	for _, idx := range []int{n, n + 1} {
		cs.Idx = idx
		var w []Witness
		var err error
		if p := ev.Catch(func() { w, err = a.WitnessFor(int64(idx)) }); p != "" {
			c.r.Violation("WitnessFor-panic:"+c27PanicKind(p)+":idx-not-in-accumulator:"+tag, fmt.Sprintf("WitnessFor(%d) of %d items: %s", idx, n, p), cs)
		} else if err == nil {
			c.r.Violation("WitnessFor-missing-index-succeeds:"+tag, fmt.Sprintf("WitnessFor(%d) of %d items returned %v without error", idx, n, w), cs)
		}
	}
}

// persist runs Flush (twice: the second must be a no-op) and returns whether it
// succeeded; failures are reported.
func (c *c27Ctx) persist(cs C27Case, tag string, a *Accumulator, n int) bool {
	for round := 0; round < 2; round++ {
		var err error
		if p := ev.Catch(func() { err = a.Flush() }); p != "" {
			c.add("flush_panics", 1)
			where := "no-empty-root-slot"
			if c27HasEmptySlot(n) {
				where = "empty-root-slot-present"
			}
			c.r.Violation("Flush-panic:"+c27PanicKind(p)+":"+where+":"+c27ObjKind(tag),
				fmt.Sprintf("Flush() of %s accumulator of %d items (%s, root slots %s): %s", tag, n, c27VariantName[cs.Variant], c27Slots(n), p), cs)
			return false
		} else if err != nil {
			c.r.Violation("Flush-error:"+tag, fmt.Sprintf("Flush() of %d items: %v (case %+v)", n, err, cs), cs)
			return false
		}
	}
	c.add("flush_ok", 1)
	return true
}

func (c *c27Ctx) reopen(cs C27Case, bk db.Bucket, n int) *Accumulator {
	b := &Accumulator{KeyForState: []byte("a"), Bucket: bk}
	var err error
	if p := ev.Catch(func() { err = b.Recover() }); p != "" || err != nil {
		c.r.Violation("Recover-fails", fmt.Sprintf("Recover() of %d items: panic=%q err=%v (case %+v)", n, p, err, cs), cs)
		return nil
	}
	c.add("recover_ok", 1)
	return b
}

func c27Bucket() db.Bucket {
	bk, err := db.NewMapDB().GetBucket("")
	if err != nil {
		panic(err)
	}
	return bk
}

// lengthCase: one accumulator length n, one append variant.
func (c *c27Ctx) lengthCase(cs C27Case) {
	n := cs.N
	cs.Idx = -1
	full := n <= c.flipAll   // altered witness at every level (fresh object)
	dense := n <= c.denseAll // every index also on the flushed / appended-after-recover object
	bk := c27Bucket()
	a := &Accumulator{KeyForState: []byte("a"), Bucket: bk}
	if !c.grow(cs, "fresh", a, 0, n) {
		return
	}
	c.checkRoots(cs, "fresh", a, n)
	c.checkWitnesses(cs, "fresh", a, n, c27All(n), full)
	c.checkBeyond(cs, "fresh", a, n)
	if !c.persist(cs, "fresh", a, n) {
		c.add("lengths_without_recover_phase", 1)
		return
	}
	// the flushed object keeps working
	c.checkRoots(cs, "flushed", a, n)
	c.checkWitnesses(cs, "flushed", a, n, c27Some(n, dense), false)
	// a new object recovered from the bucket alone gives the same witnesses
	b := c.reopen(cs, bk, n)
	if b == nil {
		return
	}
	c.add("lengths_with_recover_phase", 1)
	c.checkRoots(cs, "recovered", b, n)
	c.checkWitnesses(cs, "recovered", b, n, c27All(n), false)
	c.checkBeyond(cs, "recovered", b, n)
	// and can be appended to
	if n+1 <= len(c.f.items) {
		if !c.grow(cs, "resumed", b, n, n+1) {
			return
		}
		c.checkRoots(cs, "resumed", b, n+1)
		c.checkWitnesses(cs, "resumed", b, n+1, c27Some(n+1, dense), false)
	}
}

// resumeCase: persist at length m, recover, append up to n, check, persist
// again, recover again, check.
func (c *c27Ctx) resumeCase(cs C27Case) {
	m, n := cs.M, cs.N
	cs.Idx = -1
	bk := c27Bucket()
	a := &Accumulator{KeyForState: []byte("a"), Bucket: bk}
	if !c.grow(cs, "fresh", a, 0, m) {
		return
	}
	if !c.persist(cs, "fresh", a, m) {
		c.add("resume_cases_blocked_by_first_flush", 1)
		return
	}
	b := c.reopen(cs, bk, m)
	if b == nil {
		return
	}
	if !c.grow(cs, "resumed", b, m, n) {
		return
	}
	c.checkRoots(cs, "resumed", b, n)
	c.checkWitnesses(cs, "resumed", b, n, c27All(n), false)
	if !c.persist(cs, "resumed", b, n) {
		c.add("resume_cases_blocked_by_second_flush", 1)
		return
	}
	d := c.reopen(cs, bk, n)
	if d == nil {
		return
	}
	c.checkRoots(cs, "recovered", d, n)
	c.checkWitnesses(cs, "recovered", d, n, c27All(n), false)
	c.add("resume_cases_completed", 1)
}

func TestVerifC27(t *testing.T) {
	r := ev.Start(t, "C27", "exploration")
	maxN := r.Pick(300, 2500)
	maxM := r.Pick(40, 160)
	flipAll := r.Pick(128, 300)
	denseAll := r.Pick(64, 300)
	maxF := r.Pick(40, 96) // store-fault family: lengths up to here
	r.Rule(fmt.Sprintf("phase 'length': every length n in 0..%d x append variant {AddData, AddHash, alternating}: fresh accumulator, n appends, roots vs reference forest, WitnessFor+Verify of EVERY index (the witness must equal the reference witness; another item's hash and a witness with one bit altered must be rejected: every level for n<=%d, one level per index otherwise), WitnessFor(n), WitnessFor(n+1), Flush twice, roots+witnesses on the flushed object (every index for n<=%d, else first/middle/last two), Recover into a new object from the bucket alone, roots + EVERY index again, append one more (indices as for flushed); phase 'resume': every pair 0<=m<=n<=%d x variant: Flush at m, Recover, append to n, all witnesses, Flush, Recover, all witnesses; phase 'fault': every length n in 1..%d x variant x m in {0 (nothing flushed before), 1, n/2, n-1} items flushed before: the Flush at n over a bucket wrapper in which exactly the k-th Set fails, for EVERY k of that Flush (counted by a fault-free control run): Flush must report the error, a retried Flush must succeed, roots/witnesses on the live object, Recover into a new object from the store alone: roots + EVERY witness, append 3 more, all witnesses, Flush, Recover, all witnesses (differential against the never-faulted control = reference forest). A panic in one (n, idx) case is caught and reported, exploration continues. evaluation = one WitnessFor call; non-trivial = distinct (phase, variant, m, n)", maxN, flipAll, denseAll, maxM, maxF))
	r.Assume("reference = aligned binary merkle forest with SHA3-256 over left||right, leaves SHA3-256(item), slot k occupied iff bit k of n", "storage is db.NewMapDB()", "the recover phase of a length is only reachable when Flush succeeds on that length")
	c := &c27Ctx{r: r, f: c27NewRef(maxN + 2), cnt: map[string]int64{}, flipAll: flipAll, denseAll: denseAll}

	if ev.Replaying() {
		var cs C27Case
		ev.ReplayCase(&cs)
		switch cs.Phase {
		case "resume":
			c.resumeCase(cs)
		case "fault":
			c.faultCase(cs)
		default:
			c.lengthCase(cs)
		}
		r.Finish(false)
		return
	}

	var cases []C27Case
	for n := 0; n <= maxN; n++ {
		for v := 0; v < 3; v++ {
			cases = append(cases, C27Case{Phase: "length", Variant: v, N: n})
		}
	}
	for n := 0; n <= maxM; n++ {
		for m := 0; m <= n; m++ {
			for v := 0; v < 3; v++ {
				cases = append(cases, C27Case{Phase: "resume", Variant: v, M: m, N: n})
			}
		}
	}
	for n := 1; n <= maxF; n++ {
		for v := 0; v < 3; v++ {
			cases = append(cases, C27Case{Phase: "fault", Variant: v, N: n})
			seen := map[int]bool{}
			for _, m := range []int{1, n / 2, n - 1} {
				if m >= 1 && m < n && !seen[m] {
					seen[m] = true
					cases = append(cases, C27Case{Phase: "fault", Variant: v, M: m, N: n})
				}
			}
		}
	}
	// smallest cases first, so that the first reported violations are minimal ones
	order := make([]int, len(cases))
	for i := range order {
		order[i] = i
	}
	sort.SliceStable(order, func(i, j int) bool { return cases[order[i]].N < cases[order[j]].N })
	var skipped int64
	var smu sync.Mutex
	ev.Par(len(order), 16, func(i int) {
		cs := cases[order[i]]
		if r.Expired() {
			smu.Lock()
			skipped++
			smu.Unlock()
			return
		}
		r.Nontrivial(fmt.Sprintf("%s/%d/%d/%d", cs.Phase, cs.Variant, cs.M, cs.N))
		lc := &c27Ctx{r: r, f: c.f, cnt: map[string]int64{}, flipAll: c.flipAll, denseAll: c.denseAll} // per-case counters, merged below
		switch cs.Phase {
		case "resume":
			lc.resumeCase(cs)
		case "fault":
			lc.faultCase(cs)
		default:
			lc.lengthCase(cs)
		}
		c.mu.Lock()
		for k, v := range lc.cnt {
			c.cnt[k] += v
		}
		c.mu.Unlock()
	})

	keys := make([]string, 0, len(c.cnt))
	for k := range c.cnt {
		keys = append(keys, k)
	}
	sort.Strings(keys)
	heights := 0
	for _, k := range keys {
		r.Set(k, c.cnt[k])
		if strings.HasPrefix(k, "witness_height_") {
			heights++
		}
	}
	r.Set("max_length", maxN)
	r.Set("max_resume_length", maxM)
	r.Set("cases", len(cases))
	r.Set("cases_skipped_by_budget", skipped)
	r.Sample(map[string]interface{}{"n": 5, "root_slots": c27Slots(5), "idx": 4, "reference_witness": fmt.Sprint(c.f.witness(5, 4)), "tree_slot": c27Locate(5, 4), "first_gap": c27FirstGap(5)})
	r.Sample(map[string]interface{}{"n": 7, "root_slots": c27Slots(7), "idx": 2, "reference_witness": fmt.Sprint(c.f.witness(7, 2)), "reference_root_slot_2": fmt.Sprintf("%x", c.f.root(7, 2))})
	r.Sample(map[string]interface{}{"n": 300, "root_slots": c27Slots(300), "idx": 299, "reference_witness_len": len(c.f.witness(300, 299)), "tree_slot": c27Locate(300, 299)})
	r.Sanity(c.cnt["witnesses_verified_fresh"] > 0, "no witness verified on a fresh accumulator")
	r.Sanity(c.cnt["witnesses_verified_recovered"] > 0, "no witness verified on a recovered accumulator")
	r.Sanity(c.cnt["altered_witnesses_rejected"] > 0, "no altered witness tried")
	r.Sanity(heights >= 5, "only %d distinct witness heights seen", heights)
	r.Sanity(c.cnt["root_lists_compared"] > 0, "no root list compared")
	r.Sanity(skipped > 0 || (c.cnt["store_faults_injected"] > 0 && c.cnt["store_fault_cases_completed"] > 0), "no store-fault case completed")
	r.Finish(skipped == 0)
}
