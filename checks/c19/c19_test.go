//go:build verif

package db

// C19 — layered database writes are all-or-nothing.
//
// Explicit-state BFS over histories of layer operations executed on the REAL
// layerDB (NewLayerDB over a recording wrapper around the real MapDB), compared
// step by step with a boring reference model (base map + overlay with tombstones
// + order of last modification). A state is identified by the full internal state
// of the real layerDB (flushed flag, bucket table, overlay list in order, data
// maps) + contents of the underlying store + the harness' stashed handles + the
// model state; it is re-created by replaying the first history that reached it.

import (
	"bytes"
	"errors"
	"fmt"
	"runtime/debug"
	"sort"
	"strconv"
	"strings"
	"sync/atomic"
	"testing"
	"time"

	"github.com/icon-project/goloop/verifshim/ev"
	"github.com/icon-project/goloop/verifshim/pbfs"
)

var c19Buckets = [2]BucketID{"vb1", "vb2"}
var c19Keys = [2]string{"k1", "k2"}
var c19Vals = [3]string{"", "a", "b"}

const c19Slots = 4

// number of values in the alphabet: 2 in the quick tier ("" and a), 3 in the
// thorough tier. op = (slot*(nv+1)+action)*2+handleMode, action nv = Delete;
// the last two ops are Flush(true), Flush(false).
var c19NV = 3

func c19OpFlush() int { return c19Slots * (c19NV + 1) * 2 }
func c19Ops() int     { return c19OpFlush() + 2 + c19Slots }

// ops c19OpFlush()+2+(k-1), k=1..4: Flush(true) while the k-th write to the
// underlying store fails once (an event only if that write really happens).
var c19MaxFaults = 1

// quick tier: fault histories use freshly obtained bucket handles only
var c19FaultFreshOnly = false

var c19ErrInjected = errors.New("injected I/O error of the underlying store")

// roots: how the underlying store is populated before the layer is created.
var c19Roots = [][]struct {
	slot int
	val  string
}{
	{},
	{{0, "a"}},
	{{0, "a"}, {3, "b"}},
	{{0, ""}, {1, "b"}, {2, "a"}},
}

func c19SlotName(s int) string { return string(c19Buckets[s/2]) + "/" + c19Keys[s%2] }

func c19OpName(op int) string {
	if op == c19OpFlush() {
		return "Flush(true)"
	}
	if op == c19OpFlush()+1 {
		return "Flush(false)"
	}
	if op > c19OpFlush()+1 {
		return fmt.Sprintf("Flush(true) while underlying write #%d fails", op-c19OpFlush()-1)
	}
	mode := []string{"first-handle", "fresh-handle"}[op%2]
	act := (op / 2) % (c19NV + 1)
	slot := op / 2 / (c19NV + 1)
	if act == c19NV {
		return fmt.Sprintf("Delete(%s)@%s", c19SlotName(slot), mode)
	}
	return fmt.Sprintf("Set(%s,%q)@%s", c19SlotName(slot), c19Vals[act], mode)
}

// ---- recording wrapper around the real MapDB (the "underlying store") ----

type c19RecDB struct {
	inner  Database
	writes []string
	failIn int // countdown: the failIn-th Set/Delete from now fails (armed only during one Flush)
	fired  bool
}

func (d *c19RecDB) fault() bool {
	if d.failIn > 0 {
		d.failIn--
		if d.failIn == 0 {
			d.fired = true
			return true
		}
	}
	return false
}

type c19RecBucket struct {
	db    *c19RecDB
	id    BucketID
	inner Bucket
}

func (d *c19RecDB) GetBucket(id BucketID) (Bucket, error) {
	bk, err := d.inner.GetBucket(id)
	if err != nil {
		return nil, err
	}
	return &c19RecBucket{d, id, bk}, nil
}
func (d *c19RecDB) Close() error { return nil }

func (b *c19RecBucket) Get(k []byte) ([]byte, error) { return b.inner.Get(k) }
func (b *c19RecBucket) Has(k []byte) (bool, error)   { return b.inner.Has(k) }
func (b *c19RecBucket) Set(k, v []byte) error {
	if b.db.fault() {
		return c19ErrInjected
	}
	b.db.writes = append(b.db.writes, "S "+string(b.id)+"/"+string(k)+"="+strconv.Quote(string(v)))
	return b.inner.Set(k, v)
}
func (b *c19RecBucket) Delete(k []byte) error {
	if b.db.fault() {
		return c19ErrInjected
	}
	b.db.writes = append(b.db.writes, "D "+string(b.id)+"/"+string(k))
	return b.inner.Delete(k)
}

// ---- reference model ----

type c19Cell struct {
	present bool
	val     string
}

type c19Model struct {
	base      [c19Slots]c19Cell
	ovSet     [c19Slots]bool // slot has an overlay entry
	ov        [c19Slots]c19Cell
	order     []int // overlay slots in order of last modification
	committed bool
	discarded bool // at least one Flush(false) happened
	failed    bool // the last Flush(true) failed midway (injected fault) and was not repeated/discarded yet
	faults    int
	since     int // operations executed after the injected fault
}

func (m *c19Model) view(s int) c19Cell {
	if !m.committed && m.ovSet[s] {
		return m.ov[s]
	}
	return m.base[s]
}

// write returns true when an existing overlay entry that was not the most
// recently modified one moves to the back of the order.
func (m *c19Model) write(s int, c c19Cell) (moved bool) {
	if m.committed {
		m.base[s] = c
		return false
	}
	if m.ovSet[s] {
		for i, x := range m.order {
			if x == s {
				moved = i != len(m.order)-1
				m.order = append(m.order[:i:i], m.order[i+1:]...)
				break
			}
		}
	}
	m.ovSet[s] = true
	m.ov[s] = c
	m.order = append(m.order, s)
	return moved
}

func (m *c19Model) phase() string {
	switch {
	case m.committed:
		return "committed"
	case m.failed:
		return "after-failed-commit"
	case m.discarded:
		return "after-discard"
	default:
		return "open"
	}
}

func (m *c19Model) key() string {
	var sb strings.Builder
	cell := func(c c19Cell) {
		if c.present {
			sb.WriteString("=" + c.val + ",")
		} else {
			sb.WriteString("-,")
		}
	}
	for s := 0; s < c19Slots; s++ {
		cell(m.base[s])
	}
	sb.WriteString("|")
	for _, s := range m.order {
		sb.WriteByte(byte('0' + s))
		cell(m.ov[s])
	}
	if m.committed {
		sb.WriteString("|C")
	}
	if m.discarded {
		sb.WriteString("|D")
	}
	if m.failed {
		sb.WriteString("|X")
	}
	sb.WriteString("|f" + strconv.Itoa(m.faults) + "+" + strconv.Itoa(m.since))
	return sb.String()
}

// ---- one real instance + its model ----

type c19Inst struct {
	raw   Database // the real MapDB
	rec   *c19RecDB
	ldb   LayerDB
	first [2]Bucket
	m     c19Model
}

type c19Case struct {
	Root int   `json:"root"`
	NV   int   `json:"values"`
	Ops  []int `json:"ops"`
}

func (c c19Case) String() string {
	var names []string
	for _, o := range c.Ops {
		names = append(names, c19OpName(o))
	}
	return fmt.Sprintf("root=%d ops=[%s]", c.Root, strings.Join(names, "; "))
}

type c19Counters struct {
	commitsNonEmpty, discardsNonEmpty, tombHides, rewritesMoved, postCommitWrites, overlayHits int64
	failedCommits, retriedCommits, discardsAfterFail, partialCommits                           int64
}

type c19Ctx struct {
	r   *ev.Run
	cnt *c19Counters
}

func c19New(root int) *c19Inst {
	in := &c19Inst{}
	in.raw = NewMapDB()
	for _, p := range c19Roots[root] {
		bk, _ := in.raw.GetBucket(c19Buckets[p.slot/2])
		bk.Set([]byte(c19Keys[p.slot%2]), []byte(p.val))
		in.m.base[p.slot] = c19Cell{true, p.val}
	}
	in.rec = &c19RecDB{inner: in.raw}
	in.ldb = NewLayerDB(in.rec)
	return in
}

// observe compares every observable of the layer and of the underlying store
// with the model. Reads are done twice so that a read with a side effect is seen.
func (in *c19Inst) observe(cx *c19Ctx, cs c19Case) {
	ph := in.m.phase()
	for rep := 0; rep < 2; rep++ {
		for s := 0; s < c19Slots; s++ {
			b, k := s/2, []byte(c19Keys[s%2])
			want := in.m.view(s)
			for hi := 0; hi < 2; hi++ {
				h := struct{ name string }{[2]string{"first-handle", "fresh-handle"}[hi]}
				bk := in.first[b]
				if hi == 1 {
					var err error
					bk, err = in.ldb.GetBucket(c19Buckets[b])
					if err != nil || bk == nil {
						cx.r.Violation("layer-GetBucket-error/"+ph, fmt.Sprintf("%v: GetBucket(%s) err=%v", cs, c19Buckets[b], err), cs)
						continue
					}
				}
				if bk == nil {
					continue
				}
				got, err := bk.Get(k)
				if err != nil || (got != nil) != want.present || (want.present && !bytes.Equal(got, []byte(want.val))) {
					cx.r.Violation("view-Get/"+h.name+"/"+ph,
						fmt.Sprintf("%v: layer Get(%s) = %q (nil=%v) err=%v, model %+v", cs, c19SlotName(s), got, got == nil, err, want), cs)
				}
				has, err := bk.Has(k)
				if err != nil || has != want.present {
					cx.r.Violation("view-Has/"+h.name+"/"+ph,
						fmt.Sprintf("%v: layer Has(%s) = %v err=%v, model %+v", cs, c19SlotName(s), has, err, want), cs)
				}
			}
			// underlying store, read directly (not through the layer)
			rb, _ := in.raw.GetBucket(c19Buckets[b])
			got, _ := rb.Get(k)
			has, _ := rb.Has(k)
			wb := in.m.base[s]
			if (got != nil) != wb.present || has != wb.present || (wb.present && !bytes.Equal(got, []byte(wb.val))) {
				cx.r.Violation("base-content/"+ph,
					fmt.Sprintf("%v: underlying %s = %q has=%v, model %+v", cs, c19SlotName(s), got, has, wb), cs)
			}
			if rep == 0 && !in.m.committed && in.m.ovSet[s] {
				atomic.AddInt64(&cx.cnt.overlayHits, 1)
				if !want.present && wb.present {
					atomic.AddInt64(&cx.cnt.tombHides, 1)
				}
			}
		}
	}
}

func c19SameMultiset(a, b []string) bool {
	if len(a) != len(b) {
		return false
	}
	x := append([]string(nil), a...)
	y := append([]string(nil), b...)
	sort.Strings(x)
	sort.Strings(y)
	for i := range x {
		if x[i] != y[i] {
			return false
		}
	}
	return true
}

func (in *c19Inst) apply(cx *c19Ctx, op int, cs c19Case) bool {
	// The fault dimension is bounded so that the state space stays finite and small:
	// the injected error hits the FIRST flush of a history (no commit / discard before;
	// quick tier: only handles obtained freshly so far), and the history continues after
	// it with one arbitrary operation, optionally followed by Flush(true) or Flush(false).
	if in.m.faults > 0 {
		isFlush := op == c19OpFlush() || op == c19OpFlush()+1
		switch {
		case in.m.since >= 2, op > c19OpFlush()+1:
			return false
		case in.m.since == 1 && !isFlush:
			return false
		case c19FaultFreshOnly && !isFlush && op%2 == 0:
			return false
		}
		in.m.since++
	}
	ph := in.m.phase()
	in.rec.writes = nil
	var expect []string
	if op > c19OpFlush()+1 {
		// Flush(true) whose k-th underlying write fails
		k := op - c19OpFlush() - 1
		if in.m.committed || in.m.discarded || len(in.m.order) < k || in.m.faults >= c19MaxFaults {
			return false // the failing write does not happen / not the first flush
		}
		if c19FaultFreshOnly && (in.first[0] != nil || in.first[1] != nil) {
			return false
		}
		for _, s := range in.m.order[:k-1] {
			c := in.m.ov[s]
			if c.present {
				expect = append(expect, "S "+c19SlotName(s)+"="+strconv.Quote(c.val))
			} else {
				expect = append(expect, "D "+c19SlotName(s))
			}
			in.m.base[s] = c // what was written before the error stays in the store
		}
		in.m.faults++
		in.m.failed = true
		in.rec.failIn, in.rec.fired = k, false
		err := in.ldb.Flush(true)
		in.rec.failIn = 0
		atomic.AddInt64(&cx.cnt.failedCommits, 1)
		if k > 1 {
			atomic.AddInt64(&cx.cnt.partialCommits, 1)
		}
		if err == nil {
			cx.r.Violation("failed-commit-reports-success", fmt.Sprintf("%v: Flush(true) returned nil although underlying write #%d failed (fault fired=%v)", cs, k, in.rec.fired), cs)
		}
		if got := in.rec.writes; strings.Join(got, ";") != strings.Join(expect, ";") {
			cx.r.Violation("failed-commit-base-writes/"+ph, fmt.Sprintf("%v: underlying writes before the error %v, model %v", cs, got, expect), cs)
		}
		return true
	}
	if op >= c19OpFlush() {
		write := op == c19OpFlush()
		if write && !in.m.committed {
			for _, s := range in.m.order {
				c := in.m.ov[s]
				if c.present {
					expect = append(expect, "S "+c19SlotName(s)+"="+strconv.Quote(c.val))
				} else {
					expect = append(expect, "D "+c19SlotName(s))
				}
				in.m.base[s] = c
			}
			if len(in.m.order) > 0 {
				atomic.AddInt64(&cx.cnt.commitsNonEmpty, 1)
			}
		}
		if !write && !in.m.committed && len(in.m.order) > 0 {
			atomic.AddInt64(&cx.cnt.discardsNonEmpty, 1)
		}
		if in.m.failed && !in.m.committed {
			if write {
				atomic.AddInt64(&cx.cnt.retriedCommits, 1)
			} else {
				atomic.AddInt64(&cx.cnt.discardsAfterFail, 1)
			}
			in.m.failed = false
		}
		wasCommitted := in.m.committed
		if !wasCommitted {
			in.m.ovSet = [c19Slots]bool{}
			in.m.order = nil
			if write {
				in.m.committed = true
			} else {
				in.m.discarded = true
			}
		}
		err := in.ldb.Flush(write)
		// Flush(false) after a commit cannot undo anything; goloop reports an
		// error there. The statement says nothing about it, so only "no error
		// in every other case" is required.
		if err != nil && !(wasCommitted && !write) {
			cx.r.Violation(fmt.Sprintf("Flush(%v)-error/%s", write, ph), fmt.Sprintf("%v: err=%v", cs, err), cs)
		}
		got := in.rec.writes
		if !c19SameMultiset(got, expect) {
			cx.r.Violation(fmt.Sprintf("Flush(%v)-base-writes-set/%s", write, ph),
				fmt.Sprintf("%v: underlying writes %v, model %v", cs, got, expect), cs)
		} else if strings.Join(got, ";") != strings.Join(expect, ";") {
			cx.r.Violation("commit-write-order-not-last-modification/"+ph,
				fmt.Sprintf("%v: underlying writes %v, model (order of last modification) %v", cs, got, expect), cs)
		}
		return true
	}
	mode, act, s := op%2, (op/2)%(c19NV+1), op/2/(c19NV+1)
	b := s / 2
	var bk Bucket
	if mode == 0 {
		if in.first[b] == nil {
			h, err := in.ldb.GetBucket(c19Buckets[b])
			if err != nil || h == nil {
				cx.r.Violation("layer-GetBucket-error/"+ph, fmt.Sprintf("%v: err=%v", cs, err), cs)
				return true
			}
			in.first[b] = h
		}
		bk = in.first[b]
	} else {
		h, err := in.ldb.GetBucket(c19Buckets[b])
		if err != nil || h == nil {
			cx.r.Violation("layer-GetBucket-error/"+ph, fmt.Sprintf("%v: err=%v", cs, err), cs)
			return true
		}
		bk = h
	}
	kbuf := []byte(c19Keys[s%2])
	var err error
	if act == c19NV {
		if in.m.write(s, c19Cell{}) {
			atomic.AddInt64(&cx.cnt.rewritesMoved, 1)
		}
		err = bk.Delete(kbuf)
		if in.m.committed {
			expect = []string{"D " + c19SlotName(s)}
		}
	} else {
		if in.m.write(s, c19Cell{true, c19Vals[act]}) {
			atomic.AddInt64(&cx.cnt.rewritesMoved, 1)
		}
		vbuf := []byte(c19Vals[act])
		err = bk.Set(kbuf, vbuf)
		if in.m.committed {
			expect = []string{"S " + c19SlotName(s) + "=" + strconv.Quote(c19Vals[act])}
		}
		for i := range vbuf { // the caller may reuse its buffers
			vbuf[i] = 'Z'
		}
	}
	for i := range kbuf {
		kbuf[i] = 'Z'
	}
	if in.m.committed {
		atomic.AddInt64(&cx.cnt.postCommitWrites, 1)
	}
	if err != nil {
		cx.r.Violation("layer-write-error/"+ph, fmt.Sprintf("%v: err=%v", cs, err), cs)
	}
	if strings.Join(in.rec.writes, ";") != strings.Join(expect, ";") {
		sig := "base-written-before-commit/" + ph
		if in.m.committed {
			sig = "post-commit-write-not-passed-through"
		}
		cx.r.Violation(sig, fmt.Sprintf("%v: underlying writes %v, model %v", cs, in.rec.writes, expect), cs)
	}
	return true
}

// implKey renders the complete internal state of the real layerDB.
func (in *c19Inst) implKey() string {
	var sb strings.Builder
	l, ok := in.ldb.(*layerDB)
	if !ok {
		return "?"
	}
	if l.flushed {
		sb.WriteString("F;")
	}
	ids := make([]string, 0, len(l.buckets))
	for id := range l.buckets {
		ids = append(ids, id)
	}
	sort.Strings(ids)
	name := map[*layerBucket]string{}
	for _, id := range ids {
		bk := l.buckets[id]
		name[bk] = id
		if bk.data == nil {
			sb.WriteString(id + ":direct;")
			continue
		}
		ks := make([]string, 0, len(bk.data))
		for k := range bk.data {
			ks = append(ks, k)
		}
		sort.Strings(ks)
		sb.WriteString(id + ":" + strings.Join(ks, ",") + ";")
	}
	for e := l.list.Front(); e != nil; e = e.Next() {
		it := e.Value.(*layerBucketItem)
		sb.WriteString("[" + name[it.bk] + "/" + it.key)
		if it.value == nil {
			sb.WriteString(" tomb]")
		} else {
			sb.WriteString("=" + string(it.value) + "]")
		}
	}
	sb.WriteString("|h:")
	for b := 0; b < 2; b++ {
		switch in.first[b].(type) {
		case nil:
			sb.WriteString("-")
		case *layerBucket:
			sb.WriteString("L")
		default:
			sb.WriteString("R")
		}
	}
	return sb.String()
}

func c19Run(cx *c19Ctx, hist []byte) (string, bool) {
	cs := c19Case{Root: int(hist[0]), NV: c19NV}
	for _, o := range hist[1:] {
		cs.Ops = append(cs.Ops, int(o))
	}
	in := c19New(cs.Root)
	nops := len(cs.Ops)
	for i, op := range cs.Ops {
		// the prefix was already checked when the parent state was found;
		// observe again only before and after the last operation
		if i == nops-1 {
			in.observe(cx, c19Case{cs.Root, c19NV, cs.Ops[:i]})
		}
		if !in.apply(cx, op, c19Case{cs.Root, c19NV, cs.Ops[:i+1]}) {
			return "", false
		}
	}
	in.observe(cx, cs)
	return in.implKey() + "#" + in.m.key(), true
}

func TestVerifC19(t *testing.T) {
	r := ev.Start(t, "C19", "model_checking")
	r.SetBudget(80*time.Second, 14*time.Minute)
	cnt := &c19Counters{}
	cx := &c19Ctx{r, cnt}
	if ev.Replaying() {
		var c c19Case
		ev.ReplayCase(&c)
		if c.NV > 0 {
			c19NV = c.NV
		}
		h := []byte{byte(c.Root)}
		for _, o := range c.Ops {
			h = append(h, byte(o))
		}
		fmt.Println("replaying", c.String())
		c19Run(cx, h)
		fmt.Printf("counters: %+v\n", *cnt)
		r.Finish(false)
		return
	}
	c19NV = r.Pick(2, 3)
	c19FaultFreshOnly = r.Quick()
	depth := r.Pick(13, 13)
	r.Rule(fmt.Sprintf("BFS over histories of <= %d operations on a real layerDB over a recording MapDB, from %d pre-populated stores; alphabet (%d): Set/Delete of 2 buckets x 2 keys x values %q through the first-obtained or a freshly obtained bucket handle, Flush(true), Flush(false); after every operation every (bucket,key) is read (Get,Has, twice) through both handles and directly from the store. Distinct non-trivial = distinct canonical state (full internal layerDB state + store contents + handle kinds + model state); the search runs until no new state appears (fixpoint) or the depth bound. Environment fault: additional operations 'Flush(true) while the k-th Set/Delete on the underlying store fails once' (k=1..4, an event only if that write really happens), for the FIRST flush of a history (quick: handles obtained freshly so far), followed by one arbitrary operation and optionally Flush(true)/Flush(false): the failed Flush must return the error, the store holds exactly the writes made before the error, the layered view is unchanged, a repeated Flush(true) returns nil and makes store == view, Flush(false) drops the overlay", depth, r.Pick(1, 4), c19Ops(), c19Vals[:c19NV]))
	r.Assume("the underlying store is the real MapDB and never fails; nothing else writes to it while the layer is open",
		"states are de-duplicated on a 128-bit hash of the canonical state string",
		"order of replay on commit (order of last modification) is checked although the statement only implies it",
		"Flush(false) after a successful Flush(true) is only required not to change anything (goloop returns an error)")
	var samples []c19Case
	var evals int64
	debug.SetGCPercent(800)
	roots := [][]byte{{0}, {1}, {2}, {3}}
	if r.Quick() {
		roots = [][]byte{{3}}
	}
	st := pbfs.Run(pbfs.Config{
		Roots: roots, Ops: c19Ops(), MaxDepth: depth, Batch: 4096,
		Step: func(h []byte) (string, bool) {
			atomic.AddInt64(&evals, 1)
			return c19Run(cx, h)
		},
		Stop: func() bool { return r.Expired() || r.Violations() > 20 },
		OnNew: func(h []byte, key string, d int) {
			r.Nontrivial(key)
			if d >= 4 && len(samples) < 3 && int(h[len(h)-1]) >= c19OpFlush() {
				c := c19Case{Root: int(h[0]), NV: c19NV}
				for _, o := range h[1:] {
					c.Ops = append(c.Ops, int(o))
				}
				samples = append(samples, c)
			}
		},
	})
	for _, c := range samples {
		r.Sample(map[string]interface{}{"root_store": c.Root, "history": strings.Split(c.String(), "; ")})
	}
	if len(samples) == 0 {
		r.Sample("root=1 ops=[]")
	}
	r.Eval(int(evals))
	r.States(st.States)
	r.Transitions(st.Transitions)
	r.Traces(st.Replays)
	r.Set("depth_bound", depth)
	r.Set("injected_faults_per_history", c19MaxFaults)
	r.Set("commits_failed_by_an_injected_write_error", cnt.failedCommits)
	r.Set("failed_commits_that_left_a_partial_prefix_in_the_store", cnt.partialCommits)
	r.Set("commits_retried_after_a_failed_commit", cnt.retriedCommits)
	r.Set("discards_after_a_failed_commit", cnt.discardsAfterFail)
	r.Sanity(cnt.failedCommits > 0 && cnt.partialCommits > 0 && cnt.retriedCommits > 0 && cnt.discardsAfterFail > 0,
		"vacuity(faults): failed=%d partial=%d retried=%d discarded=%d", cnt.failedCommits, cnt.partialCommits, cnt.retriedCommits, cnt.discardsAfterFail)
	r.Set("depth_completed", st.DepthDone)
	r.Set("new_states_per_depth", st.PerDepth)
	r.Set("fixpoint", st.Fixpoint)
	r.Set("commits_with_nonempty_overlay", cnt.commitsNonEmpty)
	r.Set("discards_with_nonempty_overlay", cnt.discardsNonEmpty)
	r.Set("tombstone_hides_store_value_observations", cnt.tombHides)
	r.Set("rewrites_of_an_overlay_entry_that_change_the_commit_order", cnt.rewritesMoved)
	r.Set("post_commit_writes", cnt.postCommitWrites)
	r.Set("overlay_reads", cnt.overlayHits)
	r.Sanity(cnt.commitsNonEmpty > 0 && cnt.discardsNonEmpty > 0 && cnt.tombHides > 0 && cnt.rewritesMoved > 0 && cnt.postCommitWrites > 0,
		"vacuity: commits=%d discards=%d tombHides=%d reorder=%d postCommit=%d", cnt.commitsNonEmpty, cnt.discardsNonEmpty, cnt.tombHides, cnt.rewritesMoved, cnt.postCommitWrites)
	r.Sanity(st.States > 100, "too few states: %d", st.States)
	r.Finish(st.Complete)
}
