//go:build verif

package codec

import (
	"bytes"
	"encoding/hex"
	"fmt"
	"math/big"
	"reflect"
	"runtime"
	"sort"
	"strings"
	"sync"
	"sync/atomic"
	"testing"
	"time"

	"github.com/icon-project/goloop/verifshim/ev"
	"github.com/icon-project/goloop/verifshim/hist"
	"github.com/icon-project/goloop/verifshim/opseq"
)

// ===========================================================================
// Independent RLP reader (only what the oracles need: structure and sizes).
// goloop extension: the two bytes f8 00 mean "nil".
// ===========================================================================

type c23Node struct {
	List  bool
	Null  bool
	Bytes []byte
	Kids  []c23Node
}

const (
	c23OK      = iota
	c23Empty   // no bytes at all
	c23Beyond  // header incomplete, or the claimed size exceeds the bytes that follow
	c23BadKids // the item is inside the input, but its list payload is malformed
)

func c23Size(b []byte) (uint64, bool) {
	if len(b) > 8 {
		return 0, false
	}
	var v uint64
	for _, x := range b {
		v = v<<8 | uint64(x)
	}
	return v, true
}

// c23Parse reads one item from the front of b.
func c23Parse(b []byte) (n c23Node, used int, st int) {
	if len(b) == 0 {
		return n, 0, c23Empty
	}
	t := int(b[0])
	hdr, size := 1, uint64(0)
	switch {
	case t < 0x80:
		return c23Node{Bytes: b[:1]}, 1, c23OK
	case t <= 0xb7:
		size = uint64(t - 0x80)
	case t < 0xc0:
		ll := t - 0xb7
		if len(b) < 1+ll {
			return n, 0, c23Beyond
		}
		size, _ = c23Size(b[1 : 1+ll])
		hdr = 1 + ll
	case t <= 0xf7:
		size = uint64(t - 0xc0)
	default:
		ll := t - 0xf7
		if len(b) < 1+ll {
			return n, 0, c23Beyond
		}
		size, _ = c23Size(b[1 : 1+ll])
		hdr = 1 + ll
		if ll == 1 && size == 0 {
			return c23Node{Null: true}, 2, c23OK
		}
	}
	if size > uint64(len(b)-hdr) {
		if t >= 0xc0 {
			// for labelling only: the items that are present in the truncated list
			n.List = true
			for payload := b[hdr:]; len(payload) > 0; {
				k, u, s := c23Parse(payload)
				if s != c23OK {
					break
				}
				n.Kids = append(n.Kids, k)
				payload = payload[u:]
			}
		}
		return n, 0, c23Beyond
	}
	payload := b[hdr : hdr+int(size)]
	used = hdr + int(size)
	if t < 0xc0 {
		return c23Node{Bytes: payload}, used, c23OK
	}
	n.List = true
	for len(payload) > 0 {
		k, u, s := c23Parse(payload)
		if s != c23OK {
			return n, used, c23BadKids
		}
		n.Kids = append(n.Kids, k)
		payload = payload[u:]
	}
	return n, used, c23OK
}

// c23Signed is the two's-complement value of bs (empty = 0).
func c23Signed(bs []byte) *big.Int {
	v := new(big.Int).SetBytes(bs)
	if len(bs) > 0 && bs[0]&0x80 != 0 {
		v.Sub(v, new(big.Int).Lsh(big.NewInt(1), uint(8*len(bs))))
	}
	return v
}

// ===========================================================================
// Value grammar (built with reflect so that every shape is a real Go type)
// ===========================================================================

var c23BigIntType = reflect.TypeOf(big.Int{})

type c23Gen struct {
	t    reflect.Type
	vals []reflect.Value // all values of the family
	few  []reflect.Value // 2..3 representatives used when this is nested deeper
	nilv bool            // the type has a nil value that encodes as f8 00
}

func c23V(x interface{}) reflect.Value { return reflect.ValueOf(x) }

func c23Few(vals []reflect.Value) []reflect.Value {
	if len(vals) <= 3 {
		return vals
	}
	return []reflect.Value{vals[0], vals[len(vals)/2], vals[len(vals)-1]}
}

func c23IntGen(t reflect.Type, vs []int64) c23Gen {
	g := c23Gen{t: t}
	for _, v := range vs {
		x := reflect.New(t).Elem()
		x.SetInt(v)
		if x.Int() == v {
			g.vals = append(g.vals, x)
		}
	}
	g.few = c23Few(g.vals)
	return g
}

func c23UintGen(t reflect.Type, vs []uint64) c23Gen {
	g := c23Gen{t: t}
	for _, v := range vs {
		x := reflect.New(t).Elem()
		x.SetUint(v)
		if x.Uint() == v {
			g.vals = append(g.vals, x)
		}
	}
	g.few = c23Few(g.vals)
	return g
}

func c23Strings() []string {
	out := []string{"", "\x00", "\x7f", "\x80", "a", "\xff", "ab"}
	for _, n := range []int{55, 56, 255, 256} {
		out = append(out, strings.Repeat("x", n))
	}
	return out
}

func c23Leaves() []c23Gen {
	si := []int64{0, 1, -1, 127, 128, -128, -129, 255, 256, -255, -256, 32767, 32768, -32768, -32769, 65535, 65536,
		1<<31 - 1, 1 << 31, -(1 << 31), -(1 << 31) - 1, 1<<32 - 1, 1 << 32, 1<<63 - 1, -(1 << 63)}
	ui := []uint64{0, 1, 127, 128, 255, 256, 32767, 32768, 65535, 65536, 1<<31 - 1, 1 << 31, 1<<32 - 1, 1 << 32, 1<<63 - 1, 1 << 63, 1<<64 - 1}
	var out []c23Gen
	for _, t := range []reflect.Type{reflect.TypeOf(int8(0)), reflect.TypeOf(int16(0)), reflect.TypeOf(int32(0)), reflect.TypeOf(int64(0)), reflect.TypeOf(int(0))} {
		out = append(out, c23IntGen(t, si))
	}
	for _, t := range []reflect.Type{reflect.TypeOf(uint8(0)), reflect.TypeOf(uint16(0)), reflect.TypeOf(uint32(0)), reflect.TypeOf(uint64(0)), reflect.TypeOf(uint(0))} {
		out = append(out, c23UintGen(t, ui))
	}
	out = append(out, c23Gen{t: reflect.TypeOf(false), vals: []reflect.Value{c23V(false), c23V(true)}, few: []reflect.Value{c23V(false), c23V(true)}})
	{
		g := c23Gen{t: reflect.TypeOf("")}
		for _, s := range c23Strings() {
			g.vals = append(g.vals, c23V(s))
		}
		g.few = []reflect.Value{c23V(""), c23V("\x80"), c23V(strings.Repeat("x", 56))}
		out = append(out, g)
	}
	{
		g := c23Gen{t: reflect.TypeOf([]byte(nil)), nilv: true}
		g.vals = append(g.vals, c23V([]byte(nil)))
		for _, s := range c23Strings() {
			g.vals = append(g.vals, c23V([]byte(s)))
		}
		g.few = []reflect.Value{c23V([]byte(nil)), c23V([]byte{}), c23V([]byte{0x80})}
		out = append(out, g)
	}
	{
		g := c23Gen{t: reflect.TypeOf([4]byte{})}
		for _, a := range [][4]byte{{}, {0, 0, 0, 1}, {0x80, 0, 0, 0}, {0xff, 0xff, 0xff, 0xff}} {
			g.vals = append(g.vals, c23V(a))
		}
		g.few = c23Few(g.vals)
		out = append(out, g)
	}
	{
		g := c23Gen{t: reflect.TypeOf([1]byte{})}
		for _, a := range [][1]byte{{0}, {0x7f}, {0x80}} {
			g.vals = append(g.vals, c23V(a))
		}
		g.few = g.vals
		out = append(out, g)
	}
	{
		// *big.Int (nil allowed) and big.Int as a plain field type
		var bigs []*big.Int
		for _, s := range []string{"0", "1", "-1", "127", "128", "-128", "-129", "18446744073709551616", "-18446744073709551616"} {
			b, _ := new(big.Int).SetString(s, 10)
			bigs = append(bigs, b)
		}
		p255 := new(big.Int).Lsh(big.NewInt(1), 255)
		bigs = append(bigs, p255, new(big.Int).Neg(p255), new(big.Int).Sub(p255, big.NewInt(1)))
		gp := c23Gen{t: reflect.TypeOf((*big.Int)(nil)), nilv: true}
		gp.vals = append(gp.vals, c23V((*big.Int)(nil)))
		gv := c23Gen{t: c23BigIntType}
		for _, b := range bigs {
			gp.vals = append(gp.vals, c23V(b))
			gv.vals = append(gv.vals, c23V(*b))
		}
		gp.few = []reflect.Value{gp.vals[0], gp.vals[1], gp.vals[len(gp.vals)-2]}
		gv.few = c23Few(gv.vals)
		out = append(out, gp, gv)
	}
	return out
}

func c23Zero(t reflect.Type) reflect.Value { return reflect.Zero(t) }

// usable reports whether v may be put *behind a pointer*: a pointer to a nil
// slice/map/pointer has the same encoding (f8 00) as a nil pointer, the format
// cannot keep them apart, so the grammar leaves that combination out.
func c23IsNil(v reflect.Value) bool {
	switch v.Kind() {
	case reflect.Slice, reflect.Map, reflect.Ptr:
		return v.IsNil()
	}
	return false
}

func c23Ptr(g c23Gen, full bool) c23Gen {
	o := c23Gen{t: reflect.PtrTo(g.t), nilv: true}
	o.vals = append(o.vals, reflect.Zero(o.t))
	src := g.few
	if full {
		src = g.vals
	}
	for _, v := range src {
		if c23IsNil(v) {
			continue
		}
		p := reflect.New(g.t)
		p.Elem().Set(v)
		o.vals = append(o.vals, p)
	}
	o.few = c23Few(o.vals)
	return o
}

func c23IsByte(t reflect.Type) bool { return t.Kind() == reflect.Uint8 }

func c23Slice(g c23Gen, full bool) (c23Gen, bool) {
	if c23IsByte(g.t) {
		return c23Gen{}, false // []uint8 is the byte-string leaf
	}
	o := c23Gen{t: reflect.SliceOf(g.t), nilv: true}
	mk := func(vs ...reflect.Value) reflect.Value {
		s := reflect.MakeSlice(o.t, 0, len(vs))
		return reflect.Append(s, vs...)
	}
	o.vals = append(o.vals, reflect.Zero(o.t), mk())
	src := g.few
	if full {
		src = g.vals
	}
	for _, v := range src {
		o.vals = append(o.vals, mk(v))
	}
	for _, a := range g.few {
		for _, b := range g.few {
			o.vals = append(o.vals, mk(a, b))
		}
	}
	o.vals = append(o.vals, mk(g.few[0], g.few[len(g.few)-1], g.few[0]))
	o.few = []reflect.Value{o.vals[0], o.vals[1], o.vals[len(o.vals)-1]}
	return o, true
}

func c23Arr2(g c23Gen) (c23Gen, bool) {
	if c23IsByte(g.t) {
		return c23Gen{}, false
	}
	o := c23Gen{t: reflect.ArrayOf(2, g.t)}
	for _, a := range g.few {
		for _, b := range g.few {
			x := reflect.New(o.t).Elem()
			x.Index(0).Set(a)
			x.Index(1).Set(b)
			o.vals = append(o.vals, x)
		}
	}
	o.few = c23Few(o.vals)
	return o, true
}

// c23BigByValue: t holds a big.Int that is reachable without passing a pointer
// or slice. Map values are not addressable, so the codec cannot reach the
// pointer-receiver encoder of such a big.Int (it would be written as an empty
// struct); goloop only ever stores *big.Int / HexInt pointers in maps. Such map
// types are left out of the grammar.
func c23BigByValue(t reflect.Type) bool {
	if t == c23BigIntType {
		return true
	}
	switch t.Kind() {
	case reflect.Array:
		return c23BigByValue(t.Elem())
	case reflect.Struct:
		for i := 0; i < t.NumField(); i++ {
			if c23BigByValue(t.Field(i).Type) {
				return true
			}
		}
	}
	return false
}

func c23MapStr(g c23Gen, full bool) (c23Gen, bool) {
	if c23BigByValue(g.t) {
		return c23Gen{}, false
	}
	o := c23Gen{t: reflect.MapOf(reflect.TypeOf(""), g.t), nilv: true}
	mk := func(keys []string, vs ...reflect.Value) reflect.Value {
		m := reflect.MakeMap(o.t)
		for i, k := range keys {
			m.SetMapIndex(c23V(k), vs[i])
		}
		return m
	}
	o.vals = append(o.vals, reflect.Zero(o.t), mk(nil))
	src := g.few
	if full {
		src = g.vals
	}
	for _, v := range src {
		o.vals = append(o.vals, mk([]string{"a"}, v))
	}
	for _, a := range g.few {
		for _, b := range g.few {
			o.vals = append(o.vals, mk([]string{"b", ""}, a, b))
		}
	}
	o.vals = append(o.vals, mk([]string{"\x80", "ab", "a"}, g.few[0], g.few[len(g.few)-1], g.few[0]))
	o.few = []reflect.Value{o.vals[0], o.vals[1], o.vals[len(o.vals)-1]}
	return o, true
}

func c23MapInt(kt reflect.Type, g c23Gen) c23Gen {
	o := c23Gen{t: reflect.MapOf(kt, g.t), nilv: true}
	key := func(i int64) reflect.Value {
		k := reflect.New(kt).Elem()
		if kt.Kind() >= reflect.Uint && kt.Kind() <= reflect.Uint64 {
			k.SetUint(uint64(i))
		} else {
			k.SetInt(i)
		}
		return k
	}
	o.vals = append(o.vals, reflect.Zero(o.t), reflect.MakeMap(o.t))
	sets := [][]int64{{0}, {1, 0}, {127, 128, 1}, {-1, 1, 0, -128}, {100, 3, 20}}
	for _, ks := range sets {
		m := reflect.MakeMap(o.t)
		ok := true
		for i, k := range ks {
			if k < 0 && kt.Kind() >= reflect.Uint && kt.Kind() <= reflect.Uint64 {
				ok = false
				break
			}
			m.SetMapIndex(key(k), g.few[i%len(g.few)])
		}
		if ok {
			o.vals = append(o.vals, m)
		}
	}
	o.few = []reflect.Value{o.vals[0], o.vals[1], o.vals[len(o.vals)-1]}
	return o
}

func c23Struct(full bool, gs ...c23Gen) c23Gen {
	fields := make([]reflect.StructField, len(gs))
	for i, g := range gs {
		fields[i] = reflect.StructField{Name: fmt.Sprintf("F%d", i), Type: g.t}
	}
	o := c23Gen{t: reflect.StructOf(fields)}
	dims := make([]int, len(gs))
	for i, g := range gs {
		dims[i] = len(g.few)
		if full {
			dims[i] = len(g.vals)
		}
	}
	opseq.Product(dims, func(idx []int) bool {
		x := reflect.New(o.t).Elem()
		for i, g := range gs {
			if full {
				x.Field(i).Set(g.vals[idx[i]])
			} else {
				x.Field(i).Set(g.few[idx[i]])
			}
		}
		o.vals = append(o.vals, x)
		return true
	})
	o.few = c23Few(o.vals)
	return o
}

// c23Wrap applies constructor c (0..4) to g.
var c23CtorNames = []string{"ptr", "slice", "arr2", "mapstr", "struct1"}

func c23Wrap(c int, g c23Gen, full bool) (c23Gen, bool) {
	switch c {
	case 0:
		return c23Ptr(g, full), true
	case 1:
		return c23Slice(g, full)
	case 2:
		return c23Arr2(g)
	case 3:
		return c23MapStr(g, full)
	default:
		return c23Struct(full, g), true
	}
}

// c23Grammar enumerates every (type, value) of the grammar in a fixed order.
func c23Grammar(thorough bool, emit func(family string, t reflect.Type, v reflect.Value)) {
	leaves := c23Leaves()
	// depth 0: every leaf value
	for _, g := range leaves {
		for _, v := range g.vals {
			emit("leaf", g.t, v)
		}
	}
	// depth 1: every constructor over every leaf, all leaf values
	var d1 [][]c23Gen // [leaf][ctor]
	for _, g := range leaves {
		row := make([]c23Gen, 5)
		for c := 0; c < 5; c++ {
			if w, ok := c23Wrap(c, g, true); ok {
				row[c] = w
				for _, v := range w.vals {
					emit("depth1-"+c23CtorNames[c], w.t, v)
				}
			}
		}
		d1 = append(d1, row)
	}
	// maps with integer keys (sorted numerically)
	for _, kt := range []reflect.Type{reflect.TypeOf(int(0)), reflect.TypeOf(int8(0)), reflect.TypeOf(int64(0)), reflect.TypeOf(uint8(0)), reflect.TypeOf(uint64(0))} {
		for _, g := range []c23Gen{leaves[0], leaves[11], leaves[12]} {
			w := c23MapInt(kt, g)
			for _, v := range w.vals {
				emit("depth1-mapint", w.t, v)
			}
		}
	}
	// structs of two fields: every ordered pair of leaf types
	for _, a := range leaves {
		for _, b := range leaves {
			w := c23Struct(false, a, b)
			for _, v := range w.vals {
				emit("struct2", w.t, v)
			}
		}
	}
	// structs of three fields over a stated subset of leaf types
	tri := []c23Gen{leaves[0], leaves[3], leaves[8], leaves[10], leaves[11], leaves[12], leaves[15]}
	for _, a := range tri {
		for _, b := range tri {
			for _, c := range tri {
				w := c23Struct(false, a, b, c)
				for _, v := range w.vals {
					emit("struct3", w.t, v)
				}
			}
		}
	}
	// depth 2: constructor over constructor over every leaf (representative inner values)
	var d2 []c23Gen
	for li := range leaves {
		for c1 := 0; c1 < 5; c1++ {
			inner := d1[li][c1]
			if inner.t == nil {
				continue
			}
			for c2 := 0; c2 < 5; c2++ {
				w, ok := c23Wrap(c2, inner, false)
				if !ok {
					continue
				}
				for _, v := range w.vals {
					emit("depth2-"+c23CtorNames[c2]+"-"+c23CtorNames[c1], w.t, v)
				}
				d2 = append(d2, w)
			}
		}
	}
	// depth 2 mixed structs: {ctor(leafA), ctor(leafB)} for a subset
	sub := []int{0, 8, 11, 12, 15}
	if thorough {
		sub = []int{0, 1, 3, 5, 8, 10, 11, 12, 13, 15, 16}
	}
	for _, la := range sub {
		for _, lb := range sub {
			for c1 := 0; c1 < 5; c1++ {
				for c2 := 0; c2 < 5; c2++ {
					a, b := d1[la][c1], d1[lb][c2]
					if a.t == nil || b.t == nil {
						continue
					}
					w := c23Struct(false, a, b)
					for _, v := range w.vals {
						emit("depth2-struct2", w.t, v)
					}
				}
			}
		}
	}
	// depth 3: constructor over every depth-2 shape (pairwise: one representative
	// per position, i.e. the `few` of the depth-2 generator)
	lim := len(d2)
	for i := 0; i < lim; i++ {
		if !thorough && i%4 != 0 {
			continue
		}
		for c3 := 0; c3 < 5; c3++ {
			w, ok := c23Wrap(c3, d2[i], false)
			if !ok {
				continue
			}
			for _, v := range w.vals {
				emit("depth3-"+c23CtorNames[c3], w.t, v)
			}
		}
	}
}

// c23Equal is structural equality that keeps nil and empty apart and compares
// big integers by value.
func c23Equal(a, b reflect.Value) bool {
	if a.Type() != b.Type() {
		return false
	}
	if a.Type() == c23BigIntType {
		x, y := a.Interface().(big.Int), b.Interface().(big.Int)
		return x.Cmp(&y) == 0
	}
	switch a.Kind() {
	case reflect.Ptr, reflect.Interface:
		// A nil pointer and a pointer to a nil slice/map/pointer have the same
		// encoding (f8 00); the format cannot keep them apart, so they are one value.
		if c23DeepNil(a) || c23DeepNil(b) {
			return c23DeepNil(a) == c23DeepNil(b)
		}
		return c23Equal(a.Elem(), b.Elem())
	case reflect.Slice:
		if a.IsNil() != b.IsNil() || a.Len() != b.Len() {
			return false
		}
		for i := 0; i < a.Len(); i++ {
			if !c23Equal(a.Index(i), b.Index(i)) {
				return false
			}
		}
		return true
	case reflect.Array:
		for i := 0; i < a.Len(); i++ {
			if !c23Equal(a.Index(i), b.Index(i)) {
				return false
			}
		}
		return true
	case reflect.Map:
		if a.IsNil() != b.IsNil() || a.Len() != b.Len() {
			return false
		}
		for _, k := range a.MapKeys() {
			bv := b.MapIndex(k)
			if !bv.IsValid() || !c23Equal(a.MapIndex(k), bv) {
				return false
			}
		}
		return true
	case reflect.Struct:
		for i := 0; i < a.NumField(); i++ {
			if !c23Equal(a.Field(i), b.Field(i)) {
				return false
			}
		}
		return true
	default:
		return a.Interface() == b.Interface()
	}
}

func c23DeepNil(v reflect.Value) bool {
	switch v.Kind() {
	case reflect.Slice, reflect.Map:
		return v.IsNil()
	case reflect.Ptr, reflect.Interface:
		return v.IsNil() || c23DeepNil(v.Elem())
	}
	return false
}

func c23HasBig(t reflect.Type) bool {
	if t == c23BigIntType {
		return true
	}
	switch t.Kind() {
	case reflect.Ptr, reflect.Slice, reflect.Array:
		return c23HasBig(t.Elem())
	case reflect.Map:
		return c23HasBig(t.Elem()) || c23HasBig(t.Key())
	case reflect.Struct:
		for i := 0; i < t.NumField(); i++ {
			if c23HasBig(t.Field(i).Type) {
				return true
			}
		}
	}
	return false
}

// c23ByteLoad sums the lengths of all byte strings / strings in v.
func c23ByteLoad(v reflect.Value) int {
	if v.Type() == c23BigIntType {
		return 0
	}
	switch v.Kind() {
	case reflect.String:
		return v.Len()
	case reflect.Ptr, reflect.Interface:
		if v.IsNil() {
			return 0
		}
		return c23ByteLoad(v.Elem())
	case reflect.Slice, reflect.Array:
		if v.Type().Elem().Kind() == reflect.Uint8 {
			if v.Kind() == reflect.Array {
				return 0 // fixed size, not taken from the input
			}
			return v.Len()
		}
		n := 0
		for i := 0; i < v.Len(); i++ {
			n += c23ByteLoad(v.Index(i))
		}
		return n
	case reflect.Map:
		n := 0
		for _, k := range v.MapKeys() {
			n += c23ByteLoad(k) + c23ByteLoad(v.MapIndex(k))
		}
		return n
	case reflect.Struct:
		n := 0
		for i := 0; i < v.NumField(); i++ {
			if v.Type().Field(i).IsExported() {
				n += c23ByteLoad(v.Field(i))
			}
		}
		return n
	}
	return 0
}

// c23Sorted checks, guided by the Go type, that every map in the parsed
// encoding lists its keys in strictly ascending order.
func c23Sorted(t reflect.Type, n c23Node) (bool, string) {
	if n.Null || t == c23BigIntType {
		return true, ""
	}
	switch t.Kind() {
	case reflect.Ptr:
		return c23Sorted(t.Elem(), n)
	case reflect.Slice, reflect.Array:
		if t.Elem().Kind() == reflect.Uint8 {
			return true, ""
		}
		for _, k := range n.Kids {
			if ok, why := c23Sorted(t.Elem(), k); !ok {
				return false, why
			}
		}
	case reflect.Struct:
		if len(n.Kids) != t.NumField() {
			return false, fmt.Sprintf("struct with %d fields encoded as %d items", t.NumField(), len(n.Kids))
		}
		for i, k := range n.Kids {
			if ok, why := c23Sorted(t.Field(i).Type, k); !ok {
				return false, why
			}
		}
	case reflect.Map:
		if !n.List || len(n.Kids)%2 != 0 {
			return false, "map not encoded as a list of key/value pairs"
		}
		for i := 0; i+1 < len(n.Kids); i += 2 {
			if i >= 2 {
				prev, cur := n.Kids[i-2].Bytes, n.Kids[i].Bytes
				var asc bool
				if t.Key().Kind() == reflect.String {
					asc = bytes.Compare(prev, cur) < 0
				} else {
					asc = c23Signed(prev).Cmp(c23Signed(cur)) < 0
				}
				if !asc {
					return false, fmt.Sprintf("map keys %x then %x", prev, cur)
				}
			}
			if ok, why := c23Sorted(t.Elem(), n.Kids[i+1]); !ok {
				return false, why
			}
		}
	}
	return true, ""
}

// ===========================================================================
// Cases and oracles
// ===========================================================================

type c23Case struct {
	Phase  string `json:"phase"`            // "roundtrip" | "decode" | "any" | "maporder" | "alloc"
	Index  int64  `json:"index,omitempty"`  // roundtrip: position in the grammar enumeration
	Target string `json:"target,omitempty"` // decode: name of the target type
	Hex    string `json:"hex,omitempty"`    // decode/any: the input bytes
	Note   string `json:"note,omitempty"`

	History  []string `json:"history,omitempty"`  // phase "history": names of the calls
	Expected string   `json:"expected,omitempty"` // phase "history": required result of the last call
}

type c23Env struct {
	r *ev.Run

	okDec, errDec, beyondSeen, misplacedNil, canaries int64
	mu                                                sync.Mutex
	errKinds                                          map[string]int64
}

func c23TypeName(t reflect.Type) string {
	s := t.String()
	if len(s) > 90 {
		s = s[:90] + "…"
	}
	return s
}

// shape is a coarse, stable description of a type for violation signatures.
func c23Shape(t reflect.Type) string {
	switch t.Kind() {
	case reflect.Ptr:
		return "*" + c23Shape(t.Elem())
	case reflect.Slice:
		return "[]" + c23Shape(t.Elem())
	case reflect.Array:
		return fmt.Sprintf("[%d]%s", t.Len(), c23Shape(t.Elem()))
	case reflect.Map:
		return "map[" + c23Shape(t.Key()) + "]" + c23Shape(t.Elem())
	case reflect.Struct:
		if t == c23BigIntType {
			return "big.Int"
		}
		if t.Name() != "" {
			return t.Name()
		}
		var fs []string
		for i := 0; i < t.NumField(); i++ {
			fs = append(fs, c23Shape(t.Field(i).Type))
		}
		return "struct{" + strings.Join(fs, ";") + "}"
	}
	return t.Kind().String()
}

func (e *c23Env) roundtrip(family string, t reflect.Type, v reflect.Value, idx int64) {
	r := e.r
	r.Eval(1)
	c := c23Case{Phase: "roundtrip", Index: idx, Note: family + " " + c23TypeName(t)}
	shape := c23Shape(t)
	fail := func(sig, format string, a ...interface{}) {
		r.Violation(sig+":"+shape, fmt.Sprintf("type=%s value=%s ", c23TypeName(t), c23Show(v))+fmt.Sprintf(format, a...), c)
	}
	ptr := reflect.New(t)
	ptr.Elem().Set(v)
	var b1, b2, b3, rest []byte
	var err error
	if p := ev.Catch(func() { b1, err = BC.MarshalToBytes(ptr.Interface()) }); p != "" {
		fail("encode-panics", "%s", p)
		return
	}
	if err != nil {
		fail("encode-fails", "err=%v", err)
		return
	}
	r.Nontrivial(t.String() + "|" + string(b1))
	if b2, err = BC.MarshalToBytes(ptr.Interface()); err != nil || !bytes.Equal(b1, b2) {
		fail("encode-not-deterministic", "%x then %x err=%v", b1, b2, err)
	}
	node, used, st := c23Parse(b1)
	if st != c23OK || used != len(b1) {
		fail("encoding-not-wellformed", "bytes=%x parse status=%d used=%d", b1, st, used)
	} else if ok, why := c23Sorted(t, node); !ok {
		fail("map-keys-not-ascending", "bytes=%x %s", b1, why)
	}
	out := reflect.New(t)
	if p := ev.Catch(func() { rest, err = BC.UnmarshalFromBytes(b1, out.Interface()) }); p != "" {
		fail("decode-of-own-encoding-panics", "bytes=%x %s", b1, p)
		return
	}
	if err != nil {
		fail("decode-of-own-encoding-fails", "bytes=%x err=%v", b1, err)
		return
	}
	if len(rest) != 0 {
		fail("decode-leaves-bytes", "bytes=%x rest=%x", b1, rest)
	}
	if !c23Equal(out.Elem(), v) {
		fail("roundtrip-differs", "bytes=%x decoded=%s", b1, c23Show(out.Elem()))
	}
	if b3, err = BC.MarshalToBytes(out.Interface()); err != nil || !bytes.Equal(b1, b3) {
		fail("reencode-differs", "%x then %x err=%v", b1, b3, err)
	}
	// streaming API gives the same bytes and value
	var sb bytes.Buffer
	if err := BC.Marshal(&sb, ptr.Interface()); err != nil || !bytes.Equal(sb.Bytes(), b1) {
		fail("stream-encode-differs", "%x vs %x err=%v", sb.Bytes(), b1, err)
	}
	out2 := reflect.New(t)
	if err := BC.Unmarshal(bytes.NewReader(b1), out2.Interface()); err != nil || !c23Equal(out2.Elem(), v) {
		fail("stream-decode-differs", "bytes=%x decoded=%s err=%v", b1, c23Show(out2.Elem()), err)
	}
	// passing the value itself (not a pointer) is supported where no custom
	// pointer-receiver encoder is involved
	if !c23HasBig(t) {
		var b4 []byte
		if p := ev.Catch(func() { b4, err = BC.MarshalToBytes(v.Interface()) }); p != "" || err != nil {
			fail("encode-by-value-fails", "panic=%q err=%v", p, err)
		} else {
			out3 := reflect.New(t)
			if _, err := BC.UnmarshalFromBytes(b4, out3.Interface()); err != nil || !c23Equal(out3.Elem(), v) {
				fail("roundtrip-by-value-differs", "bytes=%x decoded=%s err=%v", b4, c23Show(out3.Elem()), err)
			}
		}
	}
}

func c23Show(v reflect.Value) string {
	s := c23ShowV(v)
	if len(s) > 160 {
		s = s[:160] + "…"
	}
	return s
}

func c23ShowV(v reflect.Value) string {
	if v.Type() == c23BigIntType {
		x := v.Interface().(big.Int)
		return "big(" + x.String() + ")"
	}
	switch v.Kind() {
	case reflect.Ptr:
		if v.IsNil() {
			return "nil"
		}
		return "&" + c23ShowV(v.Elem())
	case reflect.Slice, reflect.Array:
		if v.Kind() == reflect.Slice && v.IsNil() {
			return "nil[]"
		}
		if v.Type().Elem().Kind() == reflect.Uint8 {
			b := make([]byte, v.Len())
			reflect.Copy(reflect.ValueOf(b), v)
			if len(b) > 8 {
				return fmt.Sprintf("x'%x…(%d)'", b[:8], len(b))
			}
			return fmt.Sprintf("x'%x'", b)
		}
		var p []string
		for i := 0; i < v.Len(); i++ {
			p = append(p, c23ShowV(v.Index(i)))
		}
		return "[" + strings.Join(p, ",") + "]"
	case reflect.Map:
		if v.IsNil() {
			return "nil{}"
		}
		var p []string
		for _, k := range v.MapKeys() {
			p = append(p, c23ShowV(k)+":"+c23ShowV(v.MapIndex(k)))
		}
		sort.Strings(p)
		return "{" + strings.Join(p, ",") + "}"
	case reflect.Struct:
		var p []string
		for i := 0; i < v.NumField(); i++ {
			p = append(p, c23ShowV(v.Field(i)))
		}
		return "(" + strings.Join(p, ",") + ")"
	case reflect.String:
		s := v.String()
		if len(s) > 8 {
			return fmt.Sprintf("%q…(%d)", s[:8], len(s))
		}
		return fmt.Sprintf("%q", s)
	}
	return fmt.Sprint(v.Interface())
}

// ---- decoder robustness ----

// c23Unmarshal is bytesWrapper.UnmarshalFromBytes without the decoder pool: a
// fresh decoder per call, so that the cases of the parallel phase cannot
// influence each other. (The pooled entry point itself is exercised by the
// round-trip phase and by the sequential pool-hygiene phase.)
func c23Unmarshal(in []byte, v interface{}) ([]byte, error) {
	buf := bytes.NewBuffer(append([]byte{}, in...))
	d := rlpCodecObject.NewDecoder(buf)
	d.SetMaxBytes(len(in))
	if err := d.Decode(v); err != nil {
		return nil, err
	}
	return append([]byte{}, buf.Bytes()...), nil
}

type c23FreshCodec struct{ *bytesWrapper }

func (c23FreshCodec) UnmarshalFromBytes(b []byte, v interface{}) ([]byte, error) {
	return c23Unmarshal(b, v)
}

var c23Fresh Codec = c23FreshCodec{RLP}

// c23Nullable: the nil marker f8 00 is a legal encoding for this type.
func c23Nullable(t reflect.Type) bool {
	switch t.Kind() {
	case reflect.Ptr, reflect.Slice, reflect.Map, reflect.Interface:
		return true
	}
	return false
}

// c23NilInStructField walks type and parsed input the way the decoder does and
// reports whether a nil marker (f8 00) sits in the position of a *struct field*
// whose type has no nil value (integer, bool, string, array, struct, big.Int).
// It is used only to label anomalies with their root cause, never as an oracle
// (a nil marker for a slice/array element or map value of such a type is
// decoded as the zero value by design).
func c23NilInStructField(t reflect.Type, n c23Node) bool {
	if n.Null || t == c23BigIntType || t == reflect.TypeOf(TypedObj{}) {
		return false
	}
	switch t.Kind() {
	case reflect.Ptr:
		return c23NilInStructField(t.Elem(), n)
	case reflect.Slice, reflect.Array:
		if t.Elem().Kind() == reflect.Uint8 || !n.List {
			return false
		}
		for i, k := range n.Kids {
			if t.Kind() == reflect.Array && i >= t.Len() {
				break
			}
			if c23NilInStructField(t.Elem(), k) {
				return true
			}
		}
	case reflect.Map:
		if !n.List {
			return false
		}
		for i := 1; i < len(n.Kids); i += 2 {
			if c23NilInStructField(t.Elem(), n.Kids[i]) {
				return true
			}
		}
	case reflect.Struct:
		if !n.List {
			return false
		}
		for i, k := range n.Kids {
			if i >= t.NumField() {
				break
			}
			ft := t.Field(i).Type
			if k.Null && !c23Nullable(ft) {
				return true
			}
			if c23NilInStructField(ft, k) {
				return true
			}
		}
	}
	return false
}

// ---- structural mutations of a parsed encoding ----

func c23Hdr(base byte, l int) []byte {
	if l <= 55 {
		return []byte{base + byte(l)}
	}
	var sz []byte
	for x := l; x > 0; x >>= 8 {
		sz = append([]byte{byte(x)}, sz...)
	}
	return append([]byte{base + 55 + byte(len(sz))}, sz...)
}

func c23Ser(n c23Node) []byte {
	if n.Null {
		return []byte{0xf8, 0x00}
	}
	if !n.List {
		if len(n.Bytes) == 1 && n.Bytes[0] < 0x80 {
			return []byte{n.Bytes[0]}
		}
		return append(c23Hdr(0x80, len(n.Bytes)), n.Bytes...)
	}
	var p []byte
	for _, k := range n.Kids {
		p = append(p, c23Ser(k)...)
	}
	return append(c23Hdr(0xc0, len(p)), p...)
}

// c23Structural calls fn with every tree obtained from n by replacing one
// sub-item with the nil marker / an empty list / an empty byte string / the
// single byte 00, by deleting one sub-item, or by duplicating one sub-item.
func c23Structural(n c23Node, fn func(kind string, m c23Node)) {
	repl := []struct {
		kind string
		node c23Node
	}{{"nil-marker", c23Node{Null: true}}, {"empty-list", c23Node{List: true}}, {"empty-bytes", c23Node{Bytes: []byte{}}}, {"zero-byte", c23Node{Bytes: []byte{0}}}}
	var walk func(cur *c23Node, root *c23Node)
	walk = func(cur *c23Node, root *c23Node) {
		saved := *cur
		for _, rp := range repl {
			*cur = rp.node
			fn(rp.kind, c23Clone(*root))
		}
		*cur = saved
		if cur.List {
			for i := range cur.Kids {
				kids := cur.Kids
				// delete kid i
				cur.Kids = append(append([]c23Node{}, kids[:i]...), kids[i+1:]...)
				fn("delete", c23Clone(*root))
				// duplicate kid i
				cur.Kids = append(append(append([]c23Node{}, kids[:i+1]...), kids[i]), kids[i+1:]...)
				fn("duplicate", c23Clone(*root))
				cur.Kids = kids
				walk(&cur.Kids[i], root)
			}
		}
	}
	root := c23Clone(n)
	walk(&root, &root)
}

func c23Clone(n c23Node) c23Node {
	o := n
	if n.Kids != nil {
		o.Kids = make([]c23Node, len(n.Kids))
		for i, k := range n.Kids {
			o.Kids[i] = c23Clone(k)
		}
	}
	return o
}

type c23Target struct {
	name string
	t    reflect.Type
}

type c23S3 struct {
	A int16
	B []byte
	C *string
}

type c23S1 struct {
	A uint8
}

func c23Targets() []c23Target {
	return []c23Target{
		{"int8", reflect.TypeOf(int8(0))}, {"int16", reflect.TypeOf(int16(0))}, {"int32", reflect.TypeOf(int32(0))}, {"int64", reflect.TypeOf(int64(0))}, {"int", reflect.TypeOf(int(0))},
		{"uint8", reflect.TypeOf(uint8(0))}, {"uint16", reflect.TypeOf(uint16(0))}, {"uint32", reflect.TypeOf(uint32(0))}, {"uint64", reflect.TypeOf(uint64(0))}, {"uint", reflect.TypeOf(uint(0))},
		{"bool", reflect.TypeOf(false)}, {"string", reflect.TypeOf("")}, {"[]byte", reflect.TypeOf([]byte(nil))}, {"[4]byte", reflect.TypeOf([4]byte{})},
		{"*big.Int", reflect.TypeOf((*big.Int)(nil))},
		{"struct{int16;[]byte;*string}", reflect.TypeOf(c23S3{})},
		{"*struct{uint8}", reflect.TypeOf((*c23S1)(nil))},
		{"[]int16", reflect.TypeOf([]int16(nil))}, {"[][]byte", reflect.TypeOf([][]byte(nil))}, {"[]string", reflect.TypeOf([]string(nil))}, {"[2]uint16", reflect.TypeOf([2]uint16{})},
		{"map[string]uint8", reflect.TypeOf(map[string]uint8(nil))},
		{"[]*struct{uint8}", reflect.TypeOf([]*c23S1(nil))},
		{"TypedObj", reflect.TypeOf(TypedObj{})},
	}
}

func c23Range(t reflect.Type) (lo, hi *big.Int, ok bool) {
	bits := t.Bits
	switch t.Kind() {
	case reflect.Int8, reflect.Int16, reflect.Int32, reflect.Int64, reflect.Int:
		hi = new(big.Int).Sub(new(big.Int).Lsh(big.NewInt(1), uint(bits()-1)), big.NewInt(1))
		lo = new(big.Int).Neg(new(big.Int).Lsh(big.NewInt(1), uint(bits()-1)))
		return lo, hi, true
	case reflect.Uint8, reflect.Uint16, reflect.Uint32, reflect.Uint64, reflect.Uint:
		hi = new(big.Int).Sub(new(big.Int).Lsh(big.NewInt(1), uint(bits())), big.NewInt(1))
		return big.NewInt(0), hi, true
	case reflect.Bool:
		return big.NewInt(0), big.NewInt(1), true
	}
	return nil, nil, false
}

// headerClass describes the first item header of an input for signatures.
func c23HeaderClass(in []byte) string {
	if len(in) == 0 {
		return "empty"
	}
	t := in[0]
	switch {
	case t < 0x80:
		return "single-byte"
	case t <= 0xb7:
		return "short-bytes"
	case t < 0xc0:
		return "long-bytes"
	case t <= 0xf7:
		return "short-list"
	}
	return "long-list"
}

func (e *c23Env) decode(tg c23Target, in []byte, family string) {
	r := e.r
	r.Eval(1)
	if family != "short3" { // the 3-byte family is counted once per input, not per target
		r.Nontrivial(tg.name + "|" + string(in))
	}
	c := c23Case{Phase: "decode", Target: tg.name, Hex: hex.EncodeToString(in), Note: family}
	fail := func(sig, format string, a ...interface{}) {
		r.Violation(sig, fmt.Sprintf("target=%s input=%s ", tg.name, c23Hex(in))+fmt.Sprintf(format, a...), c)
	}
	out := reflect.New(tg.t)
	var rest []byte
	var err error
	if p := ev.Catch(func() { rest, err = c23Unmarshal(in, out.Interface()) }); p != "" {
		fail("decode-panics:"+tg.name+":"+c23HeaderClass(in), "%s", p)
		return
	}
	node, used, st := c23Parse(in)
	if st == c23Beyond {
		atomic.AddInt64(&e.beyondSeen, 1)
	}
	if err != nil {
		atomic.AddInt64(&e.errDec, 1)
		return
	}
	atomic.AddInt64(&e.okDec, 1)
	if st == c23Beyond || st == c23Empty {
		if st == c23Beyond && c23NilInStructField(tg.t, node) {
			fail("accepts-size-beyond-input:nil-marker-in-struct-field", "decoded=%s", c23Show(out.Elem()))
			return
		}
		fail("accepts-size-beyond-input:"+tg.name+":"+c23HeaderClass(in), "decoded=%s", c23Show(out.Elem()))
		return
	}
	// label anomalies that stem from a nil marker in a non-nullable struct field
	cause := tg.name
	if (st == c23OK || st == c23BadKids) && c23NilInStructField(tg.t, node) {
		atomic.AddInt64(&e.misplacedNil, 1)
		cause = "nil-marker-in-struct-field"
	}
	if !bytes.Equal(rest, in[used:]) {
		fail("wrong-remainder:"+cause, "rest=%x want %x decoded=%s", rest, in[used:], c23Show(out.Elem()))
		if cause != tg.name {
			return
		}
	}
	if n := c23ByteLoad(out.Elem()); n > len(in) {
		fail("decoded-bytes-exceed-input:"+tg.name, "decoded %d bytes of string data from %d input bytes", n, len(in))
	}
	if lo, hi, ok := c23Range(tg.t); ok {
		if node.List || node.Null {
			fail("integer-from-non-bytes:"+tg.name, "decoded=%s", c23Show(out.Elem()))
		} else {
			want := c23Signed(node.Bytes)
			var got *big.Int
			switch tg.t.Kind() {
			case reflect.Bool:
				got = big.NewInt(0)
				if out.Elem().Bool() {
					got = big.NewInt(1)
				}
			case reflect.Uint8, reflect.Uint16, reflect.Uint32, reflect.Uint64, reflect.Uint:
				got = new(big.Int).SetUint64(out.Elem().Uint())
			default:
				got = big.NewInt(out.Elem().Int())
			}
			if want.Cmp(lo) < 0 || want.Cmp(hi) > 0 {
				fail("accepts-integer-overflow:"+tg.name, "bytes=%x mean %s, outside [%s,%s]; decoded=%s", node.Bytes, want, lo, hi, got)
			} else if want.Cmp(got) != 0 {
				fail("integer-wrong-value:"+tg.name, "bytes=%x mean %s; decoded=%s", node.Bytes, want, got)
			}
		}
	}
	if tg.t == reflect.TypeOf(TypedObj{}) {
		return // compared through UnmarshalAny (ordered dictionaries keep the input key order)
	}
	// the decoded value is itself a supported value, so it must round-trip
	var b2 []byte
	if p := ev.Catch(func() { b2, err = BC.MarshalToBytes(out.Interface()) }); p != "" || err != nil {
		fail("decoded-value-cannot-be-encoded:"+tg.name, "decoded=%s panic=%q err=%v", c23Show(out.Elem()), p, err)
		return
	}
	out2 := reflect.New(tg.t)
	if _, err := c23Unmarshal(b2, out2.Interface()); err != nil || !c23Equal(out.Elem(), out2.Elem()) {
		fail("decoded-value-does-not-roundtrip:"+cause, "decoded=%s reencoded=%x again=%s err=%v", c23Show(out.Elem()), b2, c23Show(out2.Elem()), err)
	}
}

func c23Hex(b []byte) string {
	if len(b) > 40 {
		return fmt.Sprintf("%x…(%d bytes)", b[:40], len(b))
	}
	return fmt.Sprintf("%x", b)
}

// ---- UnmarshalAny (typed objects) ----

type c23Custom struct {
	Tag  uint8
	Data string
}

type c23TC struct{}

func (c23TC) Decode(tag uint8, data []byte) (interface{}, error) {
	if tag < TypeCustom {
		return nil, fmt.Errorf("unknown tag %d", tag)
	}
	return c23Custom{tag, string(data)}, nil
}

func (c23TC) Encode(o interface{}) (uint8, []byte, error) {
	if c, ok := o.(c23Custom); ok {
		return c.Tag, []byte(c.Data), nil
	}
	return 0, nil, fmt.Errorf("unknown type %T", o)
}

// c23AnyClass names the typed-object shape at the front of the input.
func c23AnyClass(in []byte) string {
	n, _, st := c23Parse(in)
	if st != c23OK || !n.List || len(n.Kids) == 0 || n.Kids[0].List || n.Kids[0].Null {
		return "malformed"
	}
	tag := c23Signed(n.Kids[0].Bytes).Int64()
	name := map[int64]string{0: "TypeNil", 1: "TypeDict", 2: "TypeList", 3: "TypeBytes", 4: "TypeString", 5: "TypeBool"}[tag]
	if name == "" {
		name = "TypeCustom"
	}
	obj := "object-missing"
	if len(n.Kids) > 1 {
		switch k := n.Kids[1]; {
		case k.Null:
			obj = "object-nil"
		case k.List:
			obj = "object-list"
		default:
			obj = "object-bytes"
		}
	}
	return name + ":" + obj
}

func (e *c23Env) decodeAny(in []byte, family string) {
	r := e.r
	r.Eval(1)
	if family != "short3" {
		r.Nontrivial("any|" + string(in))
	}
	c := c23Case{Phase: "any", Hex: hex.EncodeToString(in), Note: family}
	var v, v2 interface{}
	var err error
	if p := ev.Catch(func() { v, err = UnmarshalAny(c23Fresh, c23TC{}, in) }); p != "" {
		r.Violation("UnmarshalAny-panics:"+c23AnyClass(in), fmt.Sprintf("input=%s panic=%s", c23Hex(in), p), c)
		return
	}
	if err != nil {
		atomic.AddInt64(&e.errDec, 1)
		return
	}
	atomic.AddInt64(&e.okDec, 1)
	if _, _, st := c23Parse(in); st == c23Beyond || st == c23Empty {
		r.Violation("accepts-size-beyond-input:UnmarshalAny:"+c23HeaderClass(in), fmt.Sprintf("input=%s decoded=%#v", c23Hex(in), v), c)
		return
	}
	var b2 []byte
	if p := ev.Catch(func() { b2, err = MarshalAny(BC, c23TC{}, v) }); p != "" || err != nil {
		r.Violation("decoded-value-cannot-be-encoded:UnmarshalAny", fmt.Sprintf("input=%s decoded=%#v panic=%q err=%v", c23Hex(in), v, p, err), c)
		return
	}
	if p := ev.Catch(func() { v2, err = UnmarshalAny(c23Fresh, c23TC{}, b2) }); p != "" || err != nil || !reflect.DeepEqual(v, v2) {
		r.Violation("decoded-value-does-not-roundtrip:UnmarshalAny", fmt.Sprintf("input=%s decoded=%#v reencoded=%x again=%#v panic=%q err=%v", c23Hex(in), v, b2, v2, p, err), c)
	}
}

// c23AnyValues: nested values of the typed-object grammar.
func c23AnyValues(depth int) []interface{} {
	leaves := []interface{}{nil, "", "a", "\x80", strings.Repeat("s", 56), []byte(nil), []byte{}, []byte{0}, []byte{0x80}, bytes.Repeat([]byte{1}, 56), true, false, c23Custom{10, ""}, c23Custom{11, "\x00\x01"}, c23Custom{255, "z"}}
	if depth == 0 {
		return leaves
	}
	inner := c23AnyValues(depth - 1)
	out := append([]interface{}{}, leaves...)
	out = append(out, []interface{}{}, map[string]interface{}{})
	for _, x := range inner {
		out = append(out, []interface{}{x}, map[string]interface{}{"k": x})
	}
	pick := []interface{}{inner[0], inner[len(inner)/2], inner[len(inner)-1]}
	for _, a := range pick {
		for _, b := range pick {
			out = append(out, []interface{}{a, b}, map[string]interface{}{"b": a, "": b}, map[string]interface{}{"\x80": a, "ab": b, "a": a})
		}
	}
	return out
}

func (e *c23Env) anyRoundtrip(x interface{}, idx int64) {
	r := e.r
	r.Eval(1)
	c := c23Case{Phase: "anyvalue", Index: idx}
	var b1, b2 []byte
	var err error
	var back interface{}
	if p := ev.Catch(func() { b1, err = MarshalAny(BC, c23TC{}, x) }); p != "" || err != nil {
		r.Violation("MarshalAny-fails", fmt.Sprintf("value=%#v panic=%q err=%v", x, p, err), c)
		return
	}
	r.Nontrivial("anyvalue|" + string(b1))
	if b2, err = MarshalAny(BC, c23TC{}, x); err != nil || !bytes.Equal(b1, b2) {
		r.Violation("MarshalAny-not-deterministic", fmt.Sprintf("value=%#v %x then %x", x, b1, b2), c)
	}
	if p := ev.Catch(func() { back, err = UnmarshalAny(BC, c23TC{}, b1) }); p != "" || err != nil {
		r.Violation("UnmarshalAny-of-own-encoding-fails", fmt.Sprintf("value=%#v bytes=%x panic=%q err=%v", x, b1, p, err), c)
		return
	}
	if !reflect.DeepEqual(c23NormAny(x), c23NormAny(back)) {
		r.Violation("any-roundtrip-differs", fmt.Sprintf("value=%#v bytes=%x decoded=%#v", x, b1, back), c)
	}
	// dictionary keys ascending in the encoding
	if n, used, st := c23Parse(b1); st != c23OK || used != len(b1) {
		r.Violation("any-encoding-not-wellformed", fmt.Sprintf("value=%#v bytes=%x", x, b1), c)
	} else if ok, why := c23AnySorted(n); !ok {
		r.Violation("any-dict-keys-not-ascending", fmt.Sprintf("value=%#v bytes=%x %s", x, b1, why), c)
	}
}

// c23NormAny: UnmarshalAny gives non-nil empty lists/maps; nil and empty byte
// strings stay distinct (the format keeps them apart).
func c23NormAny(x interface{}) interface{} {
	switch o := x.(type) {
	case []interface{}:
		l := make([]interface{}, len(o))
		for i, y := range o {
			l[i] = c23NormAny(y)
		}
		return l
	case map[string]interface{}:
		m := make(map[string]interface{}, len(o))
		for k, y := range o {
			m[k] = c23NormAny(y)
		}
		return m
	}
	return x
}

// typed object = [tag, object]; tag 1 = dict (list of key,value), 2 = list
func c23AnySorted(n c23Node) (bool, string) {
	if n.Null || !n.List || len(n.Kids) < 2 || n.Kids[0].List {
		return true, ""
	}
	switch c23Signed(n.Kids[0].Bytes).Int64() {
	case 1:
		d := n.Kids[1]
		for i := 0; i+1 < len(d.Kids); i += 2 {
			if i >= 2 && bytes.Compare(d.Kids[i-2].Bytes, d.Kids[i].Bytes) >= 0 {
				return false, fmt.Sprintf("dict keys %x then %x", d.Kids[i-2].Bytes, d.Kids[i].Bytes)
			}
			if ok, why := c23AnySorted(d.Kids[i+1]); !ok {
				return false, why
			}
		}
	case 2:
		for _, k := range n.Kids[1].Kids {
			if ok, why := c23AnySorted(k); !ok {
				return false, why
			}
		}
	}
	return true, ""
}

// ===========================================================================
// Encoder pool hygiene: a MarshalToBytes that fails (or panics) half way
// through a nested value must not change what the next MarshalToBytes returns.
// ===========================================================================

var errC23Enc = fmt.Errorf("c23: custom encoder refuses")

// c23FailEnc is a custom encoder that opens a list, writes K elements and then
// fails (Mode 0) or panics (Mode 1); K < 0 fails before opening the list.
type c23FailEnc struct {
	K    int
	Mode int
}

func (f *c23FailEnc) RLPEncodeSelf(e Encoder) error {
	if f.K < 0 {
		return errC23Enc
	}
	e2, err := e.EncodeList()
	if err != nil {
		return err
	}
	for i := 0; i < f.K; i++ {
		if err := e2.Encode(i + 1); err != nil {
			return err
		}
	}
	if f.Mode == 1 {
		panic("c23: custom encoder panics")
	}
	return errC23Enc
}

type c23FailMarshaler struct{}

func (*c23FailMarshaler) MarshalRLP() ([]byte, error) { return nil, errC23Enc }

type c23FailBinary struct{}

func (*c23FailBinary) MarshalBinary() ([]byte, error) { return nil, errC23Enc }

type c23Holder struct {
	A string
	B interface{}
	C int
}

type c23FailShape struct {
	name  string
	class string
	v     interface{}
}

func c23FailShapes() []c23FailShape {
	type bad struct {
		name string
		v    interface{}
	}
	bads := []bad{
		{"chan", make(chan int)}, {"func", func() {}}, {"float64", 1.5}, {"complex", complex(1, 2)},
		{"custom-error-before-list", &c23FailEnc{K: -1}}, {"custom-error-after-0", &c23FailEnc{K: 0}}, {"custom-error-after-1", &c23FailEnc{K: 1}}, {"custom-error-after-2", &c23FailEnc{K: 2}},
		{"custom-panic-after-1", &c23FailEnc{K: 1, Mode: 1}},
		{"MarshalRLP-error", &c23FailMarshaler{}}, {"MarshalBinary-error", &c23FailBinary{}},
		{"map-with-float-key", map[float64]int{1.5: 1}},
	}
	pre := []interface{}{"abc", 1}
	wrap := func(container int, k int, inner interface{}) interface{} {
		switch container {
		case 0:
			return append(append([]interface{}{}, pre[:k]...), inner)
		case 1:
			return &c23Holder{A: "abc", B: inner, C: 7}
		default:
			m := map[string]interface{}{"z": inner}
			if k > 0 {
				m["a"] = 1
			}
			if k > 1 {
				m["b"] = "x"
			}
			return m
		}
	}
	cn := []string{"slice", "struct", "map"}
	var out []c23FailShape
	for _, b := range bads {
		out = append(out, c23FailShape{b.name + "@top", b.name + ":top-level", b.v})
		for depth := 1; depth <= 3; depth++ {
			dims := make([]int, depth)
			for i := range dims {
				dims[i] = 3
			}
			opseq.Product(dims, func(idx []int) bool {
				for k := 0; k <= 2; k++ {
					v := b.v
					path := ""
					for i := depth - 1; i >= 0; i-- {
						kk := 1
						if i == depth-1 {
							kk = k
						}
						v = wrap(idx[i], kk, v)
						path = cn[idx[i]] + ">" + path
					}
					out = append(out, c23FailShape{fmt.Sprintf("%s%s(k=%d)", path, b.name, k), fmt.Sprintf("%s:nested-depth-%d", b.name, depth), v})
				}
				return true
			})
		}
	}
	return out
}

type c23Good struct {
	name string
	v    interface{}
	back func() interface{} // fresh target for decoding
	same func(decoded interface{}) bool
}

func c23GoodValues() []c23Good {
	s3 := &c23S3{A: 0x1234, B: []byte("hello")}
	return []c23Good{
		{"struct", s3, func() interface{} { return new(c23S3) }, func(d interface{}) bool {
			x := d.(*c23S3)
			return x.A == s3.A && bytes.Equal(x.B, s3.B) && x.C == nil
		}},
		{"int", int64(-129), func() interface{} { return new(int64) }, func(d interface{}) bool { return *d.(*int64) == -129 }},
		{"string", "abc", func() interface{} { return new(string) }, func(d interface{}) bool { return *d.(*string) == "abc" }},
		{"nil-bytes", []byte(nil), func() interface{} { return new([]byte) }, func(d interface{}) bool { return *d.(*[]byte) == nil }},
		{"nested-slice", [][]int16{{1, -1}, nil, {}}, func() interface{} { return new([][]int16) }, func(d interface{}) bool {
			x := *d.(*[][]int16)
			return len(x) == 3 && len(x[0]) == 2 && x[0][1] == -1 && x[1] == nil && x[2] != nil && len(x[2]) == 0
		}},
		{"map", map[string]uint8{"b": 2, "a": 1}, func() interface{} { return new(map[string]uint8) }, func(d interface{}) bool {
			x := *d.(*map[string]uint8)
			return len(x) == 2 && x["a"] == 1 && x["b"] == 2
		}},
		{"big", big.NewInt(-256), func() interface{} { return new(big.Int) }, func(d interface{}) bool { return d.(*big.Int).Cmp(big.NewInt(-256)) == 0 }},
	}
}

// c23FreshEncode encodes v with a brand-new, never pooled encoder.
func c23FreshEncode(v interface{}) ([]byte, error) {
	var buf bytes.Buffer
	e := rlpCodecObject.NewEncoder(&buf)
	if err := e.Encode(v); err != nil {
		return nil, err
	}
	return append([]byte{}, buf.Bytes()...), nil
}

// encoderHygiene must run on a single P (the caller sets GOMAXPROCS(1)).
func (e *c23Env) encoderHygiene(only int) (cases, failed int) {
	r := e.r
	shapes := c23FailShapes()
	goods := c23GoodValues()
	ref := make([][]byte, len(goods))
	for i, g := range goods {
		var err error
		if ref[i], err = c23FreshEncode(g.v); err != nil {
			r.Sanity(false, "reference encoding of %s failed: %v", g.name, err)
			return
		}
		if bs, err := BC.MarshalToBytes(g.v); err != nil || !bytes.Equal(bs, ref[i]) {
			r.Violation("pooled-encoding-differs-from-fresh-encoder", fmt.Sprintf("value=%s pooled=%x fresh=%x err=%v", g.name, bs, ref[i], err), c23Case{Phase: "enchyg", Index: -1, Note: g.name})
		}
	}
	badInputs := []struct {
		in []byte
		mk func() interface{}
	}{
		{[]byte{0xc3, 0xf8, 0x00, 0x00}, func() interface{} { return new(*c23S1) }},
		{[]byte{0xb9, 0x01, 0x00, 0x01}, func() interface{} { return new([]byte) }},
		{[]byte{0xc5, 0x01}, func() interface{} { return new(c23S3) }},
		{[]byte{0xc2, 0x82, 0x01}, func() interface{} { return new([]int16) }},
	}
	checkGood := func(sh c23FailShape, si int, gi int, when string) {
		g := goods[gi]
		cs := c23Case{Phase: "enchyg", Index: int64(si), Note: sh.name}
		var bs []byte
		var err error
		if p := ev.Catch(func() { bs, err = BC.MarshalToBytes(g.v) }); p != "" || err != nil {
			r.Violation("pooled-encoder-poisoned:"+sh.class, fmt.Sprintf("after the failing MarshalToBytes(%s) [%s], MarshalToBytes(%s) gave panic=%q err=%v", sh.name, when, g.name, p, err), cs)
			ev.Catch(func() { BC.MarshalToBytes(g.v) }) // try to get a clean encoder back into the pool
			return
		}
		if !bytes.Equal(bs, ref[gi]) {
			r.Violation("pooled-encoder-poisoned:"+sh.class, fmt.Sprintf("after the failing MarshalToBytes(%s) [%s], MarshalToBytes(%s) = %x, want %x (fresh encoder)", sh.name, when, g.name, bs, ref[gi]), cs)
			BC.MarshalToBytes(g.v) // the stale child is gone after one use
			return
		}
		out := g.back()
		if rest, err := BC.UnmarshalFromBytes(bs, out); err != nil || len(rest) != 0 || !g.same(out) {
			r.Violation("pooled-encoding-does-not-decode-back:"+sh.class, fmt.Sprintf("after the failing MarshalToBytes(%s) [%s]: %s -> %x -> %+v rest=%x err=%v", sh.name, when, g.name, bs, out, rest, err), cs)
		}
	}
	for si, sh := range shapes {
		if only >= 0 && si != only {
			continue
		}
		for gi := range goods {
			for mode := 0; mode < 3; mode++ {
				r.Eval(1)
				cases++
				r.Nontrivial(fmt.Sprintf("enchyg|%s|%d|%d", sh.name, gi, mode))
				if mode == 1 { // failing decode first
					b := badInputs[(si+gi)%len(badInputs)]
					ev.Catch(func() { BC.UnmarshalFromBytes(b.in, b.mk()) })
				}
				var err error
				p := ev.Catch(func() { _, err = BC.MarshalToBytes(sh.v) })
				if p != "" || err != nil {
					failed++
				}
				if mode == 2 { // failing decode between the failing and the good marshal
					b := badInputs[(si+gi)%len(badInputs)]
					ev.Catch(func() { BC.UnmarshalFromBytes(b.in, b.mk()) })
				}
				checkGood(sh, si, gi, []string{"directly", "failing decode, then failing encode", "failing encode, then failing decode"}[mode])
				// and once more: two good marshals in a row
				checkGood(sh, si, (gi+1)%len(goods), "second marshal after the failure")
			}
		}
	}
	return
}

// ===========================================================================
// History family over BC (pooled encoders and decoders): the result of a call
// must equal the result of the same call on fresh, never pooled state.
// ===========================================================================

func c23DecodeRes(c Codec, t reflect.Type, in []byte) string {
	out := reflect.New(t)
	var rest []byte
	var err error
	if p := ev.Catch(func() { rest, err = c.UnmarshalFromBytes(in, out.Interface()) }); p != "" {
		return "panic"
	}
	if err != nil {
		return "err"
	}
	if to, ok := out.Interface().(*TypedObj); ok {
		// typed objects hold pointers and interfaces: describe them through DecodeAny
		var v interface{}
		var derr error
		if p := ev.Catch(func() { v, derr = DecodeAny(c23TC{}, to) }); p != "" {
			return "ok|typed-object-panics-in-DecodeAny|rest=" + hex.EncodeToString(rest)
		}
		if derr != nil {
			return "ok|typed-object-rejected-by-DecodeAny|rest=" + hex.EncodeToString(rest)
		}
		return fmt.Sprintf("ok|%#v|rest=%x", v, rest)
	}
	return "ok|" + c23ShowV(out.Elem()) + "|rest=" + hex.EncodeToString(rest)
}

func c23AnyRes(c Codec, in []byte) string {
	var v interface{}
	var err error
	if p := ev.Catch(func() { v, err = UnmarshalAny(c, c23TC{}, in) }); p != "" {
		return "panic"
	}
	if err != nil {
		return "err"
	}
	return fmt.Sprintf("ok|%#v", v)
}

func c23HistoryCalls(thorough bool) []hist.Call {
	var calls []hist.Call
	seen := map[string]bool{}
	addDecode := func(class string, t reflect.Type, tname string, in []byte) {
		in = append([]byte{}, in...)
		name := fmt.Sprintf("Unmarshal(%x -> %s)", in, tname)
		if seen[name] || len(in) > 80 {
			return
		}
		seen[name] = true
		calls = append(calls, hist.Call{Name: name, Class: class, Run: func() string { return c23DecodeRes(BC, t, in) }, Want: c23DecodeRes(c23Fresh, t, in), HasWant: true})
	}
	addAny := func(class string, in []byte) {
		in = append([]byte{}, in...)
		name := fmt.Sprintf("UnmarshalAny(%x)", in)
		if seen[name] || len(in) > 80 {
			return
		}
		seen[name] = true
		calls = append(calls, hist.Call{Name: name, Class: class, Run: func() string { return c23AnyRes(BC, in) }, Want: c23AnyRes(c23Fresh, in), HasWant: true})
	}
	addMarshal := func(class, name string, v interface{}) {
		want := "err"
		if bs, err := func() (bs []byte, err error) {
			defer func() {
				if recover() != nil {
					err = errC23Enc
				}
			}()
			return c23FreshEncode(v)
		}(); err == nil {
			want = "ok|" + hex.EncodeToString(bs)
		}
		calls = append(calls, hist.Call{Name: "Marshal(" + name + ")", Class: class, Run: func() string {
			var bs []byte
			var err error
			if p := ev.Catch(func() { bs, err = BC.MarshalToBytes(v) }); p != "" || err != nil {
				return "err"
			}
			return "ok|" + hex.EncodeToString(bs)
		}, Want: want, HasWant: true})
	}
	type val struct {
		name string
		v    interface{} // pointer to the value
	}
	str56 := strings.Repeat("s", 56)
	vals := []val{
		{"struct", &c23S3{A: 0x1234, B: []byte("hello")}}, {"int64", new(int64)}, {"negint", func() *int64 { x := int64(-129); return &x }()},
		{"string", func() *string { x := "hello world"; return &x }()}, {"string56", &str56},
		{"bytes-nil", new([]byte)}, {"nested", &[][]int16{{1, -1}, nil, {}}}, {"bytes-list", &[][]byte{[]byte("ab"), nil, {}}},
		{"map", &map[string]uint8{"b": 2, "a": 1}}, {"ptrs", &[]*c23S1{{A: 1}, nil, {A: 255}}}, {"big", new(big.Int).Lsh(big.NewInt(-3), 70)},
		{"uint64", func() *uint64 { x := uint64(1<<64 - 1); return &x }()},
	}
	// valid calls and every truncation of their encodings
	for _, v := range vals {
		t := reflect.TypeOf(v.v).Elem()
		bs, err := c23FreshEncode(v.v)
		if err != nil {
			continue
		}
		addMarshal("Marshal-valid", v.name, v.v)
		addDecode("Unmarshal-valid", t, v.name, bs)
		addDecode("Unmarshal-valid", t, v.name, append(append([]byte{}, bs...), 0x01, 0x02)) // with a remainder
		for cut := 0; cut < len(bs); cut++ {
			addDecode("Unmarshal-truncated", t, v.name, bs[:cut])
		}
		if n, _, st := c23Parse(bs); st == c23OK && n.List {
			k := 0
			c23Structural(n, func(kind string, m c23Node) {
				k++
				if thorough || kind == "nil-marker" || kind == "empty-list" || k%5 == 0 {
					addDecode("Unmarshal-structural", t, v.name, c23Ser(m))
				}
			})
		}
	}
	// typed objects, incl. cuts inside an inner typed object
	typed := []interface{}{
		map[string]interface{}{"a": []interface{}{}, "b": "x"},
		map[string]interface{}{"k": map[string]interface{}{"i": []byte{1}, "j": nil}},
		[]interface{}{"s", []interface{}{true, c23Custom{10, "z"}}, nil},
		"plain", nil,
	}
	tt := reflect.TypeOf(TypedObj{})
	for _, x := range typed {
		bs, err := MarshalAny(c23Fresh, c23TC{}, x)
		if err != nil {
			continue
		}
		addAny("UnmarshalAny-valid", bs)
		addDecode("Unmarshal-valid", tt, "TypedObj", bs)
		for cut := 0; cut < len(bs); cut++ {
			if thorough || cut%2 == 0 {
				addAny("UnmarshalAny-truncated", bs[:cut])
			}
		}
		if n, _, st := c23Parse(bs); st == c23OK {
			k := 0
			c23Structural(n, func(kind string, m c23Node) {
				k++
				in := c23Ser(m)
				// quick: the replacements that cut an item short (empty list / nil marker) and every 4th other mutation
				if thorough || kind == "empty-list" || kind == "nil-marker" || k%4 == 0 {
					addDecode("Unmarshal-structural", tt, "TypedObj", in)
				}
				if thorough || k%3 == 0 {
					addAny("UnmarshalAny-structural", in)
				}
			})
		}
	}
	// samples of the malformed families of the parallel phase
	s3 := reflect.TypeOf(c23S3{})
	bl := reflect.TypeOf([][]byte(nil))
	ps := reflect.TypeOf((*c23S1)(nil))
	for i, in := range c23LengthFamily() {
		if len(in) <= 12 && (i%80 == 0 || (thorough && i%7 == 0)) {
			addDecode("Unmarshal-length-field", bl, "[][]byte", in)
			addDecode("Unmarshal-length-field", s3, "struct", in)
		}
	}
	for i, in := range c23NestedFamily() {
		if len(in) <= 16 && (i%97 == 0 || (thorough && i%29 == 0)) {
			addDecode("Unmarshal-nested-length-field", bl, "[][]byte", in)
		}
	}
	for _, in := range [][]byte{{0xc3, 0xf8, 0x00, 0x00}, {0xc3, 0xf8, 0x00}, {0xf7, 0xf8, 0x00}, {0xc4, 0xf8, 0x00, 0xff, 0xff}, {}} {
		addDecode("Unmarshal-nil-marker", ps, "*struct{uint8}", in)
	}
	// failing marshals (a few of every kind; the full set is in the encoder-hygiene phase)
	for i, sh := range c23FailShapes() {
		if i%97 == 0 || strings.HasPrefix(sh.name, "slice>slice>chan") || strings.HasPrefix(sh.name, "struct>custom-error-after-1") {
			addMarshal("Marshal-failing", sh.name, sh.v)
		}
	}
	return calls
}

func (e *c23Env) history() (int, bool) {
	r := e.r
	calls := c23HistoryCalls(r.Thorough())
	var triple []int
	if r.Thorough() {
		for i := range calls {
			if i%40 == 0 {
				triple = append(triple, i)
			}
		}
	}
	restore := hist.Pin()
	defer restore()
	n, complete := hist.Explore(calls, triple, 8192, r.Expired, func(sig, detail string, names []string, expected string) {
		r.Violation(sig, detail, c23Case{Phase: "history", History: names, Expected: expected})
	})
	r.Eval(n)
	for i, c := range calls {
		r.Nontrivial(fmt.Sprintf("history|%d|%s", i, c.Name))
	}
	r.Set("history_alphabet", len(calls))
	cls := map[string]int{}
	for _, c := range calls {
		cls[c.Class]++
	}
	r.Set("history_alphabet_classes", fmt.Sprint(cls))
	r.Set("history_triple_alphabet", len(triple))
	r.Set("histories", n)
	return n, complete
}

// ===========================================================================
// Environment faults on the encoder side: a streaming encoder whose destination
// writer fails its k-th Write must report the error and must not disturb any
// other encoder/decoder, before or after it is closed (again).
// ===========================================================================

type c23FailWriter struct {
	k, n int // fail the k-th Write (1-based); k = 0 never fails
}

func (w *c23FailWriter) Write(p []byte) (int, error) {
	w.n++
	if w.k > 0 && w.n >= w.k {
		return 0, fmt.Errorf("c23: destination fails write #%d", w.n)
	}
	return len(p), nil
}

func (e *c23Env) writerFaults(only int) (cases int) {
	r := e.r
	type shape struct {
		name  string
		elems []interface{}
	}
	shapes := []shape{
		{"list{7,hello,bytes}", []interface{}{7, "hello", []byte{1, 2, 3}}},
		{"struct-elements", []interface{}{&c23S3{A: -129, B: []byte("x")}, &c23S1{A: 9}}},
		{"map-elements", []interface{}{map[string]uint8{"b": 2, "a": 1}, "tail"}},
		{"nested-lists", []interface{}{[]interface{}{1, []interface{}{2, 3}}, []interface{}{}, 4}},
		{"bytes56", []interface{}{bytes.Repeat([]byte{0xab}, 56), []byte{}}},
	}
	// values written by the failing encoder: each shape as one list value, plus scalars
	type val struct {
		name string
		v    interface{}
	}
	var vals []val
	for _, sh := range shapes {
		vals = append(vals, val{sh.name, sh.elems})
	}
	vals = append(vals, val{"struct", &c23S3{A: 7, B: []byte("hello")}}, val{"bytes", []byte("hello")}, val{"map", map[string][]int16{"k": {1, 2}}})
	base := make([][]byte, len(shapes))
	for i, sh := range shapes {
		var err error
		if base[i], err = c23FreshEncode(sh.elems); err != nil {
			r.Sanity(false, "baseline of %s: %v", sh.name, err)
			return
		}
	}
	canary := &c23S3{A: 7, B: []byte("hello")}
	canaryBytes, _ := c23FreshEncode(canary)
	idx := 0
	for _, v := range vals {
		// number of Writes of a clean streaming encode of v
		cw := &c23FailWriter{}
		ce := RLP.NewEncoder(cw)
		if err := ce.Encode(v.v); err != nil || ce.Close() != nil {
			r.Sanity(false, "clean streaming encode of %s failed", v.name)
			return
		}
		for k := 1; k <= cw.n+1; k++ {
			for hi, h := range shapes {
				for split := 0; split <= len(h.elems); split++ {
					idx++
					if only >= 0 && idx != only {
						continue
					}
					cases++
					r.Eval(1)
					r.Nontrivial(fmt.Sprintf("wfault|%s|%d|%s|%d", v.name, k, h.name, split))
					cs := c23Case{Phase: "wfault", Index: int64(idx), Note: fmt.Sprintf("failing encoder writes %s, destination fails write #%d of %d; healthy encoder writes %s, %d elements before the failed encoder is closed", v.name, k, cw.n, h.name, split)}
					fail := func(sig, format string, a ...interface{}) {
						r.Violation(sig, cs.Note+": "+fmt.Sprintf(format, a...), cs)
					}
					healthy := func(when string) {
						var bs []byte
						var err error
						if p := ev.Catch(func() { bs, err = BC.MarshalToBytes(h.elems) }); p != "" || err != nil || !bytes.Equal(bs, base[hi]) {
							fail("writer-fault-disturbs-MarshalToBytes", "%s: MarshalToBytes(%s) = %x want %x panic=%q err=%v", when, h.name, bs, base[hi], p, err)
						}
						var got c23S3
						if p := ev.Catch(func() { _, err = BC.UnmarshalFromBytes(canaryBytes, &got) }); p != "" || err != nil || got.A != 7 || string(got.B) != "hello" || got.C != nil {
							fail("writer-fault-disturbs-UnmarshalFromBytes", "%s: decoded %+v panic=%q err=%v", when, got, p, err)
						}
					}
					// 1. the failing encoder
					fw := &c23FailWriter{k: k}
					e1 := RLP.NewEncoder(fw)
					var err1 error
					if p := ev.Catch(func() { err1 = e1.Encode(v.v) }); p != "" {
						fail("failing-writer:Encode-panics", "%s", p)
					}
					// 2. healthy work before the failed encoder is closed, incl. a half-built list
					healthy("before Close of the failed encoder")
					var buf bytes.Buffer
					e2 := RLP.NewEncoder(&buf)
					var l2 Encoder
					var err2 error
					if p := ev.Catch(func() {
						l2, err2 = e2.EncodeList()
						for _, x := range h.elems[:split] {
							if err2 == nil {
								err2 = l2.Encode(x)
							}
						}
					}); p != "" || err2 != nil {
						fail("writer-fault-disturbs-streaming-encoder", "first part: panic=%q err=%v", p, err2)
					}
					// 3. close the failed encoder, twice (a deferred Close after an explicit one)
					var errC error
					for i := 0; i < 2; i++ {
						if p := ev.Catch(func() { errC = e1.Close() }); p != "" {
							fail("failing-writer:Close-panics", "Close #%d: %s", i+1, p)
						}
						if i == 0 && k <= cw.n && err1 == nil && errC == nil {
							fail("failing-writer:error-not-reported", "neither Encode nor Close returned an error")
						}
					}
					// 4. the healthy encoder goes on
					if p := ev.Catch(func() {
						for _, x := range h.elems[split:] {
							if err2 == nil {
								err2 = l2.Encode(x)
							}
						}
						if err2 == nil {
							err2 = e2.Close()
						}
					}); p != "" || err2 != nil {
						fail("writer-fault-disturbs-streaming-encoder", "second part: panic=%q err=%v", p, err2)
					} else if !bytes.Equal(buf.Bytes(), base[hi]) {
						fail("writer-fault-disturbs-streaming-encoder", "healthy encoder wrote %x want %x", buf.Bytes(), base[hi])
					}
					healthy("after Close of the failed encoder")
				}
			}
		}
	}
	return
}

// ---- batching ----

type c23Batch struct {
	buf []func()
}

func (b *c23Batch) add(f func()) {
	b.buf = append(b.buf, f)
	if len(b.buf) >= 1<<16 {
		b.flush()
	}
}

func (b *c23Batch) flush() {
	buf := b.buf
	ev.Par(len(buf), 16, func(i int) { buf[i]() })
	b.buf = b.buf[:0]
}

// ---- length-field family ----

func c23SizeBytes(v uint64, n int) []byte {
	out := make([]byte, n)
	for i := n - 1; i >= 0; i-- {
		out[i] = byte(v)
		v >>= 8
	}
	return out
}

func c23LengthFamily() [][]byte {
	claims := []uint64{0, 1, 2, 55, 56, 57, 255, 256, 1000, 65535, 65536, 999999, 1000000, 1000001, 1 << 21, 1<<63 - 1, 1 << 63, 1<<64 - 1}
	var out [][]byte
	seen := map[string]bool{}
	add := func(b []byte) {
		if !seen[string(b)] {
			seen[string(b)] = true
			out = append(out, b)
		}
	}
	for _, base := range []int{0xb7, 0xf7} {
		for ll := 1; ll <= 8; ll++ {
			for _, claim := range claims {
				if ll < 8 && claim >= 1<<(8*uint(ll)) {
					continue
				}
				hdr := append([]byte{byte(base + ll)}, c23SizeBytes(claim, ll)...)
				// header cut short, no payload, one byte, claim-1 bytes, exactly claim bytes, claim+1 bytes
				for cut := 1; cut < len(hdr); cut++ {
					add(append([]byte{}, hdr[:cut]...))
				}
				for _, fill := range []byte{0x00, 0x01, 0x80, 0xc0} {
					for _, n := range []int64{0, 1, int64(claim) - 1, int64(claim), int64(claim) + 1} {
						if n < 0 || n > 2048 {
							continue
						}
						add(append(append([]byte{}, hdr...), bytes.Repeat([]byte{fill}, int(n))...))
					}
				}
			}
		}
	}
	// the same headers nested once inside a list / as a struct field
	n := len(out)
	for i := 0; i < n; i++ {
		in := out[i]
		if len(in) <= 50 {
			add(append([]byte{byte(0xc0 + len(in))}, in...))
			add(append([]byte{byte(0xc0 + len(in) + 1), 0x01}, in...))
		}
	}
	return out
}

// c23NestedFamily: two and three nested long-form headers, each claiming a size
// from a boundary set (independently of the other), followed by 0/1/5 bytes.
// depth 2: list header { bytes header | list header } ; depth 3: list { list { bytes } }.
func c23NestedFamily() [][]byte {
	claims := []uint64{56, 256, 65536, 1000000, 1000001, 1 << 21, 1<<63 - 1, 1 << 63, 1<<64 - 1}
	minLL := func(v uint64) int {
		n := 1
		for x := v >> 8; x > 0; x >>= 8 {
			n++
		}
		return n
	}
	hdr := func(base byte, claim uint64, ll int) []byte {
		return append([]byte{base + byte(ll)}, c23SizeBytes(claim, ll)...)
	}
	var out [][]byte
	seen := map[string]bool{}
	add := func(parts ...[]byte) {
		var b []byte
		for _, p := range parts {
			b = append(b, p...)
		}
		if !seen[string(b)] {
			seen[string(b)] = true
			out = append(out, b)
		}
	}
	tails := [][]byte{{}, {0x01}, []byte("hello")}
	for _, oc := range claims {
		for _, ic := range claims {
			for _, oll := range []int{minLL(oc), 8} {
				for _, ill := range []int{minLL(ic), 8} {
					for _, ibase := range []byte{0xb7, 0xf7} {
						for _, tl := range tails {
							add(hdr(0xf7, oc, oll), hdr(ibase, ic, ill), tl)
							// a well-formed first element before the oversized one
							add(hdr(0xf7, oc, oll), []byte{0x01}, hdr(ibase, ic, ill), tl)
						}
					}
				}
			}
			for _, mc := range claims {
				for _, tl := range [][]byte{{}, []byte("hello")} {
					add(hdr(0xf7, oc, minLL(oc)), hdr(0xf7, mc, minLL(mc)), hdr(0xb7, ic, minLL(ic)), tl)
				}
			}
		}
	}
	return out
}

// c23IntFamily: byte strings of length 0..9 at the integer width boundaries,
// wrapped as an RLP byte string.
func c23IntFamily() [][]byte {
	var out [][]byte
	seen := map[string]bool{}
	firsts := []byte{0x00, 0x01, 0x7f, 0x80, 0x81, 0xfe, 0xff}
	fills := []byte{0x00, 0xff, 0x5a}
	lasts := []byte{0x00, 0x01, 0x7f, 0x80, 0xff}
	add := func(p []byte) {
		var b []byte
		if len(p) == 1 && p[0] < 0x80 {
			b = []byte{p[0]}
		} else {
			b = append([]byte{byte(0x80 + len(p))}, p...)
		}
		if !seen[string(b)] {
			seen[string(b)] = true
			out = append(out, b)
		}
	}
	add(nil)
	for n := 1; n <= 9; n++ {
		for _, f := range firsts {
			for _, m := range fills {
				for _, l := range lasts {
					p := bytes.Repeat([]byte{m}, n)
					p[n-1] = l
					p[0] = f
					add(p)
					if n >= 3 { // second byte carries the sign of the shorter form
						for _, s := range []byte{0x00, 0x7f, 0x80, 0xff} {
							q := append([]byte{}, p...)
							q[1] = s
							add(q)
						}
					}
				}
			}
		}
	}
	out = append(out, []byte{0xf8, 0x00}, []byte{0xc0}, []byte{0xc1, 0x01})
	return out
}

// ===========================================================================

func TestVerifC23(t *testing.T) {
	r := ev.Start(t, "C23", "exploration")
	r.Rule("(A) round trip: typed value grammar built with reflect — leaves: int8/16/32/64/int, uint8/16/32/64/uint at every byte-length boundary, bool, string and []byte of length {0,1,2,55,56,255,256} incl. single bytes 00/7f/80/ff and nil []byte, [4]byte, [1]byte, *big.Int (nil,0,±1,±127..129,±2^64,±2^255) and big.Int fields; constructors {pointer, slice, [2]array, map[string], 1-field struct} applied to every leaf with all leaf values (depth 1), constructor∘constructor over every leaf with representative values (depth 2), a third constructor over depth-2 shapes (quick every 4th shape, thorough all; pairwise values), integer-keyed maps, every ordered pair of leaf types as a 2-field struct, 3-field structs over 7 leaf types, 2-field structs of depth-1 shapes. (B) decoder robustness: every byte string of length<=2 (+ 3-byte strings: quick first byte {b8,c3,f7,f8} x 17 boundary second bytes x all third bytes, thorough 15 boundary first bytes x all 65536 tails) into 24 target types and UnmarshalAny; every single-byte substitution (24 boundary values; thorough all 256 values for encodings of at most 10 bytes) and truncation of valid encodings of at most 24 (thorough 32) bytes into their own type; every structural mutation of those encodings (one sub-item replaced by the nil marker / empty list / empty bytes / 00, deleted, or duplicated); length-field family (b8..bf / f8..ff headers x 18 claimed sizes x payload lengths {0,1,claim-1,claim,claim+1} x 4 fills, also nested in a list); nested length-field family (a long-form list header around a long-form bytes or list header, and list{list{bytes}}, every combination of 9 claimed sizes per header from 56 to 2^64-1 in minimal and 8-byte form, with 0/1/5 trailing bytes, optionally after one well-formed element) into every target, plus a sequential per-case allocation measurement of both families through UnmarshalFromBytes (bound O(input)) and through the stream decoder (bound MaxSizeForBytes); integer family (byte strings of length 0..9 at the sign/width boundaries) into every integer type and bool. (B') pool hygiene, sequential on one P: after every accepted input of the structural, length-field, nested length-field and <=2-byte families (list-reading targets) the pooled BC.UnmarshalFromBytes must still decode an unrelated valid message. (B'') encoder pool hygiene, sequential on one P: every failing marshal shape (12 unencodable things — chan, func, float, complex, custom RLPEncodeSelf failing before / after 0..2 list elements or panicking, failing MarshalRLP / MarshalBinary, map with float key — at top level and nested at depth 1..3 in every slice/struct/map nesting after 0..2 well-formed elements) followed directly, or with a failing decode before / in between, by BC.MarshalToBytes of 7 well-formed values twice: the bytes must equal those of a brand-new unpooled encoder and decode back. (W) destination-writer faults, pinned goroutine: a streaming encoder (RLP.NewEncoder) over a writer that fails its k-th Write, every k up to one past the number of writes, for 8 values (list, struct elements, map elements, nested lists, 56-byte bytes, struct, bytes, map): the error must be reported; a healthy streaming encoder builds each of 5 element lists with every split point before/after the failed encoder is closed (twice), and MarshalToBytes / UnmarshalFromBytes run before and after: all results must equal the clean baseline, no panic. (H) history family on one pinned goroutine (single P, collector off inside a history): every ordered pair (thorough: all mutations instead of a stated subset, and triples over every 40th call) of calls from an alphabet of pooled BC calls — valid marshals and unmarshals of 12 value shapes and 5 typed objects, every truncation and every structural mutation of their encodings (cuts inside inner typed objects included) into their own type / TypedObj / UnmarshalAny, samples of the length-field, nested length-field and nil-marker families, failing marshals — the last result must equal the result of the same call on a fresh, never pooled encoder/decoder. The sequential decoder-hygiene phase also follows REJECTED inputs with the canary and covers every structural mutation of typed-object encodings. (C) map determinism: every insertion order of up to 4 (thorough 6) keys. distinct_nontrivial = distinct (type, encoding) resp. (target, input) pairs")
	r.Assume("a pointer to a nil slice/map/pointer has the same encoding (f8 00) as a nil pointer: the format cannot keep them apart, the decoder returns the former, and the comparison treats the two as one value",
		"interface-typed fields and ordered TypedDict.Keys are encode-only resp. order-preserving by design and are not compared structurally (typed objects are compared through UnmarshalAny)",
		"the independent RLP reader in the harness (with goloop's f8 00 = nil extension) is trusted for sizes and structure")
	e := &c23Env{r: r, errKinds: map[string]int64{}}
	targets := c23Targets()
	tgByName := map[string]c23Target{}
	for _, tg := range targets {
		tgByName[tg.name] = tg
	}

	if ev.Replaying() {
		var c c23Case
		ev.ReplayCase(&c)
		in, _ := hex.DecodeString(c.Hex)
		switch c.Phase {
		case "roundtrip":
			var idx int64
			for _, th := range []bool{false, true} {
				idx = 0
				found := false
				c23Grammar(th, func(f string, t reflect.Type, v reflect.Value) {
					if idx == c.Index && strings.HasPrefix(c.Note, f+" ") && strings.HasSuffix(c.Note, c23TypeName(t)) {
						e.roundtrip(f, t, v, idx)
						found = true
					}
					idx++
				})
				if found {
					break
				}
			}
		case "decode":
			if tg, ok := tgByName[c.Target]; ok && c.Note == "alloc" {
				out := reflect.New(tg.t)
				var ms0, ms1 runtime.MemStats
				ev.Catch(func() {
					BC.UnmarshalFromBytes(in, out.Interface())
					runtime.ReadMemStats(&ms0)
					BC.UnmarshalFromBytes(in, out.Interface())
					runtime.ReadMemStats(&ms1)
				})
				r.Eval(1)
				if d := ms1.TotalAlloc - ms0.TotalAlloc; d > uint64(16384+256*len(in)) {
					r.Violation("allocation-beyond-input:"+tg.name+":"+c23HeaderClass(in), fmt.Sprintf("allocated %d bytes for %d input bytes", d, len(in)), c)
				}
			} else if ok {
				e.decode(tg, in, c.Note)
			} else {
				// mutation family: the target is a grammar type, found by name
				done := false
				c23Grammar(true, func(f string, t reflect.Type, v reflect.Value) {
					if !done && c23TypeName(t) == c.Target {
						done = true
						e.decode(c23Target{c.Target, t}, in, c.Note)
					}
				})
			}
		case "hygiene":
			prev := runtime.GOMAXPROCS(1)
			find := func() (c23Target, bool) {
				if tg, ok := tgByName[c.Target]; ok {
					return tg, true
				}
				var res c23Target
				ok := false
				c23Grammar(true, func(f string, t reflect.Type, v reflect.Value) {
					if !ok && c23TypeName(t) == c.Target {
						ok, res = true, c23Target{c.Target, t}
					}
				})
				return res, ok
			}
			if tg, ok := find(); ok {
				canary := &c23S3{A: 7, B: []byte("hello")}
				cb, _ := BC.MarshalToBytes(canary)
				out := reflect.New(tg.t)
				if _, err := BC.UnmarshalFromBytes(in, out.Interface()); err == nil {
					var got c23S3
					if _, err := BC.UnmarshalFromBytes(cb, &got); err != nil || got.A != 7 || string(got.B) != "hello" {
						sig := "pooled-decoder-poisoned:" + tg.name
						if n, _, st := c23Parse(in); (st == c23OK || st == c23BadKids) && c23NilInStructField(tg.t, n) {
							sig = "pooled-decoder-poisoned:nil-marker-in-struct-field"
						}
						r.Violation(sig, fmt.Sprintf("input=%x target=%s next decode: %+v err=%v", in, tg.name, got, err), c)
					}
				}
				r.Eval(1)
			}
			runtime.GOMAXPROCS(prev)
		case "history":
			calls := c23HistoryCalls(true)
			byName := map[string]int{}
			for i, cl := range calls {
				byName[cl.Name] = i
			}
			var idx []int
			for _, n := range c.History {
				idx = append(idx, byName[n])
			}
			restore := hist.Pin()
			got := hist.Sequence(calls, idx)
			restore()
			r.Eval(1)
			if got != c.Expected {
				r.Violation("result-depends-on-history:replay", fmt.Sprintf("history %v: last call returned %s, expected %s", c.History, got, c.Expected), c)
			}
		case "wfault":
			restore := hist.Pin()
			e.writerFaults(int(c.Index))
			restore()
		case "enchyg":
			prev := runtime.GOMAXPROCS(1)
			e.encoderHygiene(int(c.Index))
			runtime.GOMAXPROCS(prev)
		case "stream":
			if tg, ok := tgByName[c.Target]; ok {
				out := reflect.New(tg.t)
				var ms0, ms1 runtime.MemStats
				var err error
				p := ev.Catch(func() {
					runtime.ReadMemStats(&ms0)
					err = BC.NewDecoder(bytes.NewReader(in)).Decode(out.Interface())
					runtime.ReadMemStats(&ms1)
				})
				r.Eval(1)
				if p != "" {
					r.Violation("stream-decode-panics:"+tg.name+":"+c23HeaderClass(in), p, c)
				} else if d := ms1.TotalAlloc - ms0.TotalAlloc; d > uint64(MaxSizeForBytes+65536+256*len(in)) {
					r.Violation("stream-allocation-beyond-limit:"+tg.name+":"+c23HeaderClass(in), fmt.Sprintf("allocated %d err=%v", d, err), c)
				}
			}
		case "any":
			e.decodeAny(in, c.Note)
		case "anyvalue":
			vals := c23AnyValues(2)
			if int(c.Index) < len(vals) {
				e.anyRoundtrip(vals[c.Index], c.Index)
			}
		}
		r.Finish(false)
		return
	}

	phaseStart := time.Now()
	phase := func(name string) {
		r.Set("wall_s_"+name, float64(int(time.Since(phaseStart).Seconds()*10))/10)
		phaseStart = time.Now()
	}
	exhaustive := true
	expired := func() bool {
		if r.Expired() {
			exhaustive = false
			return true
		}
		return false
	}
	b := &c23Batch{}

	// ---- (A) round trip ----
	type enc struct {
		t reflect.Type
		b []byte
	}
	var bases []enc // valid encodings used as mutation seeds
	baseSeen := map[string]bool{}
	maxSeed := r.Pick(24, 32)
	families := map[string]int{}
	types := map[reflect.Type]bool{}
	var idx int64
	c23Grammar(r.Thorough(), func(f string, t reflect.Type, v reflect.Value) {
		i := idx
		idx++
		families[f]++
		types[t] = true
		b.add(func() { e.roundtrip(f, t, v, i) })
		if strings.HasPrefix(f, "leaf") || strings.HasPrefix(f, "depth1") || f == "struct2" || (r.Thorough() && strings.HasPrefix(f, "depth2") && i%4 == 0) {
			p := reflect.New(t)
			p.Elem().Set(v)
			if bs, err := BC.MarshalToBytes(p.Interface()); err == nil && len(bs) <= maxSeed {
				k := t.String() + "|" + string(bs)
				if !baseSeen[k] && (f != "struct2" || len(bases)%7 == 0 || r.Thorough()) {
					baseSeen[k] = true
					bases = append(bases, enc{t, bs})
				} else {
					baseSeen[k] = true
				}
			}
		}
	})
	b.flush()
	r.Set("roundtrip_values", idx)
	r.Set("roundtrip_types", len(types))
	var fam []string
	for k, n := range families {
		fam = append(fam, fmt.Sprintf("%s=%d", k, n))
	}
	sort.Strings(fam)
	r.Set("roundtrip_families", fam)

	// typed objects
	anyVals := c23AnyValues(r.Pick(2, 3))
	for i, x := range anyVals {
		i, x := int64(i), x
		b.add(func() { e.anyRoundtrip(x, i) })
	}
	b.flush()
	r.Set("typed_object_values", len(anyVals))

	phase("roundtrip")
	// ---- (C) map insertion orders ----
	maxKeys := r.Pick(4, 6)
	allKeys := []string{"", "a", "ab", "b", "\x80", "aa"}
	orders := 0
	for n := 2; n <= maxKeys; n++ {
		var ref, refInt []byte
		opseq.Permutations(n, func(p []int) bool {
			m := map[string]int{}
			mi := map[int16][]byte{}
			ma := map[string]interface{}{}
			for _, i := range p {
				m[allKeys[i]] = i
				mi[int16(i*100-200)] = []byte{byte(i)}
				ma[allKeys[i]] = allKeys[i]
			}
			r.Eval(1)
			orders++
			bs, err := BC.MarshalToBytes(m)
			bi, err2 := BC.MarshalToBytes(mi)
			if ref == nil {
				ref, refInt = bs, bi
			}
			if err != nil || err2 != nil || !bytes.Equal(bs, ref) || !bytes.Equal(bi, refInt) {
				r.Violation("map-encoding-depends-on-insertion-order", fmt.Sprintf("order=%v %x vs %x / %x vs %x", p, bs, ref, bi, refInt), c23Case{Phase: "maporder", Note: fmt.Sprint(p)})
			}
			r.Nontrivial(fmt.Sprintf("maporder|%d|%v", n, p))
			return true
		})
	}
	r.Set("map_insertion_orders", orders)

	// ---- (B) decoder robustness ----
	nDec := int64(0)
	addDecode := func(tg c23Target, in []byte, family string) {
		nDec++
		b.add(func() { e.decode(tg, in, family) })
	}
	addAll := func(in []byte, family string) {
		for _, tg := range targets {
			addDecode(tg, in, family)
		}
		nDec++
		b.add(func() { e.decodeAny(in, family) })
	}
	// B1 all short inputs
	addAll([]byte{}, "short")
	for x := 0; x < 256; x++ {
		addAll([]byte{byte(x)}, "short")
		for y := 0; y < 256; y++ {
			addAll([]byte{byte(x), byte(y)}, "short")
		}
	}
	// B2 length fields
	lf := c23LengthFamily()
	for _, in := range lf {
		addAll(in, "length-field")
	}
	r.Set("length_field_inputs", len(lf))
	// B2b nested length fields (two / three oversized headers inside each other)
	nested := c23NestedFamily()
	for _, in := range nested {
		addAll(in, "nested-length-field")
	}
	r.Set("nested_length_field_inputs", len(nested))
	// B3 integers
	intf := c23IntFamily()
	for _, in := range intf {
		for _, tg := range targets {
			if _, _, ok := c23Range(tg.t); ok {
				addDecode(tg, in, "integer")
			}
		}
	}
	r.Set("integer_inputs", len(intf))
	// B4 mutations of valid encodings into their own type
	subst := []byte{0x00, 0x01, 0x7f, 0x80, 0x81, 0x82, 0xb7, 0xb8, 0xb9, 0xbf, 0xc0, 0xc1, 0xc2, 0xf7, 0xf8, 0xf9, 0xff}
	muts := 0
	for _, bs := range bases {
		if expired() {
			break
		}
		tg := c23Target{c23TypeName(bs.t), bs.t}
		for cut := 0; cut < len(bs.b); cut++ {
			addDecode(tg, append([]byte{}, bs.b[:cut]...), "truncation")
			muts++
		}
		for pos := 0; pos < len(bs.b); pos++ {
			put := func(v byte) {
				if v == bs.b[pos] {
					return
				}
				m := append([]byte{}, bs.b...)
				m[pos] = v
				addDecode(tg, m, "substitution")
				muts++
			}
			if r.Thorough() && len(bs.b) <= 10 {
				for v := 0; v < 256; v++ {
					put(byte(v))
				}
			} else {
				for _, v := range subst {
					put(v)
				}
				for _, d := range []int{-2, -1, 1, 2, 8, 0x40, 0x80} {
					put(bs.b[pos] + byte(d))
				}
			}
		}
	}
	r.Set("mutation_seeds", len(bases))
	r.Set("mutated_inputs", muts)
	// B4b structural mutations: every sub-item of every seed replaced by the nil
	// marker / empty list / empty bytes / 00, deleted, or duplicated
	type hygCase struct {
		tg c23Target
		in []byte
	}
	var hyg []hygCase
	structural := 0
	structKinds := map[string]int{}
	for _, bs := range bases {
		tg := c23Target{c23TypeName(bs.t), bs.t}
		n, _, st := c23Parse(bs.b)
		if st != c23OK {
			continue
		}
		seen := map[string]bool{string(bs.b): true}
		c23Structural(n, func(kind string, m c23Node) {
			in := c23Ser(m)
			if seen[string(in)] {
				return
			}
			seen[string(in)] = true
			structural++
			structKinds[kind]++
			addDecode(tg, in, "structural-"+kind)
			hyg = append(hyg, hygCase{tg, in})
		})
	}
	r.Set("structural_mutations", structural)
	r.Set("structural_mutation_kinds", fmt.Sprint(structKinds))
	// B5 3-byte inputs. thorough: every boundary first byte x all 65536 tails;
	// quick: first byte in {b8,c3,f7,f8} x 17 boundary second bytes x all third bytes
	{
		firsts := []byte{0xb8, 0xc3, 0xf7, 0xf8}
		if r.Thorough() {
			firsts = []byte{0x7f, 0x80, 0x81, 0xb7, 0xb8, 0xb9, 0xbf, 0xc0, 0xc1, 0xc2, 0xc3, 0xf7, 0xf8, 0xf9, 0xff}
		}
		second := map[byte]bool{}
		for _, v := range subst {
			second[v] = true
		}
		for _, x := range firsts {
			if expired() {
				break
			}
			for y := 0; y < 256; y++ {
				if !r.Thorough() && !second[byte(y)] {
					continue
				}
				for z := 0; z < 256; z++ {
					in := []byte{x, byte(y), byte(z)}
					nDec += int64(len(targets)) + 1
					b.add(func() {
						r.Nontrivial("short3|" + string(in))
						for _, tg := range targets {
							e.decode(tg, in, "short3")
						}
						e.decodeAny(in, "short3")
					})
				}
			}
		}
	}
	b.flush()
	r.Set("decoder_inputs", nDec)
	r.Set("decodes_accepted", e.okDec)
	r.Set("decodes_rejected", e.errDec)
	r.Set("inputs_with_size_beyond_input", e.beyondSeen)

	phase("decoder_parallel")
	// ---- pool hygiene (sequential, one P so that sync.Pool hands back the decoder
	// that was just returned): an input accepted by BC.UnmarshalFromBytes must not
	// change the outcome of the next, unrelated call ----
	{
		prev := runtime.GOMAXPROCS(1)
		canary := &c23S3{A: 7, B: []byte("hello")}
		canaryBytes, _ := BC.MarshalToBytes(canary)
		run := func(tg c23Target, in []byte, family string) {
			out := reflect.New(tg.t)
			var err error
			if p := ev.Catch(func() { _, err = BC.UnmarshalFromBytes(in, out.Interface()) }); p != "" {
				return // panics are reported by the parallel phase
			}
			// the canary follows rejected inputs as well: whether a failed call returns
			// its decoder to the pool is an implementation choice, the next result must not depend on it
			outcome := "returned nil error"
			if err != nil {
				outcome = "was rejected (" + err.Error() + ")"
			}
			r.Eval(1)
			e.canaries++
			var got c23S3
			_, err = BC.UnmarshalFromBytes(canaryBytes, &got)
			if err != nil || got.A != canary.A || !bytes.Equal(got.B, canary.B) || got.C != nil {
				sig := "pooled-decoder-poisoned:" + tg.name
				if n, _, st := c23Parse(in); (st == c23OK || st == c23BadKids) && c23NilInStructField(tg.t, n) {
					sig = "pooled-decoder-poisoned:nil-marker-in-struct-field"
				}
				r.Violation(sig, fmt.Sprintf("after BC.UnmarshalFromBytes(%s) into %s %s, the next call BC.UnmarshalFromBytes(%x) of an unrelated valid message gave %+v err=%v", c23Hex(in), tg.name, outcome, canaryBytes, got, err),
					c23Case{Phase: "hygiene", Target: tg.name, Hex: hex.EncodeToString(in), Note: family})
				BC.UnmarshalFromBytes(canaryBytes, &got) // make sure a clean decoder is back in the pool
			}
		}
		for _, h := range hyg {
			run(h.tg, h.in, "structural")
		}
		// typed objects: every structural mutation of the encodings of the nested
		// typed values (cuts inside an inner typed object included)
		typedTg := tgByName["TypedObj"]
		nTyped := 0
		for _, x := range c23AnyValues(2) {
			bs, err := MarshalAny(c23Fresh, c23TC{}, x)
			if err != nil || len(bs) > 48 {
				continue
			}
			n, _, st := c23Parse(bs)
			if st != c23OK {
				continue
			}
			c23Structural(n, func(kind string, m c23Node) {
				nTyped++
				run(typedTg, c23Ser(m), "typed-structural-"+kind)
			})
		}
		r.Set("typed_structural_mutations", nTyped)
		// only targets that open a list reader can leave one behind
		var listTargets []c23Target
		for _, tg := range targets {
			switch tg.t.Kind() {
			case reflect.Struct, reflect.Slice, reflect.Map, reflect.Ptr, reflect.Array:
				if tg.t != reflect.TypeOf([]byte(nil)) && tg.t != reflect.TypeOf([4]byte{}) && tg.t != reflect.TypeOf((*big.Int)(nil)) {
					listTargets = append(listTargets, tg)
				}
			}
		}
		for _, in := range lf {
			for _, tg := range listTargets {
				run(tg, in, "length-field")
			}
		}
		for _, in := range nested {
			for _, tg := range listTargets {
				run(tg, in, "nested-length-field")
			}
		}
		for x := 0; x < 256; x++ {
			for y := 0; y < 256; y++ {
				for _, tg := range listTargets {
					run(tg, []byte{byte(x), byte(y)}, "short")
				}
			}
		}
		runtime.GOMAXPROCS(prev)
		r.Set("pool_hygiene_canaries", e.canaries)
		r.Sanity(e.canaries > 1000, "too few accepted inputs followed by a canary decode (%d)", e.canaries)
		// encoder pool hygiene (same single-P regime)
		prev = runtime.GOMAXPROCS(1)
		encCases, encFailed := e.encoderHygiene(-1)
		runtime.GOMAXPROCS(prev)
		r.Set("encoder_hygiene_cases", encCases)
		r.Set("encoder_hygiene_failing_marshals", encFailed)
		r.Sanity(encCases > 1000 && encFailed*10 > encCases*9, "encoder hygiene: %d cases, only %d failing marshals", encCases, encFailed)
		// destination-writer faults of streaming encoders
		{
			restore := hist.Pin()
			wf := e.writerFaults(-1)
			restore()
			r.Set("writer_fault_cases", wf)
			r.Sanity(wf > 200, "too few writer-fault cases (%d)", wf)
		}
		// history family
		if _, complete := e.history(); !complete {
			exhaustive = false
		}
	}

	phase("pool_hygiene")
	// ---- allocation bound (sequential: TotalAlloc is process-wide) ----
	allocChecked := 0
	var ms0, ms1 runtime.MemStats
	allocInputs := append(append([][]byte{}, lf...), nested...)
	for ai, in := range allocInputs {
		isNested := ai >= len(lf)
		// ReadMemStats stops the world, so this phase is kept small: short inputs
		// only, and of the nested family only the minimally encoded outer headers
		// (the padded forms are covered by the parallel phase for panics/acceptance)
		if len(in) > 32 || (isNested && in[0] == 0xff && in[1] == 0x00) {
			continue
		}
		allocTargets := []string{"[]byte", "*big.Int", "struct{int16;[]byte;*string}", "[][]byte"}
		if isNested {
			allocTargets = []string{"struct{int16;[]byte;*string}", "[][]byte", "[]int16", "map[string]uint8"}
		}
		for _, name := range allocTargets {
			tg := tgByName[name]
			out := reflect.New(tg.t)
			var err error
			if p := ev.Catch(func() {
				BC.UnmarshalFromBytes(in, out.Interface()) // warm the pools
				runtime.ReadMemStats(&ms0)
				_, err = BC.UnmarshalFromBytes(in, out.Interface())
				runtime.ReadMemStats(&ms1)
			}); p != "" {
				continue // panics are reported by the parallel phase
			}
			r.Eval(1)
			allocChecked++
			bound := uint64(16384 + 256*len(in))
			if d := ms1.TotalAlloc - ms0.TotalAlloc; d > bound {
				r.Violation("allocation-beyond-input:"+name+":"+c23HeaderClass(in), fmt.Sprintf("input=%s (%d bytes) made UnmarshalFromBytes allocate %d bytes (bound %d), err=%v", c23Hex(in), len(in), d, bound, err), c23Case{Phase: "decode", Target: name, Hex: hex.EncodeToString(in), Note: "alloc"})
			}
		}
		// the stream decoder documents a 1 MB limit for byte strings (MaxSizeForBytes)
		for _, name := range []string{"[][]byte"} {
			if !isNested && len(in) > 16 {
				continue
			}
			tg := tgByName[name]
			out := reflect.New(tg.t)
			var err error
			p := ev.Catch(func() {
				runtime.ReadMemStats(&ms0)
				err = BC.NewDecoder(bytes.NewReader(in)).Decode(out.Interface())
				runtime.ReadMemStats(&ms1)
			})
			r.Eval(1)
			allocChecked++
			cs := c23Case{Phase: "stream", Target: name, Hex: hex.EncodeToString(in)}
			if p != "" {
				r.Violation("stream-decode-panics:"+name+":"+c23HeaderClass(in), fmt.Sprintf("input=%s panic=%s", c23Hex(in), p), cs)
				continue
			}
			bound := uint64(MaxSizeForBytes + 65536 + 256*len(in))
			if d := ms1.TotalAlloc - ms0.TotalAlloc; d > bound {
				r.Violation("stream-allocation-beyond-limit:"+name+":"+c23HeaderClass(in), fmt.Sprintf("input=%s (%d bytes) made the stream decoder allocate %d bytes (limit %d), err=%v", c23Hex(in), len(in), d, bound, err), cs)
			}
			if _, _, st := c23Parse(in); err == nil && (st == c23Beyond || st == c23Empty) {
				r.Violation("accepts-size-beyond-input:stream:"+name, fmt.Sprintf("input=%s", c23Hex(in)), cs)
			}
		}
	}
	r.Set("allocation_checks", allocChecked)
	phase("allocation")

	r.Sanity(e.okDec > 1000 && e.errDec > 1000, "decoder inputs must be both accepted and rejected (ok=%d err=%d)", e.okDec, e.errDec)
	r.Sanity(e.beyondSeen > 1000, "too few inputs whose size field points beyond the input (%d)", e.beyondSeen)
	r.Sanity(len(types) > 500, "too few distinct Go types in the grammar (%d)", len(types))
	r.Sanity(len(bases) > 200, "too few mutation seeds (%d)", len(bases))

	smp := func(x interface{}) {
		bs, _ := BC.MarshalToBytes(x)
		r.Sample(map[string]interface{}{"type": fmt.Sprintf("%T", x), "value": fmt.Sprintf("%+v", x), "encoding": fmt.Sprintf("%x", bs)})
	}
	smp(&c23S3{A: -129, B: nil})
	smp(&c23S3{A: 128, B: []byte{}})
	smp(&map[string][]int8{"b": {-1}, "": nil})
	r.Sample(map[string]interface{}{"decoder_input": "b90100" + "…0x100 bytes follow claimed, none given", "target": "[]byte", "expected": "error"})
	r.Sample(map[string]interface{}{"decoder_input": "820080", "target": "int8", "expected": "error (128 overflows int8)"})
	r.Finish(exhaustive)
}
