//go:build verif

package merkle_test

// C20 — state sync (merkle.Builder + trie Resolve) rebuilds exactly the trusted
// state and stores nothing that was not requested.
//
// For every source state (all small tries of a key universe, plus a world state
// with accounts / nested storage tries / contract code / validator list) an
// explicit-state search explores every way the requested data can arrive:
// state = set of delivered items (+ the outstanding requests the real builder
// reports); events = deliver item i of the source (which is, depending on the
// state, a requested datum, a datum delivered before, or genuine data that was
// not requested yet) and forged payloads. Every transition is executed on a
// fresh real builder by replaying the delivery history. For small sources every
// complete delivery ORDER is additionally enumerated without de-duplication.

import (
	"bytes"
	"encoding/hex"
	"errors"
	"fmt"
	"math/big"
	"reflect"
	"sort"
	"strings"
	"sync"
	"sync/atomic"
	"testing"
	"time"

	"github.com/icon-project/goloop/common"
	"github.com/icon-project/goloop/common/crypto"
	"github.com/icon-project/goloop/common/db"
	"github.com/icon-project/goloop/common/merkle"
	"github.com/icon-project/goloop/common/trie"
	"github.com/icon-project/goloop/common/trie/ompt"
	"github.com/icon-project/goloop/service/state"
	"github.com/icon-project/goloop/verifshim/ev"
	"github.com/icon-project/goloop/verifshim/pbfs"
)

var c20AllKeys = []string{"", "\x00", "\x01", "\x10", "\x00\x11", "\x00\x12", "\x00\x11\x22", "\x00\x11\x22\x33", "\xff"}
var c20AllVals = []string{strings.Repeat("L", 40), "x", strings.Repeat("M", 40)}

// ---- recording databases ----

type c20Write struct {
	bucket   db.BucketID
	key, val string
	del      bool
}

type c20RecDB struct {
	inner  db.Database
	mu     sync.Mutex
	writes []c20Write
	// one-shot environment fault, armed only for the duration of one OnData:
	// the failSetIn-th Set / the failGetIn-th Get on the bytes-by-hash bucket fails
	failSetIn, failGetIn int
	fired                bool
}

var c20ErrInjected = errors.New("injected transient store error")

type c20RecBucket struct {
	d     *c20RecDB
	id    db.BucketID
	inner db.Bucket
}

func (d *c20RecDB) GetBucket(id db.BucketID) (db.Bucket, error) {
	bk, err := d.inner.GetBucket(id)
	if err != nil {
		return nil, err
	}
	return &c20RecBucket{d, id, bk}, nil
}
func (d *c20RecDB) Close() error { return nil }
func (b *c20RecBucket) Get(k []byte) ([]byte, error) {
	if b.d.failGetIn > 0 && b.id == db.BytesByHash {
		b.d.failGetIn--
		if b.d.failGetIn == 0 {
			b.d.fired = true
			return nil, c20ErrInjected
		}
	}
	return b.inner.Get(k)
}
func (b *c20RecBucket) Has(k []byte) (bool, error) { return b.inner.Has(k) }
func (b *c20RecBucket) Set(k, v []byte) error {
	if b.d.failSetIn > 0 {
		b.d.failSetIn--
		if b.d.failSetIn == 0 {
			b.d.fired = true
			return c20ErrInjected
		}
	}
	b.d.mu.Lock()
	b.d.writes = append(b.d.writes, c20Write{b.id, string(k), string(v), false})
	b.d.mu.Unlock()
	return b.inner.Set(k, v)
}
func (b *c20RecBucket) Delete(k []byte) error {
	b.d.mu.Lock()
	b.d.writes = append(b.d.writes, c20Write{b.id, string(k), "", true})
	b.d.mu.Unlock()
	return b.inner.Delete(k)
}

// c20RecLayer is the database handed to the builder: a real LayerDB over the
// target store, with every write the builder makes recorded.
type c20RecLayer struct {
	c20RecDB
	layer db.LayerDB
}

func (l *c20RecLayer) Flush(write bool) error { return l.layer.Flush(write) }
func (l *c20RecLayer) Unwrap() db.Database    { return l.layer.Unwrap() }

// ---- sources ----

type c20Item struct {
	bucket   db.BucketID
	key, val string
}

type c20KV struct {
	K string `json:"k_hex"`
	V string `json:"v"`
}

type c20Source struct {
	name   string
	world  bool
	kvs    []c20KV // bytes-trie sources: the map (keys hex)
	root   []byte  // trie root / world state hash
	vhash  []byte  // world: validator list hash
	items  []c20Item
	byKey  map[string][]int // hash -> items (one per bucket the source holds it in)
	start  func(b merkle.Builder) (interface{}, error)
	verify func(target db.Database) string
}

func c20Collect(rec *c20RecDB) []c20Item {
	seen := map[string]bool{}
	var items []c20Item
	for _, w := range rec.writes {
		id := string(w.bucket) + "/" + w.key
		if w.del || seen[id] {
			continue
		}
		seen[id] = true
		items = append(items, c20Item{w.bucket, w.key, w.val})
	}
	sort.Slice(items, func(i, j int) bool {
		if items[i].key != items[j].key {
			return items[i].key < items[j].key
		}
		return items[i].bucket < items[j].bucket
	})
	return items
}

func (s *c20Source) index() {
	s.byKey = map[string][]int{}
	for i, it := range s.items {
		s.byKey[it.key] = append(s.byKey[it.key], i)
	}
}

// find returns the index of the item (bucket, key) or -1.
func (s *c20Source) find(bucket db.BucketID, key string) int {
	for _, i := range s.byKey[key] {
		if s.items[i].bucket == bucket {
			return i
		}
	}
	return -1
}

// sharedHashes: hashes the source holds in more than one bucket.
func (s *c20Source) sharedHashes() int {
	n := 0
	for _, is := range s.byKey {
		if len(is) > 1 {
			n++
		}
	}
	return n
}

func c20TrieSource(kvs []c20KV) *c20Source {
	rec := &c20RecDB{inner: db.NewMapDB()}
	mu := ompt.NewMutable(rec, nil)
	model := map[string]string{}
	var names []string
	for _, kv := range kvs {
		k, _ := hex.DecodeString(kv.K)
		mu.Set(k, []byte(kv.V))
		model[string(k)] = kv.V
		names = append(names, fmt.Sprintf("%s=%s*%d", kv.K, kv.V[:1], len(kv.V)))
	}
	sn := mu.GetSnapshot()
	sn.Flush()
	s := &c20Source{name: "trie{" + strings.Join(names, " ") + "}", kvs: kvs, root: sn.Hash(), items: c20Collect(rec)}
	s.index()
	s.start = func(b merkle.Builder) (interface{}, error) {
		im := ompt.NewImmutable(b.Database(), s.root)
		im.Resolve(b)
		return im, nil
	}
	s.verify = func(target db.Database) string {
		im := ompt.NewImmutable(target, s.root)
		if !bytes.Equal(im.Hash(), s.root) {
			return fmt.Sprintf("root %x != trusted %x", im.Hash(), s.root)
		}
		got := map[string]string{}
		n := 0
		for it := im.Iterator(); it.Has(); n++ {
			v, k, err := it.Get()
			if err != nil {
				return "iterator error: " + err.Error()
			}
			got[string(k)] = string(v)
			if err := it.Next(); err != nil {
				return "iterator error: " + err.Error()
			}
			if n > 100 {
				return "iterator does not terminate"
			}
		}
		if len(got) != len(model) {
			return fmt.Sprintf("rebuilt trie has %d entries, source %d", len(got), len(model))
		}
		for k, v := range model {
			if got[k] != v {
				return fmt.Sprintf("rebuilt trie: key %x = %q, source %q", k, got[k], v)
			}
			if g, err := im.Get([]byte(k)); err != nil || string(g) != v {
				return fmt.Sprintf("rebuilt trie: Get(%x) = %q err=%v", k, g, err)
			}
		}
		return ""
	}
	return s
}

var (
	c20EOA       = common.MustNewAddressFromString("hx0000000000000000000000000000000000000011")
	c20Contract  = common.MustNewAddressFromString("cx0000000000000000000000000000000000000022")
	c20Val       = common.MustNewAddressFromString("hx0000000000000000000000000000000000000033")
	c20Contract2 = common.MustNewAddressFromString("cx0000000000000000000000000000000000000044")
	c20Code      = []byte("verif contract code " + strings.Repeat("c", 60))
	c20Store     = [][2]string{{"\x00\x11", strings.Repeat("s", 40)}, {"\x00\x12", strings.Repeat("t", 40)}, {"\x01", "u"}}
)

// c20WorldSource: variant 1 = small, 2 = large, 3 = large and the contract code
// is byte-identical to a node of the contract's storage trie (the same hash is
// then part of the state in the trie bucket AND in the bytes-by-hash bucket).
func c20WorldSource(variant int) *c20Source {
	code := c20Code
	if variant == 3 {
		// nodes that do not depend on the code = nodes of the storage trie
		a := c20WorldSourceWithCode(2, []byte("code A "+strings.Repeat("a", 50)))
		b := c20WorldSourceWithCode(2, []byte("code B "+strings.Repeat("b", 50)))
		best := ""
		for _, it := range a.items {
			if it.bucket == db.MerkleTrie && b.find(db.MerkleTrie, it.key) >= 0 && (best == "" || len(it.val) < len(best)) {
				best = it.val
			}
		}
		code = []byte(best)
	}
	return c20WorldSourceWithCode(variant, code)
}

func c20WorldSourceWithCode(variant int, c20Code []byte) *c20Source {
	large := variant >= 2
	twin := variant == 4
	rec := &c20RecDB{inner: db.NewMapDB()}
	ws := state.NewWorldState(rec, nil, nil, nil, nil)
	ws.GetAccountState(c20EOA.ID()).SetBalance(big.NewInt(1000))
	ca := ws.GetAccountState(c20Contract.ID())
	ca.InitContractAccount(c20EOA)
	ca.DeployContract(c20Code, state.JavaEE, "application/java", nil, []byte("deploy-tx-hash-0123456789abcdef0"))
	store := c20Store
	if !large {
		store = store[:2]
	}
	for _, kv := range store {
		ca.SetValue([]byte(kv[0]), []byte(kv[1]))
	}
	if twin {
		// a second contract account with byte-identical storage trie and code
		cb := ws.GetAccountState(c20Contract2.ID())
		cb.InitContractAccount(c20EOA)
		cb.DeployContract(c20Code, state.JavaEE, "application/java", nil, []byte("deploy-tx-hash-0123456789abcdef0"))
		for _, kv := range store {
			cb.SetValue([]byte(kv[0]), []byte(kv[1]))
		}
	}
	if large {
		v, _ := state.ValidatorFromAddress(c20Val)
		ws.GetValidatorState().Add(v)
	}
	wss := ws.GetSnapshot()
	wss.Flush()
	s := &c20Source{name: fmt.Sprintf("world{EOA, contract(code,%d storage entries), validators=%v, code-is-a-storage-trie-node=%v, twin-contract=%v}", len(store), large, variant == 3, twin), world: true,
		root: wss.StateHash(), vhash: wss.GetValidatorSnapshot().Hash(), items: c20Collect(rec)}
	s.index()
	s.start = func(b merkle.Builder) (interface{}, error) {
		return state.NewWorldSnapshotWithBuilder(b, s.root, s.vhash, nil, nil)
	}
	s.verify = func(target db.Database) string {
		vs, err := state.ValidatorSnapshotFromHash(target, s.vhash)
		if err != nil {
			return "validators: " + err.Error()
		}
		w2 := state.NewWorldSnapshot(target, s.root, vs, nil, nil)
		if !bytes.Equal(w2.StateHash(), s.root) {
			return "state hash differs"
		}
		if large && (vs.Len() != 1 || vs.IndexOf(c20Val) != 0) {
			return "validator list not rebuilt"
		}
		a := w2.GetAccountSnapshot(c20EOA.ID())
		if a == nil || a.GetBalance().Cmp(big.NewInt(1000)) != 0 {
			return "EOA balance not rebuilt"
		}
		addrs := []*common.Address{c20Contract}
		if twin {
			addrs = append(addrs, c20Contract2)
		}
		for _, ad := range addrs {
			c := w2.GetAccountSnapshot(ad.ID())
			if c == nil || !c.IsContract() {
				return "contract account not rebuilt"
			}
			for _, kv := range store {
				if v, err := c.GetValue([]byte(kv[0])); err != nil || string(v) != kv[1] {
					return fmt.Sprintf("contract storage %x = %q err=%v", kv[0], v, err)
				}
			}
			nc := c.NextContract()
			if nc == nil {
				return "next contract missing"
			}
			if code, err := nc.Code(); err != nil || !bytes.Equal(code, c20Code) {
				return fmt.Sprintf("contract code not rebuilt (err=%v)", err)
			}
		}
		return ""
	}
	return s
}

// ---- object tries: values are references to blobs in the bytes-by-hash bucket ----

type c20Blob struct {
	bucket db.Bucket
	hash   []byte
	data   []byte
}

func (o *c20Blob) Bytes() []byte { return o.hash }
func (o *c20Blob) Reset(d db.Database, k []byte) error {
	bk, err := d.GetBucket(db.BytesByHash)
	if err != nil {
		return err
	}
	o.bucket, o.hash, o.data = bk, append([]byte(nil), k...), nil
	return nil
}
func (o *c20Blob) Flush() error {
	if o.data != nil {
		return o.bucket.Set(o.hash, o.data)
	}
	return nil
}
func (o *c20Blob) Equal(x trie.Object) bool {
	o2, ok := x.(*c20Blob)
	return ok && o2 != nil && bytes.Equal(o.hash, o2.hash)
}
func (o *c20Blob) ClearCache() {}
func (o *c20Blob) Resolve(b merkle.Builder) error {
	v, err := o.bucket.Get(o.hash)
	if err != nil {
		return err
	}
	if v == nil {
		b.RequestData(db.BytesByHash, o.hash, o)
	} else {
		o.data = v
	}
	return nil
}
func (o *c20Blob) OnData(bs []byte, b merkle.Builder) error { o.data = bs; return nil }

var c20BlobType = reflect.TypeOf((*c20Blob)(nil))

func c20NewBlob(d db.Database, data []byte) *c20Blob {
	bk, _ := d.GetBucket(db.BytesByHash)
	return &c20Blob{bucket: bk, hash: crypto.SHA3Sum256(data), data: data}
}

// c20Obj: an object trie over Keys (hex); the blob of entry J is made
// byte-identical to the trie node that ends the proof of entry I.
type c20Obj struct {
	Keys []string `json:"keys_hex"`
	I    int      `json:"node_of"`
	J    int      `json:"is_blob_of"`
}

var c20ObjKeys = []string{"\x00", "\x01", "\x10", "\x00\x11", "\x00\x12"}

func c20EnumerateObj() []c20Obj {
	var out []c20Obj
	n := len(c20ObjKeys)
	for m := 1; m < 1<<uint(n); m++ {
		var ks []string
		for i := 0; i < n; i++ {
			if m&(1<<uint(i)) != 0 {
				ks = append(ks, hex.EncodeToString([]byte(c20ObjKeys[i])))
			}
		}
		if len(ks) < 2 || len(ks) > 3 {
			continue
		}
		for i := range ks {
			for j := range ks {
				if i != j {
					out = append(out, c20Obj{ks, i, j})
				}
			}
		}
	}
	return out
}

func c20ObjSource(o c20Obj) *c20Source {
	blobs := make([][]byte, len(o.Keys))
	for i := range blobs {
		blobs[i] = []byte(fmt.Sprintf("blob of entry %d %s", i, strings.Repeat("z", 30)))
	}
	build := func(d db.Database) trie.SnapshotForObject {
		mu := ompt.NewMutableForObject(d, nil, c20BlobType)
		for i, kh := range o.Keys {
			k, _ := hex.DecodeString(kh)
			mu.Set(k, c20NewBlob(d, blobs[i]))
		}
		sn := mu.GetSnapshot()
		sn.Flush()
		return sn
	}
	ki, _ := hex.DecodeString(o.Keys[o.I])
	proof := build(db.NewMapDB()).GetProof(ki)
	blobs[o.J] = append([]byte(nil), proof[len(proof)-1]...)
	rec := &c20RecDB{inner: db.NewMapDB()}
	sn := build(rec)
	s := &c20Source{name: fmt.Sprintf("objtrie{keys %v, blob of #%d = last proof node of #%d}", o.Keys, o.J, o.I), root: sn.Hash(), items: c20Collect(rec)}
	s.index()
	s.start = func(b merkle.Builder) (interface{}, error) {
		im := ompt.NewImmutableForObject(b.Database(), s.root, c20BlobType)
		im.Resolve(b)
		return im, nil
	}
	s.verify = func(target db.Database) string {
		im := ompt.NewImmutableForObject(target, s.root, c20BlobType)
		bk, _ := target.GetBucket(db.BytesByHash)
		n := 0
		for it := im.Iterator(); it.Has(); n++ {
			ob, k, err := it.Get()
			if err != nil {
				return "iterator error: " + err.Error()
			}
			idx := -1
			for i, kh := range o.Keys {
				if kh == hex.EncodeToString(k) {
					idx = i
				}
			}
			if idx < 0 {
				return fmt.Sprintf("unexpected key %x", k)
			}
			data, err := bk.Get(ob.Bytes())
			if err != nil || !bytes.Equal(data, blobs[idx]) {
				return fmt.Sprintf("blob of key %x not rebuilt (present=%v err=%v)", k, data != nil, err)
			}
			if err := it.Next(); err != nil {
				return "iterator error: " + err.Error()
			}
			if n > 100 {
				return "iterator does not terminate"
			}
		}
		if n != len(o.Keys) {
			return fmt.Sprintf("rebuilt trie has %d entries, source %d", n, len(o.Keys))
		}
		return ""
	}
	return s
}

// ---- two tries sharing all nodes, resolved through ONE builder ----
//
// An index trie key -> sha3(blob) (plain bytes) and an object trie
// key -> blob object have byte-identical nodes, so every node hash is requested
// for the same bucket by two requesters with different follow-ups (only the
// object trie goes on to request the blobs). Both registration orders.

type c20Pair struct {
	Keys     []string `json:"keys_hex"`
	ObjFirst bool     `json:"object_trie_registers_first"`
}

func c20EnumeratePairs() []c20Pair {
	var out []c20Pair
	n := len(c20ObjKeys)
	for m := 1; m < 1<<uint(n); m++ {
		var ks []string
		for i := 0; i < n; i++ {
			if m&(1<<uint(i)) != 0 {
				ks = append(ks, hex.EncodeToString([]byte(c20ObjKeys[i])))
			}
		}
		if len(ks) > 3 {
			continue
		}
		out = append(out, c20Pair{ks, false}, c20Pair{ks, true})
	}
	return out
}

func c20PairSource(o c20Pair) *c20Source {
	rec := &c20RecDB{inner: db.NewMapDB()}
	blobs := make([][]byte, len(o.Keys))
	idx := ompt.NewMutable(rec, nil)
	obj := ompt.NewMutableForObject(rec, nil, c20BlobType)
	for i, kh := range o.Keys {
		k, _ := hex.DecodeString(kh)
		blobs[i] = []byte(fmt.Sprintf("payload of entry %d %s", i, strings.Repeat("p", 30)))
		idx.Set(k, crypto.SHA3Sum256(blobs[i]))
		obj.Set(k, c20NewBlob(rec, blobs[i]))
	}
	is, os := idx.GetSnapshot(), obj.GetSnapshot()
	is.Flush()
	os.Flush()
	s := &c20Source{name: fmt.Sprintf("pair{index trie + object trie over keys %v, object trie first=%v}", o.Keys, o.ObjFirst), root: os.Hash(), items: c20Collect(rec)}
	s.index()
	same := bytes.Equal(is.Hash(), os.Hash())
	s.start = func(b merkle.Builder) (interface{}, error) {
		if !same {
			return nil, fmt.Errorf("harness: index trie and object trie do not share their root")
		}
		it := ompt.NewImmutable(b.Database(), s.root)
		ot := ompt.NewImmutableForObject(b.Database(), s.root, c20BlobType)
		if o.ObjFirst {
			ot.Resolve(b)
			it.Resolve(b)
		} else {
			it.Resolve(b)
			ot.Resolve(b)
		}
		return []interface{}{it, ot}, nil
	}
	s.verify = func(target db.Database) string {
		it := ompt.NewImmutable(target, s.root)
		ot := ompt.NewImmutableForObject(target, s.root, c20BlobType)
		bk, _ := target.GetBucket(db.BytesByHash)
		for i, kh := range o.Keys {
			k, _ := hex.DecodeString(kh)
			h, err := it.Get(k)
			if err != nil || !bytes.Equal(h, crypto.SHA3Sum256(blobs[i])) {
				return fmt.Sprintf("index trie: Get(%x) = %x err=%v", k, h, err)
			}
			ob, err := ot.Get(k)
			if err != nil || ob == nil {
				return fmt.Sprintf("object trie: Get(%x) = %v err=%v", k, ob, err)
			}
			data, err := bk.Get(ob.Bytes())
			if err != nil || !bytes.Equal(data, blobs[i]) {
				return fmt.Sprintf("object trie: payload of key %x not in the target store (present=%v err=%v)", k, data != nil, err)
			}
		}
		return ""
	}
	return s
}

// ---- requests registered directly on the builder ----
//
// Three blobs: X is requested for two bucket ids with the same hasher (in the
// given order; variant 4/5: twice for the same bucket), Y only for the
// bytes-by-hash bucket, Z only for the trie bucket. Requesters have no follow-ups.

type c20NullRequester struct{ called *int64 }

func (r c20NullRequester) OnData(bs []byte, b merkle.Builder) error {
	atomic.AddInt64(r.called, 1)
	return nil
}

var c20DirectRegs = [][2]db.BucketID{
	{db.MerkleTrie, db.BytesByHash}, {db.BytesByHash, db.MerkleTrie},
	{db.MerkleTrie, db.MerkleTrie}, {db.BytesByHash, db.BytesByHash},
}

func c20DirectSource(variant int) *c20Source {
	reg := c20DirectRegs[variant%len(c20DirectRegs)]
	xLast := variant >= len(c20DirectRegs) // X's requests registered after Y and Z
	blob := func(n string) string { return "direct blob " + n + " " + strings.Repeat(n, 20) }
	X, Y, Z := blob("X"), blob("Y"), blob("Z")
	h := func(v string) string { return string(crypto.SHA3Sum256([]byte(v))) }
	s := &c20Source{name: fmt.Sprintf("direct{X requested for %q then %q, Y for S, Z for trie bucket; X registered last=%v}", reg[0], reg[1], xLast)}
	s.items = append(s.items, c20Item{reg[0], h(X), X})
	if reg[1] != reg[0] {
		s.items = append(s.items, c20Item{reg[1], h(X), X})
	}
	s.items = append(s.items, c20Item{db.BytesByHash, h(Y), Y}, c20Item{db.MerkleTrie, h(Z), Z})
	sort.Slice(s.items, func(i, j int) bool {
		if s.items[i].key != s.items[j].key {
			return s.items[i].key < s.items[j].key
		}
		return s.items[i].bucket < s.items[j].bucket
	})
	s.index()
	s.root = []byte(h(X))
	s.start = func(b merkle.Builder) (interface{}, error) {
		calls := new(int64)
		rx := func() {
			b.RequestData(reg[0], []byte(h(X)), c20NullRequester{calls})
			b.RequestData(reg[1], []byte(h(X)), c20NullRequester{calls})
		}
		if !xLast {
			rx()
		}
		b.RequestData(db.BytesByHash, []byte(h(Y)), c20NullRequester{calls})
		b.RequestData(db.MerkleTrie, []byte(h(Z)), c20NullRequester{calls})
		if xLast {
			rx()
		}
		return calls, nil
	}
	s.verify = func(target db.Database) string {
		for _, it := range s.items {
			bk, _ := target.GetBucket(it.bucket)
			if v, err := bk.Get([]byte(it.key)); err != nil || string(v) != it.val {
				return fmt.Sprintf("bucket %q does not hold %x (err=%v)", it.bucket, it.key[:4], err)
			}
		}
		return ""
	}
	return s
}

// ---- forged payloads ----

const (
	c20FRandom   = iota // 40 constant bytes that are no node of anything
	c20FOther           // a genuine node of a different trie
	c20FFlip            // the first outstanding datum with its last byte flipped
	c20FEmpty           // empty payload
	c20FNoHasher        // the first outstanding datum, genuine, under a bucket id without hasher
	c20FTrunc           // the first outstanding datum without its last byte
	c20NumForged
)

var c20ForgedNames = []string{"forged: 40 constant bytes", "forged: node of a different trie", "forged: requested datum with last byte flipped",
	"forged: empty payload", "genuine requested datum under a bucket id without hasher", "forged: requested datum truncated by one byte"}

var c20OtherNode = func() []byte {
	rec := &c20RecDB{inner: db.NewMapDB()}
	mu := ompt.NewMutable(rec, nil)
	mu.Set([]byte{0x77, 0x77}, bytes.Repeat([]byte{'Q'}, 40))
	sn := mu.GetSnapshot()
	sn.Flush()
	return []byte(rec.writes[0].val)
}()

// ---- one real sync instance ----

type c20Inst struct {
	src       *c20Source
	target    *c20RecDB
	layer     *c20RecLayer
	b         merkle.Builder
	holder    interface{}
	delivered []bool // the builder's store holds the item
	nDeliv    int
	pending   map[string]bool // hashes whose last delivery failed (injected fault) and was not yet repeated successfully
	faults    int
	maxFaults int
}

// fault kinds: which call inside the delivery fails
const c20NumFaults = 5

var c20FaultNames = []string{"1st store Set fails", "2nd store Set fails", "1st bytes-by-hash Get fails", "2nd bytes-by-hash Get fails", "3rd bytes-by-hash Get fails"}

func (s *c20Source) nBase() int { return len(s.items) + c20NumForged }
func (s *c20Source) nOps() int  { return s.nBase() + len(s.items)*c20NumFaults }

type c20Case struct {
	Source string   `json:"source"`
	World  int      `json:"world,omitempty"` // 1 small, 2 large, 3 large with code == storage trie node, 4 two identical contracts
	Pair   *c20Pair `json:"trie_pair,omitempty"`
	Direct int      `json:"direct_requests_variant,omitempty"` // 1-based
	Obj    *c20Obj  `json:"object_trie,omitempty"`
	KVs    []c20KV  `json:"map,omitempty"`
	Faults int      `json:"max_faults"`
	Ops    []int    `json:"ops"`
}

type c20Ctx struct {
	r *ev.Run

	evals, delivers, redeliver, unrequested, forged, completes, orders, dupRequesters, twoBucketRequests, embeddedOnly int64
	faultsFired, failedDeliveries, faultSwallowed, redeliverAfterFail, faultOrders, partialStores                      int64
}

func (s *c20Source) opName(op int) string {
	if op < len(s.items) {
		return fmt.Sprintf("deliver #%d (%s/%x..)", op, s.items[op].bucket, s.items[op].key[:4])
	}
	if op >= s.nBase() {
		i, k := (op-s.nBase())/c20NumFaults, (op-s.nBase())%c20NumFaults
		return fmt.Sprintf("deliver #%d (%s/%x..) while %s", i, s.items[i].bucket, s.items[i].key[:4], c20FaultNames[k])
	}
	return c20ForgedNames[op-len(s.items)]
}

func (s *c20Source) describe(cs c20Case) string {
	var names []string
	for _, o := range cs.Ops {
		names = append(names, s.opName(o))
	}
	return fmt.Sprintf("%s (%d items), events [%s]", s.name, len(s.items), strings.Join(names, "; "))
}

type c20Req struct {
	key     string
	buckets []db.BucketID
}

func (in *c20Inst) outstanding() []c20Req {
	var out []c20Req
	it := in.b.Requests()
	for it.Next() {
		out = append(out, c20Req{string(it.Key()), append([]db.BucketID(nil), it.BucketIDs()...)})
	}
	sort.Slice(out, func(i, j int) bool { return out[i].key < out[j].key })
	return out
}

func c20ReqKey(rs []c20Req) string {
	var sb strings.Builder
	for _, r := range rs {
		sb.WriteString(hex.EncodeToString([]byte(r.key[:6])))
		for _, b := range r.buckets {
			sb.WriteString("/" + string(b))
		}
		sb.WriteByte(',')
	}
	return sb.String()
}

func c20New(cx *c20Ctx, src *c20Source, cs c20Case) *c20Inst {
	in := &c20Inst{src: src, delivered: make([]bool, len(src.items)), pending: map[string]bool{}, maxFaults: cs.Faults}
	in.target = &c20RecDB{inner: db.NewMapDB()}
	in.layer = &c20RecLayer{layer: db.NewLayerDB(in.target)}
	in.layer.inner = in.layer.layer
	in.b = merkle.NewBuilderWithRawDatabase(in.layer)
	h, err := src.start(in.b)
	if err != nil {
		cx.r.Violation("start-error", fmt.Sprintf("%s: %v", src.describe(cs), err), cs)
	}
	in.holder = h
	return in
}

// invariants that must hold in every state
func (in *c20Inst) invariants(cx *c20Ctx, cs c20Case) []c20Req {
	src := in.src
	reqs := in.outstanding()
	if n := in.b.UnresolvedCount(); n != len(reqs) {
		cx.r.Violation("UnresolvedCount-differs-from-Requests", fmt.Sprintf("%s: UnresolvedCount=%d, Requests() lists %d", src.describe(cs), n, len(reqs)), cs)
	}
	for _, rq := range reqs {
		for _, b := range rq.buckets {
			i := src.find(b, rq.key)
			if i < 0 {
				cx.r.Violation("request-for-hash-outside-the-trusted-state", fmt.Sprintf("%s: request %s/%x", src.describe(cs), b, rq.key), cs)
			} else if in.delivered[i] && !in.pending[rq.key] {
				cx.r.Violation("request-for-already-delivered-datum", fmt.Sprintf("%s: request %s/%x", src.describe(cs), b, rq.key), cs)
			}
		}
		if len(rq.buckets) > 1 {
			atomic.AddInt64(&cx.dupRequesters, 1)
			for _, b := range rq.buckets[1:] {
				if b != rq.buckets[0] {
					atomic.AddInt64(&cx.twoBucketRequests, 1)
					break
				}
			}
		}
	}
	complete := in.nDeliv == len(src.items)
	// "no outstanding requests exactly when the store is complete"; while a failed
	// (fault-injected) delivery has not been repeated, a request may legitimately be
	// outstanding although the store already holds everything.
	if unres := in.b.UnresolvedCount() == 0; (unres && !complete) || (!unres && complete && len(in.pending) == 0) {
		cx.r.Violation(fmt.Sprintf("no-outstanding-requests-iff-complete/unresolved=0:%v/complete:%v", in.b.UnresolvedCount() == 0, complete),
			fmt.Sprintf("%s: UnresolvedCount=%d but %d of %d items delivered", src.describe(cs), in.b.UnresolvedCount(), in.nDeliv, len(src.items)), cs)
	}
	if len(in.target.writes) != 0 {
		cx.r.Violation("target-store-written-before-Flush", fmt.Sprintf("%s: %d writes", src.describe(cs), len(in.target.writes)), cs)
	}
	// the builder's view holds exactly the delivered data
	for i, it := range src.items {
		bk, _ := in.b.Database().GetBucket(it.bucket)
		v, err := bk.Get([]byte(it.key))
		if err != nil || (v != nil) != in.delivered[i] || (v != nil && string(v) != it.val) {
			cx.r.Violation(fmt.Sprintf("builder-store-content/delivered:%v/present:%v", in.delivered[i], v != nil),
				fmt.Sprintf("%s: item #%d %x: stored=%v (genuine=%v) err=%v, delivered=%v", src.describe(cs), i, it.key[:4], v != nil, string(v) == it.val, err, in.delivered[i]), cs)
		}
	}
	return reqs
}

func (in *c20Inst) firstOutstanding(reqs []c20Req) (c20Item, bool) {
	for _, rq := range reqs {
		if is := in.src.byKey[rq.key]; len(is) > 0 {
			return in.src.items[is[0]], true
		}
	}
	return c20Item{}, false
}

// apply executes one event; returns false if the event is not enabled.
func (in *c20Inst) apply(cx *c20Ctx, op int, cs c20Case, count bool) bool {
	src := in.src
	reqs := in.outstanding()
	before := c20ReqKey(reqs)
	in.layer.writes = nil
	var err error
	expectOK := false
	var want c20Req
	kind := ""
	faultKind := -1
	if op >= src.nBase() {
		if in.faults >= in.maxFaults {
			return false
		}
		faultKind = (op - src.nBase()) % c20NumFaults
		op = (op - src.nBase()) / c20NumFaults
	}
	if op < len(src.items) {
		it := src.items[op]
		bid := it.bucket
		// the delivery is labelled with the item's own bucket id: for a hash that
		// the source holds in two buckets both labels are explored (items i and j),
		// whichever bucket was requested first and even if only the other one is
		// requested at the moment (both buckets use the same hasher)
		for _, rq := range reqs {
			if rq.key == it.key {
				expectOK, want = true, rq
			}
		}
		switch {
		case expectOK:
			kind = "requested"
		case in.delivered[op]:
			kind = "delivered-before"
		default:
			kind = "genuine-but-unrequested"
		}
		if count {
			switch kind {
			case "requested":
				atomic.AddInt64(&cx.delivers, 1)
			case "delivered-before":
				atomic.AddInt64(&cx.redeliver, 1)
			default:
				atomic.AddInt64(&cx.unrequested, 1)
			}
		}
		val := []byte(it.val)
		if faultKind >= 0 {
			if !expectOK {
				return false // unrequested data never reaches the store: nothing to fail
			}
			in.layer.fired = false
			if faultKind < 2 {
				in.layer.failSetIn = faultKind + 1
			} else {
				in.layer.failGetIn = faultKind - 1
			}
		}
		p := ev.Catch(func() { err = in.b.OnData(bid, val) })
		in.layer.failSetIn, in.layer.failGetIn = 0, 0
		if p != "" {
			cx.r.Violation("OnData-panics/"+kind, fmt.Sprintf("%s: %s", src.describe(cs), p), cs)
			return true
		}
		if faultKind >= 0 {
			if !in.layer.fired {
				return false // the call that should fail does not happen in this delivery: same as a plain delivery
			}
			in.faults++
			if count {
				atomic.AddInt64(&cx.faultsFired, 1)
			}
		}
	} else {
		f := op - len(src.items)
		first, has := in.firstOutstanding(reqs)
		var payload []byte
		bid := db.MerkleTrie
		switch f {
		case c20FRandom:
			payload = bytes.Repeat([]byte{0xAB}, 40)
		case c20FOther:
			payload = append([]byte(nil), c20OtherNode...)
		case c20FEmpty:
			payload = []byte{}
		case c20FFlip, c20FNoHasher, c20FTrunc:
			if !has {
				return false
			}
			payload = []byte(first.val)
			switch f {
			case c20FFlip:
				payload[len(payload)-1] ^= 1
			case c20FTrunc:
				payload = payload[:len(payload)-1]
			default:
				bid = db.BucketID("zz-no-hasher")
			}
		}
		kind = strings.SplitN(c20ForgedNames[f], ":", 2)[0] + fmt.Sprint(f)
		if count {
			atomic.AddInt64(&cx.forged, 1)
		}
		if p := ev.Catch(func() { err = in.b.OnData(bid, payload) }); p != "" {
			cx.r.Violation("OnData-panics/"+kind, fmt.Sprintf("%s: %s", src.describe(cs), p), cs)
			return true
		}
	}
	writes := in.layer.writes
	if expectOK && faultKind >= 0 && err != nil {
		// a delivery that failed midway because of the injected fault: whatever was
		// written must be the genuine datum in a requesting bucket, and the request
		// must stay outstanding so that the datum can be delivered again
		it := src.items[op]
		if count {
			atomic.AddInt64(&cx.failedDeliveries, 1)
		}
		for _, w := range writes {
			okBucket := false
			for _, b := range want.buckets {
				okBucket = okBucket || b == w.bucket
			}
			if w.del || w.key != it.key || w.val != it.val || !okBucket {
				cx.r.Violation("stored-something-else-on-delivery", fmt.Sprintf("%s: wrote %s/%x (genuine value=%v, delete=%v)", src.describe(cs), w.bucket, w.key, w.val == it.val, w.del), cs)
				continue
			}
			if i := src.find(w.bucket, it.key); i >= 0 && !in.delivered[i] {
				in.delivered[i] = true
				in.nDeliv++
				if count {
					atomic.AddInt64(&cx.partialStores, 1)
				}
			}
		}
		still := false
		for _, rq := range in.outstanding() {
			still = still || rq.key == it.key
		}
		if !still {
			cx.r.Violation("failed-delivery-retired-the-request/"+strings.SplitN(c20FaultNames[faultKind], " ", 2)[1],
				fmt.Sprintf("%s: OnData returned %v but %x is no longer requested (UnresolvedCount=%d)", src.describe(cs), err, it.key[:4], in.b.UnresolvedCount()), cs)
		}
		in.pending[it.key] = true
		return true
	}
	if expectOK {
		if faultKind >= 0 && count {
			atomic.AddInt64(&cx.faultSwallowed, 1)
		}
		if in.pending[src.items[op].key] {
			delete(in.pending, src.items[op].key)
			if count {
				atomic.AddInt64(&cx.redeliverAfterFail, 1)
			}
		}
		if err != nil {
			cx.r.Violation("requested-datum-refused", fmt.Sprintf("%s: OnData error %v", src.describe(cs), err), cs)
		}
		it := src.items[op]
		if len(writes) == 0 {
			cx.r.Violation("requested-datum-not-stored", src.describe(cs), cs)
		}
		for _, w := range writes {
			okBucket := false
			for _, b := range want.buckets {
				okBucket = okBucket || b == w.bucket
			}
			if w.del || w.key != it.key || w.val != it.val || !okBucket {
				cx.r.Violation("stored-something-else-on-delivery", fmt.Sprintf("%s: wrote %s/%x (genuine value=%v, delete=%v)", src.describe(cs), w.bucket, w.key, w.val == it.val, w.del), cs)
			}
		}
		// every bucket that requested the hash must now hold it
		for _, b := range want.buckets {
			stored := false
			for _, w := range writes {
				stored = stored || (!w.del && w.bucket == b && w.key == it.key && w.val == it.val)
			}
			if !stored {
				cx.r.Violation("requested-datum-not-stored-in-a-requesting-bucket", fmt.Sprintf("%s: %x requested for buckets %q, bucket %q was not written", src.describe(cs), it.key[:4], want.buckets, b), cs)
			}
			if i := src.find(b, it.key); i >= 0 && !in.delivered[i] {
				in.delivered[i] = true
				in.nDeliv++
			}
		}
	} else {
		if err == nil {
			cx.r.Violation("unrequested-data-accepted/"+kind, fmt.Sprintf("%s: OnData returned nil", src.describe(cs)), cs)
		}
		if len(writes) != 0 {
			cx.r.Violation("unrequested-data-stored/"+kind, fmt.Sprintf("%s: %d store writes, first %s/%x", src.describe(cs), len(writes), writes[0].bucket, writes[0].key), cs)
		}
		if after := c20ReqKey(in.outstanding()); after != before {
			cx.r.Violation("unrequested-data-changed-requests/"+kind, fmt.Sprintf("%s: requests %s -> %s", src.describe(cs), before, after), cs)
		}
	}
	return true
}

// finish: called in a state without outstanding requests; flushes and compares
// the target store with the source (the instance is discarded afterwards).
func (in *c20Inst) finish(cx *c20Ctx, cs c20Case) {
	src := in.src
	if err := in.b.Flush(true); err != nil {
		cx.r.Violation("Flush-error", fmt.Sprintf("%s: %v", src.describe(cs), err), cs)
	}
	got := c20Collect(in.target)
	same := len(got) == len(src.items)
	for i := 0; same && i < len(got); i++ {
		same = got[i] == src.items[i]
	}
	if !same {
		cx.r.Violation("target-store-differs-from-source-after-Flush", fmt.Sprintf("%s: target has %d items, source %d", src.describe(cs), len(got), len(src.items)), cs)
	}
	if msg := src.verify(in.target.inner); msg != "" {
		cx.r.Violation("rebuilt-state-differs", fmt.Sprintf("%s: %s", src.describe(cs), msg), cs)
	}
	atomic.AddInt64(&cx.completes, 1)
}

func c20Run(cx *c20Ctx, src *c20Source, cs c20Case, hist []byte) (string, bool) {
	atomic.AddInt64(&cx.evals, 1)
	in := c20New(cx, src, cs)
	for i, o := range hist[1:] {
		cs.Ops = append(cs.Ops, int(o))
		last := i == len(hist)-2
		if last {
			in.invariants(cx, c20Case{cs.Source, cs.World, cs.Pair, cs.Direct, cs.Obj, cs.KVs, cs.Faults, cs.Ops[:i]})
		}
		if !in.apply(cx, int(o), cs, last) {
			return "", false
		}
	}
	reqs := in.invariants(cx, cs)
	var sb strings.Builder
	for i, d := range in.delivered {
		if d {
			fmt.Fprintf(&sb, "%d,", i)
		}
	}
	var pk []string
	for k := range in.pending {
		pk = append(pk, hex.EncodeToString([]byte(k[:6])))
	}
	sort.Strings(pk)
	key := src.name + "|" + sb.String() + "|" + c20ReqKey(reqs) + fmt.Sprintf("|f%d|", in.faults) + strings.Join(pk, ",")
	if in.b.UnresolvedCount() == 0 {
		in.finish(cx, cs)
	}
	return key, true
}

// every complete delivery order (no de-duplication), for small sources
func c20Orders(cx *c20Ctx, src *c20Source, cs c20Case, prefix []int, stop func() bool) {
	if stop() {
		return
	}
	in := c20New(cx, src, cs)
	c := cs
	for _, o := range prefix {
		c.Ops = append(c.Ops, o)
		if !in.apply(cx, o, c, false) {
			return // fault event that does not fire here
		}
	}
	atomic.AddInt64(&cx.evals, 1)
	reqs := in.invariants(cx, c)
	if len(reqs) == 0 {
		in.finish(cx, c)
		if in.faults > 0 {
			atomic.AddInt64(&cx.faultOrders, 1)
		} else {
			atomic.AddInt64(&cx.orders, 1)
		}
		return
	}
	for _, rq := range reqs {
		for _, idx := range src.byKey[rq.key] { // every bucket label the source knows for this hash
			c20Orders(cx, src, cs, append(append([]int(nil), prefix...), idx), stop)
			if in.faults < in.maxFaults {
				// the same delivery with every injected fault (every position of every order)
				for k := 0; k < c20NumFaults; k++ {
					c20Orders(cx, src, cs, append(append([]int(nil), prefix...), src.nBase()+idx*c20NumFaults+k), stop)
				}
			}
		}
	}
}

func c20Enumerate(keys, vals []string, maxN int) [][]c20KV {
	var out [][]c20KV
	var rec func(start int, cur []c20KV)
	rec = func(start int, cur []c20KV) {
		if len(cur) > 0 {
			out = append(out, append([]c20KV(nil), cur...))
		}
		if len(cur) == maxN {
			return
		}
		for i := start; i < len(keys); i++ {
			for _, v := range vals {
				rec(i+1, append(cur, c20KV{hex.EncodeToString([]byte(keys[i])), v}))
			}
		}
	}
	rec(0, nil)
	return out
}

func c20SourceOf(c c20Case) *c20Source {
	if c.World > 0 {
		return c20WorldSource(c.World)
	}
	if c.Obj != nil {
		return c20ObjSource(*c.Obj)
	}
	if c.Pair != nil {
		return c20PairSource(*c.Pair)
	}
	if c.Direct > 0 {
		return c20DirectSource(c.Direct - 1)
	}
	return c20TrieSource(c.KVs)
}

func TestVerifC20(t *testing.T) {
	r := ev.Start(t, "C20", "model_checking")
	r.SetBudget(80*time.Second, 14*time.Minute)
	cx := &c20Ctx{r: r}
	if ev.Replaying() {
		var c c20Case
		ev.ReplayCase(&c)
		src := c20SourceOf(c)
		h := []byte{0}
		for _, o := range c.Ops {
			h = append(h, byte(o))
		}
		fmt.Println("replaying", src.describe(c))
		c20Run(cx, src, c20Case{Source: c.Source, World: c.World, KVs: c.KVs, Obj: c.Obj, Pair: c.Pair, Direct: c.Direct, Faults: c.Faults}, h)
		r.Finish(false)
		return
	}
	nk, nv, maxN, ordersUpTo := 7, 2, 3, 6
	if r.Thorough() {
		nk, nv, maxN, ordersUpTo = 9, 3, 5, 8
	}
	maps := c20Enumerate(c20AllKeys[:nk], c20AllVals[:nv], maxN)
	r.Rule(fmt.Sprintf("sources: every map with 1..%d entries over %d keys (hex %x) x %d values (40-byte -> hashed nodes, 1-byte -> embedded nodes) = %d tries, plus 4 world states (EOA + contract account with nested storage trie, contract code in the bytes-by-hash bucket, validator list; one whose code is byte-identical to a storage trie node; one with two contracts sharing storage trie and code), 72 object tries in which a value blob is byte-identical to a trie node (one hash in two buckets), and 50 pairs of an index trie and an object trie with byte-identical nodes resolved through one builder in both registration orders (one (bucket, hash) requested by two requesters with different follow-ups), and 8 sources whose requests are registered directly with RequestData (a blob requested for the trie bucket and the bytes-by-hash bucket in both orders, or twice for one bucket, before or after two single-bucket blobs). Every delivery is labelled with the bucket id of the delivered item, so a hash held in two buckets is delivered under BOTH labels in every state (whichever bucket was requested first). Per source an explicit-state BFS to the fixpoint: state = set of delivered items + outstanding requests reported by the real builder; events = deliver item i of the source (requested / delivered before / genuine but not requested yet) and %d forged payloads; every transition replayed on a fresh real builder (layerDB over a recording MapDB). Environment faults: additional events 'deliver item i while the 1st/2nd store Set or the 1st/2nd/3rd bytes-by-hash Get of that delivery fails once' (only when the call really happens), at most 1 per history (thorough: 2 for sources with <= 7 items and the world/object-trie sources, 0 for the 5-entry tries and for the trie pairs); a failed delivery must leave the request outstanding, may only have written the genuine datum, and its repetition must be accepted; 'UnresolvedCount()==0 => store complete' always, 'complete => UnresolvedCount()==0' once no failed delivery is pending. Sources with <= %d items: every complete delivery order enumerated without de-duplication, and for <= 6 items additionally with every single fault at every position. Non-trivial = distinct (source, state)",
		maxN, nk, c20AllKeys[:nk], nv, len(maps), c20NumForged, ordersUpTo))
	r.Assume("the order in which Requests() lists outstanding requests is not part of the state (OnData looks requests up by hash)",
		"source and target stores are MapDBs that never fail; single goroutine",
		"the builder is created with NewBuilderWithRawDatabase over a recording wrapper of a real LayerDB (NewBuilder does exactly this without the wrapper)",
		"states are de-duplicated on a 128-bit hash of the canonical state string")
	var sources []*c20Source
	var cases []c20Case
	for _, m := range maps {
		s := c20TrieSource(m)
		sources = append(sources, s)
		cases = append(cases, c20Case{Source: s.name, KVs: m})
	}
	for w := 1; w <= 4; w++ {
		s := c20WorldSource(w)
		sources = append(sources, s)
		cases = append(cases, c20Case{Source: s.name, World: w})
		if w == 3 {
			r.Sanity(s.sharedHashes() == 1, "world variant 3 has %d hashes in two buckets", s.sharedHashes())
		}
	}
	nObjShared := 0
	for _, o := range c20EnumerateObj() {
		o := o
		s := c20ObjSource(o)
		if s.sharedHashes() == 0 {
			continue // the aliased node changed with the blob: not a two-bucket source
		}
		nObjShared++
		sources = append(sources, s)
		cases = append(cases, c20Case{Source: s.name, Obj: &o})
	}
	for _, o := range c20EnumeratePairs() {
		o := o
		s := c20PairSource(o)
		sources = append(sources, s)
		cases = append(cases, c20Case{Source: s.name, Pair: &o})
	}
	r.Set("trie_pair_sources_two_requesters_with_different_followups", len(c20EnumeratePairs()))
	for v := 0; v < 2*len(c20DirectRegs); v++ {
		s := c20DirectSource(v)
		sources = append(sources, s)
		cases = append(cases, c20Case{Source: s.name, Direct: v + 1})
	}
	r.Set("direct_RequestData_sources", 2*len(c20DirectRegs))
	r.Sanity(nObjShared >= 20, "only %d object-trie sources with a hash in two buckets", nObjShared)
	r.Set("sources_with_a_hash_in_two_buckets", nObjShared+1)
	var mu sync.Mutex
	var states, transitions, replays, srcDone int
	complete := true
	var maxItems, maxStates int
	var samples []interface{}
	stop := func() bool { return r.Expired() || r.Violations() > 30 }
	// large sources first, with inner parallelism; small ones in parallel, each sequential
	order := make([]int, len(sources))
	for i := range order {
		order[i] = i
	}
	sort.SliceStable(order, func(a, b int) bool { return len(sources[order[a]].items) > len(sources[order[b]].items) })
	runOne := func(i int, workers int) {
		src, cs := sources[i], cases[i]
		// injected transient faults per history: 1, in the thorough tier 2 for the
		// smaller sources and all special ones
		cs.Faults = 1
		if cs.Pair != nil {
			// no fault injection for the trie pairs: on the unchanged tree a failed
			// store write between the two requesters of a shared node, followed by the
			// delivery of that node's children, makes the object trie's requester find
			// the children already stored and (mpt.resolve: "present => subtree done")
			// never ask for their payloads. Transient faults are not in the statement's
			// quantifier and such pairs do not occur in goloop; reported, not checked.
			cs.Faults = 0
		}
		if len(cs.KVs) >= 5 {
			cs.Faults = 0 // the 5-entry tries of the thorough tier: delivery orders, duplicates and forgeries only
		}
		if r.Thorough() && cs.Pair == nil && len(cs.KVs) < 5 && (len(src.items) <= 7 || cs.World > 0 || cs.Obj != nil || cs.Pair != nil) {
			cs.Faults = 2
		}
		st := pbfs.Run(pbfs.Config{
			Roots: [][]byte{{0}}, Ops: src.nOps(), MaxDepth: len(src.items) + 2*cs.Faults + 1, Workers: workers, Batch: 256,
			Step:  func(h []byte) (string, bool) { return c20Run(cx, src, cs, h) },
			Stop:  stop,
			OnNew: func(h []byte, key string, d int) { r.Nontrivial(key) },
		})
		if st.Complete && len(src.items) <= ordersUpTo {
			oc := cs
			oc.Faults = 0
			if len(src.items) <= 6 && cs.Pair == nil {
				oc.Faults = 1 // every fault at every position of every complete order
			}
			c20Orders(cx, src, oc, nil, stop)
		}
		mu.Lock()
		states += st.States
		transitions += st.Transitions
		replays += st.Replays
		complete = complete && st.Complete && st.Fixpoint
		if st.Complete {
			srcDone++
		}
		if len(src.items) > maxItems {
			maxItems = len(src.items)
		}
		if st.States > maxStates {
			maxStates = st.States
		}
		if len(samples) < 3 && (src.world || len(src.items) == 5) {
			samples = append(samples, map[string]interface{}{"source": src.name, "items": len(src.items), "states": st.States, "transitions": st.Transitions,
				"root": hex.EncodeToString(src.root)})
		}
		mu.Unlock()
	}
	nBig := 0
	for _, i := range order {
		if len(sources[i].items) >= 10 {
			nBig++
		}
	}
	for _, i := range order[:nBig] {
		runOne(i, 16)
	}
	ev.Par(len(order)-nBig, 0, func(j int) {
		if stop() {
			mu.Lock()
			complete = false
			mu.Unlock()
			return
		}
		runOne(order[nBig+j], 1)
	})
	for _, s := range samples {
		r.Sample(s)
	}
	r.Eval(int(cx.evals))
	r.States(states)
	r.Transitions(transitions)
	r.Traces(replays + int(cx.orders))
	r.Set("sources", len(sources))
	r.Set("sources_searched_to_fixpoint", srcDone)
	r.Set("largest_source_items", maxItems)
	r.Set("largest_state_count_of_one_source", maxStates)
	r.Set("deliveries_of_requested_data", cx.delivers)
	r.Set("redeliveries_of_delivered_data", cx.redeliver)
	r.Set("deliveries_of_genuine_unrequested_data", cx.unrequested)
	r.Set("forged_deliveries", cx.forged)
	r.Set("completed_syncs_verified_after_flush", cx.completes)
	r.Set("complete_delivery_orders_enumerated", cx.orders)
	r.Set("states_with_a_request_shared_by_several_requesters", cx.dupRequesters)
	r.Set("states_with_one_request_for_two_different_buckets", cx.twoBucketRequests)
	r.Set("injected_faults_that_fired", cx.faultsFired)
	r.Set("deliveries_failed_by_an_injected_fault", cx.failedDeliveries)
	r.Set("injected_faults_absorbed_without_error", cx.faultSwallowed)
	r.Set("failed_deliveries_that_left_a_partial_store_write", cx.partialStores)
	r.Set("successful_redeliveries_after_a_failed_delivery", cx.redeliverAfterFail)
	r.Set("complete_delivery_orders_with_one_injected_fault", cx.faultOrders)
	r.Sanity(cx.failedDeliveries > 100 && cx.redeliverAfterFail > 100 && cx.faultOrders > 100, "vacuity(faults): failed=%d redelivered=%d faultOrders=%d", cx.failedDeliveries, cx.redeliverAfterFail, cx.faultOrders)
	r.Sanity(cx.twoBucketRequests > 0, "no state in which one hash is requested for two different buckets")
	r.Sanity(cx.delivers > 100 && cx.redeliver > 100 && cx.unrequested > 100 && cx.forged > 100 && cx.completes > 10 && cx.orders > 10,
		"vacuity: delivers=%d redeliver=%d unrequested=%d forged=%d completes=%d orders=%d", cx.delivers, cx.redeliver, cx.unrequested, cx.forged, cx.completes, cx.orders)
	r.Finish(complete && srcDone == len(sources))
}
