//go:build verif

package service

// C10 — block execution never silently drops a transaction. A scripted
// transaction type whose handler fails at a chosen attempt with a chosen error
// kind is placed at every position of blocks of 1..4 transactions and executed
// through the REAL transition.doExecute in sequential mode and in concurrent
// mode (levels 2 and 3) under every interleaving inside the preemption bound.

import (
	"bytes"
	"encoding/json"
	"fmt"
	"math/big"
	"os"
	"path/filepath"
	"sort"
	"strconv"
	"strings"
	"sync"
	"testing"
	"time"

	"github.com/icon-project/goloop/chain/base"
	"github.com/icon-project/goloop/common"
	"github.com/icon-project/goloop/common/crypto"
	"github.com/icon-project/goloop/common/db"
	"github.com/icon-project/goloop/common/errors"
	"github.com/icon-project/goloop/common/log"
	"github.com/icon-project/goloop/common/merkle"
	"github.com/icon-project/goloop/common/trie"
	"github.com/icon-project/goloop/module"
	"github.com/icon-project/goloop/service/contract"
	"github.com/icon-project/goloop/service/state"
	"github.com/icon-project/goloop/service/transaction"
	"github.com/icon-project/goloop/service/txresult"
	"github.com/icon-project/goloop/verifshim/ev"
	"github.com/icon-project/goloop/verifshim/explore"
	"github.com/icon-project/goloop/verifshim/vsync"
)

// attempt outcomes of the scripted handler
const (
	c10OK      = 0
	c10Fail    = 1 // errors.ExecutionFailError  (retryable)
	c10Rerun   = 2 // errors.CriticalRerunError  (retryable)
	c10Invalid = 3 // errors.InvalidStateError   (non-retryable)
)

// c10Tx implements transaction.Transaction + transaction.Handler. The
// transaction list re-creates transaction objects from their bytes, so the
// per-execution bookkeeping (attempt counters) lives in a registry keyed by the
// run number embedded in the transaction.
type c10Tx struct {
	Type   string `json:"type"`
	Run    int64  `json:"run"`
	Idx     int    `json:"idx"`              // position in the block
	Script  []int  `json:"script"`           // outcome of Execute attempt 0,1,2,...; beyond the end: ok
	HScript []int  `json:"hscript,omitempty"` // outcome of GetHandler call 0,1,2,...
	PFail   bool   `json:"pfail,omitempty"`   // Prepare fails (concurrent dispatcher only)
	Patch   bool   `json:"patch,omitempty"`   // member of the patch list
}

type c10State struct {
	attempts []int  // handler executions so far, per transaction
	hcalls   []int  // GetHandler calls so far, per transaction
	ecalls   []int  // Platform.OnTransactionEnd calls so far, per transaction
	bad      []bool // the last thing that happened to the transaction was a failure
	last     []int  // outcome of the last Execute attempt, per transaction
}

func c10Err(out int, what string, idx, n int) error {
	switch out {
	case c10Fail:
		return errors.ExecutionFailError.Errorf("scripted retryable failure in %s tx=%d call=%d", what, idx, n)
	case c10Rerun:
		return errors.CriticalRerunError.Errorf("scripted rerun request in %s tx=%d call=%d", what, idx, n)
	case c10Invalid:
		return errors.InvalidStateError.Errorf("scripted non-retryable failure in %s tx=%d call=%d", what, idx, n)
	}
	return nil
}

// c10Platform wraps the transition's platform: OnTransactionEnd fails per
// script (the receipt identifies its transaction by stepUsed = 100+idx), and
// OnExecutionBegin can switch the block into skip-transaction mode (which makes
// executeTxs take the sequential path whatever the concurrency level is).
type c10Platform struct {
	base.Platform
	st   *c10State
	end  map[int][]int
	skip bool
}

func (p *c10Platform) OnExecutionBegin(wc state.WorldContext, logger log.Logger) error {
	if p.skip {
		wc.EnableSkipTransaction()
	}
	return p.Platform.OnExecutionBegin(wc, logger)
}

func (p *c10Platform) OnTransactionEnd(wc state.WorldContext, logger log.Logger, rct txresult.Receipt) error {
	idx := int(rct.StepUsed().Int64()) - 100
	if idx >= 0 && idx < len(p.st.ecalls) {
		c10Mu.Lock()
		n := p.st.ecalls[idx]
		p.st.ecalls[idx]++
		out := c10OK
		if sc := p.end[idx]; n < len(sc) {
			out = sc[n]
		}
		p.st.bad[idx] = out != c10OK
		c10Mu.Unlock()
		if err := c10Err(out, "OnTransactionEnd", idx, n); err != nil {
			return err
		}
	}
	return p.Platform.OnTransactionEnd(wc, logger, rct)
}

var (
	c10Mu      sync.Mutex // native leaf lock
	c10Runs    = map[int64]*c10State{}
	c10NextRun int64
	c10Once    sync.Once
)

func c10Register() {
	c10Once.Do(func() {
		transaction.RegisterFactory(&transaction.Factory{
			Priority: 4,
			CheckJSON: func(jso map[string]interface{}) bool {
				v, ok := jso["type"]
				return ok && v == "verif-c10"
			},
			ParseJSON: func(js []byte, jsm map[string]interface{}, raw bool) (transaction.Transaction, error) {
				t := &c10Tx{}
				if err := json.Unmarshal(js, t); err != nil {
					return nil, err
				}
				return t, nil
			},
		})
	})
}

func c10NewRun(n int) (int64, *c10State) {
	c10Mu.Lock()
	defer c10Mu.Unlock()
	c10NextRun++
	st := &c10State{attempts: make([]int, n), hcalls: make([]int, n), ecalls: make([]int, n), bad: make([]bool, n), last: make([]int, n)}
	c10Runs[c10NextRun] = st
	return c10NextRun, st
}

func c10EndRun(run int64) {
	c10Mu.Lock()
	delete(c10Runs, run)
	c10Mu.Unlock()
}

var c10Accounts = []*common.Address{
	common.MustNewAddressFromString("hx00000000000000000000000000000000000000e0"),
	common.MustNewAddressFromString("hx00000000000000000000000000000000000000e1"),
}

func (t *c10Tx) account() *common.Address { return c10Accounts[t.Idx%2] }

func (t *c10Tx) Prepare(ctx contract.Context) (state.WorldContext, error) {
	if t.PFail {
		c10Mu.Lock()
		if st := c10Runs[t.Run]; st != nil {
			st.bad[t.Idx] = true
		}
		c10Mu.Unlock()
		return nil, errors.InvalidStateError.Errorf("scripted failure in Prepare tx=%d", t.Idx)
	}
	// transactions 0,2 share one account and 1,3 the other: real lock dependencies
	lq := []state.LockRequest{{ID: string(t.account().ID()), Lock: state.AccountWriteLock}}
	return ctx.GetFuture(lq), nil
}

func (t *c10Tx) Execute(ctx contract.Context, wcs state.WorldSnapshot, estimate bool) (txresult.Receipt, error) {
	c10Mu.Lock()
	st := c10Runs[t.Run]
	if st == nil {
		c10Mu.Unlock()
		panic("verif-c10: handler executed after its block execution was torn down")
	}
	n := st.attempts[t.Idx]
	st.attempts[t.Idx]++
	out := c10OK
	if n < len(t.Script) {
		out = t.Script[n]
	}
	st.last[t.Idx] = out
	st.bad[t.Idx] = out != c10OK
	c10Mu.Unlock()
	// touch state first, so that a failing attempt leaves something to roll back
	as := ctx.GetAccountState(t.account().ID())
	as.SetBalance(new(big.Int).Add(as.GetBalance(), big.NewInt(int64(1000+t.Idx))))
	if err := c10Err(out, "Execute", t.Idx, n); err != nil {
		return nil, err
	}
	r := txresult.NewReceipt(ctx.Database(), ctx.Revision(), t.account())
	// the receipt identifies its transaction: stepUsed = 100+idx
	r.SetResult(module.StatusSuccess, big.NewInt(int64(100+t.Idx)), big.NewInt(0), nil)
	return r, nil
}

func (t *c10Tx) Dispose()                       {}
func (t *c10Tx) Group() module.TransactionGroup {
	if t.Patch {
		return module.TransactionGroupPatch
	}
	return module.TransactionGroupNormal
}
func (t *c10Tx) ID() []byte                     { return crypto.SHA3Sum256(t.Bytes()) }
func (t *c10Tx) From() module.Address           { return t.account() }
func (t *c10Tx) Bytes() []byte {
	t.Type = "verif-c10"
	b, _ := json.Marshal(t)
	return b
}
func (t *c10Tx) Hash() []byte  { return t.ID() }
func (t *c10Tx) Verify() error { return nil }
func (t *c10Tx) Version() int  { return module.TransactionVersion3 }
func (t *c10Tx) ToJSON(version module.JSONVersion) (interface{}, error) {
	return map[string]interface{}{"type": "verif-c10", "run": t.Run, "idx": t.Idx, "script": t.Script}, nil
}
func (t *c10Tx) ValidateNetwork(nid int) bool                         { return true }
func (t *c10Tx) PreValidate(wc state.WorldContext, update bool) error { return nil }
func (t *c10Tx) GetHandler(cm contract.ContractManager) (transaction.Handler, error) {
	if len(t.HScript) > 0 {
		c10Mu.Lock()
		st := c10Runs[t.Run]
		out, n := c10OK, 0
		if st != nil {
			n = st.hcalls[t.Idx]
			st.hcalls[t.Idx]++
			if n < len(t.HScript) {
				out = t.HScript[n]
			}
			if out != c10OK {
				st.bad[t.Idx] = true
			}
		}
		c10Mu.Unlock()
		if err := c10Err(out, "GetHandler", t.Idx, n); err != nil {
			return nil, err
		}
	}
	return t, nil
}
func (t *c10Tx) Timestamp() int64   { return 1000 }
func (t *c10Tx) Nonce() *big.Int    { return nil }
func (t *c10Tx) To() module.Address { return t.account() }
func (t *c10Tx) IsSkippable() bool  { return false }

// trie.Object
func (t *c10Tx) Reset(s db.Database, k []byte) error { return json.Unmarshal(k, t) }
func (t *c10Tx) Flush() error                        { return nil }
func (t *c10Tx) Equal(o trie.Object) bool {
	if x, ok := o.(*c10Tx); ok {
		return bytes.Equal(x.Bytes(), t.Bytes())
	}
	return false
}
func (t *c10Tx) Resolve(builder merkle.Builder) error { return nil }
func (t *c10Tx) ClearCache()                          {}

// ---------------------------------------------------------------------------
// cases

// c10Kind is one scripted fault: where it is injected and the outcome per call.
type c10Kind struct {
	Name     string
	Site     string // "", "execute", "txend", "handler", "prepare"
	Script   []int  // Execute outcomes
	End      []int  // Platform.OnTransactionEnd outcomes
	Handler  []int  // GetHandler outcomes
	Prepare  bool   // Prepare fails
	ConcOnly bool   // site only exists on the concurrent path
	Core     bool   // member of the reduced set used for level 3 in the quick tier
}

var c10Kinds = func() []c10Kind {
	five := func(v int) []int { return []int{v, v, v, v, v} }
	ks := []c10Kind{{Name: "none"}}
	scripts := []struct {
		name string
		sc   []int
		core bool
	}{
		{"non-retryable", []int{c10Invalid}, true},
		{"non-retryable-after-one-retry", []int{c10Fail, c10Invalid}, false},
		{"retryable-once-then-ok", []int{c10Fail}, true},
		{"rerun-once-then-ok", []int{c10Rerun}, false},
		{"retryable-twice-then-ok", []int{c10Fail, c10Rerun}, false},
		{"retry-exhausted", five(c10Fail), true},
		{"rerun-exhausted", five(c10Rerun), false},
	}
	for _, x := range scripts { // failures of the handler's Execute (names kept from the first version)
		ks = append(ks, c10Kind{Name: x.name, Site: "execute", Script: x.sc, Core: x.core})
	}
	for _, x := range scripts { // failures of Platform.OnTransactionEnd after a successful Execute
		ks = append(ks, c10Kind{Name: "txend-" + x.name, Site: "txend", End: x.sc, Core: x.core})
	}
	ks = append(ks,
		c10Kind{Name: "handler-unavailable", Site: "handler", Handler: []int{c10Invalid}, Core: true},
		c10Kind{Name: "handler-unavailable-on-retry", Site: "handler", Script: []int{c10Fail}, Handler: []int{c10OK, c10Invalid}, Core: true},
		c10Kind{Name: "prepare-fails", Site: "prepare", Prepare: true, ConcOnly: true, Core: true},
	)
	return ks
}()

type c10Case struct {
	N     int           `json:"n"`    // block length
	Pos   int           `json:"pos"`  // position of the scripted failing transaction
	Kind  int           `json:"kind"` // index into c10Kinds
	Conc  int           `json:"conc"` // 1 = sequential mode
	Mode  string        `json:"mode,omitempty"` // "" normal list; "patch": block in the patch list; "skip": skip-transaction mode (sequential path forced)
	P     int           `json:"p"`
	Trace explore.Trace `json:"trace,omitempty"`
	Free  bool          `json:"free,omitempty"` // free-running (native goroutines) instead of explored
}

func (c c10Case) sequentialPath() bool { return c.Conc <= 1 || c.Mode != "" }

func (c c10Case) modeName() string {
	switch {
	case c.Mode == "patch":
		return "sequential-patch-list"
	case c.Mode == "skip":
		return "sequential-skip-mode"
	case c.Conc > 1:
		return "concurrent"
	}
	return "sequential"
}

func (c c10Case) String() string {
	mode := c.modeName()
	if c.Conc > 1 {
		mode = fmt.Sprintf("%s(level=%d)", mode, c.Conc)
	}
	return fmt.Sprintf("block of %d, tx %d scripted %q, %s", c.N, c.Pos, c10Kinds[c.Kind].Name, mode)
}

func (c c10Case) build() ([]module.Transaction, *c10State, int64) {
	c10Register()
	run, st := c10NewRun(c.N)
	txs := make([]module.Transaction, c.N)
	for i := 0; i < c.N; i++ {
		t := &c10Tx{Type: "verif-c10", Run: run, Idx: i, Patch: c.Mode == "patch"}
		if i == c.Pos {
			k := c10Kinds[c.Kind]
			t.Script, t.HScript, t.PFail = k.Script, k.Handler, k.Prepare
		}
		txs[i] = t
	}
	return txs, st, run
}

// opt builds the execution options of one run of the case.
func (c c10Case) opt(st *c10State) l2Opt {
	k := c10Kinds[c.Kind]
	return l2Opt{
		Patch: c.Mode == "patch",
		Platform: func(p base.Platform) base.Platform {
			return &c10Platform{Platform: p, st: st, end: map[int][]int{c.Pos: k.End}, skip: c.Mode == "skip"}
		},
	}
}

func c10Cases(tier string) []c10Case {
	var out []c10Case
	thorough := tier == "thorough"
	type mode struct {
		conc int
		mode string
	}
	// sequential path: normal list, patch list, skip-transaction mode (level 2
	// configured, but executeTxs must take the sequential path);
	// concurrent path: levels 2 and 3
	for _, m := range []mode{{1, ""}, {1, "patch"}, {2, "skip"}, {2, ""}, {3, ""}} {
		explored := m.conc > 1 && m.mode == ""
		for n := 1; n <= 4; n++ {
			for k, kind := range c10Kinds {
				if kind.ConcOnly && !explored {
					continue
				}
				if explored && m.conc == 3 && !thorough {
					// quick: level 3 for blocks up to 3 (all faults) and for blocks of 4
					// with the core fault set
					if n == 4 && !(kind.Core || k == 0) {
						continue
					}
				}
				for pos := 0; pos < n; pos++ {
					if k == 0 && pos > 0 {
						continue
					}
					p := 0
					if explored {
						// quick: P<=2 for blocks up to 3, P<=1 for blocks of 4;
						// thorough: P<=3 for blocks up to 3, P<=2 for blocks of 4
						p = 2
						if thorough && n <= 3 {
							p = 3
						} else if !thorough && n == 4 {
							p = 1
						}
					}
					out = append(out, c10Case{N: n, Pos: pos, Kind: k, Conc: m.conc, Mode: m.mode, P: p})
				}
			}
		}
	}
	return out
}

// c10Run is what one execution exposes.
type c10Run struct {
	obs *l2Obs
	st  *c10State
	id  int64
}

// c10Judge applies the property statement to one finished execution.
// "" = fine.
func c10Judge(c c10Case, run *c10Run, panicText string, deadlock, horizon bool) (sig, detail string) {
	mode := c.modeName()
	kind := c10Kinds[c.Kind].Name
	switch {
	case deadlock:
		return mode + ":" + kind + ":deadlock", "block execution deadlocked"
	case horizon:
		return mode + ":" + kind + ":livelock", "step horizon exceeded"
	}
	// which transactions ended in failure (last attempt not ok)?
	var failed []int
	c10Mu.Lock()
	for i := range run.st.bad {
		if run.st.bad[i] {
			failed = append(failed, i)
		}
	}
	c10Mu.Unlock()
	o := run.obs
	if panicText != "" {
		first := panicText
		if i := strings.Index(first, "\n"); i > 0 {
			first = first[:i]
		}
		why := "panic"
		if strings.Contains(panicText, "doExecute") && strings.Contains(first, "nil pointer") && len(failed) > 0 {
			why = "failure-not-reported:nil-receipt-dereferenced-in-doExecute"
		}
		return mode + ":" + kind + ":" + why, fmt.Sprintf("transactions whose handler failed: %v; executeTxs returned success with a nil receipt and the aggregation loop panicked: %s", failed, c10Trunc(panicText, 1200))
	}
	if !o.Called {
		return mode + ":" + kind + ":no-callback", "doExecute returned without calling OnExecute"
	}
	if o.Err != "" {
		return "", "" // the whole block failed with an error: allowed by the statement
	}
	// block reported as successfully executed
	if len(failed) > 0 {
		return mode + ":" + kind + ":failure-not-reported:block-succeeded", fmt.Sprintf("block reported success although the handler of transactions %v failed for good; receipts=%v", failed, o.Receipts)
	}
	if len(o.Receipts) != c.N {
		return mode + ":" + kind + ":receipt-count", fmt.Sprintf("%d receipts for %d transactions", len(o.Receipts), c.N)
	}
	for i, r := range o.Receipts {
		want := fmt.Sprintf("%d:s0:u%d:", i, 100+i)
		if !strings.HasPrefix(r, want) {
			return mode + ":" + kind + ":receipt-mismatch", fmt.Sprintf("receipt %d is %q, want prefix %q (receipts %v)", i, r, want, o.Receipts)
		}
	}
	return "", ""
}

func c10Trunc(s string, n int) string {
	if len(s) > n {
		return s[:n]
	}
	return s
}

type c10Res struct {
	Idx      int            `json:"idx"`
	Skipped  bool           `json:"skipped,omitempty"`
	Res      explore.Result `json:"res"`
	Outcomes map[string]int `json:"outcomes"` // "error:<first line>" / "success"
	Viol     []c09Viol10    `json:"viol,omitempty"`
	Harness  string         `json:"harness,omitempty"`
}

type c09Viol10 struct {
	Sig    string  `json:"sig"`
	Detail string  `json:"detail"`
	Case   c10Case `json:"case"`
}

func c10Outcome(run *c10Run, panicText string) string {
	switch {
	case panicText != "":
		return "panic"
	case !run.obs.Called:
		return "no-callback"
	case run.obs.Err != "":
		e := run.obs.Err
		if i := strings.Index(e, " tx="); i > 0 {
			e = e[:i]
		}
		return "error: " + e
	}
	return "success"
}

// c10Explore runs one case: natively for the sequential mode, under the
// explorer for the concurrent modes.
func c10Explore(env *l2Env, c c10Case, idx int, deadline time.Time, known map[string]bool) c10Res {
	res := c10Res{Idx: idx, Outcomes: map[string]int{}}
	if c.sequentialPath() {
		run, pt := c10Native(env, c)
		res.Res.Executions = 1
		res.Res.Complete = true
		res.Outcomes[c10Outcome(run, pt)]++
		if sig, detail := c10Judge(c, run, pt, false, false); sig != "" {
			res.Viol = append(res.Viol, c09Viol10{sig, c.String() + "\n" + detail, c})
		}
		return res
	}
	body := c10Body(env, c)
	nviol, n := 0, 0
	seen := map[string]bool{}
	opt := explore.Options{MaxPreemptions: c.P, SkipReleasePoints: true, MaxSteps: 50000}
	opt.Stop = func() bool {
		n++
		return nviol >= 5 || (n%32 == 0 && time.Now().After(deadline))
	}
	res.Res = explore.Explore(opt, body, func(x *explore.Exec, out *explore.Outcome) {
		run := x.Data.(*c10Run)
		defer c10EndRun(run.id)
		res.Outcomes[c10Outcome(run, out.Panic)]++
		sig, detail := c10Judge(c, run, out.Panic, out.Deadlock, out.Horizon)
		if sig == "" {
			return
		}
		if !known[sig] {
			nviol++
		}
		if seen[sig] || len(res.Viol) >= 4 {
			return
		}
		seen[sig] = true
		tr := append(explore.Trace(nil), out.Trace...)
		x2, out2, err := explore.Replay(tr, opt, body)
		if err != nil {
			res.Harness = "replay of a violating execution diverged: " + err.Error()
			return
		}
		defer c10EndRun(x2.Data.(*c10Run).id)
		if sig2, _ := c10Judge(c, x2.Data.(*c10Run), out2.Panic, out2.Deadlock, out2.Horizon); sig2 != sig {
			res.Harness = fmt.Sprintf("violation %q did not reproduce on replay (got %q)", sig, sig2)
			return
		}
		cc := c
		cc.Trace = tr
		res.Viol = append(res.Viol, c09Viol10{sig, c.String() + "\n" + detail + "\n trace: " + tr.String(), cc})
	})
	return res
}

// c10Native runs the case on the calling goroutine without an explorer: the
// sequential mode, and the free-running concurrent mode (native goroutines, the
// schedule is whatever the runtime picks).
func c10Body(env *l2Env, c c10Case) func(x *explore.Exec) {
	return func(x *explore.Exec) {
		// the registry entry must outlive thread 0: workers may still be running
		// after doExecute returned an error; it is dropped once the execution ended
		txs, st, id := c.build()
		run := &c10Run{obs: &l2Obs{}, st: st, id: id}
		x.Data = run
		env.execIntoOpt(run.obs, txs, c.Conc, c.opt(st))
	}
}

func c10Native(env *l2Env, c c10Case) (*c10Run, string) {
	// the registry entry is kept: in the free-running concurrent mode worker
	// goroutines may outlive doExecute
	txs, st, id := c.build()
	run := &c10Run{obs: &l2Obs{}, st: st, id: id}
	pt := ev.Catch(func() { env.execIntoOpt(run.obs, txs, c.Conc, c.opt(st)) })
	if pt != "" {
		pt += " (in doExecute)"
	}
	return run, pt
}

func c10Known() map[string]bool {
	known := map[string]bool{}
	b, err := os.ReadFile(filepath.Join(ev.Root(), "known_findings.json"))
	if err != nil {
		return known
	}
	var list []struct{ State, Property, Signature string }
	if json.Unmarshal(b, &list) != nil {
		return known
	}
	for _, k := range list {
		if k.State == "known" && k.Property == "C10" {
			known[k.Signature] = true
		}
	}
	return known
}

func c10ShardMain() {
	cases := c10Cases(os.Getenv("VERIF_TIER"))
	dl, _ := strconv.ParseInt(os.Getenv("VERIF_C10_DEADLINE"), 10, 64)
	deadline := time.UnixMilli(dl)
	env := newL2Env()
	defer env.close()
	known := c10Known()
	for {
		i, ok := explore.NextItem()
		if !ok {
			break
		}
		var res c10Res
		if time.Now().After(deadline) {
			res = c10Res{Idx: i, Skipped: true}
		} else {
			res = c10Explore(env, cases[i], i, deadline, known)
		}
		b, _ := json.Marshal(&res)
		explore.Emit(b)
	}
}

func TestVerifC10(t *testing.T) {
	if explore.IsShard() {
		c10ShardMain()
		return
	}
	started := time.Now()
	r := ev.Start(t, "C10", "fault_enumeration")
	r.SetBudget(80*time.Second, 14*time.Minute)
	budget := 80 * time.Second
	if r.Thorough() {
		budget = 14 * time.Minute
	}
	if s := os.Getenv("VERIF_BUDGET_S"); s != "" {
		if n, err := strconv.Atoi(s); err == nil {
			budget = time.Duration(n) * time.Second
		}
	}
	deadline := started.Add(budget - 3*time.Second)
	r.Rule("a case = (block length 1..4) x (position of the scripted transaction) x (fault: none | at the handler's Execute or at Platform.OnTransactionEnd {non-retryable at call 0 or 1, retryable once/twice then ok with both retryable codes, retry budget exhausted with both codes} | GetHandler fails at the first call or on the retry | Prepare fails (concurrent dispatcher)) x (sequential normal list | sequential patch list | skip-transaction mode at level 2 | concurrent level 2 | level 3; quick: level-3 blocks of 4 only with the core faults); concurrent cases are executed through the real transition.doExecute under every interleaving with at most P preemptions (quick: P=2 for blocks up to 3, P=1 for blocks of 4; thorough: P=3 for blocks up to 3, P=2 for blocks of 4); distinct_nontrivial counts cases in which a handler really failed")
	r.Assume("scripted transaction type (own Handler) instead of contract execution; every transaction write-locks one of two accounts (0,2 and 1,3 share) so workers really wait for each other",
		"only worldvirtualstate.go and transition_pe.go run on the vsync shim; release operations are not preemptible (data-race-free code)",
		"the statement allows a block with a retryable failure to fail as a whole; only 'success with a failed/missing transaction', panics, deadlocks and missing callbacks are violations")
	if err := vsync.SelfCheck(); err != nil {
		r.Sanity(false, "engine self-check failed: %v", err)
		r.Sample("engine self-check failed")
		r.Finish(false)
		return
	}
	work := os.Getenv("VERIF_SCRATCH")
	if work == "" {
		work = filepath.Join(ev.Root(), ".work", "c10")
	}
	os.Setenv("VERIF_C09_TMP", filepath.Join(work, "tmp"))
	defer os.RemoveAll(filepath.Join(work, "tmp"))
	if ev.Replaying() {
		var c c10Case
		ev.ReplayCase(&c)
		env := newL2Env()
		defer env.close()
		r.Eval(1)
		var sig, detail string
		if c.sequentialPath() || c.Free {
			run, pt := c10Native(env, c)
			sig, detail = c10Judge(c, run, pt, false, false)
		} else {
			body := c10Body(env, c)
			x, out, err := explore.Replay(c.Trace, explore.Options{SkipReleasePoints: true, MaxSteps: 50000}, body)
			if err != nil {
				r.Sanity(false, "replay diverged: %v", err)
				r.Finish(false)
				return
			}
			sig, detail = c10Judge(c, x.Data.(*c10Run), out.Panic, out.Deadlock, out.Horizon)
		}
		fmt.Printf("REPLAY %s -> %q\n", c, sig)
		if sig != "" {
			r.Violation(sig, c.String()+"\n"+detail, c)
		}
		r.Sample(map[string]interface{}{"replayed": c.String()})
		r.Finish(false)
		return
	}

	cases := c10Cases(r.Tier())
	var total explore.Result
	total.BlockedByKind = map[string]int64{}
	var harness []string
	skipped := 0
	outcomes := map[string]map[string]int{} // mode/kind -> outcome -> executions
	failedCases := 0
	sampled := 0
	// biggest cases first
	order := make([]int, len(cases))
	for i := range order {
		order[i] = i
	}
	// cheap cases first (sequential mode, blocks of 1-2) so that a wall-clock cap
	// never costs their coverage; then the rest, biggest first, for load balance
	weight := func(c c10Case) int {
		if c.sequentialPath() || c.N <= 2 {
			return 1000 - c.Conc*10 - c.N
		}
		return c.Conc*10 + c.N
	}
	sort.SliceStable(order, func(a, b int) bool {
		return weight(cases[order[a]]) > weight(cases[order[b]])
	})
	err := explore.RunShards(explore.ShardSpec{Test: "TestVerifC10", Order: order, Procs: 16,
		Env: []string{fmt.Sprintf("VERIF_C10_DEADLINE=%d", deadline.UnixMilli()), "VERIF_C09_TMP=" + filepath.Join(work, "tmp")}},
		func(shard int, line []byte) {
			var res c10Res
			if err := json.Unmarshal(line, &res); err != nil {
				harness = append(harness, "bad shard line: "+err.Error())
				return
			}
			c := cases[res.Idx]
			if res.Skipped {
				skipped++
				return
			}
			if !res.Res.Complete && len(res.Viol) == 0 {
				skipped++
			} else if !res.Res.Complete {
				r.Cap("exploration of violating cases stopped after 5 violating executions each")
			}
			if res.Harness != "" {
				harness = append(harness, c.String()+": "+res.Harness)
			}
			total.Merge(res.Res)
			r.Eval(int(res.Res.Executions))
			mode := c.modeName()
			if c.Conc > 1 && c.Mode == "" {
				mode = fmt.Sprintf("concurrent%d", c.Conc)
			}
			key := mode + "/" + c10Kinds[c.Kind].Name
			if outcomes[key] == nil {
				outcomes[key] = map[string]int{}
			}
			for k, v := range res.Outcomes {
				outcomes[key][k] += v
			}
			if c.Kind != 0 {
				failedCases++
				r.Nontrivial(fmt.Sprintf("%d/%d/%d/%d/%s", c.N, c.Pos, c.Kind, c.Conc, c.Mode))
			}
			for _, v := range res.Viol {
				r.Violation(v.Sig, v.Detail, v.Case)
			}
			if sampled < 6 && !c.sequentialPath() && c.Kind != 0 && c.N >= 3 && res.Idx%7 == 0 {
				sampled++
				r.Sample(map[string]interface{}{"case": c.String(), "preemption_bound": c.P, "executions": res.Res.Executions,
					"executions_with_blocked_thread": res.Res.BlockedExecutions, "outcomes": res.Outcomes})
			}
		})
	if err != nil {
		harness = append(harness, err.Error())
	}
	// free-running pass of every concurrent case (native goroutines, default schedule)
	free := 0
	if len(harness) == 0 {
		env := newL2Env()
		for _, c := range cases {
			if c.sequentialPath() {
				continue
			}
			for rep := 0; rep < 3; rep++ {
				run, pt := c10Native(env, c)
				free++
				r.Eval(1)
				if sig, detail := c10Judge(c, run, pt, false, false); sig != "" {
					cc := c
					cc.Free = true
					r.Violation("free-running:"+sig, c.String()+" (free-running)\n"+detail, cc)
				}
			}
		}
		env.close()
	}
	for _, h := range harness {
		r.Sanity(false, "%s", h)
	}
	if len(harness) > 0 {
		defer t.Errorf("C10: %d harness error(s), first: %s", len(harness), harness[0])
	}
	if skipped > 0 {
		r.Cap(fmt.Sprintf("%d of %d cases not (fully) explored before the wall-clock budget", skipped, len(cases)))
	}
	r.Set("cases", len(cases))
	r.Set("cases_with_a_failing_handler", failedCases)
	r.Set("executions", total.Executions)
	r.Set("free_running_executions", free)
	if skipped == 0 {
		if r.Thorough() {
			r.Set("preemption_bound_completed", map[string]int{"blocks of 1-3": 3, "blocks of 4": 2})
		} else {
			r.Set("preemption_bound_completed", map[string]int{"blocks of 1-3": 2, "blocks of 4": 1})
		}
	}
	r.Set("executions_with_a_blocked_thread", total.BlockedExecutions)
	r.Set("executions_blocked_by_kind", total.BlockedByKind)
	r.Set("executions_by_preemptions", total.ByPreemptions)
	r.Set("outcomes_by_mode_and_kind", outcomes)
	r.Set("max_decisions_per_execution", total.MaxDepth)
	r.Sanity(total.Executions > int64(len(cases)), "nothing explored")
	r.Sanity(total.BlockedByKind["cond.Wait"] > 0 || skipped > 0, "no execution blocked in waitCommit")
	// vacuity: the error path and the success path must both have been seen in both modes
	for _, m := range []string{"sequential", "sequential-patch-list", "sequential-skip-mode", "concurrent2", "concurrent3"} {
		okSeen := outcomes[m+"/none"]["success"] > 0
		r.Sanity(okSeen || skipped > 0, "%s: the failure-free block never succeeded", m)
	}
	if sampled == 0 {
		r.Sample(map[string]interface{}{"cases": len(cases), "executions": total.Executions})
	}
	r.Finish(skipped == 0 && len(harness) == 0)
}
