//go:build verif

package service

import "testing"

func TestVerifC10Probe(t *testing.T) {
	env := newL2Env()
	defer env.close()
	for _, c := range []c10Case{{N: 2, Pos: 0, Kind: 0, Conc: 1}, {N: 2, Pos: 1, Kind: 1, Conc: 1}, {N: 2, Pos: 0, Kind: 0, Conc: 2}, {N: 3, Pos: 1, Kind: 3, Conc: 2}} {
		run, pt := c10Native(env, c)
		t.Logf("%s: called=%v err=%q rcts=%v panic=%q attempts=%d", c, run.obs.Called, run.obs.Err, run.obs.Receipts, pt, run.st.attempts[c.Pos])
	}
}
