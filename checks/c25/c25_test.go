//go:build verif

package common

import (
	"bytes"
	stdlzw "compress/lzw"
	"crypto/sha256"
	"encoding/hex"
	"fmt"
	"io"
	"runtime"
	"sync"
	"sync/atomic"
	"testing"

	"github.com/icon-project/goloop/verifshim/ev"
	"github.com/icon-project/goloop/verifshim/hist"
)

// ---------------------------------------------------------------------------
// Independent reference encoder: the LZW variant that Go's compress/lzw writer
// produced before Go 1.17 (and with which existing goloop block headers were
// hashed): MSB-first packing, literal width 8, clear=256, eof=257, first
// assigned code 258, code width grows when code 2^width is assigned, when code
// 4095 would be assigned a clear code is sent instead and the dictionary is
// reset, NO clear code at the start of the stream, eof code, zero padding.
// Written with a map[string]code dictionary and a bit-at-a-time packer, i.e.
// sharing no structure with common/lzw/writer.go.
// ---------------------------------------------------------------------------

type c25Stats struct {
	codes        int  // codes emitted (incl. clear and eof)
	clears       int  // clear codes emitted
	clearAtClose bool // the clear code was caused by the last data code
	bumpAtClose  bool // the code width grew between the last data code and eof
	maxWidth     int
}

func c25RefEncode(x []byte) ([]byte, c25Stats) {
	var st c25Stats
	if len(x) == 0 {
		// goloop encodes the empty string as the empty string
		return []byte{}, st
	}
	var out []byte
	var acc byte
	var nacc uint
	emit := func(code, width int) {
		for i := width - 1; i >= 0; i-- {
			acc = acc<<1 | byte((code>>uint(i))&1)
			nacc++
			if nacc == 8 {
				out = append(out, acc)
				acc, nacc = 0, 0
			}
		}
		st.codes++
		if width > st.maxWidth {
			st.maxWidth = width
		}
	}
	dict := map[string]int{}
	next := 258
	width := 9
	codeOf := func(s string) int {
		if len(s) == 1 {
			return int(s[0])
		}
		c, ok := dict[s]
		if !ok {
			panic("reference encoder: phrase not in dictionary")
		}
		return c
	}
	// assign gives the next free code to phrase s ("" at end of input: the
	// legacy writer still consumes a code number there).
	assign := func(s string, atClose bool) {
		n := next
		next++
		if n == 1<<uint(width) {
			width++
			if atClose {
				st.bumpAtClose = true
			}
		}
		if n == 4095 {
			emit(256, width)
			st.clears++
			if atClose {
				st.clearAtClose = true
			}
			width, next, dict = 9, 258, map[string]int{}
			return
		}
		if s != "" {
			dict[s] = n
		}
	}
	w := string(x[:1])
	for _, c := range x[1:] {
		wc := w + string([]byte{c})
		if _, ok := dict[wc]; ok {
			w = wc
			continue
		}
		emit(codeOf(w), width)
		assign(wc, false)
		w = string([]byte{c})
	}
	emit(codeOf(w), width)
	assign("", true)
	emit(257, width)
	if nacc > 0 {
		out = append(out, acc<<(8-nacc))
	}
	return out, st
}

// ---------------------------------------------------------------------------

type c25Case struct {
	Family   string   `json:"family"`
	Hex      string   `json:"hex,omitempty"`      // the input bytes
	History  []string `json:"history,omitempty"`  // family "history": names of the calls, in order
	Expected string   `json:"expected,omitempty"` // family "history": required result of the last call
}

type c25Env struct {
	r            *ev.Run
	clears       int64
	clearAtClose int64
	bumpAtClose  int64
	width12      int64
	nonEmpty     int64
	mu           sync.Mutex
	sizes        map[int]int // compressed sizes seen (vacuity: distinct outcomes)
}

func c25First9(c []byte) int {
	if len(c) < 2 {
		return -1
	}
	return int(c[0])<<1 | int(c[1])>>7
}

func (e *c25Env) check(family string, x []byte) {
	r := e.r
	r.Eval(1)
	r.Nontrivial(string(x))
	mk := func() c25Case { return c25Case{Family: family, Hex: hex.EncodeToString(x)} }
	desc := func() string {
		if len(x) <= 48 {
			return fmt.Sprintf("family=%s x=%x", family, x)
		}
		return fmt.Sprintf("family=%s len=%d x=%x…", family, len(x), x[:32])
	}
	var comp, back []byte
	if p := ev.Catch(func() { comp = Compress(x) }); p != "" {
		r.Violation("Compress-panics", desc()+" panic="+p, mk())
		return
	}
	if p := ev.Catch(func() { back = Decompress(comp) }); p != "" {
		r.Violation("Decompress-panics", desc()+" panic="+p, mk())
		return
	}
	if !bytes.Equal(back, x) {
		r.Violation("roundtrip-lossy", fmt.Sprintf("%s compressed=%d bytes, decompressed len=%d (first difference at %d)", desc(), len(comp), len(back), c25Diff(back, x)), mk())
	}
	ref, st := c25RefEncode(x)
	if len(x) == 0 {
		if len(comp) != 0 {
			r.Violation("empty-input-not-empty-output", fmt.Sprintf("Compress(empty)=%x", comp), mk())
		}
		return
	}
	atomic.AddInt64(&e.nonEmpty, 1)
	if !bytes.Equal(comp, ref) {
		sig := "differs-from-legacy-encoding"
		switch {
		case c25First9(comp) == 256:
			sig = "leading-clear-code"
		case st.clears > 0:
			sig = "differs-from-legacy-encoding:after-table-full"
		case st.bumpAtClose:
			sig = "differs-from-legacy-encoding:width-grows-before-eof"
		}
		r.Violation(sig, fmt.Sprintf("%s\n got=%s\nwant=%s (first difference at byte %d)", desc(), c25Short(comp), c25Short(ref), c25Diff(comp, ref)), mk())
	}
	if f := c25First9(comp); f == 256 {
		if bytes.Equal(comp, ref) { // otherwise already reported above
			r.Violation("leading-clear-code", desc(), mk())
		}
	} else if f != int(x[0]) {
		r.Violation("first-code-not-first-literal", fmt.Sprintf("%s first 9 bits=%d", desc(), f), mk())
	}
	// second independent decoder: today's standard library reader
	sr := stdlzw.NewReader(bytes.NewReader(comp), stdlzw.MSB, 8)
	sb, err := io.ReadAll(sr)
	_ = sr.Close()
	if err != nil || !bytes.Equal(sb, x) {
		r.Violation("stdlib-reader-disagrees", fmt.Sprintf("%s err=%v decoded len=%d", desc(), err, len(sb)), mk())
	}
	// the real decoder reads the legacy form
	if !bytes.Equal(comp, ref) {
		var b2 []byte
		if p := ev.Catch(func() { b2 = Decompress(ref) }); p != "" || !bytes.Equal(b2, x) {
			r.Violation("Decompress-misreads-legacy-encoding", fmt.Sprintf("%s panic=%q decoded len=%d", desc(), p, len(b2)), mk())
		}
	}
	atomic.AddInt64(&e.clears, int64(st.clears))
	if st.clearAtClose {
		atomic.AddInt64(&e.clearAtClose, 1)
	}
	if st.bumpAtClose {
		atomic.AddInt64(&e.bumpAtClose, 1)
	}
	if st.maxWidth == 12 {
		atomic.AddInt64(&e.width12, 1)
	}
	e.mu.Lock()
	e.sizes[len(comp)]++
	e.mu.Unlock()
}

// ---------------------------------------------------------------------------
// History family: results must not depend on the calls made before.
// ---------------------------------------------------------------------------

func c25Res(b []byte) string {
	if len(b) <= 48 {
		return fmt.Sprintf("%x", b)
	}
	h := sha256.Sum256(b)
	return fmt.Sprintf("len=%d sha256=%x head=%x", len(b), h[:8], b[:16])
}

// c25HistoryCalls: Compress and Decompress calls on valid inputs of different
// sizes and shapes, and Decompress calls on damaged streams (every truncation
// and every single-byte inversion of small valid streams, garbage).
func c25HistoryCalls(thorough bool) []hist.Call {
	var calls []hist.Call
	type in struct {
		name string
		x    []byte
	}
	bloom, stripped := c25Bloom(100, 2047)
	valid := []in{
		{"a", []byte("a")}, {"ab", []byte("ab")}, {"zeros10", make([]byte, 10)}, {"abcabcabc", []byte("abcabcabc")},
		{"pattern40", c25Pairs(40, 3)}, {"bloom", bloom}, {"bloom-stripped", stripped}, {"zeros600", make([]byte, 600)},
		{"pairs300", c25Pairs(300, 0)}, {"pairs3900", c25Pairs(3900, 0)}, {"counting500", c25Counting(500, []byte{0x00, 0xff})},
		{"pairs255", c25Pairs(255, 1)}, {"pairs767", c25Pairs(767, 1)},
	}
	for _, v := range valid {
		v := v
		ref, _ := c25RefEncode(v.x)
		calls = append(calls, hist.Call{Name: "Compress(" + v.name + ")", Class: "Compress-valid", Run: func() string { return c25Res(Compress(v.x)) }, Want: c25Res(ref), HasWant: true})
		calls = append(calls, hist.Call{Name: "Decompress(enc(" + v.name + "))", Class: "Decompress-valid", Run: func() string { return c25Res(Decompress(ref)) }, Want: c25Res(v.x), HasWant: true})
	}
	calls = append(calls, hist.Call{Name: "Compress(empty)", Class: "Compress-valid", Run: func() string { return c25Res(Compress(nil)) }, Want: "", HasWant: true},
		hist.Call{Name: "Decompress(empty)", Class: "Decompress-valid", Run: func() string { return c25Res(Decompress(nil)) }, Want: "", HasWant: true})
	bad := func(name string, y []byte) {
		y = append([]byte{}, y...)
		calls = append(calls, hist.Call{Name: "Decompress(" + name + ")", Class: "Decompress-damaged", Run: func() string {
			var out []byte
			if p := ev.Catch(func() { out = Decompress(y) }); p != "" {
				return "panic:" + p
			}
			return c25Res(out)
		}})
	}
	small := 5
	if thorough {
		small = 7
	}
	for _, v := range valid[:small] {
		ref, _ := c25RefEncode(v.x)
		for cut := 1; cut < len(ref); cut++ {
			bad(fmt.Sprintf("enc(%s)[:%d]", v.name, cut), ref[:cut])
		}
		for pos := 0; pos < len(ref); pos++ {
			d := append([]byte{}, ref...)
			d[pos] ^= 0xff
			bad(fmt.Sprintf("enc(%s)^ff@%d", v.name, pos), d)
		}
	}
	ref, _ := c25RefEncode(valid[9].x) // stream with a clear code, cut in the middle and near the end
	bad("enc(pairs3900)[:2000]", ref[:2000])
	bad("enc(pairs3900)[:len-1]", ref[:len(ref)-1])
	bad("ff", []byte{0xff})
	bad("ffffff", []byte{0xff, 0xff, 0xff})
	bad("ff*100", bytes.Repeat([]byte{0xff}, 100))
	bad("eof-only", []byte{0x80, 0x80})
	bad("clear-then-nothing", []byte{0x80, 0x00})
	return calls
}

func (e *c25Env) history(r *ev.Run) (histories int, complete bool) {
	calls := c25HistoryCalls(r.Thorough())
	var triple []int
	if r.Thorough() {
		for i := range calls {
			if i < 30 || i%9 == 0 {
				triple = append(triple, i)
			}
		}
	}
	restore := hist.Pin()
	defer restore()
	n, complete := hist.Explore(calls, triple, 256, r.Expired, func(sig, detail string, names []string, expected string) {
		r.Violation(sig, detail, c25Case{Family: "history", History: names, Expected: expected})
	})
	r.Eval(n)
	for i, c := range calls {
		r.Nontrivial(fmt.Sprintf("history|%d|%s", i, c.Name))
	}
	r.Set("history_alphabet", len(calls))
	r.Set("history_triple_alphabet", len(triple))
	r.Set("histories", n)
	return n, complete
}

func c25Diff(a, b []byte) int {
	n := len(a)
	if len(b) < n {
		n = len(b)
	}
	for i := 0; i < n; i++ {
		if a[i] != b[i] {
			return i
		}
	}
	return n
}

func c25Min(a, b int) int {
	if a < b {
		return a
	}
	return b
}

func c25Short(b []byte) string {
	if len(b) <= 40 {
		return fmt.Sprintf("%x", b)
	}
	return fmt.Sprintf("%x…(%d bytes)", b[:40], len(b))
}

// ---- batching ----

type c25Item struct {
	family string
	x      []byte
}

type c25Batch struct {
	e     *c25Env
	buf   []c25Item
	bytes int
	n     int64
}

func (b *c25Batch) add(family string, x []byte) {
	b.buf = append(b.buf, c25Item{family, x})
	b.n++
	b.bytes += len(x)
	if len(b.buf) >= 1<<15 || b.bytes >= 16<<20 {
		b.flush()
	}
}

func (b *c25Batch) flush() {
	buf := b.buf
	ev.Par(len(buf), 16, func(i int) { b.e.check(buf[i].family, buf[i].x) })
	b.buf = b.buf[:0]
	b.bytes = 0
}

// ---- input families ----

// c25Pairs is the high-entropy generator: block j (256 bytes) is the
// permutation i -> i*(2j+1)+m, so that all consecutive byte pairs of the first
// 128 blocks are different and every input byte costs one code.
func c25Pairs(n, m int) []byte {
	x := make([]byte, n)
	for i := range x {
		j := (i / 256) % 128
		x[i] = byte((i%256)*(2*j+1) + m)
	}
	return x
}

// c25Counting is the low-entropy generator over an alphabet of k symbols: all
// words of length 1, 2, 3, ... in lexicographic order, concatenated.
func c25Counting(n int, sym []byte) []byte {
	k := len(sym)
	x := make([]byte, 0, n+32)
	for l := 1; len(x) < n; l++ {
		idx := make([]int, l)
		for {
			for _, d := range idx {
				x = append(x, sym[d])
			}
			if len(x) >= n {
				break
			}
			i := l - 1
			for ; i >= 0; i-- {
				idx[i]++
				if idx[i] < k {
					break
				}
				idx[i] = 0
			}
			if i < 0 {
				break
			}
		}
	}
	return x[:n]
}

// c25Overflows returns, for the generator gen (prefix-closed: gen(n) is a
// prefix of gen(n+1)), the smallest input lengths at which the legacy encoder
// has sent 1, 2, ... count clear codes, up to maxLen.
func c25Overflows(gen func(n int) []byte, count, maxLen int) []int {
	var out []int
	lo := 1
	for c := 1; c <= count; c++ {
		if _, st := c25RefEncode(gen(maxLen)); st.clears < c {
			break
		}
		l, h := lo, maxLen // invariant: clears(h) >= c
		for l < h {
			mid := (l + h) / 2
			if _, st := c25RefEncode(gen(mid)); st.clears >= c {
				h = mid
			} else {
				l = mid + 1
			}
		}
		out = append(out, l)
		lo = l
	}
	return out
}

func c25Bloom(bits ...int) (full, stripped []byte) {
	full = make([]byte, 256)
	for _, b := range bits {
		full[b/8] |= 0x80 >> uint(b%8)
	}
	stripped = bytes.TrimLeft(full, "\x00") // big.Int.Bytes() form used by LogsBloom
	return
}

func TestVerifC25(t *testing.T) {
	r := ev.Start(t, "C25", "exploration")
	r.Rule("inputs: all byte strings of length<=2 (thorough: + length 3 over 32 byte values, length 4 over 8 values, length<=8 over {00,01,80,ff}); all strings of length<=9 (thorough <=12) over {00,01,80}; bloom-shaped 256-byte strings and their leading-zero-stripped form with every 1-bit pattern, every 2-bit pattern (quick: both bits in the first/last 8 bytes or at most 16 bit positions apart; thorough: all 2 096 128), thorough every 3-bit pattern inside the first/last 4 bytes; runs of one byte value (lengths 1..600 x {00,ff,55}); table-overflow families: high-entropy generator (all consecutive pairs distinct) at every length 0..4200 (thorough every length 0..12288 for 3 offsets), +-40 around the 2nd and 3rd dictionary overflow and every 97th length to 12288; counting sequences over alphabets of 2 and 3 symbols at every length within +-40 (thorough +-400) of their first dictionary overflow. history family: on one pinned goroutine (single P, collector off between the calls of a history) every ordered pair (thorough: also every triple over a 40-call subset) of calls from an alphabet of Compress / Decompress calls on 13 valid inputs of different sizes (1 byte .. 3900 bytes, with and without clear code, streams ending at different bit offsets) and Decompress calls on every truncation and every single-byte inversion of 5 (thorough 7) small valid streams, cut large streams and garbage: the last result must equal the independent reference (valid calls) resp. be the same after every history (damaged inputs). distinct_nontrivial = distinct inputs (every non-empty input is compressed, decoded by two decoders and compared byte-for-byte with the reference encoder)")
	r.Assume("reference encoder (map-of-strings dictionary, bit-at-a-time MSB packer) implements the pre-Go-1.17 compress/lzw writer format as described in the harness header",
		"second decoder = the Go 1.23 standard library compress/lzw reader")
	e := &c25Env{r: r, sizes: map[int]int{}}
	// Every Compress/Decompress call allocates ~100 KB of tables. With a small
	// live heap the collector would run every few dozen cases and the scavenger
	// would keep returning the freed pages to the OS (re-faulting them is very
	// slow in a VM). An untouched ballast raises the heap goal so that a
	// collection happens once per ~32 MiB of allocation (measured best of 0/32/128/512 MiB) and freed spans are
	// reused (harness tuning only; costs no physical memory by itself).
	ballast := make([]byte, 32<<20)
	defer runtime.KeepAlive(ballast)

	if ev.Replaying() {
		var c c25Case
		ev.ReplayCase(&c)
		if c.Family == "history" {
			calls := c25HistoryCalls(true)
			byName := map[string]int{}
			for i, cl := range calls {
				byName[cl.Name] = i
			}
			var idx []int
			for _, n := range c.History {
				idx = append(idx, byName[n])
			}
			restore := hist.Pin()
			got := hist.Sequence(calls, idx)
			restore()
			r.Eval(1)
			if got != c.Expected {
				r.Violation("result-depends-on-history:replay", fmt.Sprintf("history %v: last call returned %s, expected %s", c.History, got, c.Expected), c)
			}
			r.Finish(false)
			return
		}
		x, err := hex.DecodeString(c.Hex)
		if err != nil {
			t.Fatal(err)
		}
		e.check(c.Family, x)
		r.Finish(false)
		return
	}
	b := &c25Batch{e: e}
	exhaustive := true
	expired := func() bool {
		if r.Expired() {
			exhaustive = false
			return true
		}
		return false
	}

	// 1. all short byte strings
	b.add("short", []byte{})
	for x := 0; x < 256; x++ {
		b.add("short", []byte{byte(x)})
		for y := 0; y < 256; y++ {
			b.add("short", []byte{byte(x), byte(y)})
		}
	}
	// 2. all strings over {00,01,80}
	sym3 := []byte{0x00, 0x01, 0x80}
	maxL := r.Pick(9, 12)
	for l := 1; l <= maxL; l++ {
		idx := make([]int, l)
		for {
			x := make([]byte, l)
			for i, d := range idx {
				x[i] = sym3[d]
			}
			b.add("ternary", x)
			i := l - 1
			for ; i >= 0; i-- {
				idx[i]++
				if idx[i] < 3 {
					break
				}
				idx[i] = 0
			}
			if i < 0 {
				break
			}
		}
	}
	// 3. runs
	for _, v := range []byte{0x00, 0xff, 0x55} {
		for n := 1; n <= 600; n++ {
			b.add("run", bytes.Repeat([]byte{v}, n))
		}
	}
	// 4. bloom-shaped
	addBloom := func(bits ...int) {
		f, s := c25Bloom(bits...)
		b.add("bloom", f)
		if len(s) != len(f) {
			b.add("bloom-stripped", s)
		}
	}
	addBloom()
	for i := 0; i < 2048; i++ {
		addBloom(i)
	}
	edge := func(bit int) bool { return bit < 64 || bit >= 2048-64 }
	for i := 0; i < 2048 && !expired(); i++ {
		for j := i + 1; j < 2048; j++ {
			if r.Thorough() || j-i <= 16 || (edge(i) && edge(j)) {
				addBloom(i, j)
			}
		}
	}
	if r.Thorough() {
		var eb []int
		for i := 0; i < 2048; i++ {
			if i < 32 || i >= 2048-32 {
				eb = append(eb, i)
			}
		}
		for a := 0; a < len(eb); a++ {
			for c := a + 1; c < len(eb); c++ {
				for d := c + 1; d < len(eb); d++ {
					addBloom(eb[a], eb[c], eb[d])
				}
			}
		}
	}
	// 5. table overflow, high entropy
	offsets := []int{0}
	if r.Thorough() {
		offsets = []int{0, 1, 128}
	}
	var ovfInfo []string
	for _, m := range offsets {
		m := m
		gen := func(n int) []byte { return c25Pairs(n, m) }
		ovf := c25Overflows(gen, 3, 12288)
		ovfInfo = append(ovfInfo, fmt.Sprintf("pairs(m=%d): clear codes first sent at input lengths %v", m, ovf))
		r.Sanity(len(ovf) == 3, "high-entropy generator must overflow the dictionary three times below 12288 bytes, got %v", ovf)
		for n := 0; n <= 12288 && !expired(); n++ {
			take := r.Thorough() || n <= 4200 || n%97 == 0
			for _, o := range ovf {
				if n >= o-40 && n <= o+40 {
					take = true
				}
			}
			if take {
				b.add(fmt.Sprintf("pairs-m%d", m), gen(n))
			}
		}
	}
	// 6. table overflow, low entropy
	win := r.Pick(40, 400)
	for _, sym := range [][]byte{{0x00, 0xff}, {0x00, 0x01, 0x80}, {0x00, 0x01}} {
		sym := sym
		const maxLen = 90000
		full := c25Counting(maxLen, sym)
		gen := func(n int) []byte { return full[:n] }
		ovf := c25Overflows(gen, 2, maxLen)
		ovfInfo = append(ovfInfo, fmt.Sprintf("counting(%x): clear codes first sent at input lengths %v", sym, ovf))
		r.Sanity(len(ovf) >= 1, "counting generator over %x must overflow the dictionary below %d bytes", sym, maxLen)
		if !r.Thorough() && len(ovf) > 1 {
			ovf = ovf[:1]
		}
		for _, o := range ovf {
			for n := o - win; n <= o+win && n <= maxLen && !expired(); n++ {
				b.add(fmt.Sprintf("counting-%x", sym), gen(n))
			}
		}
	}
	// 7. thorough: all strings of length 3 over 32 byte values, of length 4 over 8
	// values and of length <=8 over {00,01,80,ff}
	if r.Thorough() {
		words := func(alpha []byte, l int) {
			idx := make([]int, l)
			for !expired() {
				x := make([]byte, l)
				for i, d := range idx {
					x[i] = alpha[d]
				}
				b.add("short", x)
				i := l - 1
				for ; i >= 0; i-- {
					idx[i]++
					if idx[i] < len(alpha) {
						break
					}
					idx[i] = 0
				}
				if i < 0 {
					break
				}
			}
		}
		var a32 []byte
		for v := 0; v < 256; v += 8 {
			a32 = append(a32, byte(v)^byte(v>>5))
		}
		words(a32, 3)
		words([]byte{0x00, 0x01, 0x7f, 0x80, 0x81, 0xfe, 0xff, 0x55}, 4)
		for l := 1; l <= 8; l++ {
			words([]byte{0x00, 0x01, 0x80, 0xff}, l)
		}
	}
	b.flush()

	// history family (sequential, pinned): no call may influence a later one
	if _, complete := e.history(r); !complete {
		exhaustive = false
	}

	r.Set("inputs", b.n)
	r.Set("non_empty_inputs", e.nonEmpty)
	r.Set("clear_codes_in_reference_streams", e.clears)
	r.Set("inputs_whose_last_code_fills_the_table", e.clearAtClose)
	r.Set("inputs_whose_width_grows_before_eof", e.bumpAtClose)
	r.Set("inputs_reaching_12_bit_codes", e.width12)
	r.Set("distinct_compressed_sizes", len(e.sizes))
	r.Set("dictionary_overflow_points", ovfInfo)
	r.Sanity(e.clears > 0, "no input made the reference encoder send a clear code")
	r.Sanity(e.clearAtClose > 0, "no input filled the table with its last code")
	r.Sanity(e.bumpAtClose > 0, "no input grew the code width between last data code and eof")
	r.Sanity(len(e.sizes) > 50, "too few distinct outcomes (%d compressed sizes)", len(e.sizes))

	sample := func(family string, x []byte) {
		c := Compress(x)
		r.Sample(map[string]interface{}{"family": family, "input_len": len(x), "input_head": fmt.Sprintf("%x", x[:c25Min(len(x), 16)]), "compressed_len": len(c), "compressed_head": fmt.Sprintf("%x", c[:c25Min(len(c), 16)])})
	}
	sample("short", []byte{0x80, 0x00})
	f, s := c25Bloom(100, 2047)
	sample("bloom", f)
	sample("bloom-stripped", s)
	sample("pairs-m0", c25Pairs(3840, 0))
	r.Finish(exhaustive)
}
