//go:build verif

package transaction

import (
	"bytes"
	"encoding/base64"
	"encoding/hex"
	"encoding/json"
	"fmt"
	"math/big"
	"reflect"
	"runtime"
	"runtime/debug"
	"sort"
	"strings"
	"sync"
	"testing"
	"unicode/utf16"

	"golang.org/x/crypto/sha3"

	"github.com/icon-project/goloop/common"
	"github.com/icon-project/goloop/common/codec"
	"github.com/icon-project/goloop/common/crypto"
	"github.com/icon-project/goloop/module"
	"github.com/icon-project/goloop/verifshim/ev"
	"github.com/icon-project/goloop/verifshim/opseq"
)

// ---------------------------------------------------------------------------
// Logical transaction = ordered JSON tree of strings / dicts / lists / null.
// The harness owns (a) the JSON writer with presentation variants and (b) an
// independent implementation of the ICON transaction serialisation, both over
// this tree. goloop only ever sees the JSON text.
// ---------------------------------------------------------------------------

type c12Kind int

const (
	c12Str c12Kind = iota
	c12Dict
	c12List
	c12Null
)

type c12Val struct {
	kind c12Kind
	s    string
	keys []string
	vals []*c12Val
}

func vS(s string) *c12Val { return &c12Val{kind: c12Str, s: s} }
func vNull() *c12Val      { return &c12Val{kind: c12Null} }
func vL(items ...*c12Val) *c12Val {
	return &c12Val{kind: c12List, vals: items}
}

// vD("k1", v1, "k2", v2, ...)
func vD(kv ...interface{}) *c12Val {
	d := &c12Val{kind: c12Dict}
	for i := 0; i < len(kv); i += 2 {
		d.keys = append(d.keys, kv[i].(string))
		d.vals = append(d.vals, kv[i+1].(*c12Val))
	}
	return d
}

func (d *c12Val) get(k string) *c12Val {
	for i, kk := range d.keys {
		if kk == k {
			return d.vals[i]
		}
	}
	return nil
}

// plain converts the tree to the generic Go JSON value (for deep comparison
// with what goloop hands back).
func (v *c12Val) plain() interface{} {
	switch v.kind {
	case c12Str:
		return v.s
	case c12Null:
		return nil
	case c12List:
		out := make([]interface{}, 0, len(v.vals))
		for _, e := range v.vals {
			out = append(out, e.plain())
		}
		return out
	default:
		out := map[string]interface{}{}
		for i, k := range v.keys {
			out[k] = v.vals[i].plain()
		}
		return out
	}
}

// --- independent ICON serialisation (from the "transaction hash" section of
// the ICON JSON-RPC v3 specification) -------------------------------------

func refEscape(s string) string {
	var b strings.Builder
	for i := 0; i < len(s); i++ {
		switch c := s[i]; c {
		case '\\', '{', '}', '[', ']', '.':
			b.WriteByte('\\')
			b.WriteByte(c)
		default:
			b.WriteByte(c)
		}
	}
	return b.String()
}

func refSerValue(v *c12Val) string {
	switch v.kind {
	case c12Null:
		return `\0`
	case c12Str:
		return refEscape(v.s)
	case c12List:
		parts := make([]string, 0, len(v.vals))
		for _, e := range v.vals {
			parts = append(parts, refSerValue(e))
		}
		return "[" + strings.Join(parts, ".") + "]"
	default:
		return "{" + refSerDictBody(v, nil) + "}"
	}
}

func refSerDictBody(v *c12Val, exclude map[string]bool) string {
	idx := make([]int, 0, len(v.keys))
	for i, k := range v.keys {
		if !exclude[k] {
			idx = append(idx, i)
		}
	}
	sort.Slice(idx, func(a, b int) bool { return v.keys[idx[a]] < v.keys[idx[b]] })
	parts := make([]string, 0, 2*len(idx))
	for _, i := range idx {
		parts = append(parts, refEscape(v.keys[i]), refSerValue(v.vals[i]))
	}
	return strings.Join(parts, ".")
}

// c12Collapse returns the tree with the leading empty-string elements of every
// list removed. It is NOT part of the oracle: it only classifies a violation
// as "exactly the known serializeList defect" (narrow known-finding signature)
// or as something else.
func c12Collapse(v *c12Val) *c12Val {
	switch v.kind {
	case c12List:
		out := &c12Val{kind: c12List}
		lead := true
		for _, e := range v.vals {
			if lead && e.kind == c12Str && e.s == "" {
				continue
			}
			lead = false
			out.vals = append(out.vals, c12Collapse(e))
		}
		return out
	case c12Dict:
		out := &c12Val{kind: c12Dict, keys: v.keys}
		for _, e := range v.vals {
			out.vals = append(out.vals, c12Collapse(e))
		}
		return out
	}
	return v
}

func refTxSer(tx *c12Val) string {
	return "icx_sendTransaction." + refSerDictBody(tx, map[string]bool{"signature": true, "txHash": true})
}

func refTxID(tx *c12Val) []byte {
	h := sha3.Sum256([]byte(refTxSer(tx)))
	return h[:]
}

// --- JSON writer with presentation variants --------------------------------

type c12Pres struct {
	name      string
	indent    bool
	reverse   bool
	escapeAll bool
}

var c12Presentations = []c12Pres{
	{name: "compact"},
	{name: "indented", indent: true},
	{name: "reversed", reverse: true},
	{name: "escaped", escapeAll: true},
	{name: "reversed+indented+escaped", indent: true, reverse: true, escapeAll: true},
}

func c12JSONString(b *strings.Builder, s string, escapeAll bool) {
	b.WriteByte('"')
	for _, r := range s {
		switch {
		case escapeAll:
			if r >= 0x10000 {
				r1, r2 := utf16.EncodeRune(r)
				fmt.Fprintf(b, `\u%04x\u%04X`, r1, r2)
			} else {
				fmt.Fprintf(b, `\u%04x`, r)
			}
		case r == '"':
			b.WriteString(`\"`)
		case r == '\\':
			b.WriteString(`\\`)
		case r == '\n':
			b.WriteString(`\n`)
		case r == '\t':
			b.WriteString(`\t`)
		case r < 0x20:
			fmt.Fprintf(b, `\u%04x`, r)
		default:
			b.WriteRune(r)
		}
	}
	b.WriteByte('"')
}

func c12Write(b *strings.Builder, v *c12Val, p *c12Pres, depth int) {
	nl := func(d int) {
		if p.indent {
			b.WriteString("\n")
			b.WriteString(strings.Repeat("  ", d))
		}
	}
	switch v.kind {
	case c12Null:
		b.WriteString("null")
	case c12Str:
		c12JSONString(b, v.s, p.escapeAll)
	case c12List:
		b.WriteByte('[')
		for i, e := range v.vals {
			if i > 0 {
				b.WriteByte(',')
			}
			nl(depth + 1)
			c12Write(b, e, p, depth+1)
		}
		if len(v.vals) > 0 {
			nl(depth)
		}
		b.WriteByte(']')
	default:
		b.WriteByte('{')
		n := len(v.keys)
		for j := 0; j < n; j++ {
			i := j
			if p.reverse {
				i = n - 1 - j
			}
			if j > 0 {
				b.WriteByte(',')
			}
			nl(depth + 1)
			c12JSONString(b, v.keys[i], p.escapeAll)
			b.WriteByte(':')
			if p.indent {
				b.WriteString(" \t")
			}
			c12Write(b, v.vals[i], p, depth+1)
		}
		if n > 0 {
			nl(depth)
		}
		b.WriteByte('}')
	}
}

func c12JSON(v *c12Val, p *c12Pres) []byte {
	var b strings.Builder
	if p.indent {
		b.WriteString(" \n")
	}
	c12Write(&b, v, p, 0)
	if p.indent {
		b.WriteString("\n ")
	}
	return []byte(b.String())
}

// ---------------------------------------------------------------------------
// Grammar
// ---------------------------------------------------------------------------

type c12Data struct {
	name     string
	dataType string  // "" = absent
	data     *c12Val // nil = absent
	tag      string  // narrow tag used in violation signatures
}

func c12Call(params *c12Val) *c12Val {
	if params == nil {
		return vD("method", vS("transfer"))
	}
	return vD("method", vS("transfer"), "params", params)
}

func c12DataVariants() []c12Data {
	out := []c12Data{
		{name: "none"},
		{name: "message", dataType: "message", data: vS("0x68656c6c6f")},
		{name: "call-noparams", dataType: "call", data: c12Call(nil)},
		{name: "call-emptyparams", dataType: "call", data: c12Call(vD())},
		{name: "call-flat", dataType: "call", data: c12Call(vD("a", vS("b")))},
		{name: "call-nested", dataType: "call", data: c12Call(vD("a", vD("b", vL(vS("c"), vS("d")))))},
	}
	for _, ch := range []string{`\`, `{`, `}`, `[`, `]`, `.`} {
		out = append(out, c12Data{name: "call-special-" + ch, dataType: "call",
			data: c12Call(vD("k"+ch+"k", vS("x"+ch+"y"), "z", vS(ch)))})
	}
	out = append(out,
		c12Data{name: "call-null", dataType: "call", data: c12Call(vD("a", vNull()))},
		c12Data{name: "deposit", dataType: "deposit", data: vD("action", vS("add"))},
		c12Data{name: "call-list-mixed", dataType: "call", data: c12Call(vD("a", vL(vD("b", vS("c")), vL(vS("d")), vL())))},
		c12Data{name: "call-unicode", dataType: "call", data: c12Call(vD("a", vS("héllo ✓ \U0001D11E")))},
		c12Data{name: "deploy", dataType: "deploy", data: vD("contentType", vS("application/zip"), "content", vS("0x504b0304"), "params", vD("name", vS("x")))},
		c12Data{name: "call-emptystring", dataType: "call", data: c12Call(vD("a", vS("")))},
		c12Data{name: "call-list1", dataType: "call", data: c12Call(vD("a", vL(vS("b"))))},
		c12Data{name: "call-list-trailing-empty", dataType: "call", data: c12Call(vD("a", vL(vS("b"), vS(""))))},
		c12Data{name: "call-keyorder", dataType: "call", data: c12Call(vD("b", vS("1"), "a", vS("2"), "B", vS("3"), "ab", vS("4")))},
		c12Data{name: "call-quotes", dataType: "call", data: c12Call(vD("a", vS("q\"uo'te\n\ttab/\u0001")))},
		c12Data{name: "call-list-leading-empty", dataType: "call", data: c12Call(vD("a", vL(vS(""), vS("b")))), tag: "list-leading-empty-string"},
		c12Data{name: "call-list-inner-empty", dataType: "call", data: c12Call(vD("a", vL(vS("b"), vS(""), vS("c"))))},
		c12Data{name: "data-null-no-type", data: vNull(), tag: "data-null"},
	)
	return out
}

const (
	dFrom = iota
	dTo
	dValue
	dStep
	dTs
	dNid
	dNonce
	dData
	dForm
	c12NDims
)

var c12DimName = []string{"from", "to", "value", "stepLimit", "timestamp", "nid", "nonce", "data", "form"}

// non-canonical spellings goloop accepts for the same field values; each of
// them forces the "raw" (keep the JSON as stored form) path.
var c12Forms = []string{"canonical", "stepLimit-leading-zero", "to-uppercase-hex", "timestamp-decimal", "unknown-extra-field", "value-uppercase-hex"}

type c12Grammar struct {
	signer   *crypto.PrivateKey
	signerAd string
	from     []string
	to       []string
	value    []string // "" absent
	step     []string
	ts       []string
	nid      []string
	nonce    []string
	data     []c12Data
	dims     []int
}

func c12NewGrammar(thorough bool) *c12Grammar {
	g := &c12Grammar{}
	h := sha3.Sum256([]byte("verif-c12-signer"))
	var err error
	g.signer, err = crypto.ParsePrivateKey(h[:])
	if err != nil {
		panic(err)
	}
	g.signerAd = common.NewAccountAddressFromPublicKey(g.signer.PublicKey()).String()
	g.from = []string{g.signerAd, "hx0000000000000000000000000000000000000001"}
	g.to = []string{"hx5bfdb090f43a808005ffc27c25b213145e80b7cd", "cxb0776ee37f5b45bfaea8cff1d8232fbb6122ec32"}
	g.data = c12DataVariants()
	if thorough {
		g.value = []string{"", "0x0", "0xde0b6b3a7640000"}
		g.step = []string{"0x0", "0xf4240"}
		g.ts = []string{"0x5c31ae7a6d8f0", "0x7fffffffffffffff"}
		g.nid = []string{"", "0x1"}
		g.nonce = []string{"", "0x7"}
	} else {
		g.value = []string{"", "0xde0b6b3a7640000"}
		g.step = []string{"0xf4240"}
		g.ts = []string{"0x5c31ae7a6d8f0"}
		g.nid = []string{"", "0x1"}
		g.nonce = []string{"", "0x7"}
	}
	g.dims = []int{len(g.from), len(g.to), len(g.value), len(g.step), len(g.ts), len(g.nid), len(g.nonce), len(g.data), len(c12Forms)}
	return g
}

// build returns the logical transaction (without signature) for an index
// vector, or nil if the non-canonical form does not change anything for it.
func (g *c12Grammar) build(idx []int) *c12Val {
	from, to := g.from[idx[dFrom]], g.to[idx[dTo]]
	value, step, ts := g.value[idx[dValue]], g.step[idx[dStep]], g.ts[idx[dTs]]
	var extra bool
	switch c12Forms[idx[dForm]] {
	case "stepLimit-leading-zero":
		step = "0x0" + step[2:]
	case "to-uppercase-hex":
		to = to[:2] + strings.ToUpper(to[2:])
	case "timestamp-decimal":
		n, _ := new(big.Int).SetString(ts[2:], 16)
		ts = n.String()
	case "unknown-extra-field":
		extra = true
	case "value-uppercase-hex":
		if value == "" {
			return nil
		}
		up := "0x" + strings.ToUpper(value[2:])
		if up == value {
			return nil
		}
		value = up
	}
	tx := vD("version", vS("0x3"), "from", vS(from), "to", vS(to))
	add := func(k string, v *c12Val) { tx.keys = append(tx.keys, k); tx.vals = append(tx.vals, v) }
	if value != "" {
		add("value", vS(value))
	}
	add("stepLimit", vS(step))
	add("timestamp", vS(ts))
	if s := g.nid[idx[dNid]]; s != "" {
		add("nid", vS(s))
	}
	if s := g.nonce[idx[dNonce]]; s != "" {
		add("nonce", vS(s))
	}
	d := g.data[idx[dData]]
	if d.dataType != "" {
		add("dataType", vS(d.dataType))
	}
	if d.data != nil {
		add("data", d.data)
	}
	if extra {
		add("memo", vS("x.y"))
	}
	return tx
}

func c12WithSig(tx *c12Val, sig []byte) *c12Val {
	out := &c12Val{kind: c12Dict, keys: append([]string(nil), tx.keys...), vals: append([]*c12Val(nil), tx.vals...)}
	out.keys = append(out.keys, "signature")
	out.vals = append(out.vals, vS(base64.StdEncoding.EncodeToString(sig)))
	return out
}

// ---------------------------------------------------------------------------
// Expected observables, derived from the logical transaction only
// ---------------------------------------------------------------------------

type c12Obs struct {
	ID        string
	From, To  string
	Value     string // decimal, "nil" if absent
	StepLimit string
	Timestamp int64
	NID       string
	Nonce     string
	DataType  string
	Data      interface{} // generic JSON value, or "<absent>"
	Group     module.TransactionGroup
	VerifyOK  bool
	Net1      bool
	Net2      bool
}

func c12ParseNum(s string) *big.Int {
	n := new(big.Int)
	if strings.HasPrefix(s, "0x") {
		if _, ok := n.SetString(s[2:], 16); !ok {
			panic("bad number in grammar: " + s)
		}
	} else if _, ok := n.SetString(s, 10); !ok {
		panic("bad number in grammar: " + s)
	}
	return n
}

func (g *c12Grammar) expected(tx *c12Val, sigByOwner bool) c12Obs {
	str := func(k string) string {
		if v := tx.get(k); v != nil {
			return v.s
		}
		return ""
	}
	num := func(k string) string {
		if v := tx.get(k); v != nil {
			return c12ParseNum(v.s).String()
		}
		return "nil"
	}
	o := c12Obs{ID: hex.EncodeToString(refTxID(tx))}
	o.From = strings.ToLower(str("from"))
	o.To = strings.ToLower(str("to"))
	o.Value = num("value")
	o.StepLimit = num("stepLimit")
	o.Timestamp = c12ParseNum(str("timestamp")).Int64()
	o.NID = num("nid")
	o.Nonce = num("nonce")
	o.DataType = "<absent>"
	if v := tx.get("dataType"); v != nil {
		o.DataType = v.s
	}
	o.Data = "<absent>"
	if v := tx.get("data"); v != nil {
		o.Data = v.plain()
	}
	o.Group = module.TransactionGroupNormal
	o.Net1 = o.NID == "nil" || o.NID == "1"
	o.Net2 = o.NID == "nil" || o.NID == "2"
	o.VerifyOK = sigByOwner && o.From == g.signerAd
	if o.DataType == "deploy" && o.Value != "nil" && o.Value != "0" {
		o.VerifyOK = false // Verify() refuses a deploy that carries value
	}
	return o
}

// observe reads the same observables off a real transaction object.
func c12Observe(tx Transaction) (o c12Obs, err error) {
	v3, ok := tx.(*transaction).Transaction.(*transactionV3)
	if !ok {
		return o, fmt.Errorf("not a v3 transaction: %T", tx.(*transaction).Transaction)
	}
	o.ID = hex.EncodeToString(tx.ID())
	o.From = tx.From().String()
	o.To = tx.To().String()
	o.Value = "nil"
	if v3.Value != nil {
		o.Value = v3.Value.Int.String()
	}
	o.StepLimit = v3.StepLimit.Int.String()
	o.Timestamp = tx.Timestamp()
	o.NID = "nil"
	if v3.NID != nil {
		o.NID = fmt.Sprint(v3.NID.Value)
	}
	o.Nonce = "nil"
	if n := tx.Nonce(); n != nil {
		o.Nonce = n.String()
	}
	o.DataType = "<absent>"
	if v3.DataType != nil {
		o.DataType = *v3.DataType
	}
	o.Data = "<absent>"
	if v3.Data != nil {
		var x interface{}
		if err := json.Unmarshal(v3.Data, &x); err != nil {
			return o, fmt.Errorf("stored data is not JSON: %v", err)
		}
		o.Data = x
	}
	o.Group = tx.Group()
	o.VerifyOK = tx.Verify() == nil
	o.Net1 = tx.ValidateNetwork(1)
	o.Net2 = tx.ValidateNetwork(2)
	if tx.Version() != module.TransactionVersion3 {
		return o, fmt.Errorf("version %d", tx.Version())
	}
	return o, nil
}

func c12Diff(a, b c12Obs) string {
	var d []string
	va, vb := reflect.ValueOf(a), reflect.ValueOf(b)
	for i := 0; i < va.NumField(); i++ {
		if !reflect.DeepEqual(va.Field(i).Interface(), vb.Field(i).Interface()) {
			d = append(d, va.Type().Field(i).Name)
		}
	}
	return strings.Join(d, ",")
}

// ---------------------------------------------------------------------------

type c12Case struct {
	Idx  []int   `json:"idx"`
	Pres int     `json:"presentation"`
	Tier string  `json:"grammar_tier"`
	JSON string  `json:"json,omitempty"`
	Mut  *c12Mut `json:"mutation,omitempty"`
}

type c12Mut struct {
	Dim int `json:"dim"`
	Alt int `json:"alt"`
}

type c12Ctx struct {
	r  *ev.Run
	g  *c12Grammar
	mu sync.Mutex
	// goloop id -> reference serialisation of the first logical tx that had it
	byID       map[string]string
	byGoloopID map[string]c12Seen
	stats      map[string]int64
	rounds     int

	histComplete bool
}

type c12Seen struct{ ser, tag, js, collapsed string }

func (c *c12Ctx) count(k string, n int64) {
	c.mu.Lock()
	c.stats[k] += n
	c.mu.Unlock()
}

func (c *c12Ctx) tagOf(idx []int) string {
	t := c.g.data[idx[dData]].tag
	if t == "" {
		t = "-"
	}
	return t
}

// chain builds every representation reachable from one JSON text and checks
// each against the expectation.
func (c *c12Ctx) runCase(cs c12Case) {
	r := c.r
	g := c.g
	lt := g.build(cs.Idx)
	if lt == nil {
		return
	}
	p := &c12Presentations[cs.Pres]
	id := refTxID(lt)
	sig, err := crypto.NewSignature(id, g.signer)
	if err != nil {
		panic(err)
	}
	rsv, _ := sig.SerializeRSV()
	exp := g.expected(lt, true)
	full := c12WithSig(lt, rsv)
	js := c12JSON(full, p)
	cs.JSON = string(js)
	tag := c.tagOf(cs.Idx)
	form := c12Forms[cs.Idx[dForm]]
	r.Eval(1)
	r.Nontrivial(refTxSer(lt) + "|" + p.name)

	fail := func(kind, rep, detail string) {
		sig := fmt.Sprintf("%s/%s/form=%s", kind, rep, form)
		if tag != "-" {
			sig += "/data=" + tag
		}
		r.Violation(sig,
			fmt.Sprintf("%s\n presentation=%s idx=%v\n json=%s", detail, p.name, cs.Idx, js), cs)
	}
	check := func(rep string, tx Transaction) bool {
		var o c12Obs
		var oerr error
		if pn := ev.Catch(func() { o, oerr = c12Observe(tx) }); pn != "" {
			fail("panic", rep, pn)
			return false
		}
		if oerr != nil {
			fail("unreadable", rep, oerr.Error())
			return false
		}
		if o.ID != exp.ID && tag == "list-leading-empty-string" && o.ID == hex.EncodeToString(refTxID(c12Collapse(lt))) {
			// exactly the known defect: the id is that of the transaction
			// with the leading empty strings removed (any spelling form)
			r.Violation("id-differs-from-reference/"+rep+"/data=list-leading-empty-string",
				fmt.Sprintf("goloop id %s is the id of the transaction without the leading empty list elements; ICON serialisation gives %s\n presentation=%s idx=%v\n json=%s", o.ID, exp.ID, p.name, cs.Idx, js), cs)
			return false
		}
		if o.ID != exp.ID {
			fail("id-differs-from-reference", rep, fmt.Sprintf("goloop id %s, ICON serialisation of the submitted JSON gives %s\n serialisation=%s", o.ID, exp.ID, refTxSer(lt)))
			return false
		}
		if d := c12Diff(o, exp); d != "" {
			fail("field-changed:"+d, rep, fmt.Sprintf("got  %+v\n want %+v", o, exp))
			return false
		}
		return true
	}

	// T1: submitted JSON (JSON-RPC path)
	var t1 Transaction
	if pn := ev.Catch(func() { t1, err = NewTransactionFromJSON(js) }); pn != "" {
		fail("panic", "json", pn)
		return
	}
	if err != nil {
		if cs.Pres == 0 && form == "canonical" {
			fail("canonical-json-rejected", "json", err.Error())
		} else {
			c.count("rejected/"+p.name+"/"+form, 1)
		}
		return
	}
	c.count("parsed", 1)
	if t1.(*transaction).Transaction.(*transactionV3).raw {
		c.count("raw_path", 1)
	} else {
		c.count("struct_path", 1)
	}
	if cs.Pres == 0 {
		// global injectivity of goloop's id over the grammar
		gid := hex.EncodeToString(t1.ID())
		ser := refTxSer(lt)
		c.mu.Lock()
		other, ok := c.byGoloopID[gid]
		if !ok {
			c.byGoloopID[gid] = c12Seen{ser: ser, tag: tag, js: string(js), collapsed: refTxSer(c12Collapse(lt))}
		}
		c.mu.Unlock()
		if ok && other.ser != ser {
			tg := tag
			if tg == "-" {
				tg = other.tag
			}
			if tg == "list-leading-empty-string" && other.collapsed != refTxSer(c12Collapse(lt)) {
				tg += "/not-the-known-collapse"
			}
			r.Violation("distinct-transactions-share-id/data="+tg,
				fmt.Sprintf("id %s is the id of two transactions that differ in a signed field:\n A=%s\n B=%s\n ser(A)=%s\n ser(B)=%s", gid, other.js, js, other.ser, ser), cs)
		}
	}
	if !check("json", t1) {
		return
	}
	// stored form, any number of times
	b1 := t1.Bytes()
	prev := b1
	for round := 1; round <= c.rounds; round++ {
		rep := fmt.Sprintf("stored#%d", round)
		var tn Transaction
		if pn := ev.Catch(func() { tn, err = NewTransaction(prev) }); pn != "" {
			fail("panic", rep, pn)
			return
		}
		if err != nil {
			fail("stored-form-rejected", rep, fmt.Sprintf("%v bytes=%x", err, prev))
			return
		}
		if !check(rep, tn) {
			return
		}
		nb := tn.Bytes()
		if !bytes.Equal(nb, prev) {
			fail("stored-form-not-stable", rep, fmt.Sprintf("%x -> %x", prev, nb))
			return
		}
		if !bytes.Equal(tn.Hash(), t1.Hash()) {
			fail("stored-hash-changed", rep, "")
			return
		}
		prev = nb
	}
	// the JSON text itself handed to the block-level constructor (raw JSON)
	var tr Transaction
	if pn := ev.Catch(func() { tr, err = NewTransaction(js[bytes.IndexByte(js, '{'):]) }); pn != "" {
		fail("panic", "rawjson", pn)
		return
	}
	if err != nil {
		fail("rawjson-rejected", "rawjson", err.Error())
		return
	}
	if !check("rawjson", tr) {
		return
	}
	if t2, err := NewTransaction(tr.Bytes()); err != nil {
		fail("stored-form-rejected", "rawjson-stored", err.Error())
		return
	} else if !check("rawjson-stored", t2) {
		return
	}
	// JSON-RPC output of the stored transaction, submitted again
	tb, _ := NewTransaction(b1)
	var out []byte
	if pn := ev.Catch(func() { out, err = json.Marshal(tb) }); pn != "" {
		fail("panic", "json-out", pn)
		return
	}
	if err != nil {
		fail("json-out-failed", "json-out", err.Error())
		return
	}
	var om map[string]interface{}
	if json.Unmarshal(out, &om) != nil || om["txHash"] != "0x"+exp.ID {
		fail("json-out-txHash", "json-out", fmt.Sprintf("out=%s", out))
		return
	}
	t4, err := NewTransactionFromJSON(out)
	if err != nil {
		fail("json-out-rejected", "json-out", fmt.Sprintf("%v out=%s", err, out))
		return
	}
	if !check("json-out", t4) {
		return
	}
	// bookkeeping for global uniqueness (only once per logical tx)
	if cs.Pres == 0 {
		ser := refTxSer(lt)
		c.mu.Lock()
		if other, ok := c.byID[exp.ID]; ok && other != ser {
			c.mu.Unlock()
			fail("reference-serialisation-collision", "harness", other+" vs "+ser)
			return
		}
		c.byID[exp.ID] = ser
		c.mu.Unlock()
	}
}

// runMutation: the logical tx idx with ONE field replaced, carrying the
// signature of the original: must get a different id and must not verify.
func (c *c12Ctx) runMutation(cs c12Case) {
	r, g := c.r, c.g
	base := g.build(cs.Idx)
	if base == nil {
		return
	}
	alt := append([]int(nil), cs.Idx...)
	alt[cs.Mut.Dim] = cs.Mut.Alt
	mt := g.build(alt)
	if mt == nil {
		return
	}
	serB, serM := refTxSer(base), refTxSer(mt)
	if serB == serM {
		c.count("mutation_alias_skipped", 1)
		return
	}
	r.Eval(1)
	r.Nontrivial("mut|" + serB + "|" + serM)
	idB := refTxID(base)
	sig, _ := crypto.NewSignature(idB, g.signer)
	rsv, _ := sig.SerializeRSV()
	js := c12JSON(c12WithSig(mt, rsv), &c12Presentations[0])
	cs.JSON = string(js)
	dim := c12DimName[cs.Mut.Dim]
	tagA, tagB := c.tagOf(cs.Idx), c.tagOf(alt)
	tag := tagA
	if tagB != "-" {
		tag = tagB
	}
	if tag == "list-leading-empty-string" && !(cs.Mut.Dim == dData && refTxSer(c12Collapse(base)) == refTxSer(c12Collapse(mt))) {
		// a pair that the known serializeList defect does not explain
		tag += "/not-the-known-collapse"
	}
	fail := func(kind, rep, detail string) {
		r.Violation(fmt.Sprintf("%s/%s/changed=%s/data=%s", kind, rep, dim, tag),
			fmt.Sprintf("%s\n base idx=%v changed %s -> %d\n base serialisation=%s\n new  serialisation=%s\n json=%s", detail, cs.Idx, dim, cs.Mut.Alt, serB, serM, js), cs)
	}
	t1, err := NewTransactionFromJSON(js)
	if err != nil {
		c.count("mutation_rejected_at_parse", 1)
		return
	}
	reps := []struct {
		name string
		tx   Transaction
	}{{"json", t1}}
	if t2, err := NewTransaction(t1.Bytes()); err == nil {
		reps = append(reps, struct {
			name string
			tx   Transaction
		}{"stored", t2})
	} else {
		fail("stored-form-rejected", "stored", err.Error())
	}
	for _, rp := range reps {
		if bytes.Equal(rp.tx.ID(), idB) {
			fail("signed-field-change-keeps-id", rp.name, fmt.Sprintf("id %x unchanged", idB))
			continue
		}
		if rp.tx.Verify() == nil {
			fail("signed-field-change-keeps-signature-valid", rp.name, fmt.Sprintf("id %x -> %x", idB, rp.tx.ID()))
			continue
		}
		c.count("mutation_rejected_by_verify", 1)
	}
}

// ---------------------------------------------------------------------------
// HISTORY family: results never depend on what was processed before
// ---------------------------------------------------------------------------

type c12HObs struct {
	Obs   c12Obs
	Bytes string
	Hash  string
	Out   string // outcome text of a failing item
}

type c12HItem struct {
	Name  string
	valid bool
	exp   c12Obs // model expectation (valid items)
	run   func() c12HObs
	base  c12HObs

	baseBad bool
}

type c12HCase struct {
	History []string `json:"history"`
	B       string   `json:"then"`
	Hist    bool     `json:"history_case"`
}

func c12ObserveAll(tx Transaction) c12HObs {
	var h c12HObs
	o, err := c12Observe(tx)
	if err != nil {
		h.Out = "unreadable: " + err.Error()
	}
	h.Obs = o
	h.Bytes = hex.EncodeToString(tx.Bytes())
	h.Hash = hex.EncodeToString(tx.Hash())
	return h
}

// c12Poke calls everything that may compute a hash on a (possibly invalid)
// transaction and describes the outcome.
func c12Poke(tx Transaction, err error) string {
	if err != nil {
		return "construct: " + c12ErrClass(err)
	}
	var b strings.Builder
	fmt.Fprintf(&b, "id=%x;", tx.ID())
	if e := tx.Verify(); e != nil {
		fmt.Fprintf(&b, "verify=%s;", c12ErrClass(e))
	} else {
		b.WriteString("verify=ok;")
	}
	fmt.Fprintf(&b, "hash=%x;", tx.Hash())
	if _, e := json.Marshal(tx); e != nil {
		fmt.Fprintf(&b, "json=%s;", c12ErrClass(e))
	} else {
		b.WriteString("json=ok;")
	}
	return b.String()
}

func c12ErrClass(err error) string {
	s := err.Error()
	if len(s) > 60 {
		s = s[:60]
	}
	return s
}

func (c *c12Ctx) historyItems() []*c12HItem {
	g := c.g
	var items []*c12HItem
	// ---- valid transactions, every presentation ----
	type vt struct {
		name string
		idx  []int
	}
	find := func(data, form string) []int {
		idx := make([]int, c12NDims)
		idx[dValue] = len(g.value) - 1
		idx[dStep] = len(g.step) - 1
		idx[dNid] = 1
		idx[dNonce] = 1
		for i, d := range g.data {
			if d.name == data {
				idx[dData] = i
			}
		}
		for i, f := range c12Forms {
			if f == form {
				idx[dForm] = i
			}
		}
		return idx
	}
	vts := []vt{
		{"transfer", find("none", "canonical")},
		{"message", find("message", "canonical")},
		{"call-nested", find("call-nested", "canonical")},
		{"call-special-dot", find("call-special-.", "canonical")},
		{"deposit", find("deposit", "canonical")},
		{"call-null", find("call-null", "canonical")},
		{"raw-leading-zero", find("call-flat", "stepLimit-leading-zero")},
		{"raw-extra-field", find("none", "unknown-extra-field")},
	}
	var firstData transactionV3Data
	var firstJS []byte
	for vi, v := range vts {
		lt := g.build(v.idx)
		if lt == nil {
			panic("history: grammar element missing: " + v.name)
		}
		sig, err := crypto.NewSignature(refTxID(lt), g.signer)
		if err != nil {
			panic(err)
		}
		rsv, _ := sig.SerializeRSV()
		js := c12JSON(c12WithSig(lt, rsv), &c12Presentations[0])
		exp := g.expected(lt, true)
		t0, err := NewTransactionFromJSON(js)
		if err != nil {
			panic(fmt.Sprintf("history: valid item %s does not parse: %v", v.name, err))
		}
		v3 := t0.(*transaction).Transaction.(*transactionV3)
		isRaw := v3.raw
		bin := append([]byte(nil), t0.Bytes()...)
		data := v3.transactionV3Data
		if vi == 0 {
			firstData, firstJS = data, js
		}
		add := func(pres string, f func() (Transaction, error)) {
			items = append(items, &c12HItem{Name: "V:" + v.name + "/" + pres, valid: true, exp: exp, run: func() c12HObs {
				tx, err := f()
				if err != nil {
					return c12HObs{Out: "construct: " + c12ErrClass(err)}
				}
				return c12ObserveAll(tx)
			}})
		}
		add("json", func() (Transaction, error) { return NewTransactionFromJSON(js) })
		add("rawjson", func() (Transaction, error) { return NewTransaction(js) })
		add("stored", func() (Transaction, error) { return NewTransaction(bin) })
		if !isRaw {
			add("struct", func() (Transaction, error) {
				return &transaction{&transactionV3{transactionV3Data: data}}, nil
			})
		}
	}
	// ---- failing inputs ----
	fail := func(name string, f func() string) {
		items = append(items, &c12HItem{Name: "F:" + name, run: func() c12HObs {
			var out string
			if p := ev.Catch(func() { out = f() }); p != "" {
				out = "panic: " + p
			}
			return c12HObs{Out: out}
		}})
	}
	binWith := func(mod func(d *transactionV3Data)) []byte {
		d := firstData
		mod(&d)
		bs, err := codecMarshalV3(&d)
		if err != nil {
			panic(err)
		}
		return bs
	}
	for _, bd := range []struct{ name, data string }{
		{"bool-true", `true`}, {"bool-in-params", `{"method":"f","params":{"flag":true}}`}, {"bool-in-list", `[null,false]`},
		{"not-json", `tru`}, {"float", `1.5`}, {"nested-bool", `{"a":{"b":[{"c":true}]}}`},
	} {
		bin := binWith(func(d *transactionV3Data) { d.Data = json.RawMessage(bd.data) })
		fail("binary-data-"+bd.name, func() string { return c12Poke(NewTransaction(bin)) })
		data := firstData
		data.Data = json.RawMessage(bd.data)
		fail("struct-data-"+bd.name, func() string {
			return c12Poke(&transaction{&transactionV3{transactionV3Data: data}}, nil)
		})
		js := bytes.Replace(firstJS, []byte(`"signature"`), []byte(`"data":`+bd.data+`,"signature"`), 1)
		fail("json-data-"+bd.name, func() string { return c12Poke(NewTransactionFromJSON(js)) })
		fail("rawjson-data-"+bd.name, func() string { return c12Poke(NewTransaction(js)) })
	}
	good := binWith(func(d *transactionV3Data) {})
	fail("binary-truncated", func() string { return c12Poke(NewTransaction(good[:len(good)/2])) })
	fail("binary-empty", func() string { return c12Poke(NewTransaction([]byte{})) })
	fail("binary-garbage", func() string { return c12Poke(NewTransaction(bytes.Repeat([]byte{0xff}, 40))) })
	v2 := binWith(func(d *transactionV3Data) { d.Version.Value = 2 })
	fail("binary-version2", func() string { return c12Poke(NewTransaction(v2)) })
	fail("json-version4", func() string {
		return c12Poke(NewTransactionFromJSON(bytes.Replace(firstJS, []byte(`"0x3"`), []byte(`"0x4"`), 1)))
	})
	fail("json-truncated", func() string { return c12Poke(NewTransactionFromJSON(firstJS[:len(firstJS)/2])) })
	fail("json-call-no-method", func() string {
		js := bytes.Replace(firstJS, []byte(`"signature"`), []byte(`"dataType":"call","data":{"method":""},"signature"`), 1)
		return c12Poke(NewTransactionFromJSON(js))
	})
	fail("json-wrong-signature", func() string {
		js := bytes.Replace(firstJS, []byte(`"0x3"`), []byte(`"0x3","nonce2":"x"`), 1)
		return c12Poke(NewTransactionFromJSON(js))
	})
	return items
}

func codecMarshalV3(d *transactionV3Data) ([]byte, error) {
	return codec.MarshalToBytes(d)
}

func (c *c12Ctx) historyCheck(items map[string]*c12HItem, hist []string, bname string) {
	r := c.r
	for _, a := range hist {
		items[a].run()
	}
	b := items[bname]
	got := b.run()
	r.Eval(1)
	r.Nontrivial("hist|" + strings.Join(hist, ">") + ">" + bname)
	cs := c12HCase{History: hist, B: bname, Hist: true}
	last := hist[len(hist)-1]
	report := func(field, detail string) {
		cls := last
		if i := strings.IndexByte(cls, '/'); i > 0 && strings.HasPrefix(cls, "V:") {
			cls = "valid" + cls[i:]
		}
		bc := bname
		if i := strings.IndexByte(bc, '/'); i > 0 && strings.HasPrefix(bc, "V:") {
			bc = "valid" + bc[i:]
		}
		r.Violation(fmt.Sprintf("result-depends-on-history/%s/after=%s/then=%s", field, cls, bc),
			fmt.Sprintf("history %v then %s: %s", hist, bname, detail), cs)
	}
	if b.valid {
		if got.Out != "" {
			report("outcome", "valid transaction is now: "+got.Out)
			return
		}
		if d := c12Diff(got.Obs, b.exp); d != "" && !b.baseBad {
			report("model:"+d, fmt.Sprintf("got %+v\n want %+v", got.Obs, b.exp))
			return
		}
		if d := c12Diff(got.Obs, b.base.Obs); d != "" {
			report(d, fmt.Sprintf("got %+v\n clean %+v", got.Obs, b.base.Obs))
			return
		}
		if got.Bytes != b.base.Bytes {
			report("Bytes", fmt.Sprintf("stored form %s\n in a clean state %s", got.Bytes, b.base.Bytes))
			return
		}
		if got.Hash != b.base.Hash {
			report("Hash", fmt.Sprintf("%s vs clean %s", got.Hash, b.base.Hash))
		}
		return
	}
	if got.Out != b.base.Out {
		report("outcome", fmt.Sprintf("%q\n in a clean state %q", got.Out, b.base.Out))
	}
}

// runHistory enumerates all ordered pairs (thorough: triples) on one locked
// OS thread with the collector off while a history runs, so that anything a
// component keeps between calls (pools, caches) is handed to the next call.
func (c *c12Ctx) runHistory(only *c12HCase) {
	r := c.r
	runtime.LockOSThread()
	defer runtime.UnlockOSThread()
	old := debug.SetGCPercent(-1)
	defer debug.SetGCPercent(old)
	list := c.historyItems()
	items := map[string]*c12HItem{}
	// clean-state baselines: all valid items first, before any failing call
	for _, it := range list {
		items[it.Name] = it
		if it.valid {
			it.base = it.run()
			if it.base.Out != "" {
				r.Sanity(false, "history: valid item %s fails in a clean state: %s", it.Name, it.base.Out)
			} else if d := c12Diff(it.base.Obs, it.exp); d != "" {
				it.baseBad = true // reported once here; the history oracle then only compares with the baseline
				r.Violation("history-baseline-differs-from-model/"+d, fmt.Sprintf("%s: got %+v want %+v", it.Name, it.base.Obs, it.exp), c12HCase{B: it.Name, Hist: true})
			}
		}
	}
	for _, it := range list {
		if !it.valid {
			it.base = it.run()
		}
	}
	runtime.GC()
	runtime.GC()
	if only != nil {
		ok := items[only.B] != nil
		for _, h := range only.History {
			ok = ok && items[h] != nil
		}
		if ok {
			c.historyCheck(items, only.History, only.B)
		}
		return
	}
	depth := r.Pick(1, 2) // length of the history before B
	n := 0
	var nV, nF int
	for _, it := range list {
		if it.valid {
			nV++
		} else {
			nF++
		}
	}
	complete := opseq.Sequences(len(list), 1, depth, func(seq []int) bool {
		hist := make([]string, len(seq))
		for i, j := range seq {
			hist[i] = list[j].Name
		}
		for _, b := range list {
			if r.Expired() {
				return false
			}
			if len(seq) > 1 && !b.valid {
				continue // failing last elements are covered by the pairs
			}
			c.historyCheck(items, hist, b.Name)
			n++
			if n%512 == 0 {
				runtime.GC()
				runtime.GC()
			}
		}
		return true
	})
	r.Set("history_items", map[string]int{"valid_presentations": nV, "failing_inputs": nF})
	r.Set("history_depth", depth+1)
	r.Set("history_cases", n)
	c.histComplete = complete
}

func TestVerifC12(t *testing.T) {
	r := ev.Start(t, "C12", "exploration")
	r.Rule("full product from x to x value x stepLimit x timestamp x nid x nonce x data-shape x spelling-form of a v3 JSON grammar, " +
		"each in every presentation {compact, indented, reversed key order, all-\\u-escaped, all three}; every element is pushed through " +
		"JSON -> object -> stored bytes -> object (quick 2, thorough 3 rounds), raw-JSON constructor, and JSON-RPC output -> object; " +
		"non-trivial = distinct (reference serialisation, presentation); mutation part: every single-dimension change of every canonical-form " +
		"element signed by the sender, carrying the original signature; HISTORY family: on one locked OS thread with the collector off, every ordered pair (thorough: triple) " +
		"over {8 valid transactions x json/raw-json/stored/struct presentations} U {failing inputs: boolean/float/non-JSON data as binary, struct, JSON and raw JSON; truncated/empty/garbage/version-2 binary; version 4, truncated JSON, call without method, wrong signature}: the last element's id/fields/Verify/Bytes/Hash (or failure outcome) must equal its clean-state baseline and the model")
	r.Assume("the reference serialiser (ICON JSON-RPC v3 'transaction hash' rules: keys sorted, '.'-joined, \\-escaping of \\{}[]., null = \\0, lists '.'-joined) written in the harness is the specification",
		"data values are strings, dicts, lists and null only: JSON numbers/booleans (aliases of their integer part / unsupported) are not in the grammar; of the [] / [\"\"] alias only [] is in the grammar",
		"golang.org/x/crypto/sha3 and goloop's signer (checked by C13) are trusted")
	g := c12NewGrammar(r.Thorough())
	c := &c12Ctx{r: r, g: g, byID: map[string]string{}, rounds: r.Pick(2, 3), byGoloopID: map[string]c12Seen{}, stats: map[string]int64{}}

	if ev.Replaying() {
		var hc c12HCase
		ev.ReplayCase(&hc)
		if hc.Hist {
			c.runHistory(&hc)
			r.Finish(false)
			return
		}
		var cs c12Case
		ev.ReplayCase(&cs)
		if cs.Tier != r.Tier() {
			g = c12NewGrammar(cs.Tier == "thorough")
			c.g = g
		}
		if cs.Mut != nil {
			c.runMutation(cs)
		} else {
			// the id-uniqueness oracle needs the other data shapes of the same
			// transaction to have been seen first
			for d := range c.g.data {
				if d != cs.Idx[dData] {
					o := append([]int(nil), cs.Idx...)
					o[dData] = d
					c.runCase(c12Case{Idx: o, Pres: 0, Tier: cs.Tier})
				}
			}
			c.runCase(cs)
		}
		r.Finish(false)
		return
	}

	// HISTORY family first (its clean-state baselines must precede everything)
	c.runHistory(nil)

	nPres := r.Pick(4, len(c12Presentations))
	// one work list in product order (form fastest, then data shape, ...): the
	// representation cases of a logical transaction are followed directly by
	// its mutation pairs, so a time-capped run covers a prefix of the product
	// completely (all shapes x forms x presentations + mutations for the first
	// value/stepLimit/... combinations).
	var work []c12Case
	var nCases, nMuts, nLogical int
	opseq.Product(g.dims, func(idx []int) bool {
		if g.build(idx) == nil {
			return true
		}
		nLogical++
		id := append([]int(nil), idx...)
		for p := 0; p < nPres; p++ {
			work = append(work, c12Case{Idx: id, Pres: p, Tier: r.Tier()})
			nCases++
		}
		// mutation part: canonical form, signed by the sender
		if idx[dForm] == 0 && idx[dFrom] == 0 {
			for d := 0; d < c12NDims; d++ {
				for a := 0; a < g.dims[d]; a++ {
					if a != idx[d] {
						work = append(work, c12Case{Idx: id, Tier: r.Tier(), Mut: &c12Mut{Dim: d, Alt: a}})
						nMuts++
					}
				}
			}
		}
		return true
	})
	r.Set("logical_transactions", nLogical)
	r.Set("presentations", nPres)
	r.Set("mutation_pairs", nMuts)
	r.Set("grammar_dims", map[string]int{"from": g.dims[0], "to": g.dims[1], "value": g.dims[2], "stepLimit": g.dims[3], "timestamp": g.dims[4], "nid": g.dims[5], "nonce": g.dims[6], "data": g.dims[7], "form": g.dims[8]})

	var doneA, doneB int64
	var dmu sync.Mutex
	ev.Par(len(work), 16, func(i int) {
		if r.Expired() {
			return
		}
		if work[i].Mut != nil {
			c.runMutation(work[i])
			dmu.Lock()
			doneB++
			dmu.Unlock()
		} else {
			c.runCase(work[i])
			dmu.Lock()
			doneA++
			dmu.Unlock()
		}
	})
	exhaustive := doneA == int64(nCases) && doneB == int64(nMuts) && c.histComplete
	var cases []c12Case
	for _, w := range work {
		if w.Mut == nil {
			cases = append(cases, w)
		}
	}
	r.Set("cases_done", doneA)
	r.Set("mutations_done", doneB)
	r.Set("stats", c.stats)
	r.Set("distinct_ids", len(c.byID))
	if exhaustive {
		r.Sanity(c.stats["raw_path"] > 0 && c.stats["struct_path"] > 0, "both hash paths must be exercised: %v", c.stats)
		r.Sanity(c.stats["mutation_rejected_by_verify"] > 0, "mutation part vacuous")
		r.Sanity(c.stats["parsed"] > int64(len(cases))/2, "most presentations should parse: %v", c.stats)
	}
	for _, i := range []int{0, len(cases) / 3, len(cases) / 2, len(cases) - 1} {
		cs := cases[i]
		if lt := g.build(cs.Idx); lt != nil {
			r.Sample(map[string]interface{}{"idx": cs.Idx, "presentation": c12Presentations[cs.Pres].name,
				"json_unsigned": string(c12JSON(lt, &c12Presentations[cs.Pres])), "reference_serialisation": refTxSer(lt), "reference_id": hex.EncodeToString(refTxID(lt))})
		}
	}
	r.Finish(exhaustive)
}
