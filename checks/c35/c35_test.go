//go:build verif

package calculator

// C35 — rewards never exceed the term's reward budget; each voter's reward from
// a P-Rep is its proportional share of that P-Rep's voter reward.
//
// The harness builds, for every element of a stated finite space, a real
// icstage (events, global) and icreward (Voted / Delegating / Bonding) state on
// a MapDB, runs the real iiss4Reward.Calculate() over it and compares what was
// credited (icreward IScore entries, PRepInfo) with an independent reference
// that knows nothing but the raw history: base votes and (offset, delta) events.

import (
	"encoding/json"
	"fmt"
	"math/big"
	"os"
	"runtime/debug"
	"sort"
	"sync/atomic"
	"testing"

	"github.com/icon-project/goloop/common"
	"github.com/icon-project/goloop/common/db"
	"github.com/icon-project/goloop/common/log"
	"github.com/icon-project/goloop/icon/icmodule"
	"github.com/icon-project/goloop/icon/iiss/icreward"
	"github.com/icon-project/goloop/icon/iiss/icstage"
	"github.com/icon-project/goloop/icon/iiss/icstate"
	"github.com/icon-project/goloop/icon/iiss/icutils"
	"github.com/icon-project/goloop/module"
	"github.com/icon-project/goloop/verifshim/ev"
	"github.com/icon-project/goloop/verifshim/opseq"
)

// actors: 0..3 = P0..P3 (P3 is not a registered P-Rep in the base state),
// 4 = V0, 5 = V1. P0 also acts as a voter (self bond).
const (
	c35NP = 4
	c35V0 = 4
	c35V1 = 5

	c35KDeleg  = 0
	c35KBond   = 1
	c35KEnable = 2

	// independent copies of the protocol constants the budget is defined by
	c35MonthBlock     = 30 * 43200 // blocks per month (2 s blocks)
	c35IScorePerLoop  = 1000
	c35RateDenom      = 10000
	c35IprepRate      = 7700
	c35IwageRate      = 1300
	c35IcpsRate       = 1000
	c35IglobalICX     = 3_000_000
	c35MinBondICX     = 10_000
	c35DecentralTerm  = 43120
	c35DSAIndex       = 1
	c35RevisionForRun = 25
)

var (
	c35Addr  [6]*common.Address
	c35ICX   = new(big.Int).Exp(big.NewInt(10), big.NewInt(18), nil)
	c35Names = [6]string{"P0", "P1", "P2", "P3", "V0", "V1"}
	c35Log   log.Logger
)

func init() {
	for i := range c35Addr {
		c35Addr[i] = common.MustNewAddressFromString(fmt.Sprintf("hx%040x", 0xa0+i))
	}
	l := log.New()
	l.SetLevel(log.FatalLevel)
	l.SetConsoleLevel(log.FatalLevel)
	c35Log = l
}

func c35Icx(n int64) *big.Int { return new(big.Int).Mul(big.NewInt(n), c35ICX) }

func c35Big(s string) *big.Int {
	v, ok := new(big.Int).SetString(s, 10)
	if !ok {
		panic("bad amount " + s)
	}
	return v
}

type c35BaseVote struct {
	From int    `json:"from"`
	To   int    `json:"to"`
	Kind int    `json:"kind"` // 0 delegation, 1 bond
	Amt  string `json:"amt"`  // loop
}

type c35Vote struct {
	To  int    `json:"to"`
	Amt string `json:"amt"` // signed delta, loop
}

type c35Event struct {
	Kind   int       `json:"kind"` // 0 delegation, 1 bond, 2 enable
	Off    int       `json:"off"`
	From   int       `json:"from,omitempty"`
	Votes  []c35Vote `json:"votes,omitempty"`
	Target int       `json:"target,omitempty"`
	Status int       `json:"status,omitempty"`
	Name   string    `json:"name,omitempty"`
}

type c35Case struct {
	Family  string        `json:"family"`
	Elected int           `json:"elected"`
	BondReq int64         `json:"bond_requirement"` // 1/10000
	Limit   int           `json:"offset_limit"`     // term period - 1
	Comm    [c35NP]int64  `json:"commission"`
	Status  [c35NP]int    `json:"status"`
	PubKey  [c35NP]bool   `json:"pubkey"`
	Base    []c35BaseVote `json:"base"`
	Events  []c35Event    `json:"events"`
	// chained terms: term k+1 is calculated on the records the calculator wrote for term k
	Next [][]c35Event `json:"next_terms,omitempty"`
}

func (c *c35Case) clone() *c35Case {
	n := *c
	n.Base = append([]c35BaseVote(nil), c.Base...)
	n.Events = append([]c35Event(nil), c.Events...)
	n.Next = nil
	for _, t := range c.Next {
		n.Next = append(n.Next, append([]c35Event(nil), t...))
	}
	return &n
}

type c35Ctx struct {
	back  *icstage.Snapshot
	base  *icreward.Snapshot
	temp  *icreward.State
	stats *Stats
}

func (t *c35Ctx) Back() *icstage.Snapshot  { return t.back }
func (t *c35Ctx) Base() *icreward.Snapshot { return t.base }
func (t *c35Ctx) Temp() *icreward.State    { return t.temp }
func (t *c35Ctx) Stats() *Stats            { return t.stats }
func (t *c35Ctx) Logger() log.Logger       { return c35Log }
func (t *c35Ctx) UpdateIScore(addr module.Address, reward *big.Int, type_ RewardType) error {
	// same as calculator.UpdateIScore (calculator.go), without the trace line
	iScore, err := t.temp.GetIScore(addr)
	if err != nil {
		return err
	}
	if err = t.temp.SetIScore(addr, iScore.Added(reward)); err != nil {
		return err
	}
	t.stats.IncreaseReward(type_, reward)
	return nil
}

type c35Viol struct {
	sig, detail string
}

type c35Result struct {
	viol            []c35Viol
	herr            string // harness error (calculation failed on a valid history, ...)
	total           *big.Int
	rewardable      int // P-Reps with a positive reward
	paidVoters      int // voters with a positive voter reward
	pairs           int // (voter,P-Rep) pairs with a positive share
	wagePaid        int
	capped          int // P-Reps whose accumulated power < accumulated votes (bond requirement bites)
	unregPaid       bool
	newcomer        bool // the address registered in the term ends it enabled with accumulated power > 0
	cappedSamePower bool // a later term starts with a P-Rep whose votes changed in the previous term while its (bond-limited) power did not
}

// c35Exec runs one case through the real calculator and evaluates the oracle.
func c35Exec(c *c35Case) (res c35Result) {
	term := 0
	bad := func(sig, f string, a ...interface{}) {
		d := fmt.Sprintf(f, a...)
		if len(c.Next) > 0 {
			d = fmt.Sprintf("term %d of %d: %s", term+1, len(c.Next)+1, d)
		}
		res.viol = append(res.viol, c35Viol{sig, d})
	}
	database := db.NewMapDB()
	reward := icreward.NewState(database, nil)

	L := int64(c.Limit)
	period := L + 1

	// ---- reference: accumulated votes straight from the raw history
	type pair [2]int
	var av map[pair]*big.Int
	acc := func(from, to int, amt *big.Int, weight int64) {
		k := pair{from, to}
		x := av[k]
		if x == nil {
			x = new(big.Int)
			av[k] = x
		}
		x.Add(x, new(big.Int).Mul(amt, big.NewInt(weight)))
	}
	// current votes (to validate that the history is legal)
	cur := map[[3]int]*big.Int{}
	apply := func(from, to, kind int, amt *big.Int) bool {
		k := [3]int{from, to, kind}
		x := cur[k]
		if x == nil {
			x = new(big.Int)
			cur[k] = x
		}
		x.Add(x, amt)
		return x.Sign() >= 0
	}

	// ---- base state
	var delegated, bonded [c35NP]*big.Int
	for i := range delegated {
		delegated[i], bonded[i] = new(big.Int), new(big.Int)
	}
	dl := map[int]icstate.Delegations{}
	bl := map[int]icstate.Bonds{}
	for _, b := range c.Base {
		amt := c35Big(b.Amt)
		if amt.Sign() <= 0 {
			continue
		}
		apply(b.From, b.To, b.Kind, amt)
		if b.Kind == c35KDeleg {
			delegated[b.To].Add(delegated[b.To], amt)
			dl[b.From] = append(dl[b.From], icstate.NewDelegation(c35Addr[b.To], new(big.Int).Set(amt)))
		} else {
			bonded[b.To].Add(bonded[b.To], amt)
			bl[b.From] = append(bl[b.From], icstate.NewBond(c35Addr[b.To], new(big.Int).Set(amt)))
		}
	}
	must := func(err error) {
		if err != nil && res.herr == "" {
			res.herr = "setup: " + err.Error()
		}
	}
	for i := 0; i < c35NP; i++ {
		v := icreward.NewVotedV2()
		v.SetStatus(icmodule.EnableStatus(c.Status[i]))
		v.SetDelegated(new(big.Int).Set(delegated[i]))
		v.SetBonded(new(big.Int).Set(bonded[i]))
		v.SetCommissionRate(icmodule.Rate(c.Comm[i]))
		must(reward.SetVoted(c35Addr[i], v))
		if c.PubKey[i] {
			must(reward.SetPublicKey(c35Addr[i], icreward.NewPublicKey().Updated(c35DSAIndex)))
		}
	}
	must(reward.SetDSA(icreward.NewDSA().Updated(c35DSAIndex)))
	for from, d := range dl {
		must(reward.SetDelegating(c35Addr[from], &icreward.Delegating{Delegations: d}))
	}
	for from, b := range bl {
		must(reward.SetBonding(c35Addr[from], &icreward.Bonding{Bonds: b}))
	}
	rFund := icstate.NewRewardFund(icstate.RFVersion2)
	iglobal := c35Icx(c35IglobalICX)
	must(rFund.SetIGlobal(iglobal))
	must(rFund.SetAllocation(map[icstate.RFundKey]icmodule.Rate{
		icstate.KeyIprep:  icmodule.Rate(c35IprepRate),
		icstate.KeyIwage:  icmodule.Rate(c35IwageRate),
		icstate.KeyIcps:   icmodule.Rate(c35IcpsRate),
		icstate.KeyIrelay: icmodule.Rate(0),
	}))
	baseSS := reward.GetSnapshot()
	prevIScore := [6]*big.Int{}
	for a := range prevIScore {
		prevIScore[a] = new(big.Int)
	}
	powerOf := func(to int) *big.Int { // reference power of a P-Rep from the true votes
		b, v := new(big.Int), new(big.Int)
		for k, x := range cur {
			if k[1] == to {
				v.Add(v, x)
				if k[2] == c35KBond {
					b.Add(b, x)
				}
			}
		}
		if c.BondReq == 0 {
			return v
		}
		pw := new(big.Int).Mul(b, big.NewInt(c35RateDenom))
		pw.Quo(pw, big.NewInt(c.BondReq))
		if pw.Cmp(v) > 0 {
			return v
		}
		return pw
	}
	votedOf := func(to int) *big.Int {
		v := new(big.Int)
		for k, x := range cur {
			if k[1] == to {
				v.Add(v, x)
			}
		}
		return v
	}
	prevSamePower := false
	for term = 0; term <= len(c.Next); term++ {
		events := c.Events
		if term > 0 {
			events = c.Next[term-1]
		}
		if prevSamePower {
			res.cappedSamePower = true
		}
		// votes in force when the term starts (the TRUE history, not the calculator's records)
		type bv struct {
			from, to, kind int
			amt            *big.Int
		}
		var termBase []bv
		av = map[pair]*big.Int{}
		{
			keys := make([][3]int, 0, len(cur))
			for k := range cur {
				keys = append(keys, k)
			}
			sort.Slice(keys, func(i, j int) bool {
				for x := 0; x < 3; x++ {
					if keys[i][x] != keys[j][x] {
						return keys[i][x] < keys[j][x]
					}
				}
				return false
			})
			for _, k := range keys {
				if cur[k].Sign() > 0 {
					termBase = append(termBase, bv{k[0], k[1], k[2], new(big.Int).Set(cur[k])})
					acc(k[0], k[1], cur[k], period)
				}
			}
		}
		var pw0, vt0 [c35NP]*big.Int
		for i := 0; i < c35NP; i++ {
			pw0[i], vt0[i] = powerOf(i), votedOf(i)
		}
		stage := icstage.NewState(database)
		must(stage.AddGlobalV3(0, c35RevisionForRun, c.Limit, c.Elected, icmodule.Rate(c.BondReq), rFund, c35Icx(c35MinBondICX)))

		// ---- events of the term
		for _, e := range events {
			if e.Off < 0 || e.Off > c.Limit {
				res.herr = "event offset outside the term"
				return
			}
			switch e.Kind {
			case c35KEnable:
				_, err := stage.AddEventEnable(e.Off, c35Addr[e.Target], icmodule.EnableStatus(e.Status))
				must(err)
			default:
				vl := make(icstage.VoteList, 0, len(e.Votes))
				for _, v := range e.Votes {
					amt := c35Big(v.Amt)
					if !apply(e.From, v.To, e.Kind, amt) {
						res.herr = "illegal history: negative vote"
						return
					}
					acc(e.From, v.To, amt, L-int64(e.Off))
					vl = append(vl, icstage.NewVote(c35Addr[v.To], new(big.Int).Set(amt)))
				}
				var err error
				if e.Kind == c35KBond {
					_, _, err = stage.AddEventBond(e.Off, c35Addr[e.From], vl)
				} else {
					_, _, err = stage.AddEventDelegation(e.Off, c35Addr[e.From], vl)
				}
				must(err)
			}
		}
		if res.herr != "" {
			return
		}

		prevSamePower = false
		for i := 0; i < c35NP-1; i++ {
			if vt0[i].Cmp(votedOf(i)) != 0 && pw0[i].Cmp(powerOf(i)) == 0 && pw0[i].Sign() > 0 {
				prevSamePower = true
			}
		}
		ctx := &c35Ctx{back: stage.GetSnapshot(), base: baseSS, stats: NewStats()}
		ctx.temp = icreward.NewStateFromSnapshot(ctx.base)
		r, err := NewIISS4Reward(ctx)
		if err != nil {
			res.herr = "NewIISS4Reward: " + err.Error()
			return
		}
		if p := ev.Catch(func() { err = r.Calculate() }); p != "" {
			bad("calculate-panic", "Calculate panicked: %s", p)
			return
		}
		if err != nil {
			res.herr = "Calculate: " + err.Error()
			return
		}

		// ---- observe
		iscore := func(a int) *big.Int {
			is, err := ctx.temp.GetIScore(c35Addr[a])
			if err != nil || is == nil {
				return new(big.Int)
			}
			return new(big.Int).Set(is.Value())
		}
		total := new(big.Int)
		credited := [6]*big.Int{}
		for a := range credited {
			now := iscore(a)
			credited[a] = new(big.Int).Sub(now, prevIScore[a])
			prevIScore[a] = now
			total.Add(total, credited[a])
			if credited[a].Sign() < 0 {
				bad("negative-iscore", "%s credited %s", c35Names[a], credited[a])
			}
		}
		if res.total == nil {
			res.total = new(big.Int)
		}
		res.total.Add(res.total, total)
		var vr, commission, wage, avCode [c35NP]*big.Int
		sumWage, sumCommission := new(big.Int), new(big.Int)
		for i := 0; i < c35NP; i++ {
			vr[i], commission[i], wage[i], avCode[i] = new(big.Int), new(big.Int), new(big.Int), new(big.Int)
			if r.pi == nil {
				continue
			}
			p := r.pi.GetPRep(icutils.ToKey(c35Addr[i]))
			if p == nil {
				continue
			}
			vr[i].Set(p.VoterReward())
			commission[i].Set(p.commission)
			wage[i].Set(p.wage)
			avCode[i].Set(p.AccumulatedVoted())
			sumWage.Add(sumWage, wage[i])
			sumCommission.Add(sumCommission, commission[i])
			if vr[i].Sign() < 0 || commission[i].Sign() < 0 || wage[i].Sign() < 0 {
				bad("negative-prep-reward", "%s commission=%s voterReward=%s wage=%s", c35Names[i], commission[i], vr[i], wage[i])
			}
			if vr[i].Sign() > 0 || commission[i].Sign() > 0 || wage[i].Sign() > 0 {
				res.rewardable++
				if i == 3 {
					res.unregPaid = true
				}
			}
			if wage[i].Sign() > 0 {
				res.wagePaid++
			}
			if i == 3 && p.Status() == icmodule.ESEnable && p.AccumulatedPower().Sign() > 0 {
				res.newcomer = true
			}
			if p.AccumulatedPower().Cmp(p.AccumulatedVoted()) < 0 && p.AccumulatedPower().Sign() > 0 {
				res.capped++
			}
		}

		// ---- oracle 1: budget. fund(term) = Iglobal*rate/10000 * period / MonthBlock loop, *1000 IScore
		budget := func(rate int64) *big.Int { // scaled by MonthBlock*RateDenom to stay exact
			b := new(big.Int).Mul(iglobal, big.NewInt(rate))
			b.Mul(b, big.NewInt(period))
			return b.Mul(b, big.NewInt(c35IScorePerLoop))
		}
		scale := big.NewInt(c35MonthBlock * c35RateDenom)
		prepSide := new(big.Int).Sub(total, sumWage) // commissions + voter rewards
		if new(big.Int).Mul(prepSide, scale).Cmp(budget(c35IprepRate)) > 0 {
			bad("budget-exceeded:commission+voter>Iprep-fund-of-term",
				"credited commission+voter rewards %s IScore > Iprep fund of the term %s/%s", prepSide, budget(c35IprepRate), scale)
		}
		if new(big.Int).Mul(sumWage, scale).Cmp(budget(c35IwageRate)) > 0 {
			bad("budget-exceeded:wage>Iwage-fund-of-term",
				"credited wages %s IScore > Iwage fund of the term %s/%s", sumWage, budget(c35IwageRate), scale)
		}
		if new(big.Int).Mul(total, scale).Cmp(budget(c35IprepRate+c35IwageRate)) > 0 {
			bad("budget-exceeded:total>Iprep+Iwage-fund-of-term",
				"credited total %s IScore > fund of the term %s/%s", total, budget(c35IprepRate+c35IwageRate), scale)
		}
		if st := ctx.stats.Total(); st.Cmp(total) != 0 {
			bad("credited-iscore!=reported-total", "sum of IScore entries %s, calculator statistics %s", total, st)
		}

		// ---- oracle 2: proportional share, from the reference accumulated votes
		avTotal := [c35NP]*big.Int{}
		for i := range avTotal {
			avTotal[i] = new(big.Int)
		}
		for k, x := range av {
			if x.Sign() < 0 {
				res.herr = "illegal history: negative accumulated votes"
				return
			}
			avTotal[k[1]].Add(avTotal[k[1]], x)
		}
		share := func(from, to int) *big.Int {
			x := av[pair{from, to}]
			if x == nil || x.Sign() == 0 || vr[to].Sign() == 0 || avTotal[to].Sign() == 0 {
				return new(big.Int)
			}
			s := new(big.Int).Mul(x, vr[to])
			return s.Quo(s, avTotal[to])
		}
		for i := 0; i < c35NP; i++ {
			if vr[i].Sign() > 0 && avCode[i].Cmp(avTotal[i]) != 0 {
				rel := "<"
				if avCode[i].Cmp(avTotal[i]) > 0 {
					rel = ">"
				}
				bad("prep-accumulated-votes"+rel+"sum-of-voters-accumulated-votes",
					"%s AccumulatedVoted()=%s, votes accumulated over the term from the raw history=%s", c35Names[i], avCode[i], avTotal[i])
			}
		}
		voters := []int{c35V0, c35V1, 0}
		for _, v := range voters {
			want := new(big.Int)
			for to := 0; to < c35NP; to++ {
				s := share(v, to)
				want.Add(want, s)
				if s.Sign() > 0 {
					res.pairs++
				}
			}
			if want.Sign() > 0 {
				res.paidVoters++
			}
			got := new(big.Int).Set(credited[v])
			if v < c35NP {
				got.Sub(got, commission[v])
				got.Sub(got, wage[v])
			}
			if c := got.Cmp(want); c != 0 {
				rel := "<"
				if c > 0 {
					rel = ">"
				}
				bad("voter-iscore"+rel+"proportional-share",
					"%s credited %s as voter, proportional share of the voter rewards is %s", c35Names[v], got, want)
			}
		}
		for i := 1; i < c35NP; i++ { // P-Reps that never vote: exactly commission + wage
			want := new(big.Int).Add(commission[i], wage[i])
			if credited[i].Cmp(want) != 0 {
				bad("prep-iscore!=commission+wage", "%s credited %s, commission+wage=%s", c35Names[i], credited[i], want)
			}
		}

		// ---- oracle 3: the real Voter, one (voter, P-Rep) pair at a time
		if r.pi != nil {
			for to := 0; to < c35NP; to++ {
				sum := new(big.Int)
				for _, v := range voters {
					if av[pair{v, to}] == nil {
						continue
					}
					voter := NewVoter(c35Addr[v], c35Log)
					for _, b := range termBase {
						if b.from != v || b.to != to {
							continue
						}
						amt := new(big.Int).Set(b.amt)
						if b.kind == c35KDeleg {
							voter.ApplyVoting(&icreward.Delegating{Delegations: icstate.Delegations{icstate.NewDelegation(c35Addr[to], amt)}}, r.pi.GetTermPeriod())
						} else {
							voter.ApplyVoting(&icreward.Bonding{Bonds: icstate.Bonds{icstate.NewBond(c35Addr[to], amt)}}, r.pi.GetTermPeriod())
						}
					}
					for _, e := range events {
						if e.Kind == c35KEnable || e.From != v {
							continue
						}
						for _, vt := range e.Votes {
							if vt.To != to {
								continue
							}
							t := vtDelegate
							if e.Kind == c35KBond {
								t = vtBond
							}
							voter.ApplyEvent(NewVoteEvent(t, icstage.VoteList{icstage.NewVote(c35Addr[to], c35Big(vt.Amt))}, e.Off), r.pi.OffsetLimit()-e.Off)
						}
					}
					var got *big.Int
					if p := ev.Catch(func() { got = voter.CalculateReward(r.pi) }); p != "" {
						bad("voter-calculate-panic", "Voter.CalculateReward(%s->%s) panicked: %s", c35Names[v], c35Names[to], p)
						continue
					}
					want := share(v, to)
					if c := got.Cmp(want); c != 0 {
						rel := "<"
						if c > 0 {
							rel = ">"
						}
						bad("Voter.CalculateReward"+rel+"proportional-share",
							"%s->%s: Voter.CalculateReward=%s, accumulated votes %s * voter reward %s / total accumulated votes %s = %s",
							c35Names[v], c35Names[to], got, av[pair{v, to}], vr[to], avTotal[to], want)
					}
					sum.Add(sum, got)
				}
				if sum.Cmp(vr[to]) > 0 {
					bad("voter-shares>prep-voter-reward", "%s: shares paid %s > VoterReward() %s", c35Names[to], sum, vr[to])
				}
			}
		}

		// ---- oracle 4: the records written for the next term are the true votes at the end of this term
		for i := 0; i < c35NP; i++ {
			wantD, wantB := new(big.Int), new(big.Int)
			for k, x := range cur {
				if k[1] == i {
					if k[2] == c35KBond {
						wantB.Add(wantB, x)
					} else {
						wantD.Add(wantD, x)
					}
				}
			}
			gotD, gotB := new(big.Int), new(big.Int)
			if vd, err := ctx.temp.GetVoted(c35Addr[i]); err == nil && vd != nil {
				gotD, gotB = vd.Delegated(), vd.Bonded()
			}
			if gotD.Cmp(wantD) != 0 {
				bad("written-Voted.delegated!=sum-of-delegations", "%s: Voted record for the next term has delegated=%s, voters delegate %s", c35Names[i], gotD, wantD)
			}
			if gotB.Cmp(wantB) != 0 {
				bad("written-Voted.bonded!=sum-of-bonds", "%s: Voted record for the next term has bonded=%s, voters bond %s", c35Names[i], gotB, wantB)
			}
		}
		for _, v := range voters {
			wd, wb := map[int]*big.Int{}, map[int]*big.Int{}
			for k, x := range cur {
				if k[0] == v && x.Sign() != 0 {
					if k[2] == c35KBond {
						wb[k[1]] = x
					} else {
						wd[k[1]] = x
					}
				}
			}
			okD, okB := true, true
			nd, nb := 0, 0
			if d, err := ctx.temp.GetDelegating(c35Addr[v]); err == nil && d != nil {
				for _, x := range d.Delegations {
					nd++
					found := false
					for to, amt := range wd {
						if c35Addr[to].Equal(x.To()) && amt.Cmp(x.Amount()) == 0 {
							found = true
						}
					}
					okD = okD && found
				}
			}
			if b, err := ctx.temp.GetBonding(c35Addr[v]); err == nil && b != nil {
				for _, x := range b.Bonds {
					nb++
					found := false
					for to, amt := range wb {
						if c35Addr[to].Equal(x.To()) && amt.Cmp(x.Amount()) == 0 {
							found = true
						}
					}
					okB = okB && found
				}
			}
			if !okD || nd != len(wd) {
				bad("written-Delegating!=voter-delegations", "%s: Delegating record for the next term differs from its delegations", c35Names[v])
			}
			if !okB || nb != len(wb) {
				bad("written-Bonding!=voter-bonds", "%s: Bonding record for the next term differs from its bonds", c35Names[v])
			}
		}
		baseSS = ctx.temp.GetSnapshot()
	}
	return
}

// ---------------------------------------------------------------- enumeration

type c35VoteAction struct {
	name string
	from int
	kind int
	gen  func(cur func(from, to, kind int) *big.Int) []c35Vote
}

func c35VoteActions() []c35VoteAction {
	s := func(v *big.Int) string { return v.String() }
	neg := func(v *big.Int) string { return new(big.Int).Neg(v).String() }
	type curFn = func(from, to, kind int) *big.Int
	return []c35VoteAction{
		{"V0 delegates +1 ICX to P0", c35V0, c35KDeleg, func(cur curFn) []c35Vote {
			return []c35Vote{{0, s(c35Icx(1))}}
		}},
		{"V0 withdraws its delegation to P0", c35V0, c35KDeleg, func(cur curFn) []c35Vote {
			x := cur(c35V0, 0, c35KDeleg)
			if x.Sign() == 0 {
				return nil
			}
			return []c35Vote{{0, neg(x)}}
		}},
		{"V0 moves its delegation from P0 to P1", c35V0, c35KDeleg, func(cur curFn) []c35Vote {
			x := cur(c35V0, 0, c35KDeleg)
			if x.Sign() == 0 {
				return nil
			}
			return []c35Vote{{0, neg(x)}, {1, s(x)}}
		}},
		{"V0 delegates +10^5 ICX to unregistered P3", c35V0, c35KDeleg, func(cur curFn) []c35Vote {
			return []c35Vote{{3, s(c35Icx(100000))}}
		}},
		{"V1 delegates +10^5 ICX to P2", c35V1, c35KDeleg, func(cur curFn) []c35Vote {
			return []c35Vote{{2, s(c35Icx(100000))}}
		}},
		{"V1 withdraws its delegation to P1", c35V1, c35KDeleg, func(cur curFn) []c35Vote {
			x := cur(c35V1, 1, c35KDeleg)
			if x.Sign() == 0 {
				return nil
			}
			return []c35Vote{{1, neg(x)}}
		}},
		{"V1 bonds +10^4 ICX to P1", c35V1, c35KBond, func(cur curFn) []c35Vote {
			return []c35Vote{{1, s(c35Icx(10000))}}
		}},
		{"V1 withdraws its bond to P1", c35V1, c35KBond, func(cur curFn) []c35Vote {
			x := cur(c35V1, 1, c35KBond)
			if x.Sign() == 0 {
				return nil
			}
			return []c35Vote{{1, neg(x)}}
		}},
		{"P0 bonds +10^4 ICX to itself", 0, c35KBond, func(cur curFn) []c35Vote {
			return []c35Vote{{0, s(c35Icx(10000))}}
		}},
		{"P0's self bond is slashed by half", 0, c35KBond, func(cur curFn) []c35Vote {
			x := cur(0, 0, c35KBond)
			h := new(big.Int).Rsh(x, 1)
			if h.Sign() == 0 {
				return nil
			}
			return []c35Vote{{0, neg(h)}}
		}},
	}
}

type c35EnableAction struct {
	target int
	status icmodule.EnableStatus
}

func c35EnableActions() []c35EnableAction {
	return []c35EnableAction{
		{0, icmodule.ESDisableTemp},
		{0, icmodule.ESJail},
		{1, icmodule.ESDisablePermanent},
		{2, icmodule.ESUnjail},
		{2, icmodule.ESEnable},
		{2, icmodule.ESEnableAtNextTerm},
		{3, icmodule.ESEnable},
	}
}

func c35Offsets(limit int) []int {
	if limit == 0 {
		return []int{0}
	}
	if limit == 1 {
		return []int{0, 1}
	}
	return []int{0, limit / 2, limit}
}

// c35BaseTables enumerates base vote tables: a product of small per-edge domains.
// variant 0: 288 tables; variant 1: 48 tables; variant 2: 12 tables (used where
// the event dimension is large).
type c35Edge struct {
	from, to, kind int
	icx            []int64
}

func c35Edges(variant int) []c35Edge {
	switch variant {
	case 0:
		return []c35Edge{
			{c35V0, 0, c35KDeleg, []int64{0, 1, 100000}},
			{c35V0, 1, c35KDeleg, []int64{0, 100000}},
			{c35V1, 1, c35KDeleg, []int64{0, 100000}},
			{c35V1, 2, c35KDeleg, []int64{0, 1}},
			{0, 0, c35KBond, []int64{0, 1, 10000}},
			{c35V1, 1, c35KBond, []int64{0, 10000}},
			{c35V1, 2, c35KBond, []int64{0, 10000}},
		}
	case 1:
		return []c35Edge{
			{c35V0, 0, c35KDeleg, []int64{1, 100000}},
			{c35V0, 1, c35KDeleg, []int64{0, 100000}},
			{c35V1, 1, c35KDeleg, []int64{100000}},
			{c35V1, 2, c35KDeleg, []int64{1}},
			{0, 0, c35KBond, []int64{0, 1, 10000}},
			{c35V1, 1, c35KBond, []int64{0, 10000}},
			{c35V1, 2, c35KBond, []int64{0, 10000}},
		}
	}
	return []c35Edge{
		{c35V0, 0, c35KDeleg, []int64{100000}},
		{c35V0, 1, c35KDeleg, []int64{0, 100000}},
		{c35V1, 1, c35KDeleg, []int64{100000}},
		{c35V1, 2, c35KDeleg, []int64{1}},
		{0, 0, c35KBond, []int64{0, 1, 10000}},
		{c35V1, 1, c35KBond, []int64{0, 10000}},
		{c35V1, 2, c35KBond, []int64{10000}},
	}
}

func c35BaseTables(variant int) [][]c35BaseVote {
	edges := c35Edges(variant)
	dims := make([]int, len(edges))
	for i, e := range edges {
		dims[i] = len(e.icx)
	}
	var out [][]c35BaseVote
	opseq.Product(dims, func(idx []int) bool {
		var t []c35BaseVote
		for i, e := range edges {
			if n := e.icx[idx[i]]; n > 0 {
				t = append(t, c35BaseVote{e.from, e.to, e.kind, c35Icx(n).String()})
			}
		}
		out = append(out, t)
		return true
	})
	return out
}

// c35EventSeqs calls fn with every legal event history of the family for the
// given base case: <= maxVotes vote events with non-decreasing offsets, then
// <= maxEnable enable events (any offset).
func c35EventSeqs(base *c35Case, maxVotes, maxEnable int, skipEmpty bool, fn func(evs []c35Event)) {
	acts := c35VoteActions()
	ens := c35EnableActions()
	offs := c35Offsets(base.Limit)
	cur := map[[3]int]*big.Int{}
	for _, b := range base.Base {
		cur[[3]int{b.From, b.To, b.Kind}] = c35Big(b.Amt)
	}
	get := func(from, to, kind int) *big.Int {
		if x := cur[[3]int{from, to, kind}]; x != nil {
			return x
		}
		return new(big.Int)
	}
	withEnables := func(evs []c35Event) {
		if len(evs) > 0 || !skipEmpty {
			fn(evs)
		}
		if maxEnable < 1 {
			return
		}
		for _, en := range ens {
			for _, o := range offs {
				fn(append(append([]c35Event(nil), evs...), c35Event{Kind: c35KEnable, Off: o, Target: en.target, Status: int(en.status),
					Name: fmt.Sprintf("%s status -> %s", c35Names[en.target], en.status)}))
			}
		}
	}
	var rec func(evs []c35Event, minOffIdx int)
	rec = func(evs []c35Event, minOffIdx int) {
		withEnables(evs)
		if len(evs) >= maxVotes {
			return
		}
		for oi := minOffIdx; oi < len(offs); oi++ {
			for _, a := range acts {
				votes := a.gen(get)
				if votes == nil {
					continue
				}
				for _, v := range votes {
					k := [3]int{a.from, v.To, a.kind}
					cur[k] = new(big.Int).Add(get(a.from, v.To, a.kind), c35Big(v.Amt))
				}
				rec(append(append([]c35Event(nil), evs...), c35Event{Kind: a.kind, Off: offs[oi], From: a.from, Votes: votes, Name: a.name}), oi)
				for _, v := range votes {
					k := [3]int{a.from, v.To, a.kind}
					cur[k] = new(big.Int).Sub(get(a.from, v.To, a.kind), c35Big(v.Amt))
				}
			}
		}
	}
	rec(nil, 0)
}

// c35NewcomerActions: votes to P3, the address that registers as a P-Rep during the term.
func c35NewcomerActions() []c35VoteAction {
	s := func(v *big.Int) string { return v.String() }
	neg := func(v *big.Int) string { return new(big.Int).Neg(v).String() }
	type curFn = func(from, to, kind int) *big.Int
	return []c35VoteAction{
		{"V0 delegates +10^5 ICX to newcomer P3", c35V0, c35KDeleg, func(cur curFn) []c35Vote {
			return []c35Vote{{3, s(c35Icx(100000))}}
		}},
		{"V1 bonds +10^4 ICX to newcomer P3", c35V1, c35KBond, func(cur curFn) []c35Vote {
			return []c35Vote{{3, s(c35Icx(10000))}}
		}},
		{"V1 bonds +1 ICX to newcomer P3", c35V1, c35KBond, func(cur curFn) []c35Vote {
			return []c35Vote{{3, s(c35Icx(1))}}
		}},
		{"V0 moves its delegation from P0 to newcomer P3", c35V0, c35KDeleg, func(cur curFn) []c35Vote {
			x := cur(c35V0, 0, c35KDeleg)
			if x.Sign() == 0 {
				return nil
			}
			return []c35Vote{{0, neg(x)}, {3, s(x)}}
		}},
		{"V1 withdraws its bond to newcomer P3", c35V1, c35KBond, func(cur curFn) []c35Vote {
			x := cur(c35V1, 3, c35KBond)
			if x.Sign() == 0 {
				return nil
			}
			return []c35Vote{{3, neg(x)}}
		}},
	}
}

// c35NewcomerSeqs: exactly one EventEnable(P3, ESEnable) (P3 has no Voted entry in the base: a
// P-Rep registration inside the term) at every offset, combined with every legal sequence of
// 1..maxVotes newcomer vote events with non-decreasing offsets (before, at or after the registration).
func c35NewcomerSeqs(base *c35Case, maxVotes int, fn func(evs []c35Event)) {
	acts := c35NewcomerActions()
	offs := c35Offsets(base.Limit)
	cur := map[[3]int]*big.Int{}
	for _, b := range base.Base {
		cur[[3]int{b.From, b.To, b.Kind}] = c35Big(b.Amt)
	}
	get := func(from, to, kind int) *big.Int {
		if x := cur[[3]int{from, to, kind}]; x != nil {
			return x
		}
		return new(big.Int)
	}
	emit := func(evs []c35Event) {
		for _, o := range offs {
			fn(append(append([]c35Event(nil), evs...), c35Event{Kind: c35KEnable, Off: o, Target: 3, Status: int(icmodule.ESEnable),
				Name: "P3 registers as P-Rep (status -> Enable)"}))
		}
	}
	var rec func(evs []c35Event, minOffIdx int)
	rec = func(evs []c35Event, minOffIdx int) {
		if len(evs) > 0 {
			emit(evs)
		}
		if len(evs) >= maxVotes {
			return
		}
		for oi := minOffIdx; oi < len(offs); oi++ {
			for _, a := range acts {
				votes := a.gen(get)
				if votes == nil {
					continue
				}
				for _, v := range votes {
					cur[[3]int{a.from, v.To, a.kind}] = new(big.Int).Add(get(a.from, v.To, a.kind), c35Big(v.Amt))
				}
				rec(append(append([]c35Event(nil), evs...), c35Event{Kind: a.kind, Off: offs[oi], From: a.from, Votes: votes, Name: a.name}), oi)
				for _, v := range votes {
					cur[[3]int{a.from, v.To, a.kind}] = new(big.Int).Sub(get(a.from, v.To, a.kind), c35Big(v.Amt))
				}
			}
		}
	}
	rec(nil, 0)
}

// c35ChainSeqs enumerates chained histories over `terms` terms. Term 1: (no vote event | one of
// the 11 vote actions at each offset) x (no enable event | one of the 7 enable events at the middle
// offset). Every later term: no event | one of the 11 vote actions at the middle offset, legal with
// respect to the votes in force after the previous terms.
func c35ChainSeqs(base *c35Case, terms int, fn func(first []c35Event, next [][]c35Event)) {
	acts := append(c35VoteActions(), c35NewcomerActions()[1])
	ens := c35EnableActions()
	offs := c35Offsets(base.Limit)
	mid := offs[len(offs)/2]
	cur := map[[3]int]*big.Int{}
	for _, b := range base.Base {
		cur[[3]int{b.From, b.To, b.Kind}] = c35Big(b.Amt)
	}
	get := func(from, to, kind int) *big.Int {
		if x := cur[[3]int{from, to, kind}]; x != nil {
			return x
		}
		return new(big.Int)
	}
	// votes(offsList, fn): fn(nil) and fn(event) for every applicable action/offset, with cur updated during fn
	votes := func(ofl []int, f func(e *c35Event)) {
		f(nil)
		for _, o := range ofl {
			for _, a := range acts {
				vs := a.gen(get)
				if vs == nil {
					continue
				}
				for _, v := range vs {
					cur[[3]int{a.from, v.To, a.kind}] = new(big.Int).Add(get(a.from, v.To, a.kind), c35Big(v.Amt))
				}
				f(&c35Event{Kind: a.kind, Off: o, From: a.from, Votes: vs, Name: a.name})
				for _, v := range vs {
					cur[[3]int{a.from, v.To, a.kind}] = new(big.Int).Sub(get(a.from, v.To, a.kind), c35Big(v.Amt))
				}
			}
		}
	}
	var later func(first []c35Event, next [][]c35Event)
	later = func(first []c35Event, next [][]c35Event) {
		if len(next) == terms-1 {
			fn(first, next)
			return
		}
		votes([]int{mid}, func(e *c35Event) {
			var t []c35Event
			if e != nil {
				t = []c35Event{*e}
			}
			later(first, append(append([][]c35Event(nil), next...), t))
		})
	}
	votes(offs, func(e *c35Event) {
		var first []c35Event
		if e != nil {
			first = []c35Event{*e}
		}
		later(first, nil)
		for _, en := range ens {
			later(append(append([]c35Event(nil), first...), c35Event{Kind: c35KEnable, Off: mid, Target: en.target, Status: int(en.status),
				Name: fmt.Sprintf("%s status -> %s", c35Names[en.target], en.status)}), nil)
		}
	})
}

type c35Family struct {
	name      string
	configs   []*c35Case
	maxVotes  int
	maxEnable int
	skipEmpty bool // the empty history of these configurations is covered by family A0
	newcomer  bool // family N: histories are produced by c35NewcomerSeqs
	chain     int  // family C: number of chained terms (0: single term)
}

func c35Commissions(all bool) [][c35NP]int64 {
	if !all {
		return [][c35NP]int64{{0, 5000, 10000, 0}, {5000, 10000, 0, 0}, {10000, 0, 5000, 0}}
	}
	var out [][c35NP]int64
	vals := []int64{0, 5000, 10000}
	opseq.Product([]int{3, 3, 3}, func(idx []int) bool {
		out = append(out, [c35NP]int64{vals[idx[0]], vals[idx[1]], vals[idx[2]], 0})
		return true
	})
	return out
}

type c35StatusVec struct {
	st [c35NP]int
	pk [c35NP]bool
}

func c35Statuses(n int) []c35StatusVec {
	E, D, P, J, U := int(icmodule.ESEnable), int(icmodule.ESDisableTemp), int(icmodule.ESDisablePermanent), int(icmodule.ESJail), int(icmodule.ESUnjail)
	all := []c35StatusVec{
		{[c35NP]int{E, E, E, P}, [c35NP]bool{true, true, true, false}},
		{[c35NP]int{D, E, E, P}, [c35NP]bool{true, true, true, false}},
		{[c35NP]int{E, J, E, P}, [c35NP]bool{true, true, true, false}},
		{[c35NP]int{E, E, U, P}, [c35NP]bool{true, true, true, false}},
		{[c35NP]int{E, E, P, P}, [c35NP]bool{true, true, true, false}},
		{[c35NP]int{E, E, E, P}, [c35NP]bool{true, true, false, false}}, // P2 has no BTP public key: not electable
	}
	return all[:n]
}

func c35Families(thorough bool) []c35Family {
	mk := func(name string, elected []int, bondReq []int64, limits []int, tables [][]c35BaseVote, comms [][c35NP]int64, sts []c35StatusVec) []*c35Case {
		var out []*c35Case
		for _, el := range elected {
			for _, br := range bondReq {
				for _, lim := range limits {
					for _, cm := range comms {
						for _, st := range sts {
							for _, tb := range tables {
								out = append(out, &c35Case{Family: name, Elected: el, BondReq: br, Limit: lim, Comm: cm, Status: st.st, PubKey: st.pk, Base: tb})
							}
						}
					}
				}
			}
		}
		return out
	}
	term := c35DecentralTerm - 1
	full, narrow := c35BaseTables(0), c35BaseTables(1)
	lat := c35Commissions(false)
	if !thorough {
		return []c35Family{
			// A0: no events, broad configuration product
			{"A0", mk("A0", []int{1, 2, 3}, []int64{0, 500}, []int{0, term}, full, lat, c35Statuses(6)), 0, 0, false, false, 0},
			// A1: exactly one vote event
			{"A1", mk("A1", []int{2, 3}, []int64{0, 500}, []int{term}, full, lat[:1], c35Statuses(3)), 1, 0, true, false, 0},
			// AE: exactly one enable event
			{"AE", mk("AE", []int{2, 3}, []int64{500}, []int{term}, full, lat[:1], c35Statuses(6)), 0, 1, true, false, 0},
			// B: <=2 vote events and <=1 enable event
			// C: two chained terms, term 2 is calculated on the records written by term 1
			{"C", mk("C", []int{2, 3}, []int64{500}, []int{term}, c35BaseTables(2), lat[:1], c35Statuses(1)), 1, 1, true, false, 2},
			// N: a P-Rep registers inside the term (enable event for an address without Voted entry) and is voted for
			{"N", mk("N", []int{2, 3}, []int64{0, 500}, []int{term}, c35BaseTables(2), lat[:1], c35Statuses(2)), 2, 1, true, true, 0},
			{"B", mk("B", []int{2, 3}, []int64{500}, []int{term}, c35BaseTables(2), lat[:1], c35Statuses(2)), 2, 1, true, false, 0},
		}
	}
	return []c35Family{
		{"A0", mk("A0", []int{0, 1, 2, 3, 4}, []int64{0, 500, 10000}, []int{0, 1, term}, full, c35Commissions(true), c35Statuses(6)), 0, 0, false, false, 0},
		{"A1", mk("A1", []int{1, 2, 3, 4}, []int64{0, 500, 10000}, []int{1, term}, full, lat, c35Statuses(6)), 1, 0, true, false, 0},
		{"AE", mk("AE", []int{1, 2, 3, 4}, []int64{0, 500}, []int{1, term}, full, lat, c35Statuses(6)), 0, 1, true, false, 0},
		{"N", mk("N", []int{1, 2, 3, 4}, []int64{0, 500}, []int{1, term}, c35BaseTables(2), lat[:1], c35Statuses(2)), 3, 1, true, true, 0},
		{"C", mk("C", []int{2, 3}, []int64{0, 500}, []int{term}, c35BaseTables(2), lat[:1], c35Statuses(1)), 1, 1, true, false, 3},
		{"B", mk("B", []int{1, 2, 3, 4}, []int64{0, 500}, []int{1, term}, narrow, lat[:1], c35Statuses(2)), 2, 1, true, false, 0},
	}
}

func TestVerifC35(t *testing.T) {
	debug.SetGCPercent(800) // allocation-heavy, tiny live heap
	r := ev.Start(t, "C35", "exploration")
	r.Rule("case = (electedPRepCount, bond requirement, term period, commission vector, status/pubkey vector, base vote table, event history); " +
		"every element of the stated product is run through the real iiss4Reward.Calculate on real icstage/icreward states; " +
		"non-trivial = distinct case in which at least one P-Rep or voter is credited a positive reward")
	r.Assume("histories are legal: no vote ever goes negative, event offsets lie inside the term, Voted totals equal the sum of the voters' base votes",
		"reward fund: Iglobal 3,000,000 ICX/month, Iprep 77%, Iwage 13%, minBond 10,000 ICX; budget of a term = fund*period/1,296,000 (exact rational comparison)",
		"reference model: accumulated votes = base*period + sum(delta*(offsetLimit-offset)); it is trusted")

	if ev.Replaying() {
		var c c35Case
		ev.ReplayCase(&c)
		res := c35Exec(&c)
		r.Eval(1)
		for _, v := range res.viol {
			r.Violation(v.sig, v.detail, &c)
		}
		r.Sanity(res.herr == "", "replay: %s", res.herr)
		r.Sample(&c)
		r.Finish(false)
		return
	}

	fams := c35Families(r.Thorough())
	if only := os.Getenv("VERIF_C35_FAMILY"); only != "" { // debugging aid: one family, never exhaustive
		var f2 []c35Family
		for _, f := range fams {
			if f.name == only {
				f2 = append(f2, f)
			}
		}
		fams = f2
		r.Cap("restricted to family " + only)
	}
	var rewarded, voterPaid, multiPair, wagePaid, capped, unregPaid, nothing, herrs, enableHist, twoVote, newcomer, samePower, termsRun int64
	var stopped int32
	var firstErr atomic.Value
	famCounts := map[string]int64{}
	complete := true
	var sampleCase, sampleCase2 atomic.Value
	for _, fam := range fams {
		var n int64
		fam := fam
		ev.Par(len(fam.configs), 16, func(i int) {
			if atomic.LoadInt32(&stopped) != 0 {
				return
			}
			if r.Expired() {
				atomic.StoreInt32(&stopped, 1)
				return
			}
			if r.Violations() >= 40 {
				r.Cap("stopped after 40 violations")
				atomic.StoreInt32(&stopped, 1)
				return
			}
			base := fam.configs[i]
			var local, lRew, lVot, lMulti, lWage, lCap, lUnreg, lNothing, lEn, lTwo int64
			var chainNext [][]c35Event
			enum := func(fn func(evs []c35Event)) {
				if fam.chain > 0 {
					c35ChainSeqs(base, fam.chain, func(first []c35Event, next [][]c35Event) {
						chainNext = next
						fn(first)
					})
				} else if fam.newcomer {
					c35NewcomerSeqs(base, fam.maxVotes, fn)
				} else {
					c35EventSeqs(base, fam.maxVotes, fam.maxEnable, fam.skipEmpty, fn)
				}
			}
			enum(func(evs []c35Event) {
				if atomic.LoadInt32(&stopped) != 0 {
					return
				}
				if local&255 == 255 && r.Expired() {
					atomic.StoreInt32(&stopped, 1)
					return
				}
				c := *base
				c.Events = evs
				c.Next = chainNext
				res := c35Exec(&c)
				local++
				if res.herr != "" {
					atomic.AddInt64(&herrs, 1)
					firstErr.CompareAndSwap(nil, res.herr)
					return
				}
				for _, v := range res.viol {
					cc := c.clone()
					r.Violation(v.sig, v.detail, cc)
				}
				nv, ne := 0, 0
				for _, e := range evs {
					if e.Kind == c35KEnable {
						ne++
					} else {
						nv++
					}
				}
				if ne > 0 {
					lEn++
				}
				if nv >= 2 {
					lTwo++
				}
				if res.rewardable > 0 {
					lRew++
					b, _ := json.Marshal(&c)
					r.Nontrivial(string(b))
				} else {
					lNothing++
				}
				if res.paidVoters > 0 {
					lVot++
				}
				if res.pairs >= 3 {
					lMulti++
					if nv >= 2 && ne > 0 && res.capped > 0 && sampleCase.Load() == nil {
						sampleCase.Store(c.clone())
					}
				}
				if res.wagePaid > 0 {
					lWage++
				}
				if res.capped > 0 {
					lCap++
				}
				if res.newcomer {
					atomic.AddInt64(&newcomer, 1)
				}
				if res.cappedSamePower {
					atomic.AddInt64(&samePower, 1)
				}
				if len(c.Next) > 0 {
					atomic.AddInt64(&termsRun, int64(len(c.Next)))
				}
				if res.unregPaid {
					lUnreg++
					if sampleCase2.Load() == nil {
						sampleCase2.Store(c.clone())
					}
				}
			})
			r.Eval(int(local))
			atomic.AddInt64(&n, local)
			atomic.AddInt64(&rewarded, lRew)
			atomic.AddInt64(&voterPaid, lVot)
			atomic.AddInt64(&multiPair, lMulti)
			atomic.AddInt64(&wagePaid, lWage)
			atomic.AddInt64(&capped, lCap)
			atomic.AddInt64(&unregPaid, lUnreg)
			atomic.AddInt64(&nothing, lNothing)
			atomic.AddInt64(&enableHist, lEn)
			atomic.AddInt64(&twoVote, lTwo)
		})
		famCounts[fam.name] = n
		if atomic.LoadInt32(&stopped) != 0 {
			complete = false
			break
		}
	}
	var done []string
	for _, fam := range fams {
		if _, ok := famCounts[fam.name]; ok && (complete || fam.name != fams[len(famCounts)-1].name) {
			done = append(done, fam.name)
		}
	}
	r.Set("families_completed", done)
	names := make([]string, 0, len(famCounts))
	for k := range famCounts {
		names = append(names, k)
	}
	sort.Strings(names)
	for _, k := range names {
		r.Set("cases_family_"+k, famCounts[k])
	}
	r.Set("cases_with_rewarded_prep", rewarded)
	r.Set("cases_with_paid_voter", voterPaid)
	r.Set("cases_with_3plus_paid_voter_prep_pairs", multiPair)
	r.Set("cases_with_wage", wagePaid)
	r.Set("cases_where_bond_requirement_caps_power", capped)
	r.Set("cases_where_address_registered_in_term_is_credited", unregPaid) // expected 0: it is not ranked
	r.Set("cases_where_address_registered_in_term_has_power", newcomer)
	r.Set("chained_cases_where_a_later_term_follows_a_vote_change_that_left_a_bond_limited_power_unchanged", samePower)
	r.Set("additional_chained_term_calculations", termsRun)
	r.Set("cases_without_any_reward", nothing)
	r.Set("cases_with_enable_event", enableHist)
	r.Set("cases_with_two_vote_events", twoVote)
	r.Set("harness_errors", herrs)
	if e := firstErr.Load(); e != nil {
		r.Sanity(false, "calculation could not be evaluated in %d cases, first: %v", herrs, e)
	}
	r.Sanity(r.Violations() > 0 || rewarded > 0 && voterPaid > 0 && multiPair > 0 && wagePaid > 0 && capped > 0 && nothing > 0 && enableHist > 0 && twoVote > 0 && newcomer > 0 && samePower > 0,
		"vacuity: rewarded=%d voterPaid=%d multiPair=%d wage=%d capped=%d nothing=%d enable=%d twoVote=%d",
		rewarded, voterPaid, multiPair, wagePaid, capped, nothing, enableHist, twoVote)
	if s := sampleCase.Load(); s != nil {
		r.Sample(s)
	}
	if s := sampleCase2.Load(); s != nil {
		r.Sample(s)
	}
	if len(fams) > 0 && len(fams[0].configs) > 0 {
		r.Sample(fams[0].configs[len(fams[0].configs)/2])
	}
	r.Finish(complete)
}
