//go:build verif

package block_test

// C07 — imported blocks extend their parent with consistent height, prev
// link, version and median timestamp.
//
// A real chain (real block.Manager + real service transitions, fixed validator
// keys) is grown on two nodes. For every next height H the producer proposes a
// valid candidate; its header/body formats are then re-assembled with every
// combination of
//   - commit vote list: every subset of the N validators x every assignment of
//     vote timestamps from a small alphabet around the parent's timestamp
//     (plus duplicate-signer and non-validator-signer lists),
//   - block timestamp in {median-1, median, median+1, parent-1, parent, parent+1},
//   - height delta, prev-id mutation, version mutation (full product, i.e. single,
//     pairwise and triple field mutations),
// and imported into the second node through both real import paths
// (Manager.Import on bytes, Manager.ImportBlock on decoded block data).
// Oracle = the property statement: import succeeds iff no field is mutated, the
// vote list is a >2/3 set of distinct validators and (above height 1) the
// timestamp equals the independently computed median and exceeds the parent's.

import (
	"bytes"
	"encoding/json"
	"fmt"
	"runtime"
	"sort"
	"strings"
	"sync"
	"sync/atomic"
	"testing"
	"time"

	"github.com/icon-project/goloop/block"
	"github.com/icon-project/goloop/chain/base"
	"github.com/icon-project/goloop/common/codec"
	"github.com/icon-project/goloop/consensus"
	"github.com/icon-project/goloop/module"
	"github.com/icon-project/goloop/test"
	"github.com/icon-project/goloop/verifshim/blkfx"
	"github.com/icon-project/goloop/verifshim/ev"
)

const c07T0 = int64(1000000) // timestamp given to block 1 (rule is off at height 1)
const c07Step = int64(10)    // canonical chain: ts(k) = ts(k-1) + 10

type c07Case struct {
	N     int              `json:"n"`     // number of validators
	H     int64            `json:"h"`     // candidate height
	Votes []blkfx.VoteSpec `json:"votes"` // signer index, ts = offset from the parent's timestamp
	TS    int64            `json:"ts"`    // block timestamp as offset from the parent's timestamp
	DH    int64            `json:"dh"`    // height delta (0 = unmutated)
	Prev  string           `json:"prev"`  // "", flip0, flipL, nil, short, grand
	Ver   int              `json:"ver"`   // 2 = unmutated
	Path  string           `json:"path"`  // bytes | block
	Scn   string           `json:"scn,omitempty"`
}

func (c c07Case) key() string {
	b, _ := json.Marshal(c)
	return string(b)
}

// c07Median is the reference: sort; middle element, or the mean of the two
// middle elements rounded down.
func c07Median(ts []int64) int64 {
	s := append([]int64(nil), ts...)
	for i := 1; i < len(s); i++ { // insertion sort, independent of sort.Slice use in goloop
		for j := i; j > 0 && s[j-1] > s[j]; j-- {
			s[j-1], s[j] = s[j], s[j-1]
		}
	}
	n := len(s)
	if n == 0 {
		return 0
	}
	if n%2 == 1 {
		return s[n/2]
	}
	a, b := s[n/2-1], s[n/2]
	return a + (b-a)/2 // b>=a, so this is floor((a+b)/2) without overflow
}

// c07Reason returns "" when the statement requires the case to be accepted,
// otherwise the first violated clause.
func c07Reason(c c07Case) string {
	if c.Scn == "nextver3" {
		return "version-required-3"
	}
	if c.Ver != 2 {
		return fmt.Sprintf("version=%d", c.Ver)
	}
	if c.DH != 0 {
		return fmt.Sprintf("height%+d", c.DH)
	}
	if c.Prev != "" {
		return "prev-" + c.Prev
	}
	if c.H == 1 {
		if len(c.Votes) != 0 {
			return "votes-at-height-1"
		}
		return ""
	}
	seen := map[int]bool{}
	for _, v := range c.Votes {
		if v.Signer >= c.N {
			return "votes-non-validator"
		}
		if seen[v.Signer] {
			return "votes-duplicate-signer"
		}
		seen[v.Signer] = true
	}
	if 3*len(c.Votes) <= 2*c.N {
		return fmt.Sprintf("votes-subquorum-%d-of-%d", len(c.Votes), c.N)
	}
	var ts []int64
	for _, v := range c.Votes {
		ts = append(ts, v.TS)
	}
	m := c07Median(ts)
	par := "odd"
	if len(ts)%2 == 0 {
		par = "even"
	}
	if c.TS != m {
		rel := "other"
		switch c.TS - m {
		case -1:
			rel = "median-1"
		case 1:
			rel = "median+1"
		}
		return fmt.Sprintf("ts-not-median(%s,%s-count)", rel, par)
	}
	if c.TS <= 0 { // offsets are relative to the parent's timestamp
		if c.TS == 0 {
			return "ts-equals-parent"
		}
		return "ts-below-parent"
	}
	return ""
}

func c07Family(reason string) string {
	switch {
	case reason == "":
		return "valid"
	case strings.HasPrefix(reason, "version"):
		return "version"
	case strings.HasPrefix(reason, "height"):
		return "height"
	case strings.HasPrefix(reason, "prev"):
		return "prev"
	case strings.HasPrefix(reason, "votes"):
		return "votes"
	case strings.HasPrefix(reason, "ts-not-median"):
		return "ts-median"
	default:
		return "ts-parent"
	}
}

// c07VoteLists enumerates the vote-list family for a candidate at height H.
func c07VoteLists(n int, H int64, offs []int64) [][]blkfx.VoteSpec {
	if H == 1 {
		return [][]blkfx.VoteSpec{nil}
	}
	var out [][]blkfx.VoteSpec
	for mask := 0; mask < 1<<uint(n); mask++ {
		var signers []int
		for i := 0; i < n; i++ {
			if mask&(1<<uint(i)) != 0 {
				signers = append(signers, i)
			}
		}
		idx := make([]int, len(signers))
		for {
			var l []blkfx.VoteSpec
			for j, s := range signers {
				l = append(l, blkfx.VoteSpec{Signer: s, TS: offs[idx[j]]})
			}
			out = append(out, l)
			j := len(idx) - 1
			for ; j >= 0; j-- {
				idx[j]++
				if idx[j] < len(offs) {
					break
				}
				idx[j] = 0
			}
			if j < 0 {
				break
			}
		}
	}
	// duplicate signer: count reaches quorum, distinct signers do not (and do)
	for mask := 0; mask < 1<<uint(n); mask++ {
		var signers []int
		for i := 0; i < n; i++ {
			if mask&(1<<uint(i)) != 0 {
				signers = append(signers, i)
			}
		}
		if len(signers) < 2 {
			continue
		}
		l := []blkfx.VoteSpec{{Signer: signers[0], TS: 1}, {Signer: signers[0], TS: 2}}
		for _, s := range signers[1:] {
			l = append(l, blkfx.VoteSpec{Signer: s, TS: 1})
		}
		out = append(out, l)
	}
	// item order: every permutation of three validators with distinct timestamps
	for _, p := range [][3]int{{0, 1, 2}, {0, 2, 1}, {1, 0, 2}, {1, 2, 0}, {2, 0, 1}, {2, 1, 0}} {
		if 3*3 > 2*n { // only where three votes are a quorum
			out = append(out, []blkfx.VoteSpec{{Signer: p[0], TS: 1}, {Signer: p[1], TS: 2}, {Signer: p[2], TS: 10}})
		}
	}
	// a signer that is not a validator (wallet index n), alone short of / on top of a quorum
	for k := 0; k <= n; k++ {
		var l []blkfx.VoteSpec
		for s := 0; s < k; s++ {
			l = append(l, blkfx.VoteSpec{Signer: s, TS: 1})
		}
		l = append(l, blkfx.VoteSpec{Signer: n, TS: 1})
		out = append(out, l)
	}
	return out
}

func c07TSOptions(H int64, votes []blkfx.VoteSpec) []int64 {
	if H == 1 {
		return []int64{0, 1, c07T0}
	}
	var ts []int64
	for _, v := range votes {
		ts = append(ts, v.TS)
	}
	m := c07Median(ts)
	set := map[int64]bool{m - 1: true, m: true, m + 1: true, -1: true, 0: true, 1: true}
	var out []int64
	for k := range set {
		out = append(out, k)
	}
	sort.Slice(out, func(i, j int) bool { return out[i] < out[j] })
	return out
}

// c07Config is one sub-space: N validators, candidate heights 1..maxH.
// Part A: every vote list over offsA x block timestamp options, fields unmutated.
// Part B: every vote list over offsB x timestamp options x every non-identity
// combination of height delta / prev-id mutation / header version.
type c07Config struct {
	N     int      `json:"n"`
	MaxH  int64    `json:"max_height"`
	OffsA []int64  `json:"vote_ts_offsets_unmutated_fields"`
	OffsB []int64  `json:"vote_ts_offsets_mutated_fields"`
	DHs   []int64  `json:"height_deltas"`
	Vers  []int    `json:"versions"`
	Prevs []string `json:"prev_mutations"`
}

var c07Prevs = []string{"", "flip0", "flipL", "nil", "short", "grand"}

func c07Configs(thorough bool) []c07Config {
	if !thorough {
		return []c07Config{{N: 4, MaxH: 3, OffsA: []int64{-1, 0, 1, 10}, OffsB: []int64{1, 10},
			DHs: []int64{0, -1, 1}, Vers: []int{2, 1, 3}, Prevs: c07Prevs}}
	}
	dhs := []int64{0, -1, 1, 2}
	vers := []int{2, 1, 3}
	return []c07Config{
		{N: 4, MaxH: 3, OffsA: []int64{-1, 0, 1, 2, 10}, OffsB: []int64{-1, 0, 1, 10}, DHs: dhs, Vers: []int{2, 0, 1, 3}, Prevs: c07Prevs},
		{N: 5, MaxH: 3, OffsA: []int64{-1, 0, 1, 2, 10}, OffsB: []int64{0, 1, 10}, DHs: dhs, Vers: vers, Prevs: c07Prevs},
		{N: 6, MaxH: 2, OffsA: []int64{-1, 0, 1, 10}, OffsB: []int64{1, 10}, DHs: dhs, Vers: vers, Prevs: c07Prevs},
		{N: 7, MaxH: 2, OffsA: []int64{0, 1, 10}, OffsB: []int64{1}, DHs: dhs, Vers: vers, Prevs: c07Prevs},
	}
}

// c07Enumerate calls fn for every case of (cfg, H) in a fixed order.
func c07Enumerate(cfg c07Config, H int64, fn func(c c07Case)) {
	paths := []string{"bytes", "block"}
	for _, votes := range c07VoteLists(cfg.N, H, cfg.OffsA) {
		for _, ts := range c07TSOptions(H, votes) {
			for _, path := range paths {
				fn(c07Case{N: cfg.N, H: H, Votes: votes, TS: ts, Ver: 2, Path: path})
			}
		}
	}
	if len(cfg.OffsB) == 0 {
		return
	}
	for _, votes := range c07VoteLists(cfg.N, H, cfg.OffsB) {
		for _, ts := range c07TSOptions(H, votes) {
			for _, dh := range cfg.DHs {
				for _, prev := range cfg.Prevs {
					if prev == "grand" && H < 2 {
						continue
					}
					for _, ver := range cfg.Vers {
						if dh == 0 && prev == "" && ver == 2 {
							continue
						}
						for _, path := range paths {
							fn(c07Case{N: cfg.N, H: H, Votes: votes, TS: ts, DH: dh, Prev: prev, Ver: ver, Path: path})
						}
					}
				}
			}
		}
	}
}

// ---------------------------------------------------------------------------

type c07World struct {
	n      int
	scn    string
	fx     *blkfx.Fx
	P, I   *test.Node
	parent module.Block
	grand  []byte
	bpsID  *consensus.PartSetID
	baseH  block.V2HeaderFormat
	baseB  block.V2BodyFormat
	msgs   map[blkfx.VoteSpec]*consensus.VoteMessage
	chain  []string // ids of the canonical chain (determinism check)
}

func c07NewWorld(n int, scn string) *c07World {
	w := &c07World{n: n, scn: scn}
	w.fx = blkfx.New(n, 2)
	w.P, w.I = w.fx.Nodes[0], w.fx.Nodes[1]
	return w
}

func (w *c07World) close() { w.fx.Close() }

func (w *c07World) pTS() int64 { return w.parent.Timestamp() }

// canonical vote specs (offsets) for a candidate above height 1
func (w *c07World) canonVotes(H int64) []blkfx.VoteSpec {
	if H == 1 {
		return nil
	}
	var l []blkfx.VoteSpec
	for i := 0; i < w.n; i++ {
		l = append(l, blkfx.VoteSpec{Signer: i, TS: c07Step})
	}
	return l
}

func (w *c07World) votes(specs []blkfx.VoteSpec) (module.CommitVoteSet, error) {
	var msgs []*consensus.VoteMessage
	for _, s := range specs {
		abs := blkfx.VoteSpec{Signer: s.Signer, TS: w.pTS() + s.TS}
		m, ok := w.msgs[abs]
		if !ok {
			var err error
			m, err = w.fx.VoteMsg(w.parent, w.bpsID, 0, 0, nil, abs)
			if err != nil {
				return nil, err
			}
			w.msgs[abs] = m
		}
		msgs = append(msgs, m)
	}
	return blkfx.VoteList(nil, msgs)
}

// prepare proposes the next valid candidate on the producer and keeps its
// formats as the base for all mutants of this height.
func (w *c07World) prepare() error {
	last, err := w.I.BM.GetLastBlock()
	if err != nil {
		return err
	}
	plast, err := w.P.BM.GetLastBlock()
	if err != nil {
		return err
	}
	if !bytes.Equal(last.ID(), plast.ID()) {
		return fmt.Errorf("producer and importer diverged")
	}
	w.grand = nil
	if w.parent != nil {
		w.grand = w.parent.ID()
	}
	w.parent = last
	w.bpsID = blkfx.PartSetID(last)
	w.msgs = map[blkfx.VoteSpec]*consensus.VoteMessage{}
	H := last.Height() + 1
	if H == 1 && (w.scn == "nextver3" || w.scn == "nextver2") {
		v := int32(3)
		if w.scn == "nextver2" {
			v = 2
		}
		tx := test.NewTx().SetTimestamp(c07T0).SetNextBlockVersion(&v)
		if _, err := w.P.SM.SendTransaction(nil, 0, tx.String()); err != nil {
			return err
		}
	}
	cv, err := w.votes(w.canonVotes(H))
	if err != nil {
		return err
	}
	bc, err := blkfx.Propose(w.P.BM, last.ID(), cv)
	if err != nil {
		return fmt.Errorf("propose: %v", err)
	}
	enc := blkfx.Marshal(bc)
	bc.Dispose()
	r := bytes.NewReader(enc)
	w.baseH, w.baseB = block.V2HeaderFormat{}, block.V2BodyFormat{}
	if err := codec.BC.Unmarshal(r, &w.baseH); err != nil {
		return err
	}
	if err := codec.BC.Unmarshal(r, &w.baseB); err != nil {
		return err
	}
	return nil
}

func (w *c07World) canonCase() c07Case {
	H := w.parent.Height() + 1
	c := c07Case{N: w.n, H: H, Votes: w.canonVotes(H), Ver: 2, Path: "bytes", Scn: w.scn}
	if H == 1 {
		c.TS = c07T0
	} else {
		c.TS = c07Step
	}
	return c
}

// advance imports the canonical block of this height into both nodes and
// finalizes it.
func (w *c07World) advance() error {
	enc, _, err := w.encode(w.canonCase())
	if err != nil {
		return err
	}
	var id []byte
	for _, nd := range []*test.Node{w.P, w.I} {
		bc, _, err := blkfx.ImportBytes(nd.BM, enc, 0)
		if err != nil {
			return fmt.Errorf("canonical block refused at height %d: %v", w.parent.Height()+1, err)
		}
		if err := nd.BM.Finalize(bc); err != nil {
			return err
		}
		id = bc.ID()
		if err := blkfx.WaitTxLocators(nd.Chain.Database(), blkfx.TxIDs(bc.NormalTransactions())); err != nil {
			return err
		}
		bc.Dispose()
	}
	w.chain = append(w.chain, fmt.Sprintf("%x", id))
	return nil
}

type c07VerBlock struct {
	base.BlockData
	v int
}

func (b c07VerBlock) Version() int { return b.v }

// encode builds the mutant's encoding; encV2 is the same with version 2 in
// the header (used by the ImportBlock path, which needs a decodable block).
func (w *c07World) encode(c c07Case) (enc []byte, encV2 []byte, err error) {
	hf, bf := w.baseH, w.baseB
	vs, err := w.votes(c.Votes)
	if err != nil {
		return nil, nil, err
	}
	bf.Votes = vs.Bytes()
	hf.VotesHash = vs.Hash()
	hf.Timestamp = w.pTS() + c.TS
	hf.Height = w.parent.Height() + 1 + c.DH
	pid := append([]byte(nil), w.parent.ID()...)
	switch c.Prev {
	case "":
	case "flip0":
		pid[0] ^= 1
	case "flipL":
		pid[len(pid)-1] ^= 1
	case "nil":
		pid = nil
	case "short":
		pid = pid[:len(pid)-1]
	case "grand":
		pid = append([]byte(nil), w.grand...)
	default:
		return nil, nil, fmt.Errorf("unknown prev mutation %q", c.Prev)
	}
	hf.PrevID = pid
	hf.Version = 2
	encV2 = blkfx.Encode(&hf, &bf)
	hf.Version = c.Ver
	enc = blkfx.Encode(&hf, &bf)
	return enc, encV2, nil
}

type c07Outcome struct {
	accepted bool
	stage    string
	errText  string
	harness  string // non-empty: harness problem, no verdict
}

// c07ErrClass normalises an error text: runs of hex digits of length >= 8 and
// decimal numbers become '#'; first line, at most 70 characters.
func c07ErrClass(s string) string {
	var out []byte
	isHex := func(c byte) bool {
		return c >= '0' && c <= '9' || c >= 'a' && c <= 'f' || c >= 'A' && c <= 'F' || c == 'x'
	}
	for i := 0; i < len(s) && len(out) < 70; {
		c := s[i]
		if c == '\n' {
			break
		}
		if isHex(c) {
			j, digits := i, 0
			for j < len(s) && isHex(s[j]) {
				if s[j] >= '0' && s[j] <= '9' {
					digits++
				}
				j++
			}
			if j-i >= 8 || digits == j-i {
				out = append(out, '#')
			} else {
				out = append(out, s[i:j]...)
			}
			i = j
			continue
		}
		out = append(out, c)
		i++
	}
	return string(out)
}

// run imports one mutant into the importer node and reports what happened.
func (w *c07World) run(c c07Case) c07Outcome {
	enc, encV2, err := w.encode(c)
	if err != nil {
		return c07Outcome{harness: "encode: " + err.Error()}
	}
	var bc module.BlockCandidate
	var st blkfx.Stage
	wantID := []byte(nil)
	switch c.Path {
	case "bytes":
		bc, st, err = blkfx.ImportBytes(w.I.BM, enc, 0)
	case "block":
		bd, derr := w.I.BM.NewBlockDataFromReader(bytes.NewReader(encV2))
		if derr != nil {
			return c07Outcome{accepted: false, stage: "rejected-decode", errText: derr.Error()}
		}
		wantID = bd.ID()
		if c.Ver != 2 {
			bd = c07VerBlock{bd.(base.BlockData), c.Ver}
		}
		bc, st, err = blkfx.ImportBlock(w.I.BM, bd, 0)
	default:
		return c07Outcome{harness: "unknown path " + c.Path}
	}
	if err == blkfx.ErrHang {
		return c07Outcome{harness: "import callback did not arrive"}
	}
	if err != nil {
		return c07Outcome{accepted: false, stage: st.String(), errText: err.Error()}
	}
	out := c07Outcome{accepted: true, stage: st.String()}
	// an accepted candidate must be the block that was submitted
	if bc.Height() != w.parent.Height()+1+c.DH || bc.Timestamp() != w.pTS()+c.TS ||
		(wantID != nil && !bytes.Equal(bc.ID(), wantID)) {
		out.harness = "accepted candidate differs from the submitted block"
	}
	bc.Dispose()
	return out
}

type c07Stats struct {
	mu       sync.Mutex
	accepted map[string]int64 // by oracle family
	rejected map[string]int64
	errs     map[string]int64
	reasons  map[string]int64
	samples  map[string]c07Sample // one executed case per oracle family (the first in enumeration order)
}

type c07Sample struct {
	order int64
	v     interface{}
}

func (s *c07Stats) merge(o *c07Stats) {
	s.mu.Lock()
	defer s.mu.Unlock()
	for k, v := range o.accepted {
		s.accepted[k] += v
	}
	for k, v := range o.rejected {
		s.rejected[k] += v
	}
	for k, v := range o.errs {
		s.errs[k] += v
	}
	for k, v := range o.reasons {
		s.reasons[k] += v
	}
	for k, v := range o.samples {
		if old, ok := s.samples[k]; !ok || v.order < old.order {
			s.samples[k] = v
		}
	}
}

func c07NewStats() *c07Stats {
	return &c07Stats{accepted: map[string]int64{}, rejected: map[string]int64{}, errs: map[string]int64{}, reasons: map[string]int64{}, samples: map[string]c07Sample{}}
}

// check runs a case, compares with the oracle and reports.
func (w *c07World) check(r *ev.Run, c c07Case, st *c07Stats, order int64) {
	c.Scn = w.scn
	reason := c07Reason(c)
	o := w.run(c)
	r.Eval(1)
	if o.harness != "" {
		r.Sanity(false, "C07 harness: %s case=%s", o.harness, c.key())
		return
	}
	fam := c07Family(reason)
	if o.accepted {
		st.accepted[fam]++
	} else {
		st.rejected[fam]++
		st.errs[c07ErrClass(o.errText)]++
	}
	st.reasons[reason]++
	if _, ok := st.samples[fam]; !ok && (fam == "valid" || fam == "votes" || c.H > 1 && len(c.Votes) > 2) {
		st.samples[fam] = c07Sample{order, map[string]interface{}{"case": c, "parent_ts": w.pTS(), "oracle": reason, "accepted": o.accepted, "stage": o.stage, "error": c07ErrClass(o.errText)}}
	}
	if o.accepted == (reason == "") {
		return
	}
	// re-execute before reporting: a verdict that does not reproduce is a harness problem
	o2 := w.run(c)
	if o2.harness != "" || o2.accepted != o.accepted {
		r.Sanity(false, "C07 nondeterministic import verdict for case=%s (%v then %v %s)", c.key(), o.accepted, o2.accepted, o2.harness)
		return
	}
	if o.accepted {
		r.Violation("accepted-invalid:"+reason+":"+c.Path,
			fmt.Sprintf("import accepted a block that violates %q: n=%d height=%d parentTS=%d case=%s", reason, c.N, c.H, w.pTS(), c.key()), c)
	} else {
		r.Violation("rejected-valid:"+c07ErrClass(o.errText)+":"+c.Path,
			fmt.Sprintf("import refused a valid block (%s: %s): n=%d height=%d parentTS=%d case=%s", o.stage, o.errText, c.N, c.H, w.pTS(), c.key()), c)
	}
}

func TestVerifC07(t *testing.T) {
	r := ev.Start(t, "C07", "exploration")
	r.SetBudget(75*time.Second, 13*time.Minute)
	r.Rule("for N validators and candidate height H: every subset of the validators x every vote-timestamp assignment over the offset alphabet (plus duplicate-signer and non-validator lists) x block timestamp in {median-1,median,median+1,parent-1,parent,parent+1} x import path, fields unmutated (part A); and over a smaller timestamp alphabet the same x every non-identity combination of height delta x prev-id mutation x header version (single, pairwise and triple field mutations, part B) x import path {Import(bytes), ImportBlock(data)}; a case is non-trivial when it is a distinct mutant actually submitted to the real block manager")
	r.Assume("median of an even number of vote timestamps = mean of the two middle values rounded down (goloop/ICON definition); the statement does not fix the rounding")
	r.Assume("fixture: real block.Manager and service transitions of test.Node (basic platform, MapDB), fixed secp256k1 keys, no BTP networks; network, consensus engine and wall clock are not involved")

	if ev.Replaying() {
		var c c07Case
		ev.ReplayCase(&c)
		w := c07NewWorld(c.N, c.Scn)
		defer w.close()
		for {
			if err := w.prepare(); err != nil {
				t.Fatalf("replay fixture: %v", err)
			}
			if w.parent.Height()+1 == c.H {
				break
			}
			if err := w.advance(); err != nil {
				t.Fatalf("replay fixture: %v", err)
			}
		}
		st := c07NewStats()
		w.check(r, c, st, 0)
		fmt.Printf("REPLAY C07 reason=%q accepted=%v rejected=%v errs=%v\n", c07Reason(c), st.accepted, st.rejected, st.errs)
		r.Finish(false)
		return
	}

	cfgs := c07Configs(r.Thorough())
	workers := runtime.NumCPU()
	if workers > 16 {
		workers = 16
	}
	total := c07NewStats()
	var chainMu sync.Mutex
	chains := map[int][]string{}
	var incomplete atomic.Bool
	casesPer := map[string]int{}
	var completed []string

	for _, cfg := range cfgs {
		n := cfg.N
		// count cases (also fixes the stated space)
		for H := int64(1); H <= cfg.MaxH; H++ {
			cnt := 0
			c07Enumerate(cfg, H, func(c c07Case) { cnt++ })
			casesPer[fmt.Sprintf("n=%d,h=%d", n, H)] = cnt
		}
		ev.Par(workers, workers, func(wk int) {
			w := c07NewWorld(n, "")
			defer w.close()
			st := c07NewStats()
			defer total.merge(st)
			for H := int64(1); H <= cfg.MaxH; H++ {
				if err := w.prepare(); err != nil {
					r.Sanity(false, "C07 fixture n=%d h=%d: %v", n, H, err)
					incomplete.Store(true)
					return
				}
				i, mine := 0, 0
				abort := false
				c07Enumerate(cfg, H, func(c c07Case) {
					i++
					if abort || (i-1)%workers != wk {
						return
					}
					mine++
					if mine%128 == 0 && (incomplete.Load() || r.Expired()) {
						abort = true
						return
					}
					r.Nontrivial(c.key())
					w.check(r, c, st, H<<40|int64(i))
				})
				if abort {
					incomplete.Store(true)
					return
				}
				if err := w.advance(); err != nil {
					r.Sanity(false, "C07 fixture n=%d h=%d: %v", n, H, err)
					incomplete.Store(true)
					return
				}
			}
			chainMu.Lock()
			if prev, ok := chains[n]; ok {
				if strings.Join(prev, ",") != strings.Join(w.chain, ",") {
					r.Sanity(false, "C07 fixture chains differ between workers (nondeterministic fixture)")
				}
			} else {
				chains[n] = w.chain
			}
			chainMu.Unlock()
			if errs := w.fx.T.Errs(); len(errs) > 0 {
				r.Sanity(false, "C07 fixture helper assertion: %s", errs[0])
			}
		})
		if incomplete.Load() {
			break
		}
		completed = append(completed, fmt.Sprintf("n=%d heights 1..%d", n, cfg.MaxH))
	}

	// scenario: the parent's state requires block version 3 (resp. 2, control)
	for _, scn := range []string{"nextver3", "nextver2"} {
		if incomplete.Load() {
			break
		}
		func() {
			w := c07NewWorld(4, scn)
			defer w.close()
			st := c07NewStats()
			defer total.merge(st)
			for H := int64(1); H <= 3; H++ {
				if err := w.prepare(); err != nil {
					r.Sanity(false, "C07 fixture %s h=%d: %v", scn, H, err)
					return
				}
				if H == 3 {
					// parent (block 2) carries nextBlockVersion in its result
					c07Enumerate(c07Config{N: 4, OffsA: []int64{1, 10}}, H, func(c c07Case) {
						c.Scn = scn
						r.Nontrivial(c.key())
						w.check(r, c, st, 1<<60)
					})
					return
				}
				if err := w.advance(); err != nil {
					r.Sanity(false, "C07 fixture %s h=%d: %v", scn, H, err)
					return
				}
			}
		}()
	}

	// vacuity guards
	for _, fam := range []string{"version", "height", "prev", "votes", "ts-median", "ts-parent"} {
		r.Sanity(total.rejected[fam] > 0, "C07 vacuity: no rejected case of family %s", fam)
	}
	r.Sanity(total.accepted["valid"] > 0, "C07 vacuity: no valid case was accepted")
	complete := !incomplete.Load()
	r.Sanity(total.reasons["version-required-3"] > 0 || !complete, "C07 vacuity: version-required scenario did not run")
	r.Set("accepted_by_family", total.accepted)
	r.Set("rejected_by_family", total.rejected)
	r.Set("distinct_rejection_messages", len(total.errs))
	r.Set("rejection_messages", total.errs)
	r.Set("cases_per_height", casesPer)
	r.Set("configs", cfgs)
	r.Set("configs_completed", completed)
	r.Set("workers", workers)
	r.Set("distinct_oracle_reasons", len(total.reasons))
	for _, fam := range []string{"valid", "ts-median", "ts-parent", "votes", "height", "prev", "version"} {
		if sm, ok := total.samples[fam]; ok {
			r.Sample(sm.v)
		}
	}
	r.Finish(complete)
}
