//go:build verif

package txresult

import (
	"bytes"
	"encoding/json"
	"fmt"
	"math/big"
	"reflect"
	"sort"
	"strconv"
	"strings"
	"sync/atomic"

	"github.com/icon-project/goloop/common/codec"
	"github.com/icon-project/goloop/verifshim/ev"
	"github.com/icon-project/goloop/verifshim/opseq"
)

// ---------------------------------------------------------------------------
// object-history family: ONE LogsBloom object goes through a sequence of
// operations (adds, merges, clears / replacements through every Set* method
// promoted from the embedded big.Int, encode->decode into itself, queries).
// Model: the set of items (address / indexed value at a position / raw bit)
// the history implies. Oracle after the sequence (all shorter sequences are
// enumerated too, so this is "after every step"): every item of the model is
// reported (no false negative) and the object equals, bit for bit, a FRESH
// bloom built from the model's items - also after compress/decompress and
// after being merged into a block bloom.
// ---------------------------------------------------------------------------

type c26Item struct {
	key string
	add func(lb *LogsBloom)
}

func c26AddrItem(i int) c26Item {
	return c26Item{fmt.Sprintf("addr/%d", i), func(lb *LogsBloom) { lb.AddAddressOfLog(c26Addrs[i]) }}
}

func c26IdxItem(pos int, v []byte) c26Item {
	return c26Item{fmt.Sprintf("idx/%d/%x", pos, v), func(lb *LogsBloom) { lb.AddIndexedOfLog(pos, v) }}
}

func c26BitItem(bit int) c26Item {
	return c26Item{fmt.Sprintf("bit/%d", bit), func(lb *LogsBloom) { lb.SetBit(&lb.Int, bit, 1) }}
}

type c26Model map[string]c26Item

func (m c26Model) with(items ...c26Item) c26Model {
	for _, it := range items {
		m[it.key] = it
	}
	return m
}

func c26ModelOf(items ...c26Item) c26Model { return c26Model{}.with(items...) }

func (m c26Model) clone() c26Model {
	o := c26Model{}
	for k, v := range m {
		o[k] = v
	}
	return o
}

func (m c26Model) keys() []string {
	ks := make([]string, 0, len(m))
	for k := range m {
		ks = append(ks, k)
	}
	sort.Strings(ks)
	return ks
}

// fresh builds a new bloom object holding exactly the model's items.
func (m c26Model) fresh() *LogsBloom {
	lb := NewLogsBloom(nil)
	for _, k := range m.keys() {
		one := NewLogsBloom(nil) // one new object per item, merged: no object ever sees two adds
		m[k].add(one)
		lb.Merge(one)
	}
	return lb
}

var c26Topics = [][][]byte{
	{[]byte("Transfer(Address,Address,int)"), c26Vals[1]},
	{[]byte("Approval(Address,int)"), nil, {0x01, 0x00}},
}

func c26LogItems(a, j int) []c26Item {
	items := []c26Item{c26AddrItem(a)}
	for p, v := range c26Topics[j] {
		if v != nil {
			items = append(items, c26IdxItem(p, v))
		}
	}
	return items
}

// c26HistOp is one operation on the object x; it returns the new model.
type c26HistOp struct {
	name    string
	replace bool   // clears or replaces the content
	setter  string // name of the big.Int Set* method it exercises ("" = none)
	do      func(x *LogsBloom, m c26Model) c26Model
}

func c26HistOps() []c26HistOp {
	// two prebuilt other blooms with known items
	o1Items := c26LogItems(0, 1)
	o2Items := append(c26LogItems(1, 0), c26IdxItem(2, []byte{0x7f}))
	mk := func(items []c26Item) *LogsBloom { return c26ModelOf(items...).fresh() }
	var ops []c26HistOp
	for a := 0; a < 2; a++ {
		for j := 0; j < 2; j++ {
			a, j := a, j
			ops = append(ops, c26HistOp{name: fmt.Sprintf("AddLog(a%d,topics%d)", a, j), do: func(x *LogsBloom, m c26Model) c26Model {
				x.AddLog(c26Addrs[a], c26Topics[j])
				return m.with(c26LogItems(a, j)...)
			}})
		}
		ops = append(ops, c26HistOp{name: fmt.Sprintf("AddAddressOfLog(a%d)", a), do: func(x *LogsBloom, m c26Model) c26Model {
			x.AddAddressOfLog(c26Addrs[a])
			return m.with(c26AddrItem(a))
		}})
	}
	ops = append(ops,
		c26HistOp{name: "AddIndexedOfLog(1,v)", do: func(x *LogsBloom, m c26Model) c26Model {
			x.AddIndexedOfLog(1, c26Vals[1])
			return m.with(c26IdxItem(1, c26Vals[1]))
		}},
		c26HistOp{name: "Merge(other1)", do: func(x *LogsBloom, m c26Model) c26Model {
			x.Merge(mk(o1Items))
			return m.with(o1Items...)
		}},
		c26HistOp{name: "Merge(foreign other2)", do: func(x *LogsBloom, m c26Model) c26Model {
			x.Merge(c26Foreign{mk(o2Items).Bytes()})
			return m.with(o2Items...)
		}},
		c26HistOp{name: "SetInt64(0)", replace: true, setter: "SetInt64", do: func(x *LogsBloom, m c26Model) c26Model {
			x.SetInt64(0)
			return c26Model{}
		}},
		c26HistOp{name: "SetUint64(0)", replace: true, setter: "SetUint64", do: func(x *LogsBloom, m c26Model) c26Model {
			x.SetUint64(0)
			return c26Model{}
		}},
		c26HistOp{name: "SetBytes(nil)", replace: true, setter: "SetBytes", do: func(x *LogsBloom, m c26Model) c26Model {
			x.SetBytes(nil)
			return c26Model{}
		}},
		c26HistOp{name: "SetBytes(other1.Bytes())", replace: true, setter: "SetBytes", do: func(x *LogsBloom, m c26Model) c26Model {
			x.SetBytes(mk(o1Items).Bytes())
			return c26ModelOf(o1Items...)
		}},
		c26HistOp{name: "SetBytes(own saved Bytes())", replace: true, setter: "SetBytes", do: func(x *LogsBloom, m c26Model) c26Model {
			saved := append([]byte{}, x.Bytes()...)
			x.SetInt64(0)
			x.SetBytes(saved)
			return m
		}},
		c26HistOp{name: "SetCompressedBytes(other2)", replace: true, do: func(x *LogsBloom, m c26Model) c26Model {
			x.SetCompressedBytes(mk(o2Items).CompressedBytes())
			return c26ModelOf(o2Items...)
		}},
		c26HistOp{name: "Set(other1)", replace: true, setter: "Set", do: func(x *LogsBloom, m c26Model) c26Model {
			x.Set(&mk(o1Items).Int)
			return c26ModelOf(o1Items...)
		}},
		c26HistOp{name: "SetBits(other2.Bits())", replace: true, setter: "SetBits", do: func(x *LogsBloom, m c26Model) c26Model {
			x.SetBits(append([]big.Word{}, mk(o2Items).Bits()...))
			return c26ModelOf(o2Items...)
		}},
		c26HistOp{name: "SetString(hex of other1)", replace: true, setter: "SetString", do: func(x *LogsBloom, m c26Model) c26Model {
			if _, ok := x.SetString(mk(o1Items).Text(16), 16); !ok {
				panic("SetString")
			}
			return c26ModelOf(o1Items...)
		}},
		c26HistOp{name: "SetBit(2040,1)", setter: "SetBit", do: func(x *LogsBloom, m c26Model) c26Model {
			x.SetBit(&x.Int, 2040, 1)
			return m.with(c26BitItem(2040))
		}},
		c26HistOp{name: "queries", do: func(x *LogsBloom, m c26Model) c26Model {
			_ = x.CompressedBytes()
			_ = x.Bytes()
			_ = x.LogBytes()
			_ = x.String()
			_ = x.Contain(mk(o1Items))
			_ = x.Equal(mk(o2Items))
			return m
		}},
		c26HistOp{name: "JSON encode->decode into itself", do: func(x *LogsBloom, m c26Model) c26Model {
			js, err := json.Marshal(x)
			if err != nil {
				panic(err)
			}
			if err := json.Unmarshal(js, x); err != nil {
				panic(err)
			}
			return m
		}},
		c26HistOp{name: "RLP encode->decode into itself", do: func(x *LogsBloom, m c26Model) c26Model {
			bs, err := codec.BC.MarshalToBytes(x)
			if err != nil {
				panic(err)
			}
			if _, err := codec.BC.UnmarshalFromBytes(bs, x); err != nil {
				panic(err)
			}
			return m
		}},
		c26HistOp{name: "JSON decode of other1", replace: true, do: func(x *LogsBloom, m c26Model) c26Model {
			js, _ := json.Marshal(mk(o1Items))
			if err := json.Unmarshal(js, x); err != nil {
				panic(err)
			}
			return c26ModelOf(o1Items...)
		}},
		c26HistOp{name: "RLP decode of other2", replace: true, do: func(x *LogsBloom, m c26Model) c26Model {
			bs, _ := codec.BC.MarshalToBytes(mk(o2Items))
			if _, err := codec.BC.UnmarshalFromBytes(bs, x); err != nil {
				panic(err)
			}
			return c26ModelOf(o2Items...)
		}},
	)
	return ops
}

// c26PromotedSetters: the Set* methods LogsBloom inherits from *big.Int
// (found by reflection, so that a new one does not go unnoticed).
func c26PromotedSetters() []string {
	var out []string
	bt := reflect.TypeOf((*big.Int)(nil))
	lt := reflect.TypeOf((*LogsBloom)(nil))
	for i := 0; i < bt.NumMethod(); i++ {
		name := bt.Method(i).Name
		if !strings.HasPrefix(name, "Set") {
			continue
		}
		if _, ok := lt.MethodByName(name); ok {
			out = append(out, name)
		}
	}
	sort.Strings(out)
	return out
}

func (c *c26Ctx) historyCase(ops []c26HistOp, seq []int) {
	names := make([]string, len(seq))
	strs := make([]string, len(seq))
	for i, o := range seq {
		names[i] = ops[o].name
		strs[i] = strconv.Itoa(o)
	}
	cs := C26Case{Kind: "history", Note: strings.Join(strs, ",")}
	lastReplace := "no-clear-or-replace"
	x := NewLogsBloom(nil)
	m := c26Model{}
	if p := ev.Catch(func() {
		for i, o := range seq {
			m = ops[o].do(x, m.clone())
			if ops[o].replace && i < len(seq)-1 {
				lastReplace = "after-" + ops[o].name
			}
		}
	}); p != "" {
		c.r.Violation("object-history:panic:"+names[len(names)-1], fmt.Sprintf("history %v: %s", names, p), cs)
		return
	}
	ctxSig := "last-op=" + names[len(names)-1] + ":" + lastReplace
	want := m.fresh()
	report := func(kind string, lb *LogsBloom) {
		var missing []string
		for _, k := range m.keys() {
			q := NewLogsBloom(nil)
			m[k].add(q)
			atomic.AddInt64(&c.contains, 1)
			if !lb.Contain(q) {
				missing = append(missing, k)
			}
		}
		if len(missing) > 0 {
			c.r.Violation("object-history:false-negative:"+kind+":"+ctxSig, fmt.Sprintf("one bloom object, history %v: %s does not report %v (model items %v)", names, kind, missing, m.keys()), cs)
		} else if !bytes.Equal(lb.Bytes(), want.Bytes()) {
			c.r.Violation("object-history:differs-from-fresh-object:"+kind+":"+ctxSig, fmt.Sprintf("one bloom object, history %v: %s = %x, a fresh object with the items %v = %x", names, kind, lb.Bytes(), m.keys(), want.Bytes()), cs)
		}
	}
	report("object", x)
	report("object-after-compress-decompress", NewLogsBloomFromCompressed(x.CompressedBytes()))
	block := NewLogsBloom(nil)
	block.Merge(x)
	report("block-merged-from-object", block)
	atomic.AddInt64(&c.histories, 1)
}

func (c *c26Ctx) historyFamily(maxLen int, expired func() bool) (skipped bool) {
	ops := c26HistOps()
	covered := map[string]bool{}
	for _, o := range ops {
		if o.setter != "" {
			covered[o.setter] = true
		}
	}
	for _, s := range c26PromotedSetters() {
		c.r.Sanity(covered[s], "promoted big.Int method %s is not exercised by the object-history alphabet", s)
	}
	c.r.Set("history_ops", len(ops))
	c.r.Set("history_promoted_setters", c26PromotedSetters())
	var seqs [][]int
	opseq.Sequences(len(ops), 1, maxLen, func(seq []int) bool {
		seqs = append(seqs, append([]int{}, seq...))
		return true
	})
	var skip int64
	ev.Par(len(seqs), 16, func(i int) {
		if i%256 == 0 && expired() {
			atomic.StoreInt64(&skip, 1)
		}
		if atomic.LoadInt64(&skip) > 0 {
			return
		}
		c.historyCase(ops, seqs[i])
		c.r.Nontrivial("history/" + fmt.Sprint(seqs[i]))
		c.r.Eval(1)
	})
	return skip > 0
}
