//go:build verif

package txresult

import (
	"bytes"
	"encoding/json"
	"fmt"
	"math/big"
	"sort"
	"strconv"
	"strings"
	"sync"
	"sync/atomic"
	"testing"

	"github.com/icon-project/goloop/common"
	"github.com/icon-project/goloop/common/codec"
	"github.com/icon-project/goloop/common/db"
	"github.com/icon-project/goloop/module"
	"github.com/icon-project/goloop/verifshim/ev"
	"github.com/icon-project/goloop/verifshim/opseq"
)

// ---------------------------------------------------------------------------
// universe
// ---------------------------------------------------------------------------

var c26Addrs = []*common.Address{
	common.MustNewAddressFromString("hx0000000000000000000000000000000000000001"),
	common.MustNewAddressFromString("cx0000000000000000000000000000000000000002"),
	common.MustNewAddressFromString("cx0000000000000000000000000000000000000003"),
}

// indexed-value alphabet; index 3 is nil ("no value at this position"),
// index 4 (used for single logs and pairs only) is an empty non-nil value.
var c26Vals = [][]byte{
	[]byte("Transfer(Address,Address,int)"),
	c26Addrs[1].Bytes(),
	{0x00},
	nil,
	{},
}

const c26Nil = 3

// C26Log is one event log of the universe: emitting address + indexed list.
type C26Log struct {
	Addr int   // index into c26Addrs
	Vals []int // indices into c26Vals (3 = nil)
}

func (l C26Log) indexed() [][]byte {
	out := make([][]byte, len(l.Vals))
	for i, v := range l.Vals {
		out[i] = c26Vals[v]
	}
	return out
}

func (l C26Log) String() string {
	return fmt.Sprintf("%s%v", c26Addrs[l.Addr].String()[:2]+c26Addrs[l.Addr].String()[40:], l.Vals)
}

// c26Universe: all logs with 1..3 indexed entries over the first nv values.
func c26Universe(addrs, nv int) []C26Log {
	var out []C26Log
	for a := 0; a < addrs; a++ {
		opseq.Sequences(nv, 1, 3, func(seq []int) bool {
			out = append(out, C26Log{Addr: a, Vals: append([]int{}, seq...)})
			return true
		})
	}
	return out
}

// c26Foreign is a module.LogsBloom that is NOT *LogsBloom (exercises the
// conversion branches of Contain and Merge).
type c26Foreign struct{ bs []byte }

func (f c26Foreign) String() string                  { return fmt.Sprintf("%x", f.bs) }
func (f c26Foreign) Bytes() []byte                   { return f.bs }
func (f c26Foreign) CompressedBytes() []byte         { return common.Compress(f.bs) }
func (f c26Foreign) LogBytes() []byte                { return NewLogsBloom(f.bs).LogBytes() }
func (f c26Foreign) Contain(module.LogsBloom) bool   { panic("not used") }
func (f c26Foreign) Merge(module.LogsBloom)          { panic("not used") }
func (f c26Foreign) Equal(lb2 module.LogsBloom) bool { return bytes.Equal(f.bs, lb2.Bytes()) }

// c26Query is one thing a client may ask a bloom about a log.
type c26Query struct {
	what    string
	lb      *LogsBloom
	foreign c26Foreign
}

// queries of a log: its emitting address, every non-nil indexed value at its
// position, and the conjunction (the way server.EventFilter.Compile builds it).
func c26Queries(l C26Log) []c26Query {
	var qs []c26Query
	qa := NewLogsBloom(nil)
	qa.AddAddressOfLog(c26Addrs[l.Addr])
	qs = append(qs, c26Query{what: "address", lb: qa})
	all := NewLogsBloom(nil)
	all.AddAddressOfLog(c26Addrs[l.Addr])
	for i, v := range l.Vals {
		if v == c26Nil {
			continue
		}
		q := NewLogsBloom(nil)
		q.AddIndexedOfLog(i, c26Vals[v])
		qs = append(qs, c26Query{what: fmt.Sprintf("indexed[%d]", i), lb: q})
		all.AddIndexedOfLog(i, c26Vals[v])
	}
	qs = append(qs, c26Query{what: "address+all-indexed", lb: all})
	for i := range qs {
		qs[i].foreign = c26Foreign{qs[i].lb.Bytes()}
	}
	return qs
}

type c26Ctx struct {
	r        *ev.Run
	uni      []C26Log
	single   []*LogsBloom // bloom of a receipt holding just log i (built by the real AddLog)
	queries  [][]c26Query
	contains int64
	absent   int64 // queries for logs outside the set that were answered "absent" (vacuity)
	present  int64 // ... answered "possibly present" (false positives; allowed)
	variants int64
	rtrips   int64
	rcpt     int64
	rcptJSON int64
	rcptSkip int64
	// density / pattern families
	dense     int64
	patterns  int64
	maxComp   int64
	expanding int64 // blooms whose compressed form is LONGER than 256 bytes
	bands     [8]int64
	histories int64
}

// C26Case is the replayable form of one case.
type C26Case struct {
	Kind string   // "set", "receipt", "bits"
	Logs []C26Log `json:",omitempty"`
	V    int      `json:",omitempty"`
	Note string   `json:",omitempty"`
}

func (c *c26Ctx) expectContain(cs C26Case, where string, lb module.LogsBloom, l C26Log, qs []c26Query) {
	for _, q := range qs {
		atomic.AddInt64(&c.contains, 1)
		var ok bool
		if p := ev.Catch(func() { ok = lb.Contain(q.lb) }); p != "" {
			c.r.Violation("Contain-panic:"+where, fmt.Sprintf("%s: Contain(%s of %s) panicked: %s; logs=%v", where, q.what, l, p, cs.Logs), cs)
			continue
		}
		if !ok {
			c.r.Violation("false-negative:"+where+":"+c26What(q.what), fmt.Sprintf("%s bloom %x does not contain %s of log %s (query %x); logs=%v", where, lb.Bytes(), q.what, l, q.lb.Bytes(), cs.Logs), cs)
		}
		// the same question asked through a foreign module.LogsBloom implementation
		if lb2, isReal := lb.(*LogsBloom); isReal {
			if !lb2.Contain(q.foreign) {
				c.r.Violation("false-negative:"+where+":foreign-query", fmt.Sprintf("%s bloom does not contain foreign-typed %s of log %s; logs=%v", where, q.what, l, cs.Logs), cs)
			}
		}
	}
}

func c26What(w string) string {
	if len(w) > 7 && w[:7] == "indexed" {
		return "indexed"
	}
	return w
}

// roundTripsQuiet returns the bloom after each storage / transport form; it
// panics if a form cannot be produced or read back.
func (c *c26Ctx) roundTripsQuiet(lb *LogsBloom) map[string]*LogsBloom {
	out := map[string]*LogsBloom{}
	out["compressed"] = NewLogsBloomFromCompressed(lb.CompressedBytes())
	out["bytes"] = NewLogsBloom(lb.Bytes())
	out["logbytes"] = NewLogsBloom(lb.LogBytes())
	bs, err := codec.BC.MarshalToBytes(lb)
	if err != nil {
		panic(err)
	}
	r := new(LogsBloom)
	if _, err := codec.BC.UnmarshalFromBytes(bs, r); err != nil {
		panic(err)
	}
	out["rlp"] = r
	js, err := json.Marshal(lb)
	if err != nil {
		panic(err)
	}
	j := new(LogsBloom)
	if err := json.Unmarshal(js, j); err != nil {
		panic(err)
	}
	out["json"] = j
	m := NewLogsBloom(nil)
	m.Merge(c26Foreign{lb.Bytes()})
	out["merged-from-foreign"] = m
	return out
}

// roundTrips returns the bloom after each storage / transport form.
func (c *c26Ctx) roundTrips(cs C26Case, lb *LogsBloom) map[string]*LogsBloom {
	var out map[string]*LogsBloom
	if p := ev.Catch(func() { out = c.roundTripsQuiet(lb) }); p != "" {
		c.r.Violation("roundtrip-fails", fmt.Sprintf("bloom %x: %s; logs=%v", lb.Bytes(), p, cs.Logs), cs)
		return nil
	}
	atomic.AddInt64(&c.rtrips, int64(len(out)))
	for k, v := range out {
		if !v.Equal(lb) {
			c.r.Violation("roundtrip-changes-bloom:"+k, fmt.Sprintf("bloom %x became %x through %s; logs=%v", lb.Bytes(), v.Bytes(), k, cs.Logs), cs)
		}
	}
	return out
}

// checkSet: the logs ids (indices into c.uni) emitted in one block, in every
// order and every split of the ordered list into consecutive receipts.
func (c *c26Ctx) checkSet(ids []int) {
	cs := C26Case{Kind: "set"}
	for _, id := range ids {
		cs.Logs = append(cs.Logs, c.uni[id])
	}
	k := len(ids)
	var canon *LogsBloom
	opseq.Permutations(k, func(p []int) bool {
		for mask := uint(0); mask < 1<<uint(k-1); mask++ { // bit j set: receipt boundary after position j
			block := NewLogsBloom(nil)
			start := 0
			for pos := 0; pos < k; pos++ {
				if pos == k-1 || mask>>uint(pos)&1 == 1 {
					var rb *LogsBloom
					if pos == start {
						rb = c.single[ids[p[pos]]]
					} else {
						rb = NewLogsBloom(nil)
						for j := start; j <= pos; j++ {
							l := c.uni[ids[p[j]]]
							rb.AddLog(c26Addrs[l.Addr], l.indexed())
						}
					}
					block.Merge(rb)
					block.Merge(rb) // idempotent
					start = pos + 1
				}
			}
			atomic.AddInt64(&c.variants, 1)
			if canon == nil {
				canon = block
			} else if !bytes.Equal(canon.Bytes(), block.Bytes()) {
				c.r.Violation("merge-order-dependent", fmt.Sprintf("order %v split %b gives %x, first order gave %x; logs=%v", p, mask, block.Bytes(), canon.Bytes(), cs.Logs), cs)
			}
			for _, id := range ids {
				c.expectContain(cs, "block", block, c.uni[id], c.queries[id])
			}
		}
		return true
	})
	// every receipt bloom is contained in the block bloom
	for _, id := range ids {
		if !canon.Contain(c.single[id]) {
			c.r.Violation("false-negative:block:receipt-bloom", fmt.Sprintf("block bloom does not contain the bloom of the receipt holding %s; logs=%v", c.uni[id], cs.Logs), cs)
		}
	}
	for form, lb := range c.roundTrips(cs, canon) {
		for _, id := range ids {
			c.expectContain(cs, "block-after-"+form, lb, c.uni[id], c.queries[id])
		}
	}
	// vacuity: a log that is not in the set is normally reported absent
	probe := (ids[0] + 7) % len(c.uni)
	in := false
	for _, id := range ids {
		in = in || id == probe
	}
	if !in {
		if canon.Contain(c.queries[probe][len(c.queries[probe])-1].lb) {
			atomic.AddInt64(&c.present, 1)
		} else {
			atomic.AddInt64(&c.absent, 1)
		}
	}
}

var c26Revs = []struct {
	name string
	rev  module.Revision
	pay  bool
}{{"v1", 0, false}, {"v2", module.UseMPTOnEvents, false}, {"v3", module.UseMPTOnEvents, true}}

// checkReceipt: the logs emitted by ONE transaction, through the real receipt
// object of every receipt version, its binary and JSON forms.
func (c *c26Ctx) checkReceipt(ids []int) {
	cs := C26Case{Kind: "receipt"}
	for _, id := range ids {
		cs.Logs = append(cs.Logs, c.uni[id])
	}
	for _, rv := range c26Revs {
		cs.Note = rv.name
		mdb := db.NewMapDB()
		var rct Receipt
		var bs []byte
		if p := ev.Catch(func() {
			rct = NewReceipt(mdb, rv.rev, c26Addrs[1])
			for _, id := range ids {
				l := c.uni[id]
				rct.AddLog(c26Addrs[l.Addr], l.indexed(), nil)
			}
			if rv.pay {
				rct.AddPayment(c26Addrs[2], big.NewInt(10), nil)
			}
			rct.SetCumulativeStepUsed(big.NewInt(100))
			rct.SetResult(module.StatusSuccess, big.NewInt(100), big.NewInt(10), nil)
			bs = rct.Bytes()
		}); p != "" {
			c.r.Violation("receipt-build-panic:"+rv.name, fmt.Sprintf("%s; logs=%v", p, cs.Logs), cs)
			continue
		}
		atomic.AddInt64(&c.rcpt, 1)
		for _, id := range ids {
			c.expectContain(cs, "receipt-"+rv.name, rct.LogsBloom(), c.uni[id], c.queries[id])
		}
		r2 := new(receipt)
		if err := r2.Reset(mdb, bs); err != nil {
			c.r.Violation("receipt-decode-fails:"+rv.name, fmt.Sprintf("%v; logs=%v", err, cs.Logs), cs)
			continue
		}
		for _, id := range ids {
			c.expectContain(cs, "receipt-"+rv.name+"-decoded", r2.LogsBloom(), c.uni[id], c.queries[id])
		}
		// block bloom from the decoded receipt (what a syncing node computes)
		block := NewLogsBloom(nil)
		block.Merge(r2.LogsBloom())
		for _, id := range ids {
			c.expectContain(cs, "block-from-decoded-receipt-"+rv.name, block, c.uni[id], c.queries[id])
		}
		// JSON form (only for logs the JSON event-log codec can represent)
		var r3 Receipt
		if p := ev.Catch(func() {
			jso, err := rct.ToJSON(module.JSONVersionLast)
			if err != nil {
				panic(err)
			}
			jb, err := json.Marshal(jso)
			if err != nil {
				panic(err)
			}
			r3, err = NewReceiptFromJSON(mdb, rv.rev, jb)
			if err != nil {
				panic(err)
			}
		}); p != "" || r3 == nil {
			atomic.AddInt64(&c.rcptSkip, 1)
			continue
		}
		atomic.AddInt64(&c.rcptJSON, 1)
		for _, id := range ids {
			c.expectContain(cs, "receipt-"+rv.name+"-from-json", r3.LogsBloom(), c.uni[id], c.queries[id])
		}
	}
}

// checkBits: a one-value log whose value runs through a counter, so that the
// three hash-selected bit positions sweep the whole 2048-bit range (word
// boundaries, highest/lowest bit, blooms with many leading zero bytes).
func (c *c26Ctx) checkBits(v int, cover *[LogsBloomBits]int32, lens *sync.Map) {
	cs := C26Case{Kind: "bits", V: v}
	val := []byte{byte(v >> 16), byte(v >> 8), byte(v)}
	item := NewLogsBloom(nil)
	item.AddIndexedOfLog(1, val)
	nbits := 0
	for i := 0; i < LogsBloomBits; i++ {
		if item.Bit(i) == 1 {
			atomic.AddInt32(&cover[i], 1)
			nbits++
		}
	}
	if nbits < 1 || nbits > 3 {
		c.r.Violation("item-bit-count", fmt.Sprintf("value %x at position 1 sets %d bits", val, nbits), cs)
	}
	lens.Store(len(item.Bytes()), true)
	log := NewLogsBloom(nil)
	log.AddLog(c26Addrs[1], [][]byte{c26Vals[0], val})
	qa := NewLogsBloom(nil)
	qa.AddAddressOfLog(c26Addrs[1])
	qs := NewLogsBloom(nil)
	qs.AddIndexedOfLog(0, c26Vals[0])
	// a small "block": this log merged with the logs of the next three counter values
	block := NewLogsBloom(nil)
	block.Merge(log)
	for d := 1; d <= 3; d++ {
		o := NewLogsBloom(nil)
		w := v + d
		o.AddLog(c26Addrs[2], [][]byte{c26Vals[0], {byte(w >> 16), byte(w >> 8), byte(w)}})
		block.Merge(o)
	}
	check := func(where string, lb *LogsBloom) {
		atomic.AddInt64(&c.contains, 3)
		if !lb.Contain(item) {
			c.r.Violation("false-negative:"+where+":indexed", fmt.Sprintf("%s %x does not contain value %x at position 1 (query %x)", where, lb.Bytes(), val, item.Bytes()), cs)
		}
		if !lb.Contain(qa) || !lb.Contain(qs) {
			c.r.Violation("false-negative:"+where+":address", fmt.Sprintf("%s %x does not contain address/signature of the log with value %x", where, lb.Bytes(), val), cs)
		}
	}
	for _, t := range []struct {
		n  string
		lb *LogsBloom
	}{{"bits-item", item}, {"bits-log", log}, {"bits-block", block}} {
		if t.n != "bits-item" {
			check(t.n, t.lb)
		} else if !item.Contain(item) {
			c.r.Violation("false-negative:bits-item:indexed", fmt.Sprintf("%x does not contain itself", item.Bytes()), cs)
		}
		if t.n == "bits-log" {
			continue
		}
		for form, lb := range c.roundTrips(cs, t.lb) {
			if t.n == "bits-item" {
				if !lb.Contain(item) {
					c.r.Violation("false-negative:bits-item-after-"+form+":indexed", fmt.Sprintf("%x after %s = %x does not contain itself", item.Bytes(), form, lb.Bytes()), cs)
				}
			} else {
				check(t.n+"-after-"+form, lb)
			}
		}
	}
}

func TestVerifC26(t *testing.T) {
	r := ev.Start(t, "C26", "exploration")
	c := &c26Ctx{r: r}
	// universe for sets: 3 addresses x lists of length 1..3 over {signature, address bytes, 00, nil}
	c.uni = c26Universe(3, 4)
	nU4 := len(c.uni)
	// extra logs (singles and pairs only): lists that use the empty non-nil value
	for _, l := range c26Universe(3, 5) {
		has := false
		for _, v := range l.Vals {
			has = has || v == 4
		}
		if has {
			c.uni = append(c.uni, l)
		}
	}
	for _, l := range c.uni {
		lb := NewLogsBloom(nil)
		lb.AddLog(c26Addrs[l.Addr], l.indexed())
		c.single = append(c.single, lb)
		c.queries = append(c.queries, c26Queries(l))
	}
	// sub-universes: triples are taken from 2 addresses x lists of length 1..2
	// (quick) or 1..3 (thorough); quick pairs from the logs without the empty value
	var sub, tripleIDs []int
	for i, l := range c.uni[:nU4] {
		if l.Addr < 2 && len(l.Vals) <= 2 {
			sub = append(sub, i)
		}
		if l.Addr < 2 && (r.Thorough() || len(l.Vals) <= 2) {
			tripleIDs = append(tripleIDs, i)
		}
	}
	pairN := r.Pick(nU4, len(c.uni))
	bitsN := r.Pick(1<<13, 1<<17)
	r.Rule(fmt.Sprintf("logs = address in {hx1,cx2,cx3} x indexed list of length 1..3 over {signature, 21 address bytes, 00, nil} (%d logs) plus the lists using an empty non-nil value (%d logs in all). 'set' cases: every single log of all %d, every unordered pair of the first %d logs, every unordered triple of %d logs (2 addresses, lists of length<=2 quick / <=3 thorough); each set in EVERY order and EVERY split of the ordered list into consecutive receipts (one bloom per receipt via AddLog, block bloom via Merge), block bloom queried for each log's address, each non-nil indexed value at its position and their conjunction, directly and after compressed/bytes/logbytes/RLP/JSON/foreign-merge forms; 'receipt' cases: every single log and every pair (thorough: all enumerated pairs; quick: pairs of the %d-log sub-universe) through the real receipt object in versions 1,2,3, its binary form decoded again, and its JSON form where representable; 'bits' cases: one-value logs with the value a 3-byte counter 0..%d; 'dense' cases: 4 deterministic log families (distinct/one address, 4/2 indexed values, nil position) x 3 receipt structures (receipt per log, one receipt, receipts of 7), cumulative block bloom after EVERY log 1..N_dense: all storage forms equal and mutually containing, every contributing log's address / values / conjunction found directly and after the compressed form, and at the checkpoint counts in every form and through real receipts v1/v2/v3 holding all logs; 'pattern' cases: blooms constructed directly with k set bits, every k in 0..2048, patterns low/high/scattered(SHA3 order)/stride-3/complement-of-scattered: all forms equal, single set bits still found in every form. 'history' cases: ONE bloom object through every operation sequence of length 1..L (L=3 quick, 4 thorough) over the alphabet {AddLog(2 addresses x 2 topic sets), AddAddressOfLog x2, AddIndexedOfLog, Merge(*LogsBloom), Merge(foreign), SetInt64(0), SetUint64(0), SetBytes(nil / other / own saved), SetCompressedBytes(other), Set(other), SetBits(other), SetString(other), SetBit, queries (CompressedBytes, Bytes, LogBytes, String, Contain, Equal), JSON and RLP encode->decode into itself, JSON / RLP decode of another bloom} (every Set* method promoted from big.Int, found by reflection, is in the alphabet); model = item set implied by the history; the object, its compress/decompress form and a block bloom merged from it must report every model item and equal bit for bit a FRESH bloom built from the model. non-trivial = distinct case (kind + logs / counter / family,structure,n / pattern,k / op sequence)", nU4, len(c.uni), len(c.uni), pairN, len(tripleIDs), len(sub), bitsN-1))
	r.Assume("a log with zero indexed entries is outside the alphabet: the code adds nothing for it, and real event logs always carry the signature at position 0", "the oracle needs no reference bloom: it only asks Contain; byte-equality across merge orders is asserted in addition")

	if ev.Replaying() {
		var cs C26Case
		ev.ReplayCase(&cs)
		switch cs.Kind {
		case "bits":
			var cover [LogsBloomBits]int32
			c.checkBits(cs.V, &cover, &sync.Map{})
		case "dense":
			var fam, st int
			fmt.Sscanf(cs.Note, "%d/%d", &fam, &st)
			c.denseSeries(fam, st, cs.V, nil, cs.V)
		case "history":
			ops := c26HistOps()
			var seq []int
			for _, f := range strings.Split(cs.Note, ",") {
				o, _ := strconv.Atoi(f)
				seq = append(seq, o)
			}
			c.historyCase(ops, seq)
		case "pattern":
			var pat int
			fmt.Sscanf(cs.Note, "%d", &pat)
			c.patternCase(pat, cs.V)
		default:
			c.uni, c.single, c.queries = nil, nil, nil
			var ids []int
			for i, l := range cs.Logs {
				c.uni = append(c.uni, l)
				lb := NewLogsBloom(nil)
				lb.AddLog(c26Addrs[l.Addr], l.indexed())
				c.single = append(c.single, lb)
				c.queries = append(c.queries, c26Queries(l))
				ids = append(ids, i)
			}
			c.uni = append(c.uni, C26Log{Addr: 0, Vals: []int{2, 2, 2}}) // probe
			c.single = append(c.single, NewLogsBloom(nil))
			c.queries = append(c.queries, c26Queries(c.uni[len(c.uni)-1]))
			if cs.Kind == "receipt" {
				c.checkReceipt(ids)
			} else {
				c.checkSet(ids)
			}
		}
		r.Finish(false)
		return
	}

	// enumerate cases
	type job struct {
		kind string
		ids  []int
		v    int
	}
	var jobs []job
	n := len(c.uni)
	for i := 0; i < n; i++ {
		jobs = append(jobs, job{kind: "set", ids: []int{i}}, job{kind: "receipt", ids: []int{i}})
	}
	inSub := map[int]bool{}
	for _, i := range sub {
		inSub[i] = true
	}
	for i := 0; i < pairN; i++ {
		for j := i + 1; j < pairN; j++ {
			jobs = append(jobs, job{kind: "set", ids: []int{i, j}})
			if r.Thorough() || (inSub[i] && inSub[j]) {
				jobs = append(jobs, job{kind: "receipt", ids: []int{i, j}})
			}
		}
	}
	for a := 0; a < len(tripleIDs); a++ {
		for b := a + 1; b < len(tripleIDs); b++ {
			for d := b + 1; d < len(tripleIDs); d++ {
				jobs = append(jobs, job{kind: "set", ids: []int{tripleIDs[a], tripleIDs[b], tripleIDs[d]}})
			}
		}
	}
	for v := 0; v < bitsN; v++ {
		jobs = append(jobs, job{kind: "bits", v: v})
	}
	var cover [LogsBloomBits]int32
	var lens sync.Map
	var skipped int64
	counts := map[string]*int64{"set": new(int64), "receipt": new(int64), "bits": new(int64)}
	const chunk = 256
	nchunks := (len(jobs) + chunk - 1) / chunk
	ev.Par(nchunks, 16, func(ci int) {
		if r.Expired() {
			atomic.AddInt64(&skipped, 1)
			return
		}
		lo, hi := ci*chunk, (ci+1)*chunk
		if hi > len(jobs) {
			hi = len(jobs)
		}
		for _, j := range jobs[lo:hi] {
			switch j.kind {
			case "set":
				c.checkSet(j.ids)
			case "receipt":
				c.checkReceipt(j.ids)
			case "bits":
				c.checkBits(j.v, &cover, &lens)
			}
			atomic.AddInt64(counts[j.kind], 1)
			r.Nontrivial(fmt.Sprintf("%s/%v/%d", j.kind, j.ids, j.v))
		}
		r.Eval(hi - lo)
	})

	// density family: 4 log families x 3 receipt structures, cumulative, checked after every log
	denseN := r.Pick(420, 1200)
	checkpoints := map[int]bool{}
	for _, n := range []int{1, 10, 20, 40, 60, 80, 120, 160, 200, 300, 400, 600, 800, 1200} {
		checkpoints[n] = true
	}
	ev.Par(4*len(c26DenseStructures), 16, func(i int) {
		if r.Expired() {
			atomic.AddInt64(&skipped, 1)
			return
		}
		fam, st := i/len(c26DenseStructures), i%len(c26DenseStructures)
		c.denseSeries(fam, st, denseN, checkpoints, 0)
		for n := 1; n <= denseN; n++ {
			r.Nontrivial(fmt.Sprintf("dense/%d/%d/%d", fam, st, n))
		}
		r.Eval(denseN)
	})
	// pattern family: every number of set bits 0..2048 in each pattern
	ev.Par(len(c26Patterns)*(LogsBloomBits+1), 16, func(i int) {
		if i%64 == 0 && r.Expired() {
			atomic.AddInt64(&skipped, 1)
		}
		if atomic.LoadInt64(&skipped) > 0 {
			return
		}
		pat, k := i/(LogsBloomBits+1), i%(LogsBloomBits+1)
		c.patternCase(pat, k)
		r.Nontrivial(fmt.Sprintf("pattern/%d/%d", pat, k))
		r.Eval(1)
	})

	// object-history family: all operation sequences up to histLen on ONE bloom object
	histLen := r.Pick(3, 4)
	if c.historyFamily(histLen, r.Expired) {
		atomic.AddInt64(&skipped, 1)
	}
	r.Set("history_max_len", histLen)
	r.Set("cases_history", c.histories)
	r.Sanity(skipped > 0 || c.histories > 0, "no object-history case ran")

	covered, minHits := 0, int32(1<<30)
	for _, h := range cover {
		if h > 0 {
			covered++
		}
		if h < minHits {
			minHits = h
		}
	}
	var blens []int
	lens.Range(func(k, _ interface{}) bool { blens = append(blens, k.(int)); return true })
	sort.Ints(blens)
	r.Set("universe_logs", len(c.uni))
	r.Set("cases_set", *counts["set"])
	r.Set("cases_receipt", *counts["receipt"])
	r.Set("cases_bits", *counts["bits"])
	r.Set("merge_variants_built", c.variants)
	r.Set("contain_queries_asked", c.contains)
	r.Set("roundtrip_forms_checked", c.rtrips)
	r.Set("receipts_built", c.rcpt)
	r.Set("receipts_via_json", c.rcptJSON)
	r.Set("receipts_json_not_representable", c.rcptSkip)
	r.Set("probe_absent", c.absent)
	r.Set("probe_false_positive", c.present)
	r.Set("bit_positions_covered", covered)
	r.Set("bit_position_min_hits", minHits)
	r.Set("distinct_single_item_bloom_byte_lengths", len(blens))
	r.Set("chunks_skipped_by_budget", skipped)
	r.Set("cases_dense", c.dense)
	r.Set("cases_pattern", c.patterns)
	r.Set("dense_max_logs", denseN)
	r.Set("max_compressed_len_seen", c.maxComp)
	r.Set("blooms_with_compressed_len_over_256", c.expanding)
	r.Set("blooms_by_eighth_of_bits_set", c.bands[:])
	r.Sanity(skipped > 0 || c.maxComp > LogsBloomBytes, "no bloom dense enough to make LZW expand was exercised (max compressed length %d)", c.maxComp)
	for b, n := range c.bands {
		r.Sanity(skipped > 0 || n > 0, "no bloom with %d/8..%d/8 of the bits set", b, b+1)
	}
	l0 := c.uni[5]
	r.Sample(map[string]interface{}{"log": l0.String(), "receipt_bloom_bits": c26BitList(c.single[5]), "queries": len(c.queries[5])})
	l1 := c.uni[nU4-1]
	r.Sample(map[string]interface{}{"log": l1.String(), "receipt_bloom_bits": c26BitList(c.single[nU4-1]), "compressed_len": len(c.single[nU4-1].CompressedBytes())})
	r.Sample(map[string]interface{}{"set": []string{c.uni[0].String(), c.uni[100].String(), c.uni[200].String()}, "orders_x_splits": 24})
	r.Sanity(c.absent > 0, "no probe query was ever answered 'absent' (Contain may be constantly true)")
	r.Sanity(skipped > 0 || covered == LogsBloomBits, "only %d of %d bit positions were exercised", covered, LogsBloomBits)
	r.Sanity(skipped > 0 || len(blens) >= 20, "only %d distinct bloom byte lengths", len(blens))
	r.Sanity(c.rcptJSON > 0, "no receipt went through JSON")
	r.Sanity(c.variants > int64(len(jobs))/2, "too few merge variants")
	r.Finish(skipped == 0)
}

func c26BitList(lb *LogsBloom) []int {
	var out []int
	for i := 0; i < LogsBloomBits; i++ {
		if lb.Bit(i) == 1 {
			out = append(out, i)
		}
	}
	return out
}
