//go:build verif

package txresult

import (
	"bytes"
	"fmt"
	"math/big"
	"sort"
	"sync/atomic"

	"golang.org/x/crypto/sha3"

	"github.com/icon-project/goloop/common"
	"github.com/icon-project/goloop/common/db"
	"github.com/icon-project/goloop/module"
	"github.com/icon-project/goloop/verifshim/ev"
)

// ---------------------------------------------------------------------------
// density family: blooms of blocks / receipts with MANY distinct logs, so that
// the bloom passes through every density (sparse, LZW-incompressible, nearly
// full), each checked in every storage form.
// ---------------------------------------------------------------------------

// c26DenseLog returns log i of a deterministic family.
//
//	family 0: distinct address per log, 4 indexed values (signature, address, int, 32-byte hash)
//	family 1: one emitting address, 4 indexed values of which three vary
//	family 2: distinct address, 2 indexed values (signature + one value): few bits per log
//	family 3: distinct address, 4 positions with nil at position 1
func c26DenseLog(family, i int) (*common.Address, [][]byte) {
	addr := common.MustNewAddressFromString(fmt.Sprintf("cx%040x", 0x1000+i))
	if family == 1 {
		addr = c26Addrs[1]
	}
	h := sha3.Sum256([]byte(fmt.Sprintf("dense-%d-%d", family, i)))
	peer := common.MustNewAddressFromString(fmt.Sprintf("hx%040x", 0x77000+3*i)).Bytes()
	num := big.NewInt(int64(i)*1000003 + 17).Bytes()
	sig := []byte("Transfer(Address,int,bytes)")
	switch family {
	case 2:
		return addr, [][]byte{sig, h[:8]}
	case 3:
		return addr, [][]byte{sig, nil, num, h[:]}
	}
	return addr, [][]byte{sig, peer, num, h[:]}
}

func c26DenseQueries(addr module.Address, idx [][]byte) []*LogsBloom {
	var qs []*LogsBloom
	qa := NewLogsBloom(nil)
	qa.AddAddressOfLog(addr)
	qs = append(qs, qa)
	all := NewLogsBloom(nil)
	all.AddAddressOfLog(addr)
	for p, v := range idx {
		if v == nil {
			continue
		}
		q := NewLogsBloom(nil)
		q.AddIndexedOfLog(p, v)
		qs = append(qs, q)
		all.AddIndexedOfLog(p, v)
	}
	return append(qs, all)
}

func c26PopCount(lb *LogsBloom) int {
	n := 0
	for _, b := range lb.Bytes() {
		for ; b != 0; b &= b - 1 {
			n++
		}
	}
	return n
}

var c26DenseStructures = []string{"one-receipt-per-log", "all-logs-in-one-receipt", "receipts-of-7-logs"}

func c26DensityBand(bits int) string {
	switch {
	case bits < 256:
		return "bits<256"
	case bits < 512:
		return "256<=bits<512"
	case bits < 1024:
		return "512<=bits<1024"
	case bits < 1536:
		return "1024<=bits<1536"
	default:
		return "bits>=1536"
	}
}

// denseSeries: cumulative block bloom of logs 0..maxN-1 of a family in a
// given receipt structure; checked after EVERY log.
func (c *c26Ctx) denseSeries(family, structure, maxN int, checkpoints map[int]bool, only int) {
	block := NewLogsBloom(nil)
	var rcpt *LogsBloom
	var queries [][]*LogsBloom
	for i := 0; i < maxN; i++ {
		addr, idx := c26DenseLog(family, i)
		queries = append(queries, c26DenseQueries(addr, idx))
		switch structure {
		case 0:
			rb := NewLogsBloom(nil)
			rb.AddLog(addr, idx)
			block.Merge(rb)
		case 1:
			block.AddLog(addr, idx)
		case 2:
			if rcpt == nil {
				rcpt = NewLogsBloom(nil)
			}
			rcpt.AddLog(addr, idx)
			if i%7 == 6 || i == maxN-1 {
				block.Merge(rcpt)
				rcpt = nil
			}
		}
		cur := block
		if structure == 2 && rcpt != nil { // block so far = finished receipts + the open one
			cur = NewLogsBloom(nil)
			cur.Merge(block)
			cur.Merge(rcpt)
		}
		n := i + 1
		if only > 0 && n != only {
			continue
		}
		cs := C26Case{Kind: "dense", V: n, Note: fmt.Sprintf("%d/%d", family, structure)}
		bitsSet := c26PopCount(cur)
		band := c26DensityBand(bitsSet)
		comp := cur.CompressedBytes()
		c.noteDense(bitsSet, len(comp))
		miss := func(where string, lb module.LogsBloom) {
			missing, first := 0, ""
			for j := 0; j < n; j++ {
				for qi, q := range queries[j] {
					atomic.AddInt64(&c.contains, 1)
					if !lb.Contain(q) {
						if missing == 0 {
							first = fmt.Sprintf("log %d query %d", j, qi)
						}
						missing++
					}
				}
			}
			if missing > 0 {
				c.r.Violation("false-negative:dense:"+where+":"+band, fmt.Sprintf("family %d, %s, %d logs merged (%d of 2048 bits set, compressed %d bytes): %s bloom misses %d queries of contributing logs (first: %s); bloom has %d bits", family, c26DenseStructures[structure], n, bitsSet, len(comp), where, missing, first, c26PopCount(NewLogsBloom(lb.Bytes()))), cs)
			}
		}
		miss("block", cur)
		forms := c.roundTripsBand(cs, cur, band)
		miss("block-after-compressed", forms["compressed"])
		if checkpoints[n] || only > 0 {
			for name, lb := range forms {
				if name != "compressed" {
					miss("block-after-"+name, lb)
				}
			}
			c.denseReceipts(cs, family, n, queries, band)
		}
		atomic.AddInt64(&c.dense, 1)
	}
}

// roundTripsBand is roundTrips with the density band in the signature.
func (c *c26Ctx) roundTripsBand(cs C26Case, lb *LogsBloom, band string) map[string]*LogsBloom {
	out := map[string]*LogsBloom{}
	if p := ev.Catch(func() {
		for k, v := range c.roundTripsQuiet(lb) {
			out[k] = v
		}
	}); p != "" {
		c.r.Violation("roundtrip-fails:"+band, fmt.Sprintf("bloom with %d bits: %s", c26PopCount(lb), p), cs)
		return out
	}
	atomic.AddInt64(&c.rtrips, int64(len(out)))
	for k, v := range out {
		if !v.Equal(lb) {
			c.r.Violation("roundtrip-changes-bloom:"+k+":"+band, fmt.Sprintf("bloom with %d bits set (compressed %d bytes) has %d bits after the %s form", c26PopCount(lb), len(lb.CompressedBytes()), c26PopCount(v), k), cs)
		}
		if !v.Contain(lb) || !lb.Contain(v) {
			c.r.Violation("roundtrip-loses-containment:"+k+":"+band, fmt.Sprintf("bloom with %d bits and its %s form do not contain each other", c26PopCount(lb), k), cs)
		}
	}
	return out
}

// denseReceipts: the n logs in ONE transaction, through the real receipt of
// every version, its binary form decoded again.
func (c *c26Ctx) denseReceipts(cs C26Case, family, n int, queries [][]*LogsBloom, band string) {
	for _, rv := range c26Revs {
		mdb := db.NewMapDB()
		var bs []byte
		var rct Receipt
		if p := ev.Catch(func() {
			rct = NewReceipt(mdb, rv.rev, c26Addrs[1])
			for i := 0; i < n; i++ {
				addr, idx := c26DenseLog(family, i)
				rct.AddLog(addr, idx, nil)
			}
			if rv.pay {
				rct.AddPayment(c26Addrs[2], big.NewInt(10), nil)
			}
			rct.SetCumulativeStepUsed(big.NewInt(100))
			rct.SetResult(module.StatusSuccess, big.NewInt(100), big.NewInt(10), nil)
			bs = rct.Bytes()
		}); p != "" {
			c.r.Violation("receipt-build-panic:"+rv.name, fmt.Sprintf("%d logs: %s", n, p), cs)
			continue
		}
		r2 := new(receipt)
		if err := r2.Reset(mdb, bs); err != nil {
			c.r.Violation("receipt-decode-fails:"+rv.name, fmt.Sprintf("%d logs: %v", n, err), cs)
			continue
		}
		atomic.AddInt64(&c.rcpt, 1)
		for _, v := range []struct {
			where string
			lb    module.LogsBloom
		}{{"receipt-" + rv.name, rct.LogsBloom()}, {"receipt-" + rv.name + "-decoded", r2.LogsBloom()}} {
			missing := 0
			for j := 0; j < n; j++ {
				for _, q := range queries[j] {
					if !v.lb.Contain(q) {
						missing++
					}
				}
			}
			if missing > 0 {
				c.r.Violation("false-negative:dense:"+v.where+":"+band, fmt.Sprintf("family %d, %d logs in one receipt: %s bloom misses %d queries", family, n, v.where, missing), cs)
			}
		}
	}
}

// ---------------------------------------------------------------------------
// pattern family: blooms built directly from bit patterns with k set bits.
// ---------------------------------------------------------------------------

var c26Patterns = []string{"low-k-bits", "high-k-bits", "scattered-k-bits", "stride-3", "all-but-scattered-k"}

// c26Perm: a fixed "random looking" permutation of 0..2047 (positions ordered by SHA3 of the position).
var c26Perm = func() []int {
	type kv struct {
		h [32]byte
		i int
	}
	ks := make([]kv, LogsBloomBits)
	for i := range ks {
		ks[i] = kv{sha3.Sum256([]byte{byte(i >> 8), byte(i)}), i}
	}
	sort.Slice(ks, func(a, b int) bool { return bytes.Compare(ks[a].h[:], ks[b].h[:]) < 0 })
	out := make([]int, LogsBloomBits)
	for i, k := range ks {
		out[i] = k.i
	}
	return out
}()

func c26PatternBloom(pattern, k int) *LogsBloom {
	var raw [LogsBloomBytes]byte
	set := func(bit int) { raw[LogsBloomBytes-1-bit/8] |= 1 << uint(bit%8) }
	switch pattern {
	case 0:
		for i := 0; i < k; i++ {
			set(i)
		}
	case 1:
		for i := 0; i < k; i++ {
			set(LogsBloomBits - 1 - i)
		}
	case 2:
		for i := 0; i < k; i++ {
			set(c26Perm[i])
		}
	case 3:
		for i := 0; i < k; i++ {
			set((i * 3) % LogsBloomBits) // 3 is coprime to 2048: k distinct bits
		}
	case 4:
		for i := 0; i < LogsBloomBits; i++ {
			raw[i/8] = 0xff
		}
		for i := 0; i < LogsBloomBits-k; i++ {
			b := c26Perm[LogsBloomBits-1-i]
			raw[LogsBloomBytes-1-b/8] &^= 1 << uint(b%8)
		}
	}
	return NewLogsBloom(raw[:])
}

func (c *c26Ctx) patternCase(pattern, k int) {
	cs := C26Case{Kind: "pattern", V: k, Note: fmt.Sprint(pattern)}
	lb := c26PatternBloom(pattern, k)
	if got := c26PopCount(lb); got != k {
		c.r.Sanity(false, "pattern %s k=%d built %d bits", c26Patterns[pattern], k, got)
		return
	}
	band := c26DensityBand(k)
	c.noteDense(k, len(lb.CompressedBytes()))
	forms := c.roundTripsBand(cs, lb, band)
	// each form still reports every single set bit (asked for up to 64 of them, spread)
	step := k/64 + 1
	cnt := 0
	for i := 0; i < LogsBloomBits && k > 0; i++ {
		if lb.Bit(i) == 0 {
			continue
		}
		cnt++
		if cnt%step != 0 {
			continue
		}
		one := NewLogsBloom(nil)
		one.SetBit(&one.Int, i, 1)
		for name, f := range forms {
			atomic.AddInt64(&c.contains, 1)
			if !f.Contain(one) {
				c.r.Violation("false-negative:pattern:"+name+":"+band, fmt.Sprintf("pattern %s with %d bits: bit %d is lost after the %s form", c26Patterns[pattern], k, i, name), cs)
			}
		}
	}
	atomic.AddInt64(&c.patterns, 1)
}

func (c *c26Ctx) noteDense(bits, compLen int) {
	for {
		old := atomic.LoadInt64(&c.maxComp)
		if int64(compLen) <= old || atomic.CompareAndSwapInt64(&c.maxComp, old, int64(compLen)) {
			break
		}
	}
	if compLen > LogsBloomBytes {
		atomic.AddInt64(&c.expanding, 1)
	}
	atomic.AddInt64(&c.bands[bits*8/(LogsBloomBits+1)], 1)
}
