#!/usr/bin/env python3
"""Regenerate the seeded-change detection table in DESIGN.md (between the DETECTION markers) from seeded/*/meta.json."""
import json, glob, os, re
root = os.path.dirname(os.path.dirname(os.path.abspath(__file__)))
rows = []
for mp in sorted(glob.glob(os.path.join(root, 'seeded', '*', 'meta.json'))):
    m = json.load(open(mp))
    d = os.path.dirname(mp)
    notes = open(os.path.join(d, 'notes.md')).read() if os.path.exists(os.path.join(d, 'notes.md')) else ''
    site = ''
    mm = re.search(r'(?i)\*?\*?site:?\*?\*?:?\s*(.+)', notes)
    if mm: site = mm.group(1).strip().strip('*').strip()[:110]
    v = m.get('verified_by_lead', {})
    ok = all(v.get(k) for k in ('patch_applies', 'builds', 'demo_passes_without_patch', 'demo_fails_with_patch', 'repo_tests_pass_with_patch'))
    c = m.get('check_result', {})
    extra = m.get('other_checks', '')
    caught = c.get('caught_in', '?')
    sigs = c.get('signatures', [])
    rq = [v for k, v in sorted(m.get('recheck', {}).items()) if v.get('caught') and k.endswith('/quick')]
    if not c.get('caught'):
        for k, v in sorted(m.get('recheck', {}).items()):
            if v.get('caught'):
                caught = 'missed at first; %s after the check was strengthened' % k.split('/')[1]
                sigs = v.get('signatures', [])
                break
    elif caught == 'thorough' and rq:
        caught = 'thorough only at first; quick after the check was strengthened'
        sigs = rq[0].get('signatures', sigs)
    for k, v in sorted(m.get('other_checks_detail', {}).items()):
        if v.get('caught'):
            extra = (extra + '; ' if extra else '') + 'also caught by %s %s' % tuple(k.split('/'))
    rows.append('| %s | %s | %s | %s | %s | %s |' % (m['id'], m['breaks_property'], site.replace('|', '/'),
                'yes' if ok else 'NO (%s)' % ','.join(k for k in v if v[k] is False),
                caught + ((' — ' + extra) if extra else ''),
                ', '.join(sigs[:2]).replace('|', '/')[:120]))
table = ['| seeded change | property | site (from the seeding agent\'s notes) | confirmed by lead (applies, builds, repo tests pass, demo fails with / passes without) | caught by `bin/check <property>` | first signatures |',
         '|---|---|---|---|---|---|'] + rows
p = os.path.join(root, 'DESIGN.md'); s = open(p).read()
b, e = '<!-- DETECTION:BEGIN -->', '<!-- DETECTION:END -->'
block = b + '\n' + '\n'.join(table) + '\n' + e
if b in s:
    s = s[:s.index(b)] + block + s[s.index(e) + len(e):]
else:
    s += '\n### 10.4 Independently seeded property-breaking changes and which checks catch them\n\nEach change below was written by a fresh sub-agent that saw only the property text (nothing from /verif), in its own scratch worktree; it compiles and passes the repository\'s tests of the touched packages, and comes with a demonstration test that fails with the change and passes without it. The lead re-confirmed all of that in a scratch worktree (`tools/seedverify.sh`), then ran the property\'s check against the patched tree (`VERIF_REPO=<worktree> bin/check Cxx quick`, thorough only if quick misses). Everything is kept under `seeded/<id>/` (patch.diff, demo_test.go, notes.md, meta.json, check logs).\n\n' + block + '\n'
open(p, 'w').write(s)
print(len(rows), 'rows')
