#!/bin/bash
# usage: tools/seedcheck.sh <seed-id> <prop> [tier]  — re-run one check against an already verified seeded change
set -u
ID="$1"; PROP="$2"; TIER="${3:-quick}"
WT=/tmp/sc-$ID-$$
git -C /repo worktree add -q "$WT" HEAD || exit 2
( cd "$WT" && git apply /verif/seeded/$ID/patch.diff ) || { echo "patch does not apply"; git -C /repo worktree remove --force "$WT"; exit 2; }
cd /verif
VERIF_REPO="$WT" bin/check "$PROP" "$TIER" > /verif/seeded/$ID/check.$PROP.$TIER.log 2>&1; rc=$?
echo "seed $ID: check $PROP $TIER exit=$rc"; grep -h -A1 '^VIOLATION' /verif/seeded/$ID/check.$PROP.$TIER.log | grep signature | sort | uniq -c | head -6
git -C /repo worktree remove --force "$WT"; rm -rf /verif/.work/*-$(echo "$WT" | md5sum | cut -c1-8)
exit $rc
