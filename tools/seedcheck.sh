#!/bin/bash
# usage: tools/seedcheck.sh <seed-id> <prop> [tier]  — re-run one check against an already verified seeded change
set -u
ID="$1"; PROP="$2"; TIER="${3:-quick}"
WT=/tmp/sc-$ID-$$
git -C /repo worktree add -q "$WT" HEAD || exit 2
( cd "$WT" && git apply /verif/seeded/$ID/patch.diff ) || { echo "patch does not apply"; git -C /repo worktree remove --force "$WT"; exit 2; }
cd /verif
VERIF_REPO="$WT" bin/check "$PROP" "$TIER" > /verif/seeded/$ID/check.$PROP.$TIER.log 2>&1; rc=$?
echo "seed $ID: check $PROP $TIER exit=$rc"; grep -h -A1 '^VIOLATION' /verif/seeded/$ID/check.$PROP.$TIER.log | grep signature | sort | uniq -c | head -6
python3 - "$ID" "$PROP" "$TIER" "$rc" <<'PY'
import json,sys,re,os
id,prop,tier,rc=sys.argv[1:]
mp='/verif/seeded/%s/meta.json'%id
m=json.load(open(mp))
log=open('/verif/seeded/%s/check.%s.%s.log'%(id,prop,tier)).read()
sig=sorted(set(re.findall(r'^  signature=(.*)$',log,re.M)))[:8]
key='recheck' if prop==m['breaks_property'] else 'other_checks_detail'
m.setdefault(key,{})[prop+'/'+tier]={"exit":int(rc),"caught":rc=="1","signatures":sig}
json.dump(m,open(mp,'w'),indent=1)
PY
git -C /repo worktree remove --force "$WT"; rm -rf /verif/.work/*-$(echo "$WT" | md5sum | cut -c1-8)
exit $rc
