#!/opt/veriftools/pyvenv/bin/python
"""Validate MANIFEST.json and every evidence file against the schemas."""
import json, glob, sys, os, jsonschema
root = os.path.dirname(os.path.dirname(os.path.abspath(__file__)))
ok = True
ms = json.load(open('/root/.vp/MANIFEST.schema.json')); es = json.load(open('/root/.vp/EVIDENCE.schema.json'))
man = json.load(open(os.path.join(root, 'MANIFEST.json')))
try:
    jsonschema.validate(man, ms)
except Exception as e:
    ok = False; print('MANIFEST invalid:', e.message)
for c in man['checks']:
    p = os.path.join(root, c['evidence_file'])
    if not os.path.exists(p):
        print('missing evidence', p); continue
    try:
        e = json.load(open(p)); jsonschema.validate(e, es)
        if e['level'] != c['level_claimed']['category']:
            ok = False; print('level mismatch', p)
    except Exception as ex:
        ok = False; print('evidence invalid', p, getattr(ex, 'message', ex))
print('OK' if ok else 'FAILED'); sys.exit(0 if ok else 1)
