#!/bin/bash
# usage: tools/seedverify.sh <seed-id> <prop> <src-dir> <pkg-dir> [<test pkgs...>]
#   copies <src-dir>/{patch.diff,demo_test.go,notes.md} to /verif/seeded/<seed-id>/, then in a scratch worktree:
#   demo without patch (must pass), build with patch, demo with patch (must fail), package tests with patch (must pass),
#   then runs `bin/check <prop> quick` (and thorough if quick misses) against the patched tree. Writes meta.json.
set -u
export GOFLAGS=-mod=mod GOPROXY=off GOSUMDB=off GOTOOLCHAIN=local
ID="$1"; PROP="$2"; SRC="$3"; PKG="$4"; shift 4
TESTPKGS="${*:-./$PKG/...}"
ROOT=/verif
OUT=$ROOT/seeded/$ID
mkdir -p "$OUT"
cp "$SRC/patch.diff" "$OUT/patch.diff"; cp "$SRC/demo_test.go" "$OUT/demo_test.go"; cp "$SRC/notes.md" "$OUT/notes.md" 2>/dev/null
WT=/tmp/sw-$ID-$$
git -C /repo worktree remove --force "$WT" 2>/dev/null
git -C /repo worktree add -q "$WT" HEAD || exit 2
cp "$OUT/demo_test.go" "$WT/$PKG/zz_seed_demo_test.go"
L="$OUT/verify.log"; : > "$L"
( cd "$WT" && go test -count=1 -run "${SEED_RUN:-SeedDemo|TestSeed}" "./$PKG/" ) >>"$L" 2>&1; demo_without=$?
( cd "$WT" && git apply "$OUT/patch.diff" ) >>"$L" 2>&1; applied=$?
( cd "$WT" && go build ./... ) >>"$L" 2>&1; build=$?
( cd "$WT" && go test -count=1 -run "${SEED_RUN:-SeedDemo|TestSeed}" "./$PKG/" ) >>"$L" 2>&1; demo_with=$?
rm -f "$WT/$PKG/zz_seed_demo_test.go"
( cd "$WT" && go test -count=1 $TESTPKGS ) >>"$L" 2>&1; tests=$?
echo "seed $ID: applied=$applied build=$build demo_without=$demo_without(0 wanted) demo_with=$demo_with(!=0 wanted) repo_tests=$tests(0 wanted)"
cd $ROOT
VERIF_REPO="$WT" bin/check "$PROP" quick > "$OUT/check.quick.log" 2>&1; q=$?
t=-1
if [ $q -ne 1 ]; then VERIF_REPO="$WT" bin/check "$PROP" thorough > "$OUT/check.thorough.log" 2>&1; t=$?; fi
echo "seed $ID: check $PROP quick exit=$q thorough exit=$t"
grep -h -m3 -A1 '^VIOLATION' "$OUT"/check.*.log | sed 's/^/    /' | head -8
python3 - "$ID" "$PROP" "$applied" "$build" "$demo_without" "$demo_with" "$tests" "$q" "$t" "$TESTPKGS" "$PKG" <<'PY'
import json,sys,os,re
id,prop,applied,build,dwo,dw,tests,q,t,pk,pkg=sys.argv[1:]
out='/verif/seeded/'+id
notes=open(out+'/notes.md').read() if os.path.exists(out+'/notes.md') else ''
sig=[]
for f in ('check.quick.log','check.thorough.log'):
    p=out+'/'+f
    if os.path.exists(p):
        sig+=re.findall(r'^  signature=(.*)$',open(p).read(),re.M)
meta={"id":id,"breaks_property":prop,
 "needs_to_manifest":"see notes.md (written by the independent seeding agent)",
 "demo":"demo_test.go -> %s/zz_seed_demo_test.go ; go test -run TestSeedDemo ./%s/"%(pkg,pkg),
 "verified_by_lead":{"patch_applies":applied=="0","builds":build=="0","demo_passes_without_patch":dwo=="0","demo_fails_with_patch":dw!="0","repo_tests_pass_with_patch":tests=="0","repo_tests_run":"go test -count=1 "+pk},
 "check_result":{"quick_exit":int(q),"thorough_exit":int(t),"caught":q=="1" or t=="1","caught_in":"quick" if q=="1" else ("thorough" if t=="1" else "not caught"),"signatures":sorted(set(sig))[:8]},
 "ran":"tools/seedverify.sh (scratch worktree of /repo HEAD, VERIF_REPO=<worktree> bin/check %s quick[/thorough])"%prop}
json.dump(meta,open(out+'/meta.json','w'),indent=1)
PY
git -C /repo worktree remove --force "$WT"; rm -rf $ROOT/.work/*-$(echo "$WT" | md5sum | cut -c1-8)
