// verifgen builds the `go build -overlay` JSON that mounts the /verif machinery
// into the goloop module without touching /repo.
//
//	verifgen -verif /verif -repo /repo -check c24 -out /verif/.work/c24
//
// It reads /verif/checks/<check>/recipe.json and produces <out>/overlay.json:
//   - every /verif/lib/<name>/*.go        -> /repo/verifshim/<name>/*.go
//   - every file listed in recipe.files   -> /repo/<pkg>/zz_verif_<check>_<file>
//   - recipe.extra_files {src,dst}        -> /repo/<dst>
//   - recipe.rewrites: the *current* /repo file is parsed, its imports are
//     substituted (e.g. "os" -> verifshim/crashfs, keeping the local name),
//     optionally `go f(x)` statements are turned into vsync.Go(func(){...}),
//     and the result is written under <out>/rewritten and mounted over the
//     original path.
//
// Only the standard library is used.
package main

import (
	"bytes"
	"encoding/json"
	"flag"
	"fmt"
	"go/ast"
	"go/format"
	"go/parser"
	"go/token"
	"os"
	"path"
	"path/filepath"
	"sort"
	"strconv"
	"strings"
)

type rewrite struct {
	File    string            `json:"file"`
	Imports map[string]string `json:"imports"`
	// GoStmt: rewrite `go f(args)` into `<GoFunc>(func(){ f(args) })` with
	// arguments evaluated eagerly.
	GoStmt string `json:"go_stmt,omitempty"`
	// GoStmtOnly: if set, only `go` statements whose call text contains this
	// substring are rewritten; at least one must match.
	GoStmtOnly string `json:"go_stmt_only,omitempty"`
	// ChanPkg: AST-level rewrite of channel types and operations onto the generic
	// channel of a shim package known under this local name (e.g. "sync" after the
	// import substitution sync -> verifshim/vsync): `chan T` -> `*<pkg>.Chan[T]`,
	// `make(chan T, n)` -> `<pkg>.MakeChan[T](n)`, `c <- v` -> `c.Send(v)`,
	// `<-c` -> `c.Recv()`. select statements are not supported (hard error).
	ChanPkg string `json:"chan_pkg,omitempty"`
	// RangeMap: AST-level rewrite of `for k, v := range <Expr> {body}` into
	// `for _, k := range <Func>(<Arg>) { v := <Expr>[k]; body }` so that the
	// harness owns the iteration order of a map (robust against edits of the
	// loop body, unlike a literal replace). PerFunc overrides Func inside the
	// named function/method.
	RangeMap []struct {
		Expr    string            `json:"expr"`
		Func    string            `json:"func"`
		Arg     string            `json:"arg"`
		PerFunc map[string]string `json:"per_func,omitempty"`
		Min     int               `json:"min,omitempty"` // at least this many loops must be rewritten (default 1)
	} `json:"range_map,omitempty"`
	// Replace: literal text substitutions applied after the AST pass, each must
	// match exactly once (a miss is a hard error so an upstream edit is noticed).
	Replace []struct {
		Old string `json:"old"`
		New string `json:"new"`
	} `json:"replace,omitempty"`
}

type extraFile struct {
	Src string `json:"src"`
	Dst string `json:"dst"`
}

type recipe struct {
	ID         string      `json:"id"`
	Pkg        string      `json:"pkg"`
	Files      []string    `json:"files"`
	ExtraFiles []extraFile `json:"extra_files"`
	Rewrites   []rewrite   `json:"rewrites"`
}

func die(f string, a ...interface{}) {
	fmt.Fprintf(os.Stderr, "verifgen: "+f+"\n", a...)
	os.Exit(2)
}

func main() {
	verif := flag.String("verif", "/verif", "")
	repo := flag.String("repo", "/repo", "")
	check := flag.String("check", "", "check dir name under checks/")
	out := flag.String("out", "", "work dir")
	flag.Parse()
	if *check == "" || *out == "" {
		die("need -check and -out")
	}
	rb, err := os.ReadFile(filepath.Join(*verif, "checks", *check, "recipe.json"))
	if err != nil {
		die("%v", err)
	}
	var rc recipe
	if err := json.Unmarshal(rb, &rc); err != nil {
		die("recipe: %v", err)
	}
	if err := os.MkdirAll(*out, 0o755); err != nil {
		die("%v", err)
	}
	replace := map[string]string{}

	// libs
	libs, _ := os.ReadDir(filepath.Join(*verif, "lib"))
	for _, l := range libs {
		if !l.IsDir() {
			continue
		}
		mountDir(replace, filepath.Join(*verif, "lib", l.Name()), filepath.Join(*repo, "verifshim", l.Name()))
	}
	// check files
	for _, f := range rc.Files {
		src := filepath.Join(*verif, "checks", *check, f)
		if _, err := os.Stat(src); err != nil {
			die("%v", err)
		}
		dst := filepath.Join(*repo, rc.Pkg, "zz_verif_"+*check+"_"+filepath.Base(f))
		replace[dst] = src
	}
	for _, e := range rc.ExtraFiles {
		src := e.Src
		if !filepath.IsAbs(src) {
			src = filepath.Join(*verif, "checks", *check, e.Src)
		}
		if _, err := os.Stat(src); err != nil {
			die("%v", err)
		}
		replace[filepath.Join(*repo, e.Dst)] = src
	}
	// rewrites
	for _, rw := range rc.Rewrites {
		orig := filepath.Join(*repo, rw.File)
		dst := filepath.Join(*out, "rewritten", rw.File)
		if err := os.MkdirAll(filepath.Dir(dst), 0o755); err != nil {
			die("%v", err)
		}
		b, err := rewriteFile(orig, rw)
		if err != nil {
			die("rewrite %s: %v", rw.File, err)
		}
		old, _ := os.ReadFile(dst)
		if !bytes.Equal(old, b) {
			if err := os.WriteFile(dst, b, 0o644); err != nil {
				die("%v", err)
			}
		}
		replace[orig] = dst
	}
	js, _ := json.MarshalIndent(map[string]interface{}{"Replace": replace}, "", " ")
	if err := os.WriteFile(filepath.Join(*out, "overlay.json"), js, 0o644); err != nil {
		die("%v", err)
	}
}

func mountDir(replace map[string]string, src, dst string) {
	filepath.Walk(src, func(p string, info os.FileInfo, err error) error {
		if err != nil || info.IsDir() {
			return nil
		}
		if !strings.HasSuffix(p, ".go") {
			return nil
		}
		rel, _ := filepath.Rel(src, p)
		replace[filepath.Join(dst, rel)] = p
		return nil
	})
}

func rewriteFile(file string, rw rewrite) ([]byte, error) {
	fset := token.NewFileSet()
	f, err := parser.ParseFile(fset, file, nil, parser.ParseComments)
	if err != nil {
		return nil, err
	}
	seen := map[string]bool{}
	for _, imp := range f.Imports {
		p, _ := strconv.Unquote(imp.Path.Value)
		if np, ok := rw.Imports[p]; ok {
			seen[p] = true
			if imp.Name == nil {
				imp.Name = ast.NewIdent(path.Base(p))
			}
			imp.Path.Value = strconv.Quote(np)
		}
	}
	var missing []string
	for p := range rw.Imports {
		if !seen[p] {
			missing = append(missing, p)
		}
	}
	sort.Strings(missing)
	if len(missing) > 0 {
		return nil, fmt.Errorf("imports not found: %v", missing)
	}
	if rw.GoStmt != "" {
		if n := rewriteGo(fset, f, rw.GoStmt, rw.GoStmtOnly); rw.GoStmtOnly != "" && n == 0 {
			return nil, fmt.Errorf("go_stmt_only %q matched no go statement", rw.GoStmtOnly)
		}
	}
	if rw.ChanPkg != "" {
		if err := rewriteChans(f, rw.ChanPkg); err != nil {
			return nil, err
		}
	}
	for _, rm := range rw.RangeMap {
		n := rewriteRangeMap(fset, f, rm.Expr, rm.Func, rm.Arg, rm.PerFunc)
		min := rm.Min
		if min <= 0 {
			min = 1
		}
		if n < min {
			return nil, fmt.Errorf("range_map %q: %d loops rewritten, want >= %d", rm.Expr, n, min)
		}
	}
	var buf bytes.Buffer
	if err := format.Node(&buf, fset, f); err != nil {
		return nil, err
	}
	b := buf.Bytes()
	for _, r := range rw.Replace {
		if n := bytes.Count(b, []byte(r.Old)); n != 1 {
			return nil, fmt.Errorf("replace %q matched %d times", r.Old, n)
		}
		b = bytes.Replace(b, []byte(r.Old), []byte(r.New), 1)
	}
	return b, nil
}

// rewriteGo turns `go call(args...)` into
//
//	{ a0, a1 := arg0, arg1; GoFunc(func(){ call(a0, a1) }) }
//
// for plain calls; `go func(){...}()` (no args) becomes GoFunc(func(){...}).
func rewriteGo(fset *token.FileSet, f *ast.File, goFunc string, only string) int {
	parts := strings.Split(goFunc, ".")
	var fun ast.Expr = ast.NewIdent(parts[0])
	for _, p := range parts[1:] {
		fun = &ast.SelectorExpr{X: fun, Sel: ast.NewIdent(p)}
	}
	n := 0
	ast.Inspect(f, func(nd ast.Node) bool {
		var list []ast.Stmt
		switch b := nd.(type) {
		case *ast.BlockStmt:
			list = b.List
		case *ast.CaseClause:
			list = b.Body
		case *ast.CommClause:
			list = b.Body
		default:
			return true
		}
		for i, s := range list {
			g, ok := s.(*ast.GoStmt)
			if !ok {
				continue
			}
			if only != "" && !strings.Contains(exprString(fset, g.Call), only) {
				continue
			}
			call := g.Call
			var pre []ast.Stmt
			if len(call.Args) > 0 {
				lhs := make([]ast.Expr, len(call.Args))
				rhs := make([]ast.Expr, len(call.Args))
				for j, a := range call.Args {
					id := ast.NewIdent(fmt.Sprintf("verifArg%d_%d", n, j))
					lhs[j] = id
					rhs[j] = a
				}
				pre = append(pre, &ast.AssignStmt{Lhs: lhs, Tok: token.DEFINE, Rhs: rhs})
				newArgs := make([]ast.Expr, len(lhs))
				copy(newArgs, lhs)
				call = &ast.CallExpr{Fun: call.Fun, Args: newArgs, Ellipsis: call.Ellipsis}
			}
			n++
			var body *ast.FuncLit
			if fl, ok := call.Fun.(*ast.FuncLit); ok && len(call.Args) == 0 {
				body = fl
			} else {
				body = &ast.FuncLit{
					Type: &ast.FuncType{Params: &ast.FieldList{}},
					Body: &ast.BlockStmt{List: []ast.Stmt{&ast.ExprStmt{X: call}}},
				}
			}
			spawn := &ast.ExprStmt{X: &ast.CallExpr{Fun: fun, Args: []ast.Expr{body}}}
			list[i] = &ast.BlockStmt{List: append(pre, spawn)}
		}
		return true
	})
	return n
}

func exprString(fset *token.FileSet, e ast.Expr) string {
	var b bytes.Buffer
	_ = format.Node(&b, fset, e)
	return b.String()
}

func parseExpr(s string) ast.Expr {
	e, err := parser.ParseExpr(s)
	if err != nil {
		die("bad expression %q: %v", s, err)
	}
	return e
}

// rewriteRangeMap rewrites every `for k, v := range <expr>` (k, v defined with :=).
func rewriteRangeMap(fset *token.FileSet, f *ast.File, expr, fn, arg string, perFunc map[string]string) int {
	n := 0
	for _, d := range f.Decls {
		fd, ok := d.(*ast.FuncDecl)
		if !ok || fd.Body == nil {
			continue
		}
		use := fn
		if o, ok := perFunc[fd.Name.Name]; ok {
			use = o
		}
		ast.Inspect(fd.Body, func(nd ast.Node) bool {
			rs, ok := nd.(*ast.RangeStmt)
			if !ok || rs.Tok != token.DEFINE || exprString(fset, rs.X) != expr {
				return true
			}
			keyID, _ := rs.Key.(*ast.Ident)
			if keyID == nil {
				return true
			}
			key := keyID
			if key.Name == "_" {
				key = ast.NewIdent(fmt.Sprintf("verifKey%d", n))
			}
			var pre []ast.Stmt
			if v, ok := rs.Value.(*ast.Ident); ok && v != nil && v.Name != "_" {
				pre = append(pre, &ast.AssignStmt{
					Lhs: []ast.Expr{ast.NewIdent(v.Name)}, Tok: token.DEFINE,
					Rhs: []ast.Expr{&ast.IndexExpr{X: parseExpr(expr), Index: ast.NewIdent(key.Name)}},
				})
			}
			rs.Key = ast.NewIdent("_")
			rs.Value = ast.NewIdent(key.Name)
			rs.X = &ast.CallExpr{Fun: parseExpr(use), Args: []ast.Expr{parseExpr(arg)}}
			rs.Body.List = append(pre, rs.Body.List...)
			n++
			return true
		})
	}
	return n
}

// rewriteChans: see rewrite.ChanPkg.
func rewriteChans(f *ast.File, pkg string) error {
	var err error
	chanOf := func(elem ast.Expr) ast.Expr {
		return &ast.StarExpr{X: &ast.IndexExpr{X: &ast.SelectorExpr{X: ast.NewIdent(pkg), Sel: ast.NewIdent("Chan")}, Index: elem}}
	}
	// expressions: make(chan T[, n]) and <-c ; types: chan T
	var fixExpr func(e ast.Expr) ast.Expr
	fixExpr = func(e ast.Expr) ast.Expr {
		switch x := e.(type) {
		case *ast.ChanType:
			return chanOf(x.Value)
		case *ast.UnaryExpr:
			if x.Op == token.ARROW {
				return &ast.CallExpr{Fun: &ast.SelectorExpr{X: x.X, Sel: ast.NewIdent("Recv")}}
			}
		case *ast.CallExpr:
			if id, ok := x.Fun.(*ast.Ident); ok && id.Name == "make" && len(x.Args) >= 1 {
				if ct, ok := x.Args[0].(*ast.ChanType); ok {
					var n ast.Expr = &ast.BasicLit{Kind: token.INT, Value: "0"}
					if len(x.Args) > 1 {
						n = x.Args[1]
					}
					return &ast.CallExpr{Fun: &ast.IndexExpr{X: &ast.SelectorExpr{X: ast.NewIdent(pkg), Sel: ast.NewIdent("MakeChan")}, Index: ct.Value}, Args: []ast.Expr{n}}
				}
			}
		}
		return e
	}
	ast.Inspect(f, func(nd ast.Node) bool {
		switch x := nd.(type) {
		case *ast.SelectStmt:
			err = fmt.Errorf("chan_pkg: select statements are not supported")
		case *ast.Field:
			x.Type = fixExpr(x.Type)
		case *ast.ValueSpec:
			if x.Type != nil {
				x.Type = fixExpr(x.Type)
			}
			for i := range x.Values {
				x.Values[i] = fixExpr(x.Values[i])
			}
		case *ast.AssignStmt:
			for i := range x.Rhs {
				x.Rhs[i] = fixExpr(x.Rhs[i])
			}
		case *ast.ExprStmt:
			x.X = fixExpr(x.X)
		case *ast.ReturnStmt:
			for i := range x.Results {
				x.Results[i] = fixExpr(x.Results[i])
			}
		case *ast.CallExpr:
			for i := range x.Args {
				x.Args[i] = fixExpr(x.Args[i])
			}
		case *ast.BlockStmt:
			for i, st := range x.List {
				if ss, ok := st.(*ast.SendStmt); ok {
					x.List[i] = &ast.ExprStmt{X: &ast.CallExpr{Fun: &ast.SelectorExpr{X: ss.Chan, Sel: ast.NewIdent("Send")}, Args: []ast.Expr{fixExpr(ss.Value)}}}
				}
			}
		case *ast.CaseClause:
			for i, st := range x.Body {
				if ss, ok := st.(*ast.SendStmt); ok {
					x.Body[i] = &ast.ExprStmt{X: &ast.CallExpr{Fun: &ast.SelectorExpr{X: ss.Chan, Sel: ast.NewIdent("Send")}, Args: []ast.Expr{fixExpr(ss.Value)}}}
				}
			}
		}
		return true
	})
	return err
}
