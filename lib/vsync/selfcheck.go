//go:build verif

package vsync

import (
	"fmt"
	"sort"
	"strings"

	"github.com/icon-project/goloop/verifshim/explore"
)

// SelfCheck runs a set of litmus programs with known answers through the
// explore engine and the vsync shims (a few thousand executions, some ms). A
// check that relies on the engine should call it first and treat an error as a
// harness error. It verifies: completeness of the DFS (every merge of two
// 3-step threads is produced when unbounded), the meaning of the preemption
// bound (a lost update needs exactly one preemption, a lock-order deadlock
// too), mutual exclusion of Mutex, Cond hand-off without lost wake-ups, Chan
// as a semaphore, WaitGroup, Once, replay and divergence detection, and native
// delegation outside an exploration.
func SelfCheck() error {
	// --- native delegation outside an exploration
	{
		var m Mutex
		var wg WaitGroup
		n := 0
		for i := 0; i < 4; i++ {
			wg.Add(1)
			Go(func() {
				defer wg.Done()
				m.Lock()
				n++
				m.Unlock()
			})
		}
		wg.Wait()
		if n != 4 {
			return fmt.Errorf("native delegation: n=%d", n)
		}
		ch := MakeChan[int](1)
		ch.Send(7)
		if ch.Recv() != 7 {
			return fmt.Errorf("native chan")
		}
		if explore.Active() || explore.Choose(3) != 0 {
			return fmt.Errorf("Active()/Choose outside an exploration")
		}
	}

	// --- completeness: all merges of AAA and BBB
	merges := map[string]bool{}
	var gen func(a, b int, s string)
	gen = func(a, b int, s string) {
		if a == 0 && b == 0 {
			merges[s] = true
			return
		}
		if a > 0 {
			gen(a-1, b, s+"A")
		}
		if b > 0 {
			gen(a, b-1, s+"B")
		}
	}
	gen(3, 3, "")
	type logData struct{ log []byte }
	twoThreads := func(x *explore.Exec) {
		d := &logData{}
		x.Data = d
		var wg WaitGroup
		wg.Add(2)
		for _, name := range []byte{'A', 'B'} {
			name := name
			Go(func() {
				for i := 0; i < 3; i++ {
					explore.Point()
					d.log = append(d.log, name)
				}
				wg.Done()
			})
		}
		wg.Wait()
	}
	seen := map[string]bool{}
	res := explore.Explore(explore.Options{MaxPreemptions: -1}, twoThreads, func(x *explore.Exec, o *explore.Outcome) {
		seen[string(x.Data.(*logData).log)] = true
	})
	if !res.Complete || res.Deadlocks+res.Panics+res.Horizons != 0 {
		return fmt.Errorf("merge litmus: %+v", res)
	}
	if len(seen) != len(merges) {
		return fmt.Errorf("merge litmus: %d distinct logs, want %d", len(seen), len(merges))
	}
	for s := range merges {
		if !seen[s] {
			return fmt.Errorf("merge litmus: merge %s never produced", s)
		}
	}
	// bound monotonicity
	var prev int64
	for p := 0; p <= 3; p++ {
		r := explore.Explore(explore.Options{MaxPreemptions: p}, twoThreads, nil)
		if !r.Complete || r.Executions <= prev {
			return fmt.Errorf("bound %d: executions %d (previous bound %d)", p, r.Executions, prev)
		}
		for q, n := range r.ByPreemptions {
			if q > p && n > 0 {
				return fmt.Errorf("bound %d exceeded: %v", p, r.ByPreemptions)
			}
		}
		prev = r.Executions
	}

	// --- lost update needs one preemption
	type intData struct{ v int }
	racy := func(x *explore.Exec) {
		d := &intData{}
		x.Data = d
		var wg WaitGroup
		wg.Add(2)
		for i := 0; i < 2; i++ {
			Go(func() {
				explore.Point()
				tmp := d.v
				explore.Point()
				d.v = tmp + 1
				wg.Done()
			})
		}
		wg.Wait()
	}
	finals := func(p int, body func(x *explore.Exec), opt explore.Options) (map[int]int, explore.Result) {
		out := map[int]int{}
		opt.MaxPreemptions = p
		r := explore.Explore(opt, body, func(x *explore.Exec, o *explore.Outcome) {
			if !o.Aborted() {
				out[x.Data.(*intData).v]++
			}
		})
		return out, r
	}
	if f, _ := finals(0, racy, explore.Options{}); len(f) != 1 || f[2] == 0 {
		return fmt.Errorf("lost update at bound 0: %v", f)
	}
	if f, _ := finals(1, racy, explore.Options{}); f[1] == 0 || f[2] == 0 {
		return fmt.Errorf("lost update not found at bound 1: %v", f)
	}
	// --- the same under a Mutex never loses an update, and threads do block
	locked := func(x *explore.Exec) {
		d := &intData{}
		x.Data = d
		var m Mutex
		var wg WaitGroup
		wg.Add(2)
		for i := 0; i < 2; i++ {
			Go(func() {
				m.Lock()
				explore.Point()
				tmp := d.v
				explore.Point()
				d.v = tmp + 1
				m.Unlock()
				wg.Done()
			})
		}
		wg.Wait()
	}
	for _, skip := range []bool{false, true} {
		f, r := finals(-1, locked, explore.Options{SkipReleasePoints: skip})
		if len(f) != 1 || f[2] == 0 || !r.Complete || r.Deadlocks != 0 {
			return fmt.Errorf("mutex litmus (skipRelease=%v): %v %+v", skip, f, r)
		}
		if r.BlockedByKind["mutex.Lock"] == 0 {
			return fmt.Errorf("mutex litmus: no execution blocked on the mutex")
		}
	}

	// --- lock-order inversion: deadlock at bound 1, none at bound 0
	inversion := func(x *explore.Exec) {
		var a, b Mutex
		var wg WaitGroup
		wg.Add(2)
		Go(func() { a.Lock(); b.Lock(); b.Unlock(); a.Unlock(); wg.Done() })
		Go(func() { b.Lock(); a.Lock(); a.Unlock(); b.Unlock(); wg.Done() })
		wg.Wait()
	}
	if r := explore.Explore(explore.Options{MaxPreemptions: 0}, inversion, nil); r.Deadlocks != 0 || !r.Complete {
		return fmt.Errorf("inversion at bound 0: %+v", r)
	}
	var dlTrace explore.Trace
	r1 := explore.Explore(explore.Options{MaxPreemptions: 1}, inversion, func(x *explore.Exec, o *explore.Outcome) {
		if o.Deadlock && dlTrace == nil {
			dlTrace = append(explore.Trace(nil), o.Trace...)
			if len(o.Waiting) != 3 {
				dlTrace = explore.Trace{}
			}
		}
	})
	if r1.Deadlocks == 0 || !r1.Complete || len(dlTrace) == 0 {
		return fmt.Errorf("inversion at bound 1: deadlock not found: %+v", r1)
	}
	// replay of the deadlocking trace deadlocks again; a corrupted trace is a hard error
	if _, o, err := explore.Replay(dlTrace, explore.Options{}, inversion); err != nil || !o.Deadlock {
		return fmt.Errorf("replay of deadlock trace: err=%v deadlock=%v", err, o.Deadlock)
	}
	bad := append(explore.Trace(nil), dlTrace...)
	bad[0].N += 3
	if _, _, err := explore.Replay(bad, explore.Options{}, inversion); err == nil {
		return fmt.Errorf("corrupted trace replayed without divergence error")
	}
	long := append(append(explore.Trace(nil), dlTrace...), explore.Choice{N: 2, C: 1}, explore.Choice{N: 2, C: 1}, explore.Choice{N: 2, C: 1}, explore.Choice{N: 2, C: 1}, explore.Choice{N: 2, C: 1})
	if _, _, err := explore.Replay(long, explore.Options{}, inversion); err == nil {
		return fmt.Errorf("over-long trace replayed without divergence error")
	}

	// --- Cond hand-off: correct version never deadlocks, flag check outside the lock does
	handoff := func(buggy bool) func(x *explore.Exec) {
		return func(x *explore.Exec) {
			var m Mutex
			c := NewCond(&m)
			ready := false
			d := &intData{}
			x.Data = d
			var wg WaitGroup
			wg.Add(2)
			Go(func() { // consumer
				if buggy {
					explore.Point()
					if !ready { // unlocked check: lost wake-up possible
						m.Lock()
						c.Wait()
						m.Unlock()
					}
				} else {
					m.Lock()
					for !ready {
						c.Wait()
					}
					m.Unlock()
				}
				d.v = 1
				wg.Done()
			})
			Go(func() { // producer
				m.Lock()
				ready = true
				c.Broadcast()
				m.Unlock()
				wg.Done()
			})
			wg.Wait()
		}
	}
	rc := explore.Explore(explore.Options{MaxPreemptions: -1}, handoff(false), nil)
	if !rc.Complete || rc.Deadlocks != 0 || rc.BlockedByKind["cond.Wait"] == 0 {
		return fmt.Errorf("cond litmus (correct): %+v", rc)
	}
	rb := explore.Explore(explore.Options{MaxPreemptions: 2}, handoff(true), nil)
	if !rb.Complete || rb.Deadlocks == 0 {
		return fmt.Errorf("cond litmus (lost wake-up) not detected: %+v", rb)
	}

	// --- Chan as a semaphore of 1 + Once + environment choices
	maxIn := 0
	sem := func(x *explore.Exec) {
		ch := MakeChan[struct{}](1)
		ch.Send(struct{}{})
		in := 0
		var once Once
		inits := 0
		var wg WaitGroup
		d := &intData{}
		x.Data = d
		wg.Add(3)
		for i := 0; i < 3; i++ {
			Go(func() {
				once.Do(func() { explore.Point(); inits++ })
				ch.Recv()
				in++
				if in > maxIn {
					maxIn = in
				}
				explore.Point()
				in--
				ch.Send(struct{}{})
				wg.Done()
			})
		}
		wg.Wait()
		d.v = inits*10 + explore.Choose(3)
	}
	vals := map[int]bool{}
	rs := explore.Explore(explore.Options{MaxPreemptions: 2}, sem, func(x *explore.Exec, o *explore.Outcome) {
		if !o.Aborted() {
			vals[x.Data.(*intData).v] = true
		}
	})
	if !rs.Complete || rs.Deadlocks != 0 || rs.Panics != 0 || maxIn != 1 || rs.BlockedByKind["chan.Recv"] == 0 {
		return fmt.Errorf("chan/once litmus: maxIn=%d %+v", maxIn, rs)
	}
	var vs []string
	for v := range vals {
		vs = append(vs, fmt.Sprint(v))
	}
	sort.Strings(vs)
	if strings.Join(vs, ",") != "10,11,12" {
		return fmt.Errorf("once/choose litmus: values %v", vs)
	}

	// --- unbuffered channel rendezvous and a panicking thread
	rv := explore.Explore(explore.Options{MaxPreemptions: -1}, func(x *explore.Exec) {
		ch := MakeChan[int](0)
		d := &intData{}
		x.Data = d
		Go(func() { ch.Send(41) })
		d.v = ch.Recv() + 1
	}, func(x *explore.Exec, o *explore.Outcome) {
		if x.Data.(*intData).v != 42 {
			vals[-1] = true
		}
	})
	if !rv.Complete || rv.Deadlocks != 0 || vals[-1] {
		return fmt.Errorf("rendezvous litmus: %+v", rv)
	}
	rp := explore.Explore(explore.Options{MaxPreemptions: 1}, func(x *explore.Exec) {
		var m Mutex
		Go(func() {
			m.Lock()
			defer m.Unlock()
			var p *intData
			p.v = 1 // nil dereference
		})
		m.Lock()
		m.Unlock()
	}, nil)
	if !rp.Complete || rp.Panics == 0 {
		return fmt.Errorf("panic litmus: %+v", rp)
	}

	// --- determinism self-test helper itself
	if err := explore.SelfTest(explore.Options{}, twoThreads, func(x *explore.Exec, o *explore.Outcome) string {
		return string(x.Data.(*logData).log)
	}); err != nil {
		return err
	}
	return nil
}
