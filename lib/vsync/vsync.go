//go:build verif

// Package vsync is a drop-in replacement for package sync (plus Go and a
// channel type) whose operations are scheduling points of the explore engine.
//
// A file of the code under test is switched onto it by an import rewrite in the
// check's recipe ("sync" -> ".../verifshim/vsync", local name kept), see
// lib/explore/README.md. When the calling goroutine is not a managed thread of a
// running exploration, every operation simply delegates to the real sync
// primitive embedded in the object, so code running before/after an exploration,
// on unmanaged goroutines, or in a free-running -race pass behaves natively.
//
// An object must not carry *held* state across the boundary (e.g. be locked
// natively and unlocked inside an exploration); objects are normally created
// inside the execution body, which makes that impossible.
package vsync

import (
	"fmt"
	"sync"

	"github.com/icon-project/goloop/verifshim/explore"
)

// Re-exports so that a rewritten file keeps compiling whatever it uses.
type (
	Locker = sync.Locker
	Map    = sync.Map
	Pool   = sync.Pool
)

// Go starts fn as a managed thread inside an exploration, as a plain goroutine
// otherwise. (verifgen's go_stmt rewrite targets this function.)
func Go(fn func()) { explore.Go(fn) }

// ---------------------------------------------------------------------------
// Mutex

type Mutex struct {
	real  sync.Mutex
	held  bool
	owner int
}

func (m *Mutex) Lock() {
	t := explore.Self()
	if t == nil {
		m.real.Lock()
		return
	}
	if t.Aborting() {
		return
	}
	t.Yield(explore.KMutexLock, "", func() bool { return !m.held })
	m.held = true
	m.owner = t.ID()
}

func (m *Mutex) TryLock() bool {
	t := explore.Self()
	if t == nil {
		return m.real.TryLock()
	}
	if t.Aborting() {
		return true
	}
	t.Yield(explore.KMutexLock, "try", nil)
	if m.held {
		return false
	}
	m.held = true
	m.owner = t.ID()
	return true
}

func (m *Mutex) Unlock() {
	t := explore.Self()
	if t == nil {
		m.real.Unlock()
		return
	}
	if t.Aborting() {
		return
	}
	t.Yield(explore.KMutexUnlock, "", nil)
	if !m.held {
		panic("vsync: unlock of unlocked Mutex")
	}
	m.held = false
}

// ---------------------------------------------------------------------------
// RWMutex (no writer preference is modelled: a waiting writer does not block
// new readers, which is a superset of the real behaviours except for deadlocks
// caused by recursive read locking).

type RWMutex struct {
	real    sync.RWMutex
	writer  bool
	readers int
}

func (m *RWMutex) Lock() {
	t := explore.Self()
	if t == nil {
		m.real.Lock()
		return
	}
	if t.Aborting() {
		return
	}
	t.Yield(explore.KMutexLock, "rw", func() bool { return !m.writer && m.readers == 0 })
	m.writer = true
}

func (m *RWMutex) TryLock() bool {
	t := explore.Self()
	if t == nil {
		return m.real.TryLock()
	}
	if t.Aborting() {
		return true
	}
	t.Yield(explore.KMutexLock, "rwtry", nil)
	if m.writer || m.readers > 0 {
		return false
	}
	m.writer = true
	return true
}

func (m *RWMutex) Unlock() {
	t := explore.Self()
	if t == nil {
		m.real.Unlock()
		return
	}
	if t.Aborting() {
		return
	}
	t.Yield(explore.KMutexUnlock, "rw", nil)
	if !m.writer {
		panic("vsync: Unlock of unlocked RWMutex")
	}
	m.writer = false
}

func (m *RWMutex) RLock() {
	t := explore.Self()
	if t == nil {
		m.real.RLock()
		return
	}
	if t.Aborting() {
		return
	}
	t.Yield(explore.KRLock, "", func() bool { return !m.writer })
	m.readers++
}

func (m *RWMutex) TryRLock() bool {
	t := explore.Self()
	if t == nil {
		return m.real.TryRLock()
	}
	if t.Aborting() {
		return true
	}
	t.Yield(explore.KRLock, "try", nil)
	if m.writer {
		return false
	}
	m.readers++
	return true
}

func (m *RWMutex) RUnlock() {
	t := explore.Self()
	if t == nil {
		m.real.RUnlock()
		return
	}
	if t.Aborting() {
		return
	}
	t.Yield(explore.KRUnlock, "", nil)
	if m.readers <= 0 {
		panic("vsync: RUnlock of unlocked RWMutex")
	}
	m.readers--
}

type rlocker RWMutex

func (r *rlocker) Lock()   { (*RWMutex)(r).RLock() }
func (r *rlocker) Unlock() { (*RWMutex)(r).RUnlock() }

func (m *RWMutex) RLocker() Locker { return (*rlocker)(m) }

// ---------------------------------------------------------------------------
// Cond

type condWaiter struct{ signaled bool }

type Cond struct {
	L Locker

	real    *sync.Cond
	once    sync.Once
	waiters []*condWaiter
}

func NewCond(l Locker) *Cond { return &Cond{L: l} }

func (c *Cond) native() *sync.Cond {
	c.once.Do(func() { c.real = sync.NewCond(c.L) })
	return c.real
}

// Wait mirrors sync.Cond.Wait: the waiter is registered *before* L is released
// (no lost wake-up), then the thread waits for a Signal/Broadcast, then
// re-acquires L. Each of the three steps is a scheduling point.
func (c *Cond) Wait() {
	t := explore.Self()
	if t == nil {
		c.native().Wait()
		return
	}
	if t.Aborting() {
		return
	}
	w := &condWaiter{}
	c.waiters = append(c.waiters, w)
	c.L.Unlock()
	t.Yield(explore.KCondWait, "", func() bool { return w.signaled })
	c.L.Lock()
}

func (c *Cond) Signal() {
	t := explore.Self()
	if t == nil {
		c.native().Signal()
		return
	}
	if t.Aborting() {
		return
	}
	t.Yield(explore.KCondSignal, "", nil)
	if len(c.waiters) > 0 {
		c.waiters[0].signaled = true
		c.waiters = c.waiters[1:]
	}
}

func (c *Cond) Broadcast() {
	t := explore.Self()
	if t == nil {
		c.native().Broadcast()
		return
	}
	if t.Aborting() {
		return
	}
	t.Yield(explore.KCondBroadcast, "", nil)
	for _, w := range c.waiters {
		w.signaled = true
	}
	c.waiters = nil
}

// ---------------------------------------------------------------------------
// WaitGroup

type WaitGroup struct {
	real sync.WaitGroup
	n    int
}

func (wg *WaitGroup) Add(delta int) {
	t := explore.Self()
	if t == nil {
		wg.real.Add(delta)
		return
	}
	if t.Aborting() {
		return
	}
	t.Yield(explore.KWGAdd, "", nil)
	wg.n += delta
	if wg.n < 0 {
		panic("vsync: negative WaitGroup counter")
	}
}

func (wg *WaitGroup) Done() { wg.Add(-1) }

func (wg *WaitGroup) Wait() {
	t := explore.Self()
	if t == nil {
		wg.real.Wait()
		return
	}
	if t.Aborting() {
		return
	}
	t.Yield(explore.KWGWait, "", func() bool { return wg.n == 0 })
}

// ---------------------------------------------------------------------------
// Once

type Once struct {
	real    sync.Once
	done    bool
	running bool
}

func (o *Once) Do(f func()) {
	t := explore.Self()
	if t == nil {
		o.real.Do(f)
		return
	}
	if t.Aborting() {
		return
	}
	t.Yield(explore.KOnce, "", func() bool { return !o.running })
	if o.done {
		return
	}
	o.running = true
	defer func() {
		o.done = true
		o.running = false
	}()
	f()
}

// ---------------------------------------------------------------------------
// Chan: a channel whose operations are scheduling points. It replaces a native
// channel in rewritten code through literal `replace` entries of the recipe:
//
//	make(chan T, n)  ->  sync.MakeChan[T](n)
//	ch <- v          ->  ch.Send(v)
//	<-ch             ->  ch.Recv()
//	v, ok := <-ch    ->  v, ok := ch.Recv2()
//	close(ch)        ->  ch.Close()
//
// (select is not modelled; TrySend/TryRecv cover select-with-default.)

type chanItem[T any] struct {
	v     T
	taken bool
}

type Chan[T any] struct {
	real   chan T
	cap    int
	buf    []*chanItem[T]
	closed bool
}

func MakeChan[T any](n int) *Chan[T] {
	return &Chan[T]{real: make(chan T, n), cap: n}
}

func (c *Chan[T]) Send(v T) {
	t := explore.Self()
	if t == nil {
		c.real <- v
		return
	}
	if t.Aborting() {
		return
	}
	if c.cap > 0 {
		t.Yield(explore.KChanSend, "", func() bool { return c.closed || len(c.buf) < c.cap })
		if c.closed {
			panic("send on closed channel")
		}
		c.buf = append(c.buf, &chanItem[T]{v: v})
		return
	}
	// unbuffered: offer the value, then wait until a receiver has taken it
	t.Yield(explore.KChanSend, "offer", func() bool { return c.closed || len(c.buf) == 0 })
	if c.closed {
		panic("send on closed channel")
	}
	it := &chanItem[T]{v: v}
	c.buf = append(c.buf, it)
	t.Yield(explore.KChanSend, "rendezvous", func() bool { return it.taken })
}

// TrySend is `select { case ch <- v: default: }`.
func (c *Chan[T]) TrySend(v T) bool {
	t := explore.Self()
	if t == nil {
		select {
		case c.real <- v:
			return true
		default:
			return false
		}
	}
	if t.Aborting() {
		return false
	}
	t.Yield(explore.KChanSend, "try", nil)
	if c.closed {
		panic("send on closed channel")
	}
	if c.cap > 0 && len(c.buf) < c.cap {
		c.buf = append(c.buf, &chanItem[T]{v: v})
		return true
	}
	return false
}

func (c *Chan[T]) Recv() T {
	v, _ := c.Recv2()
	return v
}

func (c *Chan[T]) Recv2() (T, bool) {
	var zero T
	t := explore.Self()
	if t == nil {
		v, ok := <-c.real
		return v, ok
	}
	if t.Aborting() {
		return zero, false
	}
	t.Yield(explore.KChanRecv, "", func() bool { return c.closed || len(c.buf) > 0 })
	if len(c.buf) == 0 {
		return zero, false
	}
	it := c.buf[0]
	c.buf = c.buf[1:]
	it.taken = true
	return it.v, true
}

// TryRecv is `select { case v, ok = <-ch: default: }`; got=false means default.
func (c *Chan[T]) TryRecv() (v T, ok bool, got bool) {
	t := explore.Self()
	if t == nil {
		select {
		case v, ok = <-c.real:
			return v, ok, true
		default:
			return v, false, false
		}
	}
	if t.Aborting() {
		return v, false, false
	}
	t.Yield(explore.KChanRecv, "try", nil)
	if len(c.buf) > 0 {
		it := c.buf[0]
		c.buf = c.buf[1:]
		it.taken = true
		return it.v, true, true
	}
	if c.closed {
		return v, false, true
	}
	return v, false, false
}

func (c *Chan[T]) Close() {
	t := explore.Self()
	if t == nil {
		close(c.real)
		return
	}
	if t.Aborting() {
		return
	}
	t.Yield(explore.KChanClose, "", nil)
	if c.closed {
		panic("close of closed channel")
	}
	c.closed = true
}

func (c *Chan[T]) Len() int {
	if explore.Self() == nil {
		return len(c.real)
	}
	return len(c.buf)
}

func (c *Chan[T]) Cap() int { return c.cap }

func (c *Chan[T]) String() string { return fmt.Sprintf("vsync.Chan(cap=%d)", c.cap) }
