//go:build verif

// Package hist is the "history family" helper shared by checks of pure
// functions / codecs: it runs every ordered pair (and, for a subset, triple)
// of calls from a finite alphabet on ONE pinned goroutine and requires that the
// result of the last call does not depend on the calls before it. It exists to
// expose state that survives between calls (sync.Pool objects, package-level
// scratch values, lazily built tables).
package hist

import (
	"fmt"
	"runtime"
	"runtime/debug"
)

// Call is one element of the alphabet. Run must be deterministic and return a
// canonical description of everything the call returned (value, error, rest).
// If HasWant is set, Want is the result required by an oracle that is
// independent of the code under test; otherwise the first observed result is
// the baseline and every other history must reproduce it.
type Call struct {
	Name    string
	Class   string // coarse class used in violation signatures
	Run     func() string
	Want    string
	HasWant bool
}

// Pin locks the goroutine to its thread, leaves a single P (so that a
// sync.Pool hands back the object that was just put) and switches the
// automatic collector off (so that pooled objects are not dropped between two
// calls). The returned function restores everything.
func Pin() func() {
	runtime.LockOSThread()
	procs := runtime.GOMAXPROCS(1)
	gc := debug.SetGCPercent(-1)
	return func() {
		debug.SetGCPercent(gc)
		runtime.GOMAXPROCS(procs)
		runtime.UnlockOSThread()
	}
}

// Report is called for every history whose last result is wrong.
type Report func(sig, detail string, names []string, expected string)

// Sequence runs the calls idx in order and returns the result of the last one.
func Sequence(calls []Call, idx []int) string {
	var res string
	for _, i := range idx {
		res = calls[i].Run()
	}
	return res
}

// Explore runs all ordered pairs over calls and all ordered triples over the
// sub-alphabet triple (indices into calls). gcEvery > 0 runs a collection
// every gcEvery histories, always BETWEEN histories. stop may end the
// exploration early (returns false then). It returns the number of histories.
func Explore(calls []Call, triple []int, gcEvery int, stop func() bool, report Report) (n int, complete bool) {
	base := make([]string, len(calls))
	have := make([]bool, len(calls))
	for i, c := range calls {
		if c.HasWant {
			base[i], have[i] = c.Want, true
		}
	}
	check := func(seq []int, got string) {
		b := seq[len(seq)-1]
		if !have[b] {
			base[b], have[b] = got, true
			return
		}
		if got == base[b] {
			return
		}
		names := make([]string, len(seq))
		classes := ""
		for i, s := range seq {
			names[i] = calls[s].Name
			if i < len(seq)-1 {
				if classes != "" {
					classes += ","
				}
				classes += calls[s].Class
			}
		}
		kind := "differs-from-other-histories"
		if calls[b].HasWant {
			kind = "wrong-result"
		}
		report(fmt.Sprintf("result-depends-on-history:%s:%s:after-%s", kind, calls[b].Class, classes),
			fmt.Sprintf("history %v: last call returned %s, expected %s", names, short(got), short(base[b])), names, base[b])
	}
	tick := func() {
		n++
		if gcEvery > 0 && n%gcEvery == 0 {
			runtime.GC()
		}
	}
	// singles first: every call once, in order (baseline for calls without an oracle)
	for i := range calls {
		check([]int{i}, calls[i].Run())
		tick()
	}
	for a := range calls {
		if stop != nil && stop() {
			return n, false
		}
		for b := range calls {
			calls[a].Run()
			check([]int{a, b}, calls[b].Run())
			tick()
		}
	}
	for _, a := range triple {
		if stop != nil && stop() {
			return n, false
		}
		for _, b := range triple {
			for _, c := range triple {
				calls[a].Run()
				calls[b].Run()
				check([]int{a, b, c}, calls[c].Run())
				tick()
			}
		}
	}
	return n, true
}

func short(s string) string {
	if len(s) > 160 {
		return s[:160] + fmt.Sprintf("…(%d chars)", len(s))
	}
	return s
}
