//go:build verif

package crashfs

import (
	"crypto/sha256"
	"encoding/binary"
	"encoding/hex"
	"fmt"
	"path"
	"sort"
	"strings"
)

// Image is a complete file-system content (a crash image, or a snapshot). All of
// it is durable when an instance is created from it.
type Image struct {
	Dirs  []string          // directories (parents are implied)
	Files map[string][]byte // path inside the instance -> content
}

// Clone returns a deep copy.
func (m *Image) Clone() *Image {
	c := &Image{Dirs: append([]string(nil), m.Dirs...), Files: make(map[string][]byte, len(m.Files))}
	for p, b := range m.Files {
		c.Files[p] = append([]byte(nil), b...)
	}
	return c
}

// Key returns a canonical digest of the image (directories, names, contents);
// equal images have equal keys on every instance / mount prefix.
func (m *Image) Key() string {
	h := sha256.New()
	var n [8]byte
	ds := append([]string(nil), m.Dirs...)
	sort.Strings(ds)
	for _, d := range ds {
		h.Write([]byte("D" + d + "\x00"))
	}
	names := make([]string, 0, len(m.Files))
	for p := range m.Files {
		names = append(names, p)
	}
	sort.Strings(names)
	for _, p := range names {
		h.Write([]byte("F" + p + "\x00"))
		binary.BigEndian.PutUint64(n[:], uint64(len(m.Files[p])))
		h.Write(n[:])
		h.Write(m.Files[p])
	}
	return hex.EncodeToString(h.Sum(nil)[:16])
}

// Describe is a one-line human summary: "name:len name:len".
func (m *Image) Describe() string {
	names := make([]string, 0, len(m.Files))
	for p := range m.Files {
		names = append(names, p)
	}
	sort.Strings(names)
	var sb strings.Builder
	for i, p := range names {
		if i > 0 {
			sb.WriteByte(' ')
		}
		fmt.Fprintf(&sb, "%s:%d", p, len(m.Files[p]))
	}
	return sb.String()
}

// FileCrashState is what is known about one file at a crash point.
type FileCrashState struct {
	Path    string
	Data    []byte // volatile content at the crash point
	Durable int    // Data[:Durable] survives for sure
	// WriteEnds are the offsets (> Durable) at which a Write call ended inside
	// the un-synced suffix; offsets between them are "inside one write call".
	WriteEnds []int
}

// Unsynced returns the length of the un-synced suffix.
func (s *FileCrashState) Unsynced() int { return len(s.Data) - s.Durable }

// State is the file system at one crash point of a recorded history: the
// namespace is exact (directory operations are durable once issued), every file
// has a durable part and an un-synced suffix of which any prefix may survive.
type State struct {
	LogIdx int
	Dirs   []string
	Files  []FileCrashState // sorted by path; only files that still have a name
}

// replayState is the mutable form used while applying the log.
type replayState struct {
	names map[string]*rinode
	dirs  map[string]bool
	byIno map[int]*rinode
	next  int
}

type rinode struct {
	data      []byte
	durable   int
	writeEnds []int
}

func newReplay(base *Image) *replayState {
	r := &replayState{names: map[string]*rinode{}, dirs: map[string]bool{"/": true}, byIno: map[int]*rinode{}}
	mk := func(p string) {
		for p != "/" && p != "." {
			r.dirs[p] = true
			p = path.Dir(p)
		}
	}
	if base != nil {
		for _, d := range base.Dirs {
			mk(clean(d))
		}
		names := make([]string, 0, len(base.Files))
		for p := range base.Files {
			names = append(names, p)
		}
		sort.Strings(names)
		for _, p := range names { // same inode numbering as FromImage
			cp := clean(p)
			mk(path.Dir(cp))
			b := append([]byte(nil), base.Files[p]...)
			in := &rinode{data: b, durable: len(b)}
			r.names[cp] = in
			r.byIno[r.next] = in
			r.next++
		}
	}
	return r
}

func (r *replayState) apply(o Op) {
	switch o.Kind {
	case OpMkdir:
		for p := o.Path; p != "/" && p != "."; p = path.Dir(p) {
			r.dirs[p] = true
		}
	case OpCreate:
		in := &rinode{}
		r.names[o.Path] = in
		r.byIno[o.Ino] = in
		if o.Ino >= r.next {
			r.next = o.Ino + 1
		}
	case OpWrite:
		in := r.byIno[o.Ino]
		writeAt(&in.data, &in.durable, o.Off, o.Data)
		in.writeEnds = append(in.writeEnds, int(o.Off)+len(o.Data))
	case OpSync:
		in := r.byIno[o.Ino]
		in.durable = len(in.data)
		in.writeEnds = nil
	case OpTruncate:
		in := r.byIno[o.Ino]
		n := int(o.Size)
		if n <= len(in.data) {
			in.data = in.data[:n:n]
			if in.durable > n {
				in.durable = n
			}
			keep := in.writeEnds[:0:0]
			for _, e := range in.writeEnds {
				if e < n {
					keep = append(keep, e)
				}
			}
			in.writeEnds = keep
		} else {
			in.data = append(in.data, make([]byte, n-len(in.data))...)
		}
	case OpRemove:
		delete(r.names, o.Path)
		delete(r.dirs, o.Path)
	case OpRemoveAll:
		pre := o.Path + "/"
		for q := range r.names {
			if q == o.Path || strings.HasPrefix(q, pre) {
				delete(r.names, q)
			}
		}
		for d := range r.dirs {
			if d != "/" && (d == o.Path || strings.HasPrefix(d, pre)) {
				delete(r.dirs, d)
			}
		}
	}
}

func (r *replayState) state(k int) *State {
	s := &State{LogIdx: k}
	for d := range r.dirs {
		if d != "/" {
			s.Dirs = append(s.Dirs, d)
		}
	}
	sort.Strings(s.Dirs)
	for p, in := range r.names {
		fc := FileCrashState{Path: p, Data: append([]byte(nil), in.data...), Durable: in.durable}
		for _, e := range in.writeEnds {
			if e > in.durable && e <= len(in.data) {
				fc.WriteEnds = append(fc.WriteEnds, e)
			}
		}
		s.Files = append(s.Files, fc)
	}
	sort.Slice(s.Files, func(i, j int) bool { return s.Files[i].Path < s.Files[j].Path })
	return s
}

// StateAt reconstructs the file system at crash point k (0 <= k <= LogLen()):
// the first k logged calls have been applied, the (k+1)-th has not started.
func (f *FS) StateAt(k int) *State {
	f.mu.Lock()
	base, log := f.base, f.log
	if k < 0 || k > len(log) {
		f.mu.Unlock()
		panic(fmt.Sprintf("crashfs.StateAt(%d): log has %d entries", k, len(log)))
	}
	log = log[:k:k]
	f.mu.Unlock()
	r := newReplay(base)
	for _, o := range log {
		r.apply(o)
	}
	return r.state(k)
}

// StatesFrom reconstructs the states at crash points from..to (inclusive) in one
// pass over the log and hands each to fn.
func (f *FS) StatesFrom(from, to int, fn func(*State)) {
	f.mu.Lock()
	base, log := f.base, append([]Op(nil), f.log...)
	f.mu.Unlock()
	if from < 0 || to > len(log) || from > to {
		panic(fmt.Sprintf("crashfs.StatesFrom(%d,%d): log has %d entries", from, to, len(log)))
	}
	r := newReplay(base)
	for i := 0; i <= to; i++ {
		if i >= from {
			fn(r.state(i))
		}
		if i < to {
			r.apply(log[i])
		}
	}
}

// CrashState is StateAt(LogLen()): the state at the instant of a FailAfter
// crash, or "crash now" for a live instance.
func (f *FS) CrashState() *State { return f.StateAt(f.LogLen()) }

// Tear says how much of one file's un-synced suffix survived in an image.
type Tear struct {
	Path     string
	Durable  int // length that was durable anyway
	Full     int // volatile length at the crash point
	Survived int // length of the file in the image (Durable <= Survived <= Full)
	Zeroed   int // the last Zeroed bytes of the surviving content read as zeros (ZeroTails family), else 0
}

// TearOptions selects the surviving lengths that are enumerated per file.
type TearOptions struct {
	// AllUpTo: when the un-synced suffix is at most this long every surviving
	// length is enumerated (default 64).
	AllUpTo int
	// Around: for longer suffixes, the surviving lengths are Durable+0,
	// Durable+1, Full-1, Full and b+d for every boundary b (Durable, every write
	// call end, every offset returned by Boundaries, Full) and every d in Around
	// (default -1, 0, 1, 7, 8, 9: one byte short, exact, one byte over, and a
	// torn / complete / just exceeded 8-byte header).
	Around []int
	// Boundaries may return additional interesting absolute offsets inside a
	// file (e.g. record boundaries known to the harness).
	Boundaries func(fc *FileCrashState) []int
	// MaxProduct bounds the cartesian product over several files with an
	// un-synced suffix (0 = unbounded). When the product is larger, Images
	// falls back to "one file varies over all its candidate lengths while
	// every other file keeps either nothing or all of its un-synced suffix"
	// and State.Reduced reports true (the run is then not exhaustive).
	MaxProduct int
	// ZeroTails, when non-nil, adds the optional crash-image family "zero-filled
	// tail" (size metadata may become durable before the data: the file
	// survives to length survived, but the last z bytes of it read as zeros).
	// For every candidate surviving length the callback returns the z values to
	// enumerate in addition to z = 0. crashfs only enforces that the zeroed
	// bytes lie inside the un-synced suffix (z <= survived-Durable, z > 0); which
	// bytes may soundly be zeroed depends on the format and is the harness's
	// decision (see FramedZeroTails for length-prefixed records).
	ZeroTails func(fc *FileCrashState, survived int) []int
}

// FramedZeroTails returns a ZeroTails callback for files made of records
// "headerLen bytes of header, payload", where payloadLen(header) gives the
// payload length: zeros are confined to the payload of the record in which the
// surviving content ends, and only if that record's header survived intact and
// is itself un-synced data; z is 1, half and all of the surviving payload bytes
// of that record. A header byte is never zeroed.
func FramedZeroTails(headerLen int, payloadLen func(header []byte) int) func(fc *FileCrashState, survived int) []int {
	return func(fc *FileCrashState, survived int) []int {
		off := 0
		for off+headerLen <= len(fc.Data) {
			n := payloadLen(fc.Data[off : off+headerLen])
			end := off + headerLen + n
			if survived <= off+headerLen {
				return nil // ends before / inside / right after a header: no payload byte survived
			}
			if survived <= end || end > len(fc.Data) {
				p := survived - (off + headerLen) // surviving payload bytes of this record
				if lim := survived - fc.Durable; p > lim {
					p = lim // only un-synced bytes can be affected
				}
				var out []int
				for _, z := range []int{1, p / 2, p} {
					if z > 0 && (len(out) == 0 || out[len(out)-1] != z) {
						out = append(out, z)
					}
				}
				return out
			}
			off = end
		}
		return nil
	}
}

type tearChoice struct{ l, z int }

// choices returns the (surviving length, zeroed tail) candidates of one file.
func (o *TearOptions) choices(fc *FileCrashState) []tearChoice {
	lens := o.SurvivingLengths(fc)
	out := make([]tearChoice, 0, len(lens))
	for _, l := range lens {
		out = append(out, tearChoice{l, 0})
		if o != nil && o.ZeroTails != nil {
			for _, z := range o.ZeroTails(fc, l) {
				if z > 0 && z <= l-fc.Durable {
					out = append(out, tearChoice{l, z})
				}
			}
		}
	}
	return out
}

func (c tearChoice) bytes(fc *FileCrashState) []byte {
	b := append([]byte(nil), fc.Data[:c.l]...)
	for i := c.l - c.z; i < c.l; i++ {
		b[i] = 0
	}
	return b
}

// SurvivingLengths returns the sorted candidate lengths for one file.
func (o *TearOptions) SurvivingLengths(fc *FileCrashState) []int {
	all := 64
	around := []int{-1, 0, 1, 7, 8, 9}
	if o != nil && o.AllUpTo > 0 {
		all = o.AllUpTo
	}
	if o != nil && o.Around != nil {
		around = o.Around
	}
	full := len(fc.Data)
	if full-fc.Durable <= all {
		out := make([]int, 0, full-fc.Durable+1)
		for l := fc.Durable; l <= full; l++ {
			out = append(out, l)
		}
		return out
	}
	set := map[int]bool{fc.Durable: true, fc.Durable + 1: true, full - 1: true, full: true}
	bs := []int{fc.Durable, full}
	bs = append(bs, fc.WriteEnds...)
	if o != nil && o.Boundaries != nil {
		bs = append(bs, o.Boundaries(fc)...)
	}
	for _, b := range bs {
		for _, d := range around {
			if l := b + d; l >= fc.Durable && l <= full {
				set[l] = true
			}
		}
	}
	out := make([]int, 0, len(set))
	for l := range set {
		out = append(out, l)
	}
	sort.Ints(out)
	return out
}

// Exhaustive reports whether every surviving length of every file is among the
// candidates (no suffix longer than AllUpTo).
func (s *State) Exhaustive(o *TearOptions) bool {
	all := 64
	if o != nil && o.AllUpTo > 0 {
		all = o.AllUpTo
	}
	for i := range s.Files {
		if s.Files[i].Unsynced() > all {
			return false
		}
	}
	return true
}

// Reduced reports whether Images will use the reduced multi-file enumeration
// because the full product exceeds o.MaxProduct.
func (s *State) Reduced(o *TearOptions) bool {
	if o == nil || o.MaxProduct <= 0 {
		return false
	}
	prod := 1
	for i := range s.Files {
		if s.Files[i].Unsynced() > 0 {
			prod *= len(o.choices(&s.Files[i]))
			if prod > o.MaxProduct {
				return true
			}
		}
	}
	return false
}

// Images enumerates the crash images of the state: the cartesian product, over
// all files with an un-synced suffix, of the candidate surviving lengths (and,
// with ZeroTails, zero-filled tails). fn receives a fresh image (it may keep
// it) and the tears that produced it; returning false stops the enumeration.
// The number of images is returned.
func (s *State) Images(o *TearOptions, fn func(img *Image, tears []Tear) bool) int {
	type cand struct {
		idx  int
		opts []tearChoice
	}
	var cands []cand
	for i := range s.Files {
		if s.Files[i].Unsynced() > 0 {
			cands = append(cands, cand{i, o.choices(&s.Files[i])})
		}
	}
	build := func(pick func(ci int) tearChoice) (*Image, []Tear) {
		img := &Image{Dirs: append([]string(nil), s.Dirs...), Files: make(map[string][]byte, len(s.Files))}
		for i := range s.Files {
			if s.Files[i].Unsynced() == 0 {
				img.Files[s.Files[i].Path] = append([]byte(nil), s.Files[i].Data...)
			}
		}
		tears := make([]Tear, len(cands))
		for ci, c := range cands {
			fc := &s.Files[c.idx]
			ch := pick(ci)
			img.Files[fc.Path] = ch.bytes(fc)
			tears[ci] = Tear{Path: fc.Path, Durable: fc.Durable, Full: len(fc.Data), Survived: ch.l, Zeroed: ch.z}
		}
		return img, tears
	}
	n := 0
	if s.Reduced(o) {
		// one file varies, the others keep nothing / everything
		seen := map[string]bool{}
		for vi := range cands {
			for _, othersFull := range []bool{false, true} {
				for _, ch := range cands[vi].opts {
					img, tears := build(func(ci int) tearChoice {
						fc := &s.Files[cands[ci].idx]
						switch {
						case ci == vi:
							return ch
						case othersFull:
							return tearChoice{len(fc.Data), 0}
						}
						return tearChoice{fc.Durable, 0}
					})
					key := ""
					for _, t := range tears {
						key += fmt.Sprintf("%d/%d,", t.Survived, t.Zeroed)
					}
					if seen[key] {
						continue
					}
					seen[key] = true
					n++
					if !fn(img, tears) {
						return n
					}
				}
			}
		}
		return n
	}
	choice := make([]int, len(cands))
	for {
		img, tears := build(func(ci int) tearChoice { return cands[ci].opts[choice[ci]] })
		n++
		if !fn(img, tears) {
			return n
		}
		ci := 0
		for ; ci < len(cands); ci++ {
			choice[ci]++
			if choice[ci] < len(cands[ci].opts) {
				break
			}
			choice[ci] = 0
		}
		if ci == len(cands) {
			return n
		}
	}
}

// ImageWith builds the single crash image in which the files named in survive
// keep exactly that many bytes (clamped to [Durable, Full]) and every other file
// keeps its durable part only. Used by replays.
func (s *State) ImageWith(survive map[string]int) *Image {
	img := &Image{Dirs: append([]string(nil), s.Dirs...), Files: make(map[string][]byte, len(s.Files))}
	for i := range s.Files {
		fc := &s.Files[i]
		l := fc.Durable
		if v, ok := survive[fc.Path]; ok {
			if v < fc.Durable {
				v = fc.Durable
			}
			if v > len(fc.Data) {
				v = len(fc.Data)
			}
			l = v
		}
		img.Files[fc.Path] = append([]byte(nil), fc.Data[:l]...)
	}
	return img
}

// ImageWithZero is ImageWith plus zero-filled tails: zero[path] trailing bytes
// of the surviving content of that file read as zeros (clamped to the un-synced
// part). Used by replays of ZeroTails images.
func (s *State) ImageWithZero(survive, zero map[string]int) *Image {
	img := s.ImageWith(survive)
	for i := range s.Files {
		fc := &s.Files[i]
		z := zero[fc.Path]
		b := img.Files[fc.Path]
		if z > len(b)-fc.Durable {
			z = len(b) - fc.Durable
		}
		for j := len(b) - z; j < len(b) && z > 0; j++ {
			b[j] = 0
		}
	}
	return img
}
