//go:build verif

package crashfs

import "fmt"

// OpKind names a mutating file-system call.
type OpKind uint8

const (
	OpMkdir     OpKind = iota + 1 // a directory (and its missing parents) was created
	OpCreate                      // OpenFile(O_CREATE) created a new, empty file
	OpWrite                       // File.Write appended Data to the file
	OpSync                        // File.Sync made the whole content durable
	OpTruncate                    // Truncate / O_TRUNC cut (or zero-extended) the file to Size
	OpRemove                      // Remove unlinked a file or an empty directory
	OpRemoveAll                   // RemoveAll unlinked a whole subtree
)

func (k OpKind) String() string {
	switch k {
	case OpMkdir:
		return "mkdir"
	case OpCreate:
		return "create"
	case OpWrite:
		return "write"
	case OpSync:
		return "sync"
	case OpTruncate:
		return "truncate"
	case OpRemove:
		return "remove"
	case OpRemoveAll:
		return "removeall"
	}
	return fmt.Sprintf("op%d", uint8(k))
}

// Op is one logged mutating call. Only calls that succeeded are logged (a call
// that returns an error changes nothing).
type Op struct {
	Kind OpKind
	Path string // path inside the instance at the time of the call
	Ino  int    // inode the call acted on (create/write/sync/truncate), -1 otherwise
	Data []byte // OpWrite: the bytes written
	Off  int64  // OpWrite: file offset of the write (the old length for appends)
	Size int64  // OpTruncate: new size
}

func (o Op) String() string {
	switch o.Kind {
	case OpWrite:
		return fmt.Sprintf("write(%s,%dB)", o.Path, len(o.Data))
	case OpTruncate:
		return fmt.Sprintf("truncate(%s,%d)", o.Path, o.Size)
	}
	return fmt.Sprintf("%s(%s)", o.Kind, o.Path)
}

// Mark is an operation boundary placed by the harness: everything logged from
// LogIdx on belongs to the operation called Label (until the next mark).
type Mark struct {
	LogIdx int
	Label  string
}

// Mark records an operation boundary at the current end of the log and returns
// the log length (= the crash point "before the next operation").
func (f *FS) Mark(label string) int {
	f.mu.Lock()
	defer f.mu.Unlock()
	f.marks = append(f.marks, Mark{LogIdx: len(f.log), Label: label})
	return len(f.log)
}

// Marks returns a copy of the operation boundaries.
func (f *FS) Marks() []Mark {
	f.mu.Lock()
	defer f.mu.Unlock()
	return append([]Mark(nil), f.marks...)
}

// Log returns a copy of the operation log (Data slices are shared, do not modify).
func (f *FS) Log() []Op {
	f.mu.Lock()
	defer f.mu.Unlock()
	return append([]Op(nil), f.log...)
}

// LogLen returns the number of mutating calls logged so far. Every value in
// [0, LogLen()] is a crash point of the recorded history.
func (f *FS) LogLen() int {
	f.mu.Lock()
	defer f.mu.Unlock()
	return len(f.log)
}

// ---- crash injection ---------------------------------------------------------

// FailMode selects what the crashing call does.
type FailMode uint8

const (
	// FailPanic: the crashing call panics with a *Crash value (recover it with
	// crashfs.Catch). Deferred unlocks of the code under test still run.
	FailPanic FailMode = iota
	// FailError: the crashing call returns ErrCrashed.
	FailError
)

// Crash is the panic value of a simulated crash.
type Crash struct {
	FS     *FS
	LogIdx int    // crash point: number of mutating calls that were applied
	Call   string // the call that was not executed
}

func (c *Crash) Error() string {
	return fmt.Sprintf("crashfs: simulated crash before %s at crash point %d", c.Call, c.LogIdx)
}

// ErrCrashed is returned by mutating calls of a frozen instance in FailError mode.
var ErrCrashed = fmt.Errorf("crashfs: instance crashed (frozen)")

// FailAfter arms the instance: k more mutating calls are applied normally, the
// call after them "crashes" — it is not applied, the instance is frozen (every
// later mutating call crashes as well, reads keep working) and the call panics
// with *Crash (FailPanic) or returns ErrCrashed (FailError). FailAfter(0) makes
// the very next mutating call crash. The crash image candidates are then
// f.CrashState().Images(...). A negative k disarms.
func (f *FS) FailAfter(k int, mode FailMode) {
	f.mu.Lock()
	defer f.mu.Unlock()
	f.failArmed = k >= 0
	f.failLeft = k
	f.failMode = mode
}

// OnMutate installs a callback that is invoked right before every mutating call
// that is going to be applied (not for calls that fail or crash), with the number
// of calls logged so far (= the crash point in front of this call). Harnesses
// use it to order their own events (sends, ...) relative to file-system calls.
// The callback runs with the instance locked: it must not call into the
// instance. nil removes it.
func (f *FS) OnMutate(fn func(logLen int)) {
	f.mu.Lock()
	defer f.mu.Unlock()
	f.onMutate = fn
}

// Frozen reports whether a simulated crash has happened on this instance.
func (f *FS) Frozen() bool {
	f.mu.Lock()
	defer f.mu.Unlock()
	return f.frozen
}

// Catch runs fn and reports whether it was interrupted by a simulated crash
// (panic with *Crash). Any other panic is passed on.
func Catch(fn func()) (crash *Crash) {
	defer func() {
		if x := recover(); x != nil {
			if c, ok := x.(*Crash); ok {
				crash = c
				return
			}
			panic(x)
		}
	}()
	fn()
	return nil
}

// gate is called, with f.mu held, by every mutating call after its arguments
// have been validated and immediately before it is applied and logged (a call
// that fails with an ordinary error is neither logged nor counted, so crash
// points of FailAfter and indexes of the log coincide). It returns a non-nil
// error (FailError) or panics (FailPanic) when the call must crash instead of
// being executed.
func (f *FS) gate(call string) error {
	if !f.frozen {
		if !f.failArmed || f.failLeft > 0 {
			if f.failArmed {
				f.failLeft--
			}
			if f.onMutate != nil {
				f.onMutate(len(f.log))
			}
			return nil
		}
		f.frozen = true
	}
	if f.failMode == FailError {
		return ErrCrashed
	}
	// the panic unwinds through the caller's deferred f.mu.Unlock()
	panic(&Crash{FS: f, LogIdx: len(f.log), Call: call})
}
