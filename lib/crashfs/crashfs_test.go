//go:build verif

package crashfs

// Self-tests of the engine (differential against the real package os in a temp
// dir, crash model, FailAfter). The package has no directory inside /repo, so
// build the test binary and run it from anywhere (any check's overlay mounts
// the library):
//
//	cd /verif && bin/check C03 --build-only
//	cd /repo && go test -c -tags verif -vet=off -overlay /verif/.work/c03/overlay.json \
//	    -o /verif/.work/c03/crashfs.test github.com/icon-project/goloop/verifshim/crashfs
//	/verif/.work/c03/crashfs.test -test.v

import (
	"errors"
	"fmt"
	"io"
	"io/fs"
	"os"
	"sort"
	"strings"
	"testing"
)

type handle interface {
	io.ReadWriteCloser
	Sync() error
	Readdir(n int) ([]fs.FileInfo, error)
}

type osAPI struct {
	openFile  func(string, int, fs.FileMode) (handle, error)
	mkdirAll  func(string, fs.FileMode) error
	remove    func(string) error
	removeAll func(string) error
	truncate  func(string, int64) error
	stat      func(string) (fs.FileInfo, error)
}

var realOS = osAPI{
	openFile: func(n string, f int, p fs.FileMode) (handle, error) {
		h, err := os.OpenFile(n, f, p)
		if err != nil {
			return nil, err
		}
		return h, nil
	},
	mkdirAll: os.MkdirAll, remove: os.Remove, removeAll: os.RemoveAll, truncate: os.Truncate, stat: os.Stat,
}

var shimOS = osAPI{
	openFile: func(n string, f int, p fs.FileMode) (handle, error) {
		h, err := OpenFile(n, f, p)
		if err != nil {
			return nil, err
		}
		return h, nil
	},
	mkdirAll: MkdirAll, remove: Remove, removeAll: RemoveAll, truncate: Truncate, stat: Stat,
}

func errClass(err error) string {
	switch {
	case err == nil:
		return "ok"
	case errors.Is(err, fs.ErrNotExist):
		return "ENOENT"
	case errors.Is(err, fs.ErrExist):
		return "EEXIST"
	case err == io.EOF:
		return "EOF"
	}
	return "ERR"
}

// script drives one API and returns a transcript; both implementations must
// produce the same transcript.
func script(a osAPI, root string) string {
	var sb strings.Builder
	say := func(f string, x ...interface{}) { fmt.Fprintf(&sb, f+"\n", x...) }
	p := func(s string) string { return root + s }

	_, err := a.openFile(p("/wal/round_0"), os.O_CREATE|os.O_WRONLY|os.O_APPEND, 0600)
	say("create in missing dir: %s", errClass(err))
	_, err = a.openFile(p("/wal"), os.O_RDONLY, 0)
	say("open missing dir: %s", errClass(err))
	say("mkdirall: %s", errClass(a.mkdirAll(p("/wal/sub"), 0700)))
	say("mkdirall again: %s", errClass(a.mkdirAll(p("/wal"), 0700)))
	w, err := a.openFile(p("/wal/round_0"), os.O_CREATE|os.O_WRONLY|os.O_APPEND, 0600)
	say("create: %s", errClass(err))
	n, err := w.Write([]byte("hello "))
	say("write: %d %s", n, errClass(err))
	n, err = w.Write([]byte("world"))
	say("write: %d %s", n, errClass(err))
	say("sync: %s", errClass(w.Sync()))
	fi, err := a.stat(p("/wal/round_0"))
	say("stat: %s %s %d dir=%v", errClass(err), fi.Name(), fi.Size(), fi.IsDir())
	_, err = a.stat(p("/wal/nope"))
	say("stat missing: %s", errClass(err))
	fi, err = a.stat(p("/wal"))
	say("stat dir: %s %s dir=%v", errClass(err), fi.Name(), fi.IsDir())

	w2, err := a.openFile(p("/wal/round_10"), os.O_CREATE|os.O_WRONLY|os.O_APPEND, 0600)
	say("create 2: %s", errClass(err))
	w2.Write([]byte("0123456789"))

	d, err := a.openFile(p("/wal"), os.O_RDONLY, 0)
	say("open dir: %s", errClass(err))
	es, err := d.Readdir(0)
	var names []string
	for _, e := range es {
		names = append(names, fmt.Sprintf("%s:%d:%v", e.Name(), e.Size()*b2i(!e.IsDir()), e.IsDir()))
	}
	sort.Strings(names)
	say("readdir: %s %v", errClass(err), names)
	say("close dir: %s", errClass(d.Close()))

	r, err := a.openFile(p("/wal/round_0"), os.O_RDONLY, 0)
	say("open read: %s", errClass(err))
	buf := make([]byte, 4)
	for i := 0; i < 5; i++ {
		n, err := r.Read(buf)
		say("read: %d %q %s", n, buf[:n], errClass(err))
	}
	w.Write([]byte("!")) // a reader sees later appends
	n, err = r.Read(buf)
	say("read after append: %d %q %s", n, buf[:n], errClass(err))
	_, err = r.Write([]byte("x"))
	say("write on read-only handle: %v", err != nil)

	say("truncate: %s", errClass(a.truncate(p("/wal/round_0"), 5)))
	say("truncate missing: %s", errClass(a.truncate(p("/wal/zzz"), 5)))
	fi, _ = a.stat(p("/wal/round_0"))
	say("size after truncate: %d", fi.Size())
	w.Write([]byte("++")) // O_APPEND handle continues at the new end
	all, _ := readAll(a, p("/wal/round_0"))
	say("content: %q", all)

	say("remove: %s", errClass(a.remove(p("/wal/round_10"))))
	say("remove again: %s", errClass(a.remove(p("/wal/round_10"))))
	n, err = w2.Write([]byte("ghost")) // unlinked but open
	say("write to unlinked: %d %s", n, errClass(err))
	_, err = a.stat(p("/wal/round_10"))
	say("stat removed: %s", errClass(err))
	say("remove non-empty dir: %v", a.remove(p("/wal")) != nil)
	say("close: %s", errClass(w.Close()))
	say("close again: %v", w.Close() != nil)
	say("sync closed: %v", w.Sync() != nil)
	say("removeall: %s", errClass(a.removeAll(p("/wal"))))
	say("removeall missing: %s", errClass(a.removeAll(p("/wal"))))
	_, err = a.stat(p("/wal"))
	say("stat after removeall: %s", errClass(err))
	return sb.String()
}

func b2i(b bool) int64 {
	if b {
		return 1
	}
	return 0
}

func readAll(a osAPI, name string) ([]byte, error) {
	h, err := a.openFile(name, os.O_RDONLY, 0)
	if err != nil {
		return nil, err
	}
	defer h.Close()
	return io.ReadAll(h)
}

func TestDifferentialAgainstRealOS(t *testing.T) {
	real := script(realOS, t.TempDir())
	Use(New())
	defer Use(nil)
	shim := script(shimOS, "/x")
	if real != shim {
		t.Fatalf("transcripts differ\n--- real os\n%s--- crashfs\n%s", real, shim)
	}
	// and through a mount prefix
	Mount("/m1", New())
	defer Mount("/m1", nil)
	if shim2 := script(shimOS, "/m1/x"); shim2 != real {
		t.Fatalf("mounted transcript differs\n%s", shim2)
	}
}

func TestCrashModel(t *testing.T) {
	f := New()
	Use(f)
	defer Use(nil)
	MkdirAll("/d", 0700)
	a, _ := OpenFile("/d/a", O_CREATE|O_WRONLY|O_APPEND, 0600)
	a.Write([]byte("AAAA"))
	a.Sync()
	a.Write([]byte("bb"))
	a.Write([]byte("c"))
	f.Mark("second file")
	b, _ := OpenFile("/d/b", O_CREATE|O_WRONLY|O_APPEND, 0600)
	b.Write([]byte("xy"))
	if f.LogLen() != 8 {
		t.Fatalf("log: %v", f.Log())
	}
	st := f.CrashState()
	if len(st.Files) != 2 || st.Files[0].Durable != 4 || st.Files[0].Unsynced() != 3 || fmt.Sprint(st.Files[0].WriteEnds) != "[6 7]" {
		t.Fatalf("state: %+v", st.Files)
	}
	seen := map[string]bool{}
	n := st.Images(nil, func(img *Image, tears []Tear) bool {
		seen[string(img.Files["/d/a"])+"|"+string(img.Files["/d/b"])] = true
		return true
	})
	if n != 4*3 || len(seen) != 12 || !seen["AAAA|"] || !seen["AAAAbbc|xy"] || !seen["AAAAb|x"] {
		t.Fatalf("images: %d %v", n, seen)
	}
	// crash point 5: after the first un-synced write only
	st = f.StateAt(5)
	if len(st.Files) != 1 || string(st.Files[0].Data) != "AAAAbb" {
		t.Fatalf("StateAt(5): %+v", st.Files)
	}
	// directory operations are durable at once: truncate and remove
	Truncate("/d/a", 2)
	Remove("/d/b")
	st = f.CrashState()
	if len(st.Files) != 1 || string(st.Files[0].Data) != "AA" || st.Files[0].Durable != 2 {
		t.Fatalf("after truncate/remove: %+v", st.Files)
	}
	// bytes written (and even synced) through a handle of an unlinked file are in no crash image
	u, _ := OpenFile("/d/u", O_CREATE|O_WRONLY|O_APPEND, 0600)
	Remove("/d/u")
	u.Write([]byte("ghost"))
	u.Sync()
	for _, fc := range f.CrashState().Files {
		if fc.Path == "/d/u" || strings.Contains(string(fc.Data), "ghost") {
			t.Fatalf("unlinked file leaked into the crash state: %+v", fc)
		}
	}
	if _, _, ok := f.FileState("/d/u"); ok || len(f.Names()) != 1 {
		t.Fatalf("unlinked file still reachable by name: %v", f.Names())
	}
	st = f.CrashState()
	// a new instance from an image is independent and fully durable
	img := st.ImageWith(nil)
	g := FromImage(img)
	Use(g)
	h, _ := OpenFile("/d/a", O_WRONLY|O_APPEND, 0)
	h.Write([]byte("zz"))
	if sz, dur, _ := g.FileState("/d/a"); sz != 4 || dur != 2 {
		t.Fatalf("new instance: %d %d", sz, dur)
	}
	if sz, _, _ := f.FileState("/d/a"); sz != 2 {
		t.Fatalf("old instance changed")
	}
	if img.Key() != st.ImageWith(nil).Key() || img.Key() == g.Snapshot().Key() {
		t.Fatalf("image keys")
	}
	// long suffix: boundary-focused lengths
	big := New()
	Use(big)
	MkdirAll("/d", 0700)
	c, _ := OpenFile("/d/c", O_CREATE|O_WRONLY|O_APPEND, 0600)
	c.Write(make([]byte, 100))
	c.Write(make([]byte, 100))
	lens := (&TearOptions{}).SurvivingLengths(&big.CrashState().Files[0])
	if fmt.Sprint(lens) != "[0 1 7 8 9 99 100 101 107 108 109 199 200]" || big.CrashState().Exhaustive(nil) {
		t.Fatalf("lens %v", lens)
	}
}

func TestZeroTails(t *testing.T) {
	f := New()
	Use(f)
	defer Use(nil)
	MkdirAll("/d", 0700)
	a, _ := OpenFile("/d/a", O_CREATE|O_WRONLY|O_APPEND, 0600)
	rec := func(payload string) []byte { // 2-byte header: 'H', len
		return append([]byte{'H', byte(len(payload))}, payload...)
	}
	a.Write(rec("ab"))
	a.Sync()
	a.Write(rec("wxyz"))
	a.Write(rec(""))
	a.Write(rec("q"))
	opt := &TearOptions{ZeroTails: FramedZeroTails(2, func(h []byte) int { return int(h[1]) })}
	got := map[string]bool{}
	f.CrashState().Images(opt, func(img *Image, tears []Tear) bool {
		b := img.Files["/d/a"]
		for i := range b {
			if b[i] == 0 {
				b[i] = '0'
			}
		}
		if tears[0].Zeroed > 0 {
			got[string(b)] = true
		}
		if string(b[:4]) != "H\x02ab" {
			t.Fatalf("durable part changed: %q", b)
		}
		return true
	})
	// zeros only inside payloads behind an intact header, z in {1, half, all}
	want := []string{"H\x02abH\x040", "H\x02abH\x04w0", "H\x02abH\x0400", "H\x02abH\x04wx0", "H\x02abH\x04000", "H\x02abH\x04wxy0", "H\x02abH\x04wx00", "H\x02abH\x040000",
		"H\x02abH\x04wxyzH0H\x010"}
	for _, w := range want {
		if !got[w] { // (the length byte 0 of the empty record is shown as '0' too)
			t.Errorf("missing zero-tail image %q", w)
		}
	}
	if len(got) != len(want) {
		t.Errorf("zero-tail images: got %d %q, want %d", len(got), got, len(want))
	}
}

func TestOnMutate(t *testing.T) {
	f := New()
	Use(f)
	defer Use(nil)
	var seen []int
	f.OnMutate(func(l int) { seen = append(seen, l) })
	MkdirAll("/d", 0700)
	a, _ := OpenFile("/d/a", O_CREATE|O_WRONLY|O_APPEND, 0600)
	a.Write([]byte("x"))
	Remove("/d/nope") // fails: not a mutation
	a.Sync()
	f.FailAfter(0, FailError)
	a.Write([]byte("y")) // crashes: not applied, no callback
	if fmt.Sprint(seen) != "[0 1 2 3]" || f.LogLen() != 4 {
		t.Fatalf("OnMutate saw %v, log %d", seen, f.LogLen())
	}
}

func TestFailAfter(t *testing.T) {
	for _, mode := range []FailMode{FailPanic, FailError} {
		f := New()
		Use(f)
		MkdirAll("/d", 0700)
		a, _ := OpenFile("/d/a", O_CREATE|O_WRONLY|O_APPEND, 0600)
		f.FailAfter(2, mode)
		var werr error
		crash := Catch(func() {
			a.Write([]byte("1"))
			a.Sync()
			_, werr = a.Write([]byte("2")) // crashes
			a.Sync()
		})
		if mode == FailPanic && (crash == nil || crash.LogIdx != 4 || !f.Frozen()) {
			t.Fatalf("panic mode: %+v", crash)
		}
		if mode == FailError && (crash != nil || !errors.Is(werr, ErrCrashed) || !f.Frozen()) {
			t.Fatalf("error mode: %v %v", crash, werr)
		}
		if f.LogLen() != 4 {
			t.Fatalf("log grew after the crash: %v", f.Log())
		}
		if c2 := Catch(func() { werr = Remove("/d/a") }); mode == FailPanic && c2 == nil || mode == FailError && !errors.Is(werr, ErrCrashed) {
			t.Fatalf("frozen instance accepted a mutation")
		}
		if b, ok := f.ReadFile("/d/a"); !ok || string(b) != "1" {
			t.Fatalf("content %q", b)
		}
		Use(nil)
	}
}
