//go:build verif

// Package crashfs is an in-memory implementation of exactly the slice of package
// "os" that goloop's consensus/wal.go uses, with a crash model on top:
//
//   - every file keeps its volatile content and its durable length (last Sync);
//   - every mutating call is appended to an operation log;
//   - for any prefix of the log (a "crash point") the set of possible crash images
//     can be enumerated: directory operations (create, remove, truncate, mkdir) are
//     ordered and durable once issued, file data is durable up to the last Sync,
//     and any byte prefix of the un-synced suffix of each file may survive;
//   - a new, independent instance can be created from any crash image.
//
// The overlay generator maps `import "os"` of the rewritten goloop file to this
// package (keeping the local name `os`), so the identifiers exported from
// osapi.go mirror package os. See README.md for the harness-side API.
package crashfs

import (
	"io/fs"
	"path"
	"sort"
	"strings"
	"sync"
	"sync/atomic"
)

// inode is one regular file. It stays alive while a handle refers to it even if
// its name has been removed (unix semantics).
type inode struct {
	ino     int
	data    []byte
	durable int // data[:durable] survives every crash
}

// FS is one independent in-memory file system instance.
type FS struct {
	mu      sync.Mutex
	files   map[string]*inode // cleaned absolute path (inside the instance) -> inode
	dirs    map[string]bool   // existing directories ("/" always exists)
	nextIno int

	base  *Image // content the instance was created from (everything durable)
	log   []Op
	marks []Mark

	failArmed bool
	failLeft  int
	failMode  FailMode
	frozen    bool
	onMutate  func(logLen int)

	// ReverseReaddir makes File.Readdir return entries in descending name order
	// instead of ascending (directory order is unspecified in a real file system).
	ReverseReaddir bool
}

// New returns an empty instance (only the root directory exists).
func New() *FS {
	return FromImage(nil)
}

// FromImage returns a new instance whose content is img; everything in it is
// durable, the operation log is empty. img is copied.
func FromImage(img *Image) *FS {
	f := &FS{files: map[string]*inode{}, dirs: map[string]bool{"/": true}}
	if img != nil {
		f.base = img.Clone()
		for _, d := range img.Dirs {
			f.mkdirAllLocked(clean(d))
		}
		names := make([]string, 0, len(img.Files))
		for p := range img.Files {
			names = append(names, p)
		}
		sort.Strings(names)
		for _, p := range names {
			cp := clean(p)
			f.mkdirAllLocked(path.Dir(cp))
			b := append([]byte(nil), img.Files[p]...)
			f.files[cp] = &inode{ino: f.nextIno, data: b, durable: len(b)}
			f.nextIno++
		}
	} else {
		f.base = &Image{Files: map[string][]byte{}}
	}
	return f
}

func clean(p string) string {
	if p == "" {
		return "/"
	}
	if !strings.HasPrefix(p, "/") {
		p = "/" + p
	}
	return path.Clean(p)
}

func (f *FS) mkdirAllLocked(p string) {
	for p != "/" && p != "." {
		f.dirs[p] = true
		p = path.Dir(p)
	}
}

// ---- mount table ---------------------------------------------------------

var (
	mountMu  sync.RWMutex
	mounts   = map[string]*atomic.Pointer[FS]{} // first path element ("/w3") -> instance
	defaultF atomic.Pointer[FS]
)

// Use makes fs the instance that serves every path that is not below a mounted
// prefix (see Mount). Use(nil) removes the default. It returns the previous
// default. This is the simple, single-threaded way of selecting the instance.
func Use(f *FS) *FS {
	return defaultF.Swap(f)
}

// Current returns the default instance selected with Use.
func Current() *FS {
	return defaultF.Load()
}

// Mount routes every path whose first element is prefix (e.g. "/w3") to fs; the
// prefix is stripped, so the same code run under two prefixes produces identical
// instances. Parallel workers mount one prefix each and re-mount it for every
// new instance (cheap). Mount(prefix, nil) unmounts.
func Mount(prefix string, f *FS) {
	prefix = clean(prefix)
	if strings.Count(prefix, "/") != 1 || prefix == "/" {
		panic("crashfs.Mount: prefix must be a single path element like /w3")
	}
	mountMu.RLock()
	slot, ok := mounts[prefix]
	mountMu.RUnlock()
	if !ok {
		mountMu.Lock()
		if slot, ok = mounts[prefix]; !ok {
			slot = &atomic.Pointer[FS]{}
			mounts[prefix] = slot
		}
		mountMu.Unlock()
	}
	slot.Store(f)
}

// resolve maps an os-level path to (instance, path inside the instance).
func resolve(name string) (*FS, string) {
	p := clean(name)
	mountMu.RLock()
	if len(mounts) > 0 {
		first := p
		if i := strings.IndexByte(p[1:], '/'); i >= 0 {
			first = p[:i+1]
		}
		if slot, ok := mounts[first]; ok {
			if m := slot.Load(); m != nil {
				mountMu.RUnlock()
				rest := p[len(first):]
				if rest == "" {
					rest = "/"
				}
				return m, rest
			}
		}
	}
	mountMu.RUnlock()
	d := defaultF.Load()
	if d == nil {
		panic("crashfs: no instance selected for path " + name + " (call crashfs.Use or crashfs.Mount)")
	}
	return d, p
}

func pathErr(op, name string, err error) error {
	return &fs.PathError{Op: op, Path: name, Err: err}
}

// ---- harness-side inspection (volatile view) --------------------------------

// Snapshot returns the current volatile content (what a running process sees)
// as an image.
func (f *FS) Snapshot() *Image {
	f.mu.Lock()
	defer f.mu.Unlock()
	img := &Image{Files: map[string][]byte{}}
	for p, in := range f.files {
		img.Files[p] = append([]byte(nil), in.data...)
	}
	for d := range f.dirs {
		if d != "/" {
			img.Dirs = append(img.Dirs, d)
		}
	}
	sort.Strings(img.Dirs)
	return img
}

// DurableSnapshot returns the image that survives a crash right now if no byte
// of any un-synced suffix survives.
func (f *FS) DurableSnapshot() *Image {
	f.mu.Lock()
	defer f.mu.Unlock()
	img := &Image{Files: map[string][]byte{}}
	for p, in := range f.files {
		img.Files[p] = append([]byte(nil), in.data[:in.durable]...)
	}
	for d := range f.dirs {
		if d != "/" {
			img.Dirs = append(img.Dirs, d)
		}
	}
	sort.Strings(img.Dirs)
	return img
}

// FileState returns the volatile length and the durable length of a file.
func (f *FS) FileState(name string) (size, durable int, ok bool) {
	f.mu.Lock()
	defer f.mu.Unlock()
	in, ok := f.files[clean(name)]
	if !ok {
		return 0, 0, false
	}
	return len(in.data), in.durable, true
}

// ReadFile returns a copy of the volatile content of a file of this instance.
func (f *FS) ReadFile(name string) ([]byte, bool) {
	f.mu.Lock()
	defer f.mu.Unlock()
	in, ok := f.files[clean(name)]
	if !ok {
		return nil, false
	}
	return append([]byte(nil), in.data...), true
}

// Names returns the sorted paths of all regular files.
func (f *FS) Names() []string {
	f.mu.Lock()
	defer f.mu.Unlock()
	out := make([]string, 0, len(f.files))
	for p := range f.files {
		out = append(out, p)
	}
	sort.Strings(out)
	return out
}
