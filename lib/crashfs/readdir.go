//go:build verif

package crashfs

import (
	"io/fs"
	"sort"
)

// DirEntry mirrors os.DirEntry.
type DirEntry = fs.DirEntry

type dirEntry struct{ fi fileInfo }

func (d dirEntry) Name() string               { return d.fi.name }
func (d dirEntry) IsDir() bool                { return d.fi.dir }
func (d dirEntry) Type() fs.FileMode          { return d.fi.Mode().Type() }
func (d dirEntry) Info() (fs.FileInfo, error) { return d.fi, nil }

// ReadDir mirrors os.ReadDir: the entries of the named directory sorted by file
// name (always ascending, like the real one, independent of FS.ReverseReaddir).
func ReadDir(name string) ([]DirEntry, error) {
	h, err := Open(name)
	if err != nil {
		return nil, err
	}
	defer h.Close()
	infos, err := h.Readdir(-1)
	if err != nil {
		return nil, err
	}
	out := make([]DirEntry, 0, len(infos))
	for _, fi := range infos {
		out = append(out, dirEntry{fileInfo{name: fi.Name(), size: fi.Size(), dir: fi.IsDir()}})
	}
	sort.Slice(out, func(i, j int) bool { return out[i].Name() < out[j].Name() })
	return out, nil
}
