//go:build verif

package crashfs

// The slice of package os used by consensus/wal.go (plus a few neighbours that
// cost nothing). An identifier missing here is a build error of the rewritten
// file, i.e. an upstream change is noticed, never silently ignored.

import (
	"io"
	"io/fs"
	"os"
	"path"
	"sort"
	"strings"
	"syscall"
	"time"
)

type (
	FileMode  = fs.FileMode
	FileInfo  = fs.FileInfo
	PathError = fs.PathError
)

const (
	O_RDONLY = os.O_RDONLY
	O_WRONLY = os.O_WRONLY
	O_RDWR   = os.O_RDWR
	O_APPEND = os.O_APPEND
	O_CREATE = os.O_CREATE
	O_EXCL   = os.O_EXCL
	O_SYNC   = os.O_SYNC
	O_TRUNC  = os.O_TRUNC

	ModeDir  = fs.ModeDir
	ModePerm = fs.ModePerm
)

var (
	ErrNotExist = fs.ErrNotExist // identical to os.ErrNotExist
	ErrExist    = fs.ErrExist
	ErrClosed   = fs.ErrClosed
	ErrInvalid  = fs.ErrInvalid
)

func IsNotExist(err error) bool { return os.IsNotExist(err) }
func IsExist(err error) bool    { return os.IsExist(err) }

// File is an open handle (regular file or directory).
type File struct {
	fs     *FS
	name   string // name as given to Open/OpenFile
	p      string // path inside the instance
	in     *inode // nil for a directory
	isDir  bool
	flag   int
	off    int64
	closed bool
	dirPos int
}

type fileInfo struct {
	name string
	size int64
	dir  bool
}

func (i fileInfo) Name() string { return i.name }
func (i fileInfo) Size() int64  { return i.size }
func (i fileInfo) Mode() FileMode {
	if i.dir {
		return fs.ModeDir | 0o700
	}
	return 0o600
}
func (i fileInfo) ModTime() time.Time { return time.Time{} }
func (i fileInfo) IsDir() bool        { return i.dir }
func (i fileInfo) Sys() interface{}   { return nil }

// Open opens a file or directory for reading.
func Open(name string) (*File, error) { return OpenFile(name, O_RDONLY, 0) }

// Create creates or truncates a file.
func Create(name string) (*File, error) { return OpenFile(name, O_RDWR|O_CREATE|O_TRUNC, 0o666) }

// OpenFile supports O_RDONLY/O_WRONLY/O_RDWR with O_CREATE, O_EXCL, O_TRUNC and
// O_APPEND. Writing is only supported at the end of the file (O_APPEND, or a
// handle whose offset is at the end): that is all wal.go does, and the torn-write
// model "a prefix of the un-synced suffix survives" is only meaningful for appends.
func OpenFile(name string, flag int, perm FileMode) (*File, error) {
	f, p := resolve(name)
	f.mu.Lock()
	defer f.mu.Unlock()
	if f.dirs[p] {
		if flag&(O_WRONLY|O_RDWR) != 0 {
			return nil, pathErr("open", name, syscall.EISDIR)
		}
		return &File{fs: f, name: name, p: p, isDir: true, flag: flag}, nil
	}
	in, ok := f.files[p]
	if ok && flag&O_CREATE != 0 && flag&O_EXCL != 0 {
		return nil, pathErr("open", name, ErrExist)
	}
	if !ok {
		if flag&O_CREATE == 0 {
			return nil, pathErr("open", name, ErrNotExist)
		}
		if !f.dirs[path.Dir(p)] {
			return nil, pathErr("open", name, ErrNotExist)
		}
		if err := f.gate("create " + p); err != nil {
			return nil, pathErr("open", name, err)
		}
		in = &inode{ino: f.nextIno}
		f.nextIno++
		f.files[p] = in
		f.log = append(f.log, Op{Kind: OpCreate, Path: p, Ino: in.ino})
	} else if flag&O_TRUNC != 0 && flag&(O_WRONLY|O_RDWR) != 0 && len(in.data) > 0 {
		if err := f.gate("truncate " + p); err != nil {
			return nil, pathErr("open", name, err)
		}
		f.truncateLocked(in, p, 0)
	}
	return &File{fs: f, name: name, p: p, in: in, flag: flag}, nil
}

func (f *FS) truncateLocked(in *inode, p string, size int64) {
	n := int(size)
	if n <= len(in.data) {
		in.data = in.data[:n:n]
		if in.durable > n {
			in.durable = n
		}
	} else {
		// zero extension: the new bytes count as un-synced content
		in.data = append(in.data, make([]byte, n-len(in.data))...)
	}
	f.log = append(f.log, Op{Kind: OpTruncate, Path: p, Ino: in.ino, Size: size})
}

func (h *File) Name() string { return h.name }

func (h *File) Close() error {
	if h == nil {
		return ErrInvalid
	}
	h.fs.mu.Lock()
	defer h.fs.mu.Unlock()
	if h.closed {
		return pathErr("close", h.name, ErrClosed)
	}
	h.closed = true // closing does not make anything durable
	return nil
}

func (h *File) Read(b []byte) (int, error) {
	h.fs.mu.Lock()
	defer h.fs.mu.Unlock()
	if h.closed {
		return 0, pathErr("read", h.name, ErrClosed)
	}
	if h.isDir {
		return 0, pathErr("read", h.name, syscall.EISDIR)
	}
	if h.flag&(O_WRONLY|O_RDWR) == O_WRONLY {
		return 0, pathErr("read", h.name, syscall.EBADF)
	}
	if len(b) == 0 {
		return 0, nil
	}
	if h.off >= int64(len(h.in.data)) {
		return 0, io.EOF
	}
	n := copy(b, h.in.data[h.off:])
	h.off += int64(n)
	return n, nil
}

func (h *File) Write(b []byte) (int, error) {
	h.fs.mu.Lock()
	defer h.fs.mu.Unlock()
	if h.closed {
		return 0, pathErr("write", h.name, ErrClosed)
	}
	if h.isDir || h.flag&(O_WRONLY|O_RDWR) == 0 {
		return 0, pathErr("write", h.name, syscall.EBADF)
	}
	if len(b) == 0 {
		return 0, nil
	}
	if err := h.fs.gate("write " + h.p); err != nil {
		return 0, pathErr("write", h.name, err)
	}
	cp := append([]byte(nil), b...)
	off := int64(len(h.in.data))
	if h.flag&O_APPEND == 0 {
		off = h.off
	}
	writeAt(&h.in.data, &h.in.durable, off, cp)
	h.off = off + int64(len(cp))
	h.fs.log = append(h.fs.log, Op{Kind: OpWrite, Path: h.p, Ino: h.in.ino, Data: cp, Off: off})
	return len(b), nil
}

// writeAt applies a write at offset off. Appends are the modelled case. An
// overwrite below the current length (never done by wal.go) is approximated:
// the bytes are replaced in place and the file counts as un-synced from off on.
func writeAt(data *[]byte, durable *int, off int64, b []byte) {
	o := int(off)
	if o > len(*data) {
		*data = append(*data, make([]byte, o-len(*data))...)
	}
	if o < *durable {
		*durable = o
	}
	n := copy((*data)[o:], b)
	*data = append(*data, b[n:]...)
}

func (h *File) WriteString(s string) (int, error) { return h.Write([]byte(s)) }

// Sync makes the whole current content of the file durable.
func (h *File) Sync() error {
	h.fs.mu.Lock()
	defer h.fs.mu.Unlock()
	if h.closed {
		return pathErr("sync", h.name, ErrClosed)
	}
	if h.isDir {
		return nil
	}
	if err := h.fs.gate("sync " + h.p); err != nil {
		return pathErr("sync", h.name, err)
	}
	h.in.durable = len(h.in.data)
	h.fs.log = append(h.fs.log, Op{Kind: OpSync, Path: h.p, Ino: h.in.ino})
	return nil
}

func (h *File) Stat() (FileInfo, error) {
	h.fs.mu.Lock()
	defer h.fs.mu.Unlock()
	if h.closed {
		return nil, pathErr("stat", h.name, ErrClosed)
	}
	if h.isDir {
		return fileInfo{name: path.Base(h.p), dir: true}, nil
	}
	return fileInfo{name: path.Base(h.p), size: int64(len(h.in.data))}, nil
}

// Readdir lists a directory (n <= 0: everything that is left). Entries come in
// ascending name order (descending with FS.ReverseReaddir).
func (h *File) Readdir(n int) ([]FileInfo, error) {
	h.fs.mu.Lock()
	defer h.fs.mu.Unlock()
	if h.closed {
		return nil, pathErr("readdir", h.name, ErrClosed)
	}
	if !h.isDir {
		return nil, pathErr("readdir", h.name, syscall.ENOTDIR)
	}
	all := h.fs.listLocked(h.p)
	if h.dirPos > len(all) {
		h.dirPos = len(all)
	}
	rest := all[h.dirPos:]
	if n > 0 {
		if len(rest) == 0 {
			return nil, io.EOF
		}
		if len(rest) > n {
			rest = rest[:n]
		}
	}
	h.dirPos += len(rest)
	out := make([]FileInfo, len(rest))
	for i, e := range rest {
		out[i] = e
	}
	return out, nil
}

func (f *FS) listLocked(dir string) []fileInfo {
	pre := dir
	if pre != "/" {
		pre += "/"
	}
	var out []fileInfo
	for p, in := range f.files {
		if strings.HasPrefix(p, pre) && !strings.Contains(p[len(pre):], "/") {
			out = append(out, fileInfo{name: p[len(pre):], size: int64(len(in.data))})
		}
	}
	for d := range f.dirs {
		if d != "/" && strings.HasPrefix(d, pre) && !strings.Contains(d[len(pre):], "/") {
			out = append(out, fileInfo{name: d[len(pre):], dir: true})
		}
	}
	sort.Slice(out, func(i, j int) bool {
		if f.ReverseReaddir {
			return out[i].name > out[j].name
		}
		return out[i].name < out[j].name
	})
	return out
}

// Stat returns name and size of a file or directory.
func Stat(name string) (FileInfo, error) {
	f, p := resolve(name)
	f.mu.Lock()
	defer f.mu.Unlock()
	if f.dirs[p] {
		return fileInfo{name: path.Base(p), dir: true}, nil
	}
	if in, ok := f.files[p]; ok {
		return fileInfo{name: path.Base(p), size: int64(len(in.data))}, nil
	}
	return nil, pathErr("stat", name, ErrNotExist)
}

func Lstat(name string) (FileInfo, error) { return Stat(name) }

// Mkdir creates one directory.
func Mkdir(name string, perm FileMode) error {
	f, p := resolve(name)
	f.mu.Lock()
	defer f.mu.Unlock()
	if f.dirs[p] {
		return pathErr("mkdir", name, ErrExist)
	}
	if _, ok := f.files[p]; ok {
		return pathErr("mkdir", name, ErrExist)
	}
	if !f.dirs[path.Dir(p)] {
		return pathErr("mkdir", name, ErrNotExist)
	}
	if err := f.gate("mkdir " + p); err != nil {
		return pathErr("mkdir", name, err)
	}
	f.dirs[p] = true
	f.log = append(f.log, Op{Kind: OpMkdir, Path: p, Ino: -1})
	return nil
}

// MkdirAll creates a directory and its missing parents (one logged call).
func MkdirAll(name string, perm FileMode) error {
	f, p := resolve(name)
	f.mu.Lock()
	defer f.mu.Unlock()
	for q := p; q != "/"; q = path.Dir(q) {
		if _, ok := f.files[q]; ok {
			return pathErr("mkdir", name, syscall.ENOTDIR)
		}
	}
	if f.dirs[p] {
		return nil
	}
	if err := f.gate("mkdirall " + p); err != nil {
		return pathErr("mkdir", name, err)
	}
	f.mkdirAllLocked(p)
	f.log = append(f.log, Op{Kind: OpMkdir, Path: p, Ino: -1})
	return nil
}

// Truncate changes the size of a file; durable at once (directory-class operation).
func Truncate(name string, size int64) error {
	f, p := resolve(name)
	f.mu.Lock()
	defer f.mu.Unlock()
	in, ok := f.files[p]
	if !ok {
		if f.dirs[p] {
			return pathErr("truncate", name, syscall.EISDIR)
		}
		return pathErr("truncate", name, ErrNotExist)
	}
	if size < 0 {
		return pathErr("truncate", name, ErrInvalid)
	}
	if err := f.gate("truncate " + p); err != nil {
		return pathErr("truncate", name, err)
	}
	f.truncateLocked(in, p, size)
	return nil
}

// Remove unlinks a file or an empty directory.
func Remove(name string) error {
	f, p := resolve(name)
	f.mu.Lock()
	defer f.mu.Unlock()
	if _, ok := f.files[p]; ok {
		if err := f.gate("remove " + p); err != nil {
			return pathErr("remove", name, err)
		}
		delete(f.files, p)
		f.log = append(f.log, Op{Kind: OpRemove, Path: p, Ino: -1})
		return nil
	}
	if f.dirs[p] && p != "/" {
		if len(f.listLocked(p)) > 0 {
			return pathErr("remove", name, syscall.ENOTEMPTY)
		}
		if err := f.gate("remove " + p); err != nil {
			return pathErr("remove", name, err)
		}
		delete(f.dirs, p)
		f.log = append(f.log, Op{Kind: OpRemove, Path: p, Ino: -1})
		return nil
	}
	return pathErr("remove", name, ErrNotExist)
}

// RemoveAll unlinks a subtree; a missing path is not an error.
func RemoveAll(name string) error {
	f, p := resolve(name)
	f.mu.Lock()
	defer f.mu.Unlock()
	_, isFile := f.files[p]
	if !isFile && !f.dirs[p] {
		return nil
	}
	if err := f.gate("removeall " + p); err != nil {
		return pathErr("removeall", name, err)
	}
	f.removeAllLocked(p)
	f.log = append(f.log, Op{Kind: OpRemoveAll, Path: p, Ino: -1})
	return nil
}

func (f *FS) removeAllLocked(p string) {
	pre := p + "/"
	if p == "/" {
		pre = "/"
	}
	for q := range f.files {
		if q == p || strings.HasPrefix(q, pre) {
			delete(f.files, q)
		}
	}
	for d := range f.dirs {
		if d != "/" && (d == p || strings.HasPrefix(d, pre)) {
			delete(f.dirs, d)
		}
	}
}

// ReadFile / WriteFile: conveniences for harnesses (WriteFile = create, write, no sync).
func ReadFile(name string) ([]byte, error) {
	h, err := Open(name)
	if err != nil {
		return nil, err
	}
	defer h.Close()
	return io.ReadAll(h)
}

func WriteFile(name string, data []byte, perm FileMode) error {
	h, err := OpenFile(name, O_WRONLY|O_CREATE|O_TRUNC|O_APPEND, perm)
	if err != nil {
		return err
	}
	if _, err = h.Write(data); err != nil {
		h.Close()
		return err
	}
	return h.Close()
}
