//go:build verif

// Package blkfx builds deterministic real block chains for the block-manager
// checks (C07, C08): fixed validator keys, real test.Node instances (real
// block.Manager, real service transitions on the basic platform, MapDB), and
// synchronous wrappers around the asynchronous block manager API.
//
// Nothing here decides a property; it only owns the nondeterminism of the
// fixture (keys, logging, callbacks).
package blkfx

import (
	"bytes"
	"fmt"
	"io"
	"strings"
	"sync"
	"time"

	"github.com/icon-project/goloop/block"
	"github.com/icon-project/goloop/common/crypto"
	"github.com/icon-project/goloop/common/db"
	"github.com/icon-project/goloop/common/log"
	"github.com/icon-project/goloop/common/wallet"
	"github.com/icon-project/goloop/consensus"
	"github.com/icon-project/goloop/module"
	"github.com/icon-project/goloop/test"
)

// T implements test.T; assertion failures inside the goloop test helpers are
// recorded (they are harness errors, never property verdicts).
type T struct {
	mu   sync.Mutex
	errs []string
}

func (t *T) Errorf(format string, args ...interface{}) {
	t.mu.Lock()
	if len(t.errs) < 20 {
		t.errs = append(t.errs, fmt.Sprintf(format, args...))
	}
	t.mu.Unlock()
}
func (t *T) Logf(format string, args ...any) {}

// Errs returns the recorded helper assertion failures.
func (t *T) Errs() []string {
	t.mu.Lock()
	defer t.mu.Unlock()
	return append([]string(nil), t.errs...)
}

var quietOnce sync.Once

// Quiet silences the global goloop logger (the per-node loggers are silenced
// when the node is created).
func Quiet() {
	quietOnce.Do(func() {
		gl := log.GlobalLogger()
		gl.SetOutput(io.Discard)
		gl.SetLevel(log.PanicLevel)
	})
}

// Wallet returns the i-th fixed wallet (private key = sha3-256 of a constant
// string; signing is RFC 6979 deterministic).
func Wallet(i int) module.Wallet {
	sk, err := crypto.ParsePrivateKey(crypto.SHA3Sum256([]byte(fmt.Sprintf("verif-blkfx-validator-key-%d", i))))
	if err != nil {
		panic(err)
	}
	w, err := wallet.NewFromPrivateKey(sk)
	if err != nil {
		panic(err)
	}
	return w
}

// WP is a module.WalletProvider for one wallet (BTP proof parts).
type WP struct{ W module.Wallet }

func (p WP) WalletFor(dsa string) module.BaseWallet {
	if dsa == "ecdsa/secp256k1" {
		return p.W
	}
	return nil
}

// Fx is a set of nodes sharing one genesis whose validator list is the first
// nVal fixed wallets. Node i uses wallet i.
type Fx struct {
	T       *T
	Wallets []module.Wallet
	Nodes   []*test.Node
	Genesis string
}

// Genesis returns the genesis transaction naming the given validators.
func Genesis(ws []module.Wallet) string {
	var vs []string
	for _, w := range ws {
		vs = append(vs, fmt.Sprintf("%q", w.Address().String()))
	}
	return fmt.Sprintf(`{
		"accounts": [
			{"name":"treasury","address":"hx1000000000000000000000000000000000000000","balance":"0x0"},
			{"name":"god","address":"hx0000000000000000000000000000000000000000","balance":"0x0"}
		],
		"message": "",
		"nid": "0x1",
		"chain": { "validatorList": [ %s ] }
	}`, strings.Join(vs, ", "))
}

// New creates nNodes nodes (node i holds wallet i) on a chain with nVal
// validators.
func New(nVal, nNodes int) *Fx {
	Quiet()
	fx := &Fx{T: &T{}}
	n := nVal
	if nNodes > n {
		n = nNodes
	}
	for i := 0; i < n; i++ {
		fx.Wallets = append(fx.Wallets, Wallet(i))
	}
	fx.Genesis = Genesis(fx.Wallets[:nVal])
	for i := 0; i < nNodes; i++ {
		nd := test.NewNode(fx.T, test.UseGenesis(fx.Genesis), test.UseWallet(fx.Wallets[i]))
		nd.Chain.Logger().SetOutput(io.Discard)
		nd.Chain.Logger().SetLevel(log.PanicLevel)
		fx.Nodes = append(fx.Nodes, nd)
	}
	return fx
}

// Close terminates all nodes and removes their temporary directories.
func (fx *Fx) Close() {
	for _, n := range fx.Nodes {
		func() {
			defer func() { recover() }()
			n.Close()
		}()
	}
	fx.Nodes = nil
}

// VoteSpec names one commit-vote item: who signs and with which timestamp.
type VoteSpec struct {
	Signer int   `json:"s"`
	TS     int64 `json:"ts"`
}

// PartSetID returns the part set id of blk's encoding.
func PartSetID(blk module.BlockData) *consensus.PartSetID {
	var buf bytes.Buffer
	if err := blk.Marshal(&buf); err != nil {
		panic(err)
	}
	pb := consensus.NewPartSetBuffer(consensus.ConfigBlockPartSize)
	if _, err := pb.Write(buf.Bytes()); err != nil {
		panic(err)
	}
	return pb.PartSet().ID()
}

// VoteMsg returns one real signed precommit for blk by the named fixed wallet.
// bpsID is the part set id of blk (PartSetID(blk)); pcm is the proof context
// map for blk's height (nil when BTP is not in use).
func (fx *Fx) VoteMsg(blk module.BlockData, bpsID *consensus.PartSetID, round int32, ntsVoteCount int, pcm module.BTPProofContextMap, s VoteSpec) (*consensus.VoteMessage, error) {
	w := fx.wallet(s.Signer)
	return consensus.NewVoteMessageFromBlock(
		w, WP{w}, blk, round, consensus.VoteTypePrecommit,
		bpsID.WithAppData(uint64(ntsVoteCount)), s.TS, 1, pcm,
	)
}

// VoteList assembles a commit vote list from signed precommits.
func VoteList(pcm module.BTPProofContextMap, msgs []*consensus.VoteMessage) (module.CommitVoteSet, error) {
	if len(msgs) == 0 {
		return consensus.NewEmptyCommitVoteList(), nil
	}
	cvl := consensus.NewCommitVoteList(pcm, msgs...)
	if cvl == nil || cvl.(*consensus.CommitVoteList) == nil {
		return nil, fmt.Errorf("NewCommitVoteList failed")
	}
	return cvl, nil
}

// Votes builds a real commit vote list for blk: one precommit per spec.
func (fx *Fx) Votes(blk module.BlockData, round int32, ntsVoteCount int, pcm module.BTPProofContextMap, specs []VoteSpec) (module.CommitVoteSet, error) {
	if len(specs) == 0 {
		return consensus.NewEmptyCommitVoteList(), nil
	}
	bpsID := PartSetID(blk)
	var msgs []*consensus.VoteMessage
	for _, s := range specs {
		vm, err := fx.VoteMsg(blk, bpsID, round, ntsVoteCount, pcm, s)
		if err != nil {
			return nil, err
		}
		msgs = append(msgs, vm)
	}
	return VoteList(pcm, msgs)
}

func (fx *Fx) wallet(i int) module.Wallet {
	for len(fx.Wallets) <= i {
		fx.Wallets = append(fx.Wallets, Wallet(len(fx.Wallets)))
	}
	return fx.Wallets[i]
}

// PCMFor returns the proof context map that applies to votes for blk, read
// from bm (nil for the genesis block).
func PCMFor(bm module.BlockManager, blk module.BlockData) (module.BTPProofContextMap, error) {
	if blk.Height() == 0 {
		return nil, nil
	}
	prev, err := bm.GetBlockByHeight(blk.Height() - 1)
	if err != nil {
		return nil, err
	}
	return prev.NextProofContextMap()
}

// HangTimeout bounds the wait for a block manager callback; it is only a hang
// guard (a timeout is reported as a harness error, never as a verdict).
const HangTimeout = 60 * time.Second

// ErrHang is returned when a callback did not arrive.
var ErrHang = fmt.Errorf("blkfx: block manager callback did not arrive")

type cbRes struct {
	bc  module.BlockCandidate
	err error
}

func wait(ch chan cbRes) (module.BlockCandidate, error) {
	tm := time.NewTimer(HangTimeout)
	defer tm.Stop()
	select {
	case r := <-ch:
		return r.bc, r.err
	case <-tm.C:
		return nil, ErrHang
	}
}

// Propose runs bm.Propose and waits for its callback.
func Propose(bm module.BlockManager, parentID []byte, votes module.CommitVoteSet) (module.BlockCandidate, error) {
	ch := make(chan cbRes, 1)
	_, err := bm.Propose(parentID, votes, func(bc module.BlockCandidate, err error) { ch <- cbRes{bc, err} })
	if err != nil {
		return nil, err
	}
	return wait(ch)
}

// Stage says where an import was refused.
type Stage int

const (
	Accepted Stage = iota
	RejectedSync
	RejectedAsync
)

func (s Stage) String() string { return [...]string{"accepted", "rejected-sync", "rejected-async"}[s] }

// ImportBytes runs bm.Import on the encoding and waits for the callback.
func ImportBytes(bm module.BlockManager, enc []byte, flags int) (module.BlockCandidate, Stage, error) {
	ch := make(chan cbRes, 1)
	_, err := bm.Import(bytes.NewReader(enc), flags, func(bc module.BlockCandidate, err error) { ch <- cbRes{bc, err} })
	if err != nil {
		return nil, RejectedSync, err
	}
	bc, err := wait(ch)
	if err != nil {
		return nil, RejectedAsync, err
	}
	return bc, Accepted, nil
}

// ImportBlock runs bm.ImportBlock on bd and waits for the callback.
func ImportBlock(bm module.BlockManager, bd module.BlockData, flags int) (module.BlockCandidate, Stage, error) {
	ch := make(chan cbRes, 1)
	_, err := bm.ImportBlock(bd, flags, func(bc module.BlockCandidate, err error) { ch <- cbRes{bc, err} })
	if err != nil {
		return nil, RejectedSync, err
	}
	bc, err := wait(ch)
	if err != nil {
		return nil, RejectedAsync, err
	}
	return bc, Accepted, nil
}

// WaitTxLocators blocks until the transaction locators of the given
// transaction ids are visible in the database. goloop's txlocator manager
// flushes them from a background goroutine after Finalize, and the test
// service manager filters its pool by reading that bucket, so proposing the
// next block before the flush would (nondeterministically) include an already
// finalized transaction again. This only joins that goroutine's effect.
func WaitTxLocators(dbase db.Database, ids [][]byte) error {
	bk, err := dbase.GetBucket(db.TransactionLocatorByHash)
	if err != nil {
		return err
	}
	deadline := time.Now().Add(HangTimeout)
	for _, id := range ids {
		for {
			bs, err := bk.Get(id)
			if err == nil && len(bs) > 0 {
				break
			}
			if time.Now().After(deadline) {
				return fmt.Errorf("blkfx: locator of tx %x not flushed", id)
			}
			time.Sleep(200 * time.Microsecond)
		}
	}
	return nil
}

// TxIDs lists the ids of a transaction list.
func TxIDs(l module.TransactionList) [][]byte {
	var out [][]byte
	for it := l.Iterator(); it.Has(); {
		tx, _, err := it.Get()
		if err != nil {
			panic(err)
		}
		out = append(out, tx.ID())
		if err := it.Next(); err != nil {
			panic(err)
		}
	}
	return out
}

// Encode serialises header and body formats (header ‖ body).
func Encode(h *block.V2HeaderFormat, b *block.V2BodyFormat) []byte {
	bs, err := io.ReadAll(block.NewBlockReaderFromFormat(h, b))
	if err != nil {
		panic(err)
	}
	return bs
}

// Marshal returns the block's own encoding.
func Marshal(blk module.BlockData) []byte {
	var buf bytes.Buffer
	if err := blk.Marshal(&buf); err != nil {
		panic(err)
	}
	return buf.Bytes()
}
