//go:build verif

// Package pbfs is a level-synchronous, parallel explicit-state breadth-first
// search over operation histories, for checks whose system under test is a real
// goloop object that cannot be cloned: a state is identified by a canonical key
// and re-created by replaying the (shortest, first found) history that reached it
// on a fresh real instance. It is the parallel sibling of opseq.BFS and is
// deterministic: the order in which states are discovered does not depend on
// goroutine scheduling (results of a batch are merged in (parent, op) order).
package pbfs

import (
	"crypto/sha256"
	"sync"
)

// Step builds a fresh instance, replays hist (root prefix + op indices) and
// returns the canonical key of the resulting state. ok=false means the last op
// of hist is not enabled in the state reached by the rest (no transition).
// Step is also where the check compares implementation and model. It is called
// concurrently from several goroutines.
type Step func(hist []byte) (key string, ok bool)

type Config struct {
	Roots    [][]byte // initial histories (interpreted by Step only); depth 0
	Ops      int      // size of the operation alphabet (<= 256)
	MaxDepth int      // number of ops appended to a root at most
	Workers  int      // 0 = 16
	Batch    int      // parents per parallel batch (0 = 2048)
	Step     Step
	Stop     func() bool // polled between batches; true = give up (not exhaustive)
	// OnNew is called (sequentially, deterministic order) for every newly
	// discovered state with the history that first reached it.
	OnNew func(hist []byte, key string, depth int)
}

type Stats struct {
	States      int   // distinct canonical states (including roots)
	Transitions int   // enabled (state, op) pairs executed
	Replays     int   // histories replayed on fresh real instances (= Step calls)
	PerDepth    []int // new states found at depth i
	DepthDone   int   // deepest level whose states were all expanded... see Complete
	Complete    bool  // every state at depth < MaxDepth was expanded with every op
	Fixpoint    bool  // frontier emptied before MaxDepth: the reachable set is closed
}

type hkey [16]byte

func hk(s string) hkey {
	sum := sha256.Sum256([]byte(s))
	var k hkey
	copy(k[:], sum[:16])
	return k
}

type res struct {
	key string
	ok  bool
}

// Run explores. States are de-duplicated on the first 128 bits of SHA-256 of
// the key string.
func Run(c Config) Stats {
	if c.Workers <= 0 {
		c.Workers = 16
	}
	if c.Batch <= 0 {
		c.Batch = 2048
	}
	var st Stats
	seen := map[hkey]struct{}{}
	var frontier [][]byte
	st.PerDepth = append(st.PerDepth, 0)
	for _, r := range c.Roots {
		k, _ := c.Step(r)
		st.Replays++
		h := hk(k)
		if _, dup := seen[h]; dup {
			continue
		}
		seen[h] = struct{}{}
		frontier = append(frontier, append([]byte(nil), r...))
		st.PerDepth[0]++
		if c.OnNew != nil {
			c.OnNew(r, k, 0)
		}
	}
	st.Complete = true
	for depth := 0; depth < c.MaxDepth && len(frontier) > 0; depth++ {
		var next [][]byte
		st.PerDepth = append(st.PerDepth, 0)
		for lo := 0; lo < len(frontier); lo += c.Batch {
			if c.Stop != nil && c.Stop() {
				st.Complete = false
				st.States = len(seen)
				return st
			}
			hi := lo + c.Batch
			if hi > len(frontier) {
				hi = len(frontier)
			}
			n := (hi - lo) * c.Ops
			out := make([]res, n)
			par(n, c.Workers, func(i int) {
				p := frontier[lo+i/c.Ops]
				nh := make([]byte, len(p)+1)
				copy(nh, p)
				nh[len(p)] = byte(i % c.Ops)
				k, ok := c.Step(nh)
				out[i] = res{k, ok}
			})
			st.Replays += n
			for i, r := range out {
				if !r.ok {
					continue
				}
				st.Transitions++
				h := hk(r.key)
				if _, dup := seen[h]; dup {
					continue
				}
				seen[h] = struct{}{}
				p := frontier[lo+i/c.Ops]
				nh := make([]byte, len(p)+1)
				copy(nh, p)
				nh[len(p)] = byte(i % c.Ops)
				next = append(next, nh)
				st.PerDepth[depth+1]++
				if c.OnNew != nil {
					c.OnNew(nh, r.key, depth+1)
				}
			}
		}
		st.DepthDone = depth + 1
		frontier = next
	}
	st.States = len(seen)
	st.Fixpoint = len(frontier) == 0
	return st
}

func par(n, workers int, fn func(i int)) {
	if workers > n {
		workers = n
	}
	if workers <= 1 {
		for i := 0; i < n; i++ {
			fn(i)
		}
		return
	}
	var wg sync.WaitGroup
	const chunk = 64
	var mu sync.Mutex
	next := 0
	for w := 0; w < workers; w++ {
		wg.Add(1)
		go func() {
			defer wg.Done()
			for {
				mu.Lock()
				lo := next
				next += chunk
				mu.Unlock()
				if lo >= n {
					return
				}
				hi := lo + chunk
				if hi > n {
					hi = n
				}
				for i := lo; i < hi; i++ {
					fn(i)
				}
			}
		}()
	}
	wg.Wait()
}
