//go:build verif

// Package vclock is a drop-in shim for the slice of package "time" that
// consensus/consensus.go and consensus/syncer.go use. When a World is
// installed with Use, Now is the world's virtual time and AfterFunc only
// *records* the timer: it fires when the harness says so (Fire). With no world
// installed everything delegates to the real package time, so code outside an
// exploration behaves normally.
//
// A process drives at most one world at a time (the consensus harness is
// single-threaded and shards by process), hence the package-level pointer.
package vclock

import "time"

type Duration = time.Duration
type Time = time.Time
type Month = time.Month

const (
	Nanosecond  = time.Nanosecond
	Microsecond = time.Microsecond
	Millisecond = time.Millisecond
	Second      = time.Second
	Minute      = time.Minute
	Hour        = time.Hour
	StampMicro  = time.StampMicro
)

// Timer mirrors *time.Timer for the methods the rewritten files use.
type Timer struct {
	real *time.Timer
	w    *World
	D    Duration
	f    func()
	live bool
	Seq  int
}

func (t *Timer) Stop() bool {
	if t.real != nil {
		return t.real.Stop()
	}
	was := t.live
	t.live = false
	return was
}

// World owns virtual time and the pending timers of one engine.
type World struct {
	NowT   time.Time
	timers []*Timer
	seq    int
}

var cur *World

// Use installs w (nil = real time).
func Use(w *World) { cur = w }

func Cur() *World { return cur }

func NewWorld(start time.Time) *World { return &World{NowT: start} }

func Now() Time {
	if cur == nil {
		return time.Now()
	}
	return cur.NowT
}

func Since(t Time) Duration { return Now().Sub(t) }

func Unix(sec, nsec int64) Time { return time.Unix(sec, nsec) }

func AfterFunc(d Duration, f func()) *Timer {
	if cur == nil {
		return &Timer{real: time.AfterFunc(d, f)}
	}
	cur.seq++
	t := &Timer{w: cur, D: d, f: f, live: true, Seq: cur.seq}
	cur.timers = append(cur.timers, t)
	return t
}

// Pending returns the live timers in creation order.
func (w *World) Pending() []*Timer {
	var out []*Timer
	keep := w.timers[:0]
	for _, t := range w.timers {
		if t.live {
			out = append(out, t)
			keep = append(keep, t)
		}
	}
	w.timers = keep
	return out
}

// Fire runs the timer's function (as time.AfterFunc would, on the caller's
// goroutine) and marks it expired.
func (w *World) Fire(t *Timer) {
	if !t.live {
		return
	}
	t.live = false
	t.f()
}

// DropAll forgets every pending timer (used at a simulated crash).
func (w *World) DropAll() {
	for _, t := range w.timers {
		t.live = false
	}
	w.timers = nil
}
