//go:build verif

// Package opseq holds the small enumeration helpers used by the bounded
// operation-sequence / input-enumeration checks (engine E2 of DESIGN.md).
// Nothing here samples: every helper visits a finite space completely, in a
// fixed order (simplest first).
package opseq

// Product calls fn with every index vector of the Cartesian product of the
// given dimension sizes (last index fastest). fn returning false stops the
// enumeration; Product reports whether it ran to completion.
func Product(dims []int, fn func(idx []int) bool) bool {
	for _, d := range dims {
		if d == 0 {
			return true
		}
	}
	idx := make([]int, len(dims))
	for {
		if !fn(idx) {
			return false
		}
		i := len(dims) - 1
		for ; i >= 0; i-- {
			idx[i]++
			if idx[i] < dims[i] {
				break
			}
			idx[i] = 0
		}
		if i < 0 {
			return true
		}
	}
}

// Sequences calls fn with every sequence over an alphabet of size k of every
// length in [minLen,maxLen], shortest first. fn returning false stops.
func Sequences(k, minLen, maxLen int, fn func(seq []int) bool) bool {
	for l := minLen; l <= maxLen; l++ {
		dims := make([]int, l)
		for i := range dims {
			dims[i] = k
		}
		if l == 0 {
			if !fn(nil) {
				return false
			}
			continue
		}
		if !Product(dims, fn) {
			return false
		}
	}
	return true
}

// Subsets calls fn with every subset of {0..n-1} as a bitmask, ascending.
func Subsets(n int, fn func(mask uint) bool) bool {
	for m := uint(0); m < 1<<uint(n); m++ {
		if !fn(m) {
			return false
		}
	}
	return true
}

// Permutations calls fn with every permutation of 0..n-1 (lexicographic).
func Permutations(n int, fn func(p []int) bool) bool {
	p := make([]int, n)
	for i := range p {
		p[i] = i
	}
	for {
		if !fn(p) {
			return false
		}
		i := n - 2
		for i >= 0 && p[i] > p[i+1] {
			i--
		}
		if i < 0 {
			return true
		}
		j := n - 1
		for p[j] < p[i] {
			j--
		}
		p[i], p[j] = p[j], p[i]
		for a, b := i+1, n-1; a < b; a, b = a+1, b-1 {
			p[a], p[b] = p[b], p[a]
		}
	}
}

// BFS is an explicit-state breadth-first search in which a state is identified
// by a canonical key and *re-created by replaying the shortest operation
// history* that reached it (real objects cannot be cloned).
//
//	ops      size of the operation alphabet
//	maxDepth longest history explored
//	step     builds a fresh instance, replays hist (a list of op indices) and
//	         returns the canonical key of the resulting state; ok=false means
//	         the last op is not enabled in that state (no transition).
//	         step is also where the check compares implementation and model.
//
// It returns the number of distinct states and transitions and whether the
// frontier emptied before maxDepth (fixpoint reached).
func BFS(ops, maxDepth int, step func(hist []int) (key string, ok bool), stop func() bool) (states, transitions int, fixpoint bool) {
	k0, _ := step(nil)
	seen := map[string]struct{}{k0: {}}
	frontier := [][]int{nil}
	for depth := 0; depth < maxDepth && len(frontier) > 0; depth++ {
		var next [][]int
		for _, h := range frontier {
			for op := 0; op < ops; op++ {
				if stop != nil && stop() {
					return len(seen), transitions, false
				}
				nh := append(append(make([]int, 0, len(h)+1), h...), op)
				k, ok := step(nh)
				if !ok {
					continue
				}
				transitions++
				if _, dup := seen[k]; !dup {
					seen[k] = struct{}{}
					next = append(next, nh)
				}
			}
		}
		frontier = next
	}
	return len(seen), transitions, len(frontier) == 0
}
