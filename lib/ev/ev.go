//go:build verif

// Package ev is the evidence / violation / known-findings writer shared by all
// checks. It is mounted into the goloop module at
// github.com/icon-project/goloop/verifshim/ev through the build overlay.
package ev

import (
	"crypto/sha256"
	"encoding/hex"
	"encoding/json"
	"fmt"
	"hash/fnv"
	"os"
	"path/filepath"
	"sort"
	"strconv"
	"strings"
	"sync"
	"testing"
	"time"
)

// Run collects what one invocation of a check covered.
type Run struct {
	t     testing.TB
	id    string
	level string
	tier  string
	seed  int64
	root  string
	start time.Time
	dl    time.Time

	mu          sync.Mutex
	evals       int64
	distinct    map[uint64]struct{}
	rule        string
	samples     []interface{}
	maxSamples  int
	states      int64
	transitions int64
	traces      int64
	extra       map[string]interface{}
	assumptions []string
	caps        []string
	violations  int
	knownHits   map[string]bool
	seenSig     map[string]int
	known       []finding
	finished    bool
}

type finding struct {
	State     string `json:"state"`
	Property  string `json:"property"`
	Signature string `json:"signature"`
	Commit    string `json:"commit,omitempty"`
	Text      string `json:"text"`
}

// Root returns the /verif directory (VERIF_ROOT).
func Root() string {
	if r := os.Getenv("VERIF_ROOT"); r != "" {
		return r
	}
	return "/verif"
}

// outRoot is where evidence/ and replays/ go: /verif normally, the scratch work
// dir when the check runs against a scratch copy of the repository.
func outRoot(root string) string {
	if s := os.Getenv("VERIF_SCRATCH"); s != "" {
		return s
	}
	return root
}

// Start begins a run for property id at the given evidence level
// ("exploration", "fault_enumeration" or "model_checking").
func Start(t testing.TB, id, level string) *Run {
	r := &Run{t: t, id: id, level: level, start: time.Now(), root: Root(),
		distinct: map[uint64]struct{}{}, extra: map[string]interface{}{},
		knownHits: map[string]bool{}, seenSig: map[string]int{}, maxSamples: 6}
	r.tier = os.Getenv("VERIF_TIER")
	if r.tier != "thorough" {
		r.tier = "quick"
	}
	if s := os.Getenv("VERIF_SEED"); s != "" {
		r.seed, _ = strconv.ParseInt(s, 10, 64)
	}
	budget := 90 * time.Second
	if r.tier == "thorough" {
		budget = 15 * time.Minute
	}
	if s := os.Getenv("VERIF_BUDGET_S"); s != "" {
		if n, err := strconv.Atoi(s); err == nil {
			budget = time.Duration(n) * time.Second
		}
	}
	r.dl = r.start.Add(budget)
	if b, err := os.ReadFile(filepath.Join(r.root, "known_findings.json")); err == nil {
		if err := json.Unmarshal(b, &r.known); err != nil {
			t.Fatalf("known_findings.json: %v", err)
		}
	}
	return r
}

// SetBudget overrides the wall-clock budget of this run (before exploring).
func (r *Run) SetBudget(quick, thorough time.Duration) {
	if os.Getenv("VERIF_BUDGET_S") != "" {
		return
	}
	if r.tier == "thorough" {
		r.dl = r.start.Add(thorough)
	} else {
		r.dl = r.start.Add(quick)
	}
}

func (r *Run) Tier() string   { return r.tier }
func (r *Run) Quick() bool    { return r.tier == "quick" }
func (r *Run) Thorough() bool { return r.tier == "thorough" }
func (r *Run) Seed() int64    { return r.seed }

// Pick returns q in the quick tier and th in the thorough tier.
func (r *Run) Pick(q, th int) int {
	if r.Thorough() {
		return th
	}
	return q
}

// Expired reports whether the run's wall budget is used up. The first time it
// returns true the cap is recorded; the check must then stop exploring and call
// Finish(false).
func (r *Run) Expired() bool {
	if time.Now().Before(r.dl) {
		return false
	}
	r.Cap("wall-clock budget reached")
	return true
}

// Cap records that some bound/cap was hit (so the run is not exhaustive).
func (r *Run) Cap(what string) {
	r.mu.Lock()
	defer r.mu.Unlock()
	for _, c := range r.caps {
		if c == what {
			return
		}
	}
	r.caps = append(r.caps, what)
}

func (r *Run) Rule(s string) { r.mu.Lock(); r.rule = s; r.mu.Unlock() }

func (r *Run) Assume(s ...string) {
	r.mu.Lock()
	r.assumptions = append(r.assumptions, s...)
	r.mu.Unlock()
}

// Eval counts n evaluated cases / executions.
func (r *Run) Eval(n int) { r.mu.Lock(); r.evals += int64(n); r.mu.Unlock() }

// Nontrivial records one non-trivial case identified by key; distinct keys are
// counted (by 64-bit hash).
func (r *Run) Nontrivial(key string) {
	h := fnv.New64a()
	h.Write([]byte(key))
	v := h.Sum64()
	r.mu.Lock()
	r.distinct[v] = struct{}{}
	r.mu.Unlock()
}

// Sample keeps up to a handful of written-out cases.
func (r *Run) Sample(v interface{}) {
	r.mu.Lock()
	if len(r.samples) < r.maxSamples {
		r.samples = append(r.samples, v)
	}
	r.mu.Unlock()
}

func (r *Run) States(n int)      { r.mu.Lock(); r.states += int64(n); r.mu.Unlock() }
func (r *Run) Transitions(n int) { r.mu.Lock(); r.transitions += int64(n); r.mu.Unlock() }
func (r *Run) Traces(n int)      { r.mu.Lock(); r.traces += int64(n); r.mu.Unlock() }

// Set stores an extra coverage key (bounds completed, vacuity counters, ...).
func (r *Run) Set(key string, v interface{}) { r.mu.Lock(); r.extra[key] = v; r.mu.Unlock() }

// Add increments an integer extra coverage key.
func (r *Run) Add(key string, n int64) {
	r.mu.Lock()
	old, _ := r.extra[key].(int64)
	r.extra[key] = old + n
	r.mu.Unlock()
}

// Violation reports a violating case. signature is the check's own narrow
// classification of the failure (used to match known findings and to
// de-duplicate output); detail is a human-readable line; replay is any
// JSON-marshalable value from which the case can be re-run.
// It returns true if this was a *new* (not known) violation.
func (r *Run) Violation(signature, detail string, replay interface{}) bool {
	r.mu.Lock()
	defer r.mu.Unlock()
	for _, k := range r.known {
		if k.State == "known" && k.Property == r.id && k.Signature == signature {
			if !r.knownHits[signature] {
				r.knownHits[signature] = true
				fmt.Printf("KNOWN-FINDING: property=%s %s [signature=%s]\n", r.id, k.Text, signature)
			}
			return false
		}
	}
	r.violations++
	r.seenSig[signature]++
	if r.seenSig[signature] > 3 || len(r.seenSig) > 12 {
		return true // already reported enough of this kind
	}
	body, _ := json.MarshalIndent(map[string]interface{}{
		"property": r.id, "signature": signature, "detail": detail, "tier": r.tier, "case": replay,
	}, "", " ")
	sum := sha256.Sum256(body)
	dir := filepath.Join(outRoot(r.root), "replays")
	os.MkdirAll(dir, 0o755)
	p := filepath.Join(dir, fmt.Sprintf("%s-%s.json", r.id, hex.EncodeToString(sum[:6])))
	os.WriteFile(p, body, 0o644)
	fmt.Printf("VIOLATION property=%s replay=%s\n", r.id, p)
	fmt.Printf("  signature=%s\n  %s\n", signature, strings.ReplaceAll(detail, "\n", "\n  "))
	return true
}

// Violations returns the number of non-known violations so far.
func (r *Run) Violations() int { r.mu.Lock(); defer r.mu.Unlock(); return r.violations }

// ReplayCase loads the "case" member of the replay file named by VERIF_REPLAY
// into v. It returns false when no replay was requested.
func ReplayCase(v interface{}) bool {
	p := os.Getenv("VERIF_REPLAY")
	if p == "" {
		return false
	}
	b, err := os.ReadFile(p)
	if err != nil {
		panic(err)
	}
	var w struct {
		Case json.RawMessage `json:"case"`
	}
	if err := json.Unmarshal(b, &w); err != nil {
		panic(err)
	}
	if err := json.Unmarshal(w.Case, v); err != nil {
		panic(err)
	}
	return true
}

// Replaying reports whether this invocation is a replay.
func Replaying() bool { return os.Getenv("VERIF_REPLAY") != "" }

// Finish writes evidence/<id>.json. exhaustive must be true only if the check
// enumerated its whole stated space; it is forced to false if any cap was hit.
func (r *Run) Finish(exhaustive bool) {
	r.mu.Lock()
	defer r.mu.Unlock()
	if r.finished {
		return
	}
	r.finished = true
	if len(r.caps) > 0 {
		exhaustive = false
	}
	cov := map[string]interface{}{}
	for k, v := range r.extra {
		cov[k] = v
	}
	cov["evaluations"] = r.evals
	cov["distinct_nontrivial"] = len(r.distinct)
	cov["rule"] = r.rule
	cov["samples"] = r.samples
	cov["exhaustive"] = exhaustive
	if len(r.caps) > 0 {
		cov["caps_hit"] = r.caps
	}
	if r.level == "model_checking" {
		cov["states"] = r.states
		cov["transitions"] = r.transitions
		cov["traces_validated_against_impl"] = r.traces
	}
	var kh []string
	for k := range r.knownHits {
		kh = append(kh, k)
	}
	sort.Strings(kh)
	if len(kh) > 0 {
		cov["known_findings_reproduced"] = kh
	}
	evd := map[string]interface{}{
		"property_id": r.id,
		"tier":        r.tier,
		"seed":        r.seed,
		"level":       r.level,
		"coverage":    cov,
		"assumptions": r.assumptions,
		"wall_s":      time.Since(r.start).Seconds(),
		"violations":  r.violations,
	}
	if r.assumptions == nil {
		evd["assumptions"] = []string{}
	}
	if !Replaying() {
		b, err := json.MarshalIndent(evd, "", " ")
		if err != nil {
			r.t.Fatalf("evidence marshal: %v", err)
		}
		dir := filepath.Join(outRoot(r.root), "evidence")
		os.MkdirAll(dir, 0o755)
		if err := os.WriteFile(filepath.Join(dir, r.id+".json"), append(b, '\n'), 0o644); err != nil {
			r.t.Fatalf("evidence write: %v", err)
		}
	}
	fmt.Printf("VERIF %s tier=%s evaluations=%d distinct_nontrivial=%d states=%d transitions=%d exhaustive=%v violations=%d known=%d wall=%.1fs\n",
		r.id, r.tier, r.evals, len(r.distinct), r.states, r.transitions, exhaustive, r.violations, len(kh), time.Since(r.start).Seconds())
	if r.violations > 0 {
		r.t.Fail()
	}
}

// Sanity fails the run as a *harness error* (not a property verdict) when a
// vacuity guard does not hold.
func (r *Run) Sanity(ok bool, format string, a ...interface{}) {
	if !ok {
		fmt.Printf("HARNESS-ERROR property=%s %s\n", r.id, fmt.Sprintf(format, a...))
		r.Cap("harness sanity failed: " + fmt.Sprintf(format, a...))
	}
}

// Par runs fn(i) for i in [0,n) on `workers` goroutines (0 = 16).
func Par(n, workers int, fn func(i int)) {
	if workers <= 0 {
		workers = 16
	}
	if workers > n {
		workers = n
	}
	if workers <= 1 {
		for i := 0; i < n; i++ {
			fn(i)
		}
		return
	}
	var wg sync.WaitGroup
	var mu sync.Mutex
	next := 0
	for w := 0; w < workers; w++ {
		wg.Add(1)
		go func() {
			defer wg.Done()
			for {
				mu.Lock()
				i := next
				next++
				mu.Unlock()
				if i >= n {
					return
				}
				fn(i)
			}
		}()
	}
	wg.Wait()
}

// Catch runs fn and returns a non-empty description if it panicked.
func Catch(fn func()) (panicked string) {
	defer func() {
		if x := recover(); x != nil {
			panicked = fmt.Sprint(x)
			if panicked == "" {
				panicked = "panic"
			}
		}
	}()
	fn()
	return ""
}
