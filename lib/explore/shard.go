//go:build verif

package explore

import (
	"bufio"
	"bytes"
	"encoding/binary"
	"fmt"
	"io"
	"os"
	"os/exec"
	"runtime"
	"strconv"
	"sync"
)

// Process sharding.
//
// A cooperative scheduler hands a baton between goroutines; with GOMAXPROCS>1
// every hand-off wakes an idle P and the engine runs ~3x slower (and several
// explorers inside one process thrash the Go scheduler: 16 goroutine-level
// explorers together were slower than ONE process with GOMAXPROCS=1). The
// efficient way to use 16 cores is therefore 16 child processes with
// GOMAXPROCS=1 each. RunShards re-executes the running test binary; children
// pull work item numbers from a shared queue (dynamic load balancing) and
// stream result lines back to the parent.
//
//	func TestVerifCxx(t *testing.T) {
//	    if explore.IsShard() { shardMain(); return }      // child: no ev.Start here
//	    ...
//	    err := explore.RunShards(explore.ShardSpec{Test: "TestVerifCxx", Items: n, Procs: 16,
//	        Env: []string{"MY_PARAM=..."}}, func(shard int, line []byte) { /* aggregate */ })
//	}
//	func shardMain() {
//	    for { i, ok := explore.NextItem(); if !ok { break }; ...; explore.Emit(jsonLine) }
//	}

const shardEnv = "VERIF_EXPLORE_SHARD"

// IsShard reports whether this process is a shard child.
func IsShard() bool { return os.Getenv(shardEnv) != "" }

// ShardID is the child's index (0-based); -1 in the parent.
func ShardID() int {
	if !IsShard() {
		return -1
	}
	n, _ := strconv.Atoi(os.Getenv(shardEnv))
	return n - 1
}

var (
	queueOnce sync.Once
	queueFile *os.File
	emitFile  *os.File
	emitMu    sync.Mutex
)

func shardFiles() {
	queueOnce.Do(func() {
		queueFile = os.NewFile(3, "verif-queue")
		emitFile = os.NewFile(4, "verif-results")
	})
}

// NextItem returns the next work item number from the shared queue; ok=false
// when the queue is drained.
func NextItem() (item int, ok bool) {
	shardFiles()
	var b [8]byte
	// fixed-size records, one read(2) each: concurrent readers of the same pipe
	// each get whole records
	n, err := io.ReadFull(queueFile, b[:])
	if err != nil || n != 8 {
		return 0, false
	}
	return int(binary.LittleEndian.Uint64(b[:])), true
}

// Emit sends one result line (no newline inside) to the parent.
func Emit(line []byte) {
	shardFiles()
	emitMu.Lock()
	defer emitMu.Unlock()
	if bytes.IndexByte(line, '\n') >= 0 {
		line = bytes.ReplaceAll(line, []byte{'\n'}, []byte{' '})
	}
	emitFile.Write(append(append([]byte(nil), line...), '\n'))
}

// ShardSpec describes a sharded run.
type ShardSpec struct {
	Test  string   // test function to run in the children (-test.run ^Test$)
	Items int      // work items 0..Items-1 (or use Order)
	Order []int    // optional explicit item order (e.g. biggest first)
	Procs int      // number of child processes (default runtime.NumCPU())
	Env   []string // extra environment for the children
}

// RunShards runs the children to completion. onLine is called (serialised) for
// every line a child emits. A child that exits non-zero makes RunShards return
// an error carrying the tail of the child's output.
func RunShards(spec ShardSpec, onLine func(shard int, line []byte)) error {
	procs := spec.Procs
	if procs <= 0 {
		procs = runtime.NumCPU()
	}
	order := spec.Order
	if order == nil {
		order = make([]int, spec.Items)
		for i := range order {
			order[i] = i
		}
	}
	if procs > len(order) && len(order) > 0 {
		procs = len(order)
	}
	qr, qw, err := os.Pipe()
	if err != nil {
		return err
	}
	go func() {
		w := bufio.NewWriterSize(qw, 8*512)
		var b [8]byte
		for _, it := range order {
			binary.LittleEndian.PutUint64(b[:], uint64(it))
			w.Write(b[:])
		}
		w.Flush()
		qw.Close()
	}()
	var mu sync.Mutex
	var wg sync.WaitGroup
	errs := make([]error, procs)
	for i := 0; i < procs; i++ {
		rr, rw, err := os.Pipe()
		if err != nil {
			return err
		}
		cmd := exec.Command(os.Args[0], "-test.run", "^"+spec.Test+"$", "-test.count", "1", "-test.timeout", "0")
		cmd.Env = append(os.Environ(), fmt.Sprintf("%s=%d", shardEnv, i+1), "GOMAXPROCS=1")
		if os.Getenv("GOGC") == "" {
			// executions allocate a lot and keep nothing: collect less often
			cmd.Env = append(cmd.Env, "GOGC=400")
		}
		cmd.Env = append(cmd.Env, spec.Env...)
		var outBuf bytes.Buffer
		cmd.Stdout = &outBuf
		cmd.Stderr = &outBuf
		cmd.ExtraFiles = []*os.File{qr, rw}
		if err := cmd.Start(); err != nil {
			return err
		}
		rw.Close()
		wg.Add(1)
		go func(i int) {
			defer wg.Done()
			sc := bufio.NewScanner(rr)
			sc.Buffer(make([]byte, 1<<20), 64<<20)
			for sc.Scan() {
				mu.Lock()
				onLine(i, sc.Bytes())
				mu.Unlock()
			}
			rr.Close()
			if err := cmd.Wait(); err != nil {
				tail := outBuf.Bytes()
				if len(tail) > 6000 {
					tail = tail[len(tail)-6000:]
				}
				errs[i] = fmt.Errorf("shard %d: %v\n%s", i, err, tail)
			}
		}(i)
	}
	qr.Close()
	wg.Wait()
	for _, e := range errs {
		if e != nil {
			return e
		}
	}
	return nil
}
