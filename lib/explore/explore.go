//go:build verif

// Package explore is engine E1 of /verif/DESIGN.md §2.2: a controlled
// cooperative scheduler for goroutines plus a preemption-bounded stateless
// depth-first search over its scheduling decisions (and over explicit
// environment choices).
//
// See README.md in this directory for the API and its guarantees.
package explore

import (
	"fmt"
	"runtime/debug"
	"sort"
	"strings"
	"time"
	"unsafe"
)

// ---------------------------------------------------------------------------
// goroutine identity
//
// A managed goroutine must find "its" thread without any parameter being
// passed through the code under test. The runtime's per-goroutine profiler
// label slot is used as goroutine-local storage (the two accessors below are on
// the Go runtime's documented linkname compatibility list, go.dev/issue/67401).
// No CPU profile may be taken of a binary while an exploration runs.

//go:linkname runtime_getProfLabel runtime/pprof.runtime_getProfLabel
func runtime_getProfLabel() unsafe.Pointer

//go:linkname runtime_setProfLabel runtime/pprof.runtime_setProfLabel
func runtime_setProfLabel(labels unsafe.Pointer)

// Kind names the operation a thread is about to perform at a scheduling point.
type Kind uint8

const (
	KStart Kind = iota
	KGo
	KPoint
	KChoose
	KMutexLock
	KMutexUnlock
	KRLock
	KRUnlock
	KCondWait
	KCondSignal
	KCondBroadcast
	KWGAdd
	KWGWait
	KOnce
	KChanSend
	KChanRecv
	KChanClose
	KExit
	nKinds
)

var kindNames = [nKinds]string{"start", "go", "point", "choose", "mutex.Lock", "mutex.Unlock",
	"rwmutex.RLock", "rwmutex.RUnlock", "cond.Wait", "cond.Signal", "cond.Broadcast",
	"wg.Add", "wg.Wait", "once.Do", "chan.Send", "chan.Recv", "chan.Close", "exit"}

func (k Kind) String() string {
	if int(k) < len(kindNames) {
		return kindNames[k]
	}
	return fmt.Sprintf("kind(%d)", int(k))
}

// IsRelease reports whether the operation only releases a resource.
func (k Kind) IsRelease() bool {
	switch k {
	case KMutexUnlock, KRUnlock, KCondSignal, KCondBroadcast, KChanClose:
		return true
	}
	return false
}

// Choice is one recorded decision: C was taken out of N alternatives.
type Choice struct {
	N int `json:"n"`
	C int `json:"c"`
}

// Trace is the complete decision list of one execution; it is what replay
// files store.
type Trace []Choice

// Options bound one exploration.
type Options struct {
	// MaxPreemptions is the preemption (deviation) bound; <0 means unbounded.
	MaxPreemptions int
	// MaxSteps is the per-execution horizon in scheduling points (default 200000).
	MaxSteps int
	// MaxExecutions stops the search after that many executions (0 = no limit);
	// Result.Complete is then false.
	MaxExecutions int64
	// Stop is polled between executions; returning true stops the search.
	Stop func() bool
	// SkipReleasePoints makes pure release operations (Unlock, RUnlock, Signal,
	// Broadcast, Close) non-preemptible: they still execute through the scheduler
	// but are never a choice point. Sound for data-race-free code and cuts the
	// tree considerably.
	SkipReleasePoints bool
	// StuckTimeout is the wall-clock watchdog for a single execution (default
	// 120 s): a managed thread that blocks on something the scheduler does not
	// own (a native channel, a native mutex held by a parked thread, ...) would
	// otherwise hang the search. Expiry is a hard error (panic).
	StuckTimeout time.Duration
}

// Outcome describes one finished execution.
type Outcome struct {
	Trace       Trace
	Preemptions int
	Steps       int
	Threads     int
	Deadlock    bool     // no enabled thread although some had not finished
	Horizon     bool     // MaxSteps exceeded
	Panic       string   // non-empty: a managed thread panicked (value + stack)
	Waiting     []string // on Deadlock: what every live thread was waiting for
	Blocked     int      // how often a thread arrived at an operation that was not enabled
	blockedKind [nKinds]int
}

// BlockedAt returns how often a thread had to wait at operations of kind k.
func (o *Outcome) BlockedAt(k Kind) int { return o.blockedKind[k] }

// Aborted reports whether the execution did not run to normal completion.
func (o *Outcome) Aborted() bool { return o.Deadlock || o.Horizon || o.Panic != "" }

// Result summarises an exploration.
type Result struct {
	Bound             int
	Executions        int64
	Complete          bool // the whole tree inside the bound was enumerated
	BlockedExecutions int64
	BlockedByKind     map[string]int64 // executions in which a thread waited at that kind of operation
	Deadlocks         int64
	Horizons          int64
	Panics            int64
	ChoicePoints      int64
	MaxDepth          int
	MaxThreads        int
	MaxSteps          int
	ByPreemptions     []int64 // executions by number of preemptions used
}

// Merge adds the counters of o into r (for parallel / sharded explorations).
func (r *Result) Merge(o Result) {
	r.Executions += o.Executions
	r.BlockedExecutions += o.BlockedExecutions
	r.Deadlocks += o.Deadlocks
	r.Horizons += o.Horizons
	r.Panics += o.Panics
	r.ChoicePoints += o.ChoicePoints
	if o.MaxDepth > r.MaxDepth {
		r.MaxDepth = o.MaxDepth
	}
	if o.MaxThreads > r.MaxThreads {
		r.MaxThreads = o.MaxThreads
	}
	if o.MaxSteps > r.MaxSteps {
		r.MaxSteps = o.MaxSteps
	}
	if r.BlockedByKind == nil {
		r.BlockedByKind = map[string]int64{}
	}
	for k, v := range o.BlockedByKind {
		r.BlockedByKind[k] += v
	}
	for len(r.ByPreemptions) < len(o.ByPreemptions) {
		r.ByPreemptions = append(r.ByPreemptions, 0)
	}
	for i, v := range o.ByPreemptions {
		r.ByPreemptions[i] += v
	}
}

// DivergenceError is raised (as a panic) when the code under test does not
// behave deterministically under a fixed decision prefix.
type DivergenceError struct {
	Depth    int
	Recorded Choice
	Got      int
	Prefix   Trace
}

func (e *DivergenceError) Error() string {
	return fmt.Sprintf("explore: execution diverged from its recorded prefix at decision %d: recorded %d alternatives (took %d), now %d alternatives; prefix=%v",
		e.Depth, e.Recorded.N, e.Recorded.C, e.Got, e.Prefix)
}

// ---------------------------------------------------------------------------
// threads and executions

// Thread is one managed goroutine.
type Thread struct {
	x       *Exec
	id      int
	wake    chan struct{}
	exited  chan struct{}
	enabled func() bool // pending operation's guard; nil = enabled
	kind    Kind
	what    string
	done    bool
	parked  bool
}

// ID is the creation index of the thread (0 = the body).
func (t *Thread) ID() int { return t.id }

// Exec returns the execution the thread belongs to.
func (t *Thread) Exec() *Exec { return t.x }

type abortSentinel struct{}

// node is one entry of the DFS stack.
type node struct {
	n          int
	c          int
	costly     bool // alternatives other than 0 cost one preemption
	preBefore  int
	exhaustive bool
}

type search struct {
	opt   Options
	stack []node
}

// Exec is one execution under the scheduler.
type Exec struct {
	// Data is free for the body to hand results to the after function.
	Data interface{}

	s        *search
	replay   Trace // when replaying a recorded trace (no search)
	depth    int
	threads  []*Thread
	cur      *Thread
	steps    int
	maxSteps int
	pre      int
	aborting bool
	finished bool
	out      Outcome
	fin      chan struct{}
	skipRel  bool
	diverged *DivergenceError
}

// Self returns the managed thread the calling goroutine is, or nil when the
// caller is not a managed goroutine that currently holds the scheduler's
// baton (i.e. when no exploration is active for it).
func Self() *Thread {
	p := runtime_getProfLabel()
	if p == nil {
		return nil
	}
	t := (*Thread)(p)
	if t.x == nil || t.x.cur != t || t.done {
		// a goroutine that merely inherited the label of the managed goroutine
		// that started it with a native go statement: unmanaged.
		return nil
	}
	return t
}

// Active reports whether the caller runs inside an exploration.
func Active() bool { return Self() != nil }

// Aborting reports whether the execution is being torn down (deadlock, horizon
// or panic); synchronisation shims turn into no-ops then so that deferred
// unlocks can unwind.
func (t *Thread) Aborting() bool { return t.x.aborting }

func (x *Exec) enabledOf(t *Thread) bool {
	return !t.done && (t.enabled == nil || t.enabled())
}

// decide takes one decision among n alternatives; costly tells whether the
// alternatives other than 0 consume the preemption budget.
func (x *Exec) decide(n int, costly bool) int {
	d := x.depth
	x.depth++
	var c int
	if x.s != nil {
		if d < len(x.s.stack) {
			nd := &x.s.stack[d]
			if nd.n != n || nd.costly != costly {
				x.diverge(d, Choice{nd.n, nd.c}, n)
			}
			c = nd.c
		} else {
			x.s.stack = append(x.s.stack, node{n: n, c: 0, costly: costly, preBefore: x.pre})
		}
	} else {
		if d < len(x.replay) {
			rc := x.replay[d]
			if rc.N != n || rc.C >= n {
				x.diverge(d, rc, n)
			}
			c = rc.C
		}
	}
	if costly && c != 0 {
		x.pre++
	}
	x.out.Trace = append(x.out.Trace, Choice{n, c})
	return c
}

func (x *Exec) diverge(d int, rec Choice, got int) {
	e := &DivergenceError{Depth: d, Recorded: rec, Got: got, Prefix: append(Trace(nil), x.out.Trace...)}
	x.diverged = e
	x.aborting = true
	panic(abortSentinel{})
}

// Yield is the scheduling point primitive used by the vsync shims: the calling
// thread announces an operation of the given kind whose guard is enabled (nil =
// always enabled) and returns once the scheduler has chosen it *and* the guard
// holds; the caller then performs the operation's effect before its next
// Yield. what is only used in deadlock reports.
func (t *Thread) Yield(kind Kind, what string, enabled func() bool) {
	x := t.x
	if x.aborting {
		return
	}
	x.steps++
	if x.steps > x.maxSteps {
		x.out.Horizon = true
		x.aborting = true
		panic(abortSentinel{})
	}
	t.kind, t.what, t.enabled = kind, what, enabled
	selfEnabled := enabled == nil || enabled()
	if !selfEnabled {
		x.out.Blocked++
		x.out.blockedKind[kind]++
	}
	next := x.pick(t, selfEnabled)
	if next == nil {
		x.deadlock()
		panic(abortSentinel{})
	}
	if next != t {
		x.switchTo(t, next)
	}
	t.enabled = nil
}

// pick chooses the thread to run next. cur is the thread that arrived at a
// scheduling point (nil when it just exited).
func (x *Exec) pick(cur *Thread, curEnabled bool) *Thread {
	// candidates: current first (if enabled), then the others by id
	var cands [16]*Thread
	alts := cands[:0]
	if cur != nil && curEnabled {
		alts = append(alts, cur)
	}
	for _, t := range x.threads {
		if t != cur && x.enabledOf(t) {
			alts = append(alts, t)
		}
	}
	switch len(alts) {
	case 0:
		return nil
	case 1:
		return alts[0]
	}
	costly := cur != nil && curEnabled
	if costly && x.skipRel && cur.kind.IsRelease() {
		return cur
	}
	return alts[x.decide(len(alts), costly)]
}

func (x *Exec) switchTo(from, to *Thread) {
	x.cur = to
	from.parked = true
	to.parked = false
	to.wake <- struct{}{}
	<-from.wake
	if x.aborting {
		panic(abortSentinel{})
	}
}

// finish tells the driver that the execution is over (idempotent; only ever
// called by the goroutine holding the baton).
func (x *Exec) finish() {
	if !x.finished {
		x.finished = true
		x.cur = nil
		close(x.fin)
	}
}

func (x *Exec) deadlock() {
	x.out.Deadlock = true
	x.aborting = true
	for _, t := range x.threads {
		if !t.done {
			x.out.Waiting = append(x.out.Waiting, fmt.Sprintf("T%d:%s %s", t.id, t.kind, t.what))
		}
	}
}

// Choose is an environment decision with n alternatives, all of them free
// (every alternative is explored regardless of the bound). Outside an
// exploration it returns 0.
func Choose(n int) int {
	t := Self()
	if t == nil || n <= 1 || t.x.aborting {
		return 0
	}
	return t.x.decide(n, false)
}

// ChooseDev is an environment decision whose alternative 0 is the default and
// every other alternative costs one unit of the deviation (preemption) bound.
func ChooseDev(n int) int {
	t := Self()
	if t == nil || n <= 1 || t.x.aborting {
		return 0
	}
	return t.x.decide(n, true)
}

// Point is an explicit scheduling point (place one before each access to
// shared data that is not protected by a shimmed lock). No-op outside an
// exploration.
func Point() {
	if t := Self(); t != nil {
		t.Yield(KPoint, "", nil)
	}
}

// Go starts fn as a new managed thread (a plain goroutine outside an
// exploration). Starting a thread is a scheduling point of the parent.
func Go(fn func()) {
	t := Self()
	if t == nil {
		go fn()
		return
	}
	x := t.x
	if x.aborting {
		return
	}
	c := x.newThread()
	go c.main(fn)
	t.Yield(KGo, "", nil)
}

func (x *Exec) newThread() *Thread {
	c := &Thread{x: x, id: len(x.threads), wake: make(chan struct{}, 1), exited: make(chan struct{}), kind: KStart, parked: true}
	x.threads = append(x.threads, c)
	if len(x.threads) > x.out.Threads {
		x.out.Threads = len(x.threads)
	}
	return c
}

func (t *Thread) main(fn func()) {
	runtime_setProfLabel(unsafe.Pointer(t))
	x := t.x
	<-t.wake
	defer close(t.exited)
	if x.aborting {
		t.done = true
		return
	}
	initiator := false
	func() {
		defer func() {
			if r := recover(); r != nil {
				if _, ok := r.(abortSentinel); ok {
					// first thread to notice the abort reports to the driver
				} else if !x.aborting {
					x.out.Panic = fmt.Sprintf("T%d: %v\n%s", t.id, r, debug.Stack())
					x.aborting = true
				}
				if x.cur == t {
					initiator = true
				}
			}
		}()
		fn()
	}()
	t.done = true
	if x.aborting {
		if initiator || x.cur == t {
			x.finish()
		}
		return
	}
	// normal exit: hand the baton on
	t.kind = KExit
	allDone := true
	for _, o := range x.threads {
		if !o.done {
			allDone = false
			break
		}
	}
	if allDone {
		x.finish()
		return
	}
	var next *Thread
	func() {
		defer func() {
			if r := recover(); r != nil {
				if _, ok := r.(abortSentinel); !ok {
					panic(r)
				}
			}
		}()
		next = x.pick(nil, false)
	}()
	if x.aborting { // divergence inside pick
		x.finish()
		return
	}
	if next == nil {
		x.deadlock()
		x.finish()
		return
	}
	x.cur = next
	next.parked = false
	next.wake <- struct{}{}
}

// run executes body once as thread 0 and tears everything down afterwards.
func (x *Exec) run(body func(x *Exec), stuck time.Duration) {
	if runtime_getProfLabel() != nil && Self() != nil {
		panic("explore: nested exploration from a managed thread")
	}
	x.fin = make(chan struct{})
	t0 := x.newThread()
	x.cur = t0
	t0.parked = false
	go t0.main(func() { body(x) })
	t0.wake <- struct{}{}
	timer := time.NewTimer(stuck)
	select {
	case <-x.fin:
		timer.Stop()
	case <-timer.C:
		var w []string
		for _, t := range x.threads {
			if !t.done {
				w = append(w, fmt.Sprintf("T%d:%s parked=%v", t.id, t.kind, t.parked))
			}
		}
		panic(fmt.Sprintf("explore: execution stuck for %v (a managed thread blocks on something the scheduler does not own?) threads=%v trace=%v", stuck, w, x.out.Trace))
	}
	// unwind whatever is still parked, one thread at a time
	if x.aborting {
		for i := 0; i < len(x.threads); i++ { // threads may not grow while aborting
			t := x.threads[i]
			select {
			case <-t.exited:
				continue
			default:
			}
			x.cur = t
			t.wake <- struct{}{}
			select {
			case <-t.exited:
			case <-time.After(stuck):
				panic(fmt.Sprintf("explore: thread T%d did not unwind after abort", t.id))
			}
		}
		x.cur = nil
	}
	x.out.Preemptions = x.pre
	x.out.Steps = x.steps
}

func newExec(s *search, opt Options, replay Trace) *Exec {
	x := &Exec{s: s, replay: replay, maxSteps: opt.MaxSteps, skipRel: opt.SkipReleasePoints}
	if x.maxSteps <= 0 {
		x.maxSteps = 200000
	}
	return x
}

func stuckOf(opt Options) time.Duration {
	if opt.StuckTimeout > 0 {
		return opt.StuckTimeout
	}
	return 120 * time.Second
}

// backtrack advances the DFS stack to the next unexplored branch inside the
// bound; false when the tree is exhausted.
func (s *search) backtrack() bool {
	for len(s.stack) > 0 {
		nd := &s.stack[len(s.stack)-1]
		c := nd.c + 1
		if c < nd.n {
			cost := 0
			if nd.costly { // c >= 1 here
				cost = 1
			}
			if s.opt.MaxPreemptions < 0 || nd.preBefore+cost <= s.opt.MaxPreemptions {
				nd.c = c
				return true
			}
		}
		s.stack = s.stack[:len(s.stack)-1]
	}
	return false
}

// Explore enumerates every execution of body whose number of preemptions
// (plus ChooseDev deviations) is at most opt.MaxPreemptions. body runs as
// managed thread 0 of a fresh Exec each time and must build all the state it
// uses itself (stateless search: the same decision prefix must lead to the same
// behaviour; otherwise Explore panics with *DivergenceError). after, if
// non-nil, is called on the caller's goroutine after each execution.
//
// Several Explore calls may run concurrently on different goroutines; they
// share no state.
func Explore(opt Options, body func(x *Exec), after func(x *Exec, out *Outcome)) Result {
	s := &search{opt: opt}
	res := Result{Bound: opt.MaxPreemptions, BlockedByKind: map[string]int64{}}
	stuck := stuckOf(opt)
	for {
		x := newExec(s, opt, nil)
		x.run(body, stuck)
		if x.diverged != nil {
			panic(x.diverged)
		}
		// the stack may be longer than this execution's depth only if it diverged
		if x.depth < len(s.stack) {
			panic(&DivergenceError{Depth: x.depth, Recorded: Choice{s.stack[x.depth].n, s.stack[x.depth].c}, Got: 0, Prefix: x.out.Trace})
		}
		res.account(&x.out, x.depth)
		if after != nil {
			after(x, &x.out)
		}
		if !s.backtrack() {
			res.Complete = true
			break
		}
		if opt.MaxExecutions > 0 && res.Executions >= opt.MaxExecutions {
			break
		}
		if opt.Stop != nil && opt.Stop() {
			break
		}
	}
	return res
}

func (r *Result) account(o *Outcome, depth int) {
	r.Executions++
	r.ChoicePoints += int64(depth)
	if depth > r.MaxDepth {
		r.MaxDepth = depth
	}
	if o.Threads > r.MaxThreads {
		r.MaxThreads = o.Threads
	}
	if o.Steps > r.MaxSteps {
		r.MaxSteps = o.Steps
	}
	if o.Blocked > 0 {
		r.BlockedExecutions++
		for k := Kind(0); k < nKinds; k++ {
			if o.blockedKind[k] > 0 {
				r.BlockedByKind[k.String()]++
			}
		}
	}
	if o.Deadlock {
		r.Deadlocks++
	}
	if o.Horizon {
		r.Horizons++
	}
	if o.Panic != "" {
		r.Panics++
	}
	for len(r.ByPreemptions) <= o.Preemptions {
		r.ByPreemptions = append(r.ByPreemptions, 0)
	}
	r.ByPreemptions[o.Preemptions]++
}

// Replay runs body once under the recorded decision list. Decisions beyond the
// end of the list take the default alternative 0. A decision whose number of
// alternatives differs from the recorded one is a hard error: Replay returns a
// *DivergenceError (and the partial outcome).
func Replay(tr Trace, opt Options, body func(x *Exec)) (*Exec, *Outcome, error) {
	x := newExec(nil, opt, tr)
	x.run(body, stuckOf(opt))
	if x.diverged != nil {
		return x, &x.out, x.diverged
	}
	if x.depth < len(tr) {
		return x, &x.out, &DivergenceError{Depth: x.depth, Recorded: tr[x.depth], Got: 0, Prefix: x.out.Trace}
	}
	return x, &x.out, nil
}

// SelfTest is the determinism self-test of DESIGN §2.2: it runs body under the
// default schedule, then replays a handful of derived schedules (each
// non-default alternative of the first decisions) twice each and compares the
// decision lists and the observation strings returned by obs. It returns an
// error describing the first difference.
func SelfTest(opt Options, body func(x *Exec), obs func(x *Exec, out *Outcome) string) error {
	x0, o0, err := Replay(nil, opt, body)
	if err != nil {
		return err
	}
	base := obsOf(obs, x0, o0)
	cands := []Trace{nil}
	for i := 0; i < len(o0.Trace) && len(cands) < 8; i++ {
		if o0.Trace[i].N > 1 {
			tr := append(Trace(nil), o0.Trace[:i]...)
			tr = append(tr, Choice{o0.Trace[i].N, o0.Trace[i].N - 1})
			cands = append(cands, tr)
		}
	}
	for ci, tr := range cands {
		var first string
		var firstTrace Trace
		for rep := 0; rep < 2; rep++ {
			x, o, err := Replay(tr, opt, body)
			if err != nil {
				return fmt.Errorf("self-test schedule %d run %d: %w", ci, rep, err)
			}
			got := obsOf(obs, x, o)
			if ci == 0 && got != base {
				return fmt.Errorf("self-test: default schedule observed %q then %q", base, got)
			}
			if rep == 0 {
				first, firstTrace = got, o.Trace
				continue
			}
			if got != first {
				return fmt.Errorf("self-test schedule %d: observations differ between two replays:\n%s\n--- vs ---\n%s", ci, first, got)
			}
			if !equalTrace(firstTrace, o.Trace) {
				return fmt.Errorf("self-test schedule %d: decision lists differ between two replays: %v vs %v", ci, firstTrace, o.Trace)
			}
		}
	}
	return nil
}

func obsOf(obs func(x *Exec, out *Outcome) string, x *Exec, o *Outcome) string {
	s := fmt.Sprintf("dl=%v hz=%v panic=%v steps=%d threads=%d|", o.Deadlock, o.Horizon, o.Panic != "", o.Steps, o.Threads)
	if obs != nil {
		s += obs(x, o)
	}
	return s
}

func equalTrace(a, b Trace) bool {
	if len(a) != len(b) {
		return false
	}
	for i := range a {
		if a[i] != b[i] {
			return false
		}
	}
	return true
}

// String renders a trace compactly ("c/n c/n ...").
func (tr Trace) String() string {
	var sb strings.Builder
	for i, c := range tr {
		if i > 0 {
			sb.WriteByte(' ')
		}
		fmt.Fprintf(&sb, "%d/%d", c.C, c.N)
	}
	return sb.String()
}

// KindsSorted lists the BlockedByKind keys in a stable order (for evidence).
func (r *Result) KindsSorted() []string {
	var ks []string
	for k := range r.BlockedByKind {
		ks = append(ks, k)
	}
	sort.Strings(ks)
	return ks
}
